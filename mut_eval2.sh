#!/bin/bash
# usage: mut_eval2.sh <seeded-name> <worktree> <prop> [<prop>...]
# Like mut_eval.sh, but leaves /repo alone: the checks are run from a scratch worktree of /verif's HEAD
# (/tmp/verif-mut-<name>) and built against the scratch worktree that holds the change (VERIF_REPO_DIR), so that
# background runs using /repo and the evidence files of /verif are not disturbed. Prints one line per check.
set -u
name=$1; wt=$2; shift 2
cd "$(dirname "$0")"
d=seeded/$name
mkdir -p $d
git -C $wt diff -- . ':(exclude)*_test.go' > $d/patch.diff.new
if [ -s $d/patch.diff.new ]; then mv $d/patch.diff.new $d/patch.diff; else rm -f $d/patch.diff.new; echo "worktree holds no change: keeping the stored patch.diff"; [ -s $d/patch.diff ] && git -C $wt apply $d/patch.diff; fi
for f in $(git -C $wt ls-files --others --exclude-standard | grep -v "\.patch$"); do
  case "$f" in MUTANT.md) cp $wt/$f $d/MUTANT.md;; *) mkdir -p $d/demo/$(dirname $f); cp $wt/$f $d/demo/$f;; esac
done
if [ ! -s $d/patch.diff ]; then echo "EMPTY PATCH"; exit 2; fi
# the change must sit on top of /repo's HEAD (hooks and fixes included)
base=$(git -C $wt rev-parse HEAD); head=$(git -C /repo rev-parse HEAD)
if [ "$base" != "$head" ]; then
  git -C $wt diff > /tmp/mut_rebase_$name.patch; git -C $wt checkout -q -- .; git -C $wt checkout -q --detach $head || { echo "cannot move worktree to HEAD"; exit 2; }
  git -C $wt apply /tmp/mut_rebase_$name.patch || { echo "change does not apply on /repo HEAD"; git -C $wt checkout -q --detach $base; git -C $wt apply /tmp/mut_rebase_$name.patch; exit 2; }
  rm -f /tmp/mut_rebase_$name.patch
fi
v=/tmp/verif-mut-$name
git worktree remove --force $v 2>/dev/null; git worktree add -q --detach $v HEAD || exit 2
mkdir -p $v/work
res=""
for p in "$@"; do
  (cd $v && VERIF_REPO_DIR=$wt VERIF_BUDGET_S=${MUT_BUDGET_S:-90} ./check $p --tier quick > work/mut.$p.out 2>&1)
  e=$?
  line=$(grep -m1 "^VIOLATION" $v/work/mut.$p.out | cut -c1-200)
  echo "$name $p exit=$e $line"
  mkdir -p work; cp $v/work/mut.$p.out work/mut_$name.$p.out
  res="$res $p=$e"
done
git worktree remove --force $v
echo "RESULT $name:$res"
