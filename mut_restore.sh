#!/bin/bash
# usage: mut_restore.sh <seeded-name>   -- recreates the scratch worktree /tmp/mut-<name> of /repo's HEAD holding a kept change
# (patch.diff applied, demonstration files copied in), for mut_confirm.sh / mut_eval2.sh. Remove it afterwards:
#   git -C /repo worktree remove --force /tmp/mut-<name>
set -u
name=$1
cd "$(dirname "$0")"
d=$PWD/seeded/$name
wt=/tmp/mut-$name
git -C /repo worktree remove --force $wt 2>/dev/null
git -C /repo worktree add -q --detach $wt HEAD || exit 2
git -C $wt apply $d/patch.diff || { echo "patch does not apply on /repo HEAD"; exit 2; }
[ -d $d/demo ] && cp -r $d/demo/. $wt/
[ -f $d/MUTANT.md ] && cp $d/MUTANT.md $wt/MUTANT.md
echo $wt
