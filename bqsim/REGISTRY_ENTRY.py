{
    "engine": "bqsim",
    "level": "exploration",
    "level_text": ("seeded search over producer workloads, capacities, modes, Discard instants, injected AddItem errors and over "
                   "the interleaving of all goroutines at the Queuer seam (every Height/AddItem call parks before and after it "
                   "executes, every Put parks before it starts; the tape picks the next goroutine and when the fake clock "
                   "ticks), with shrinking and replay; sampled, not exhaustive"),
    "level_note": ("part A of C20 only (block queue); the state-sync clause (part B) is not decided by this engine. trusted: the "
                   "harness ledger (accepts exactly height+1), the acceptance rule computed from the height shown to each Put, "
                   "read-only reflection on Queue.queue for the occupied-slot count. The liveness oracle counts only blocks "
                   "given through Put; a successor left behind blocks that reached the ledger only directly is counted "
                   "(probe unapplied_successor_behind_direct_add/*), not raised"),
    "design_ref": "DESIGN.md section 2, C20 part A; section 1.3 (fake clock); section 1.4 (park/release at seams)",
    "technique": ("deterministic simulation: real bqueue.Queue and real goroutines in a testing/synctest bubble, park/release "
                  "scheduler driven by a replayable tape, fake clock for the Blocking mode ticker, fault injection at "
                  "Queuer.AddItem, rapid-drawn plans with shrinking"),
    "budget": {"quick": 45, "thorough": 1200},
    "chunk": 200,
    "shrink_s": 40,
    "det_runs": 300,
    "rule": ("one run = ring capacity 2-8 (cacheSize argument of bqueue.New), NonBlocking or Blocking mode, start height 0-17, 2-4 "
             "producers with explicit Put sequences (in order, reversed, doubled, strided, repeated, far-ahead-first, arbitrary "
             "offsets -2..3*cap; thorough: up to 4*cap), optional consensus producer adding 1..2*cap blocks directly, optional "
             "Discard before step 1-120, 0-2 injected AddItem errors, tape <= 160 cells; oracles: ledger applies h0+1.. once "
             "each in order, relay once per queue-added item in order, at rest height >= largest n with every h0+1..n accepted "
             "from a Put inside [shown+1, shown+cap] (and not consumed by an injected error), LastQueued (index monotone, never "
             "above the highest Put; slots left = cap - occupied slots whenever the drain goroutine is idle), every producer "
             "and the drain goroutine return after Discard, no panic, no leak; a run is non-trivial when a probe or fault fired; "
             "distinct = distinct hash of the event log"),
    "probes": ["wrapped_indices", "duplicate_put", "stale_put", "far_ahead_put", "blocked_put", "blocked_forever_until_discard",
               "consensus_advance", "discard_midway", "put_after_discard", "additem_rejected_by_ledger",
               "all_producers_finished_at_rest", "items_applied_by_queue", "lastqueued_inconsistent",
               "unapplied_successor_behind_direct_add/stalled", "unapplied_successor_behind_direct_add/dropped-ahead-of-tip",
               "step_budget_exhausted", "additem_error"],
    "components": {"real": ["pkg/network/bqueue.Queue (New, Run, Put, LastQueued, Discard) over a generic item with an index"],
                   "stub": ["bqueue.Queuer = harness ledger model (Height, AddItem; stands for chainBlockQueueAdapter / "
                            "stateSyncBlockQueueAdapter): this is the seam",
                            "producers = harness goroutines (stand for server.go handleBlockCmd, the consensus service and the "
                            "NeoFS block fetcher calling Put); relay callback and length metric = recorders; zap logger = Nop"]},
    "assumptions": ["items are *struct{index}; two Puts of one index are distinct objects, as blocks from different peers are",
                    "the consensus producer bypasses the queue (as RPC submitblock or a second queue on the same chain does); in "
                    "production the consensus service itself goes through Put",
                    "Blocking mode: a Put that can never fit waits until Discard (documented behaviour); the run ends after three "
                    "fruitless 1 s ticks and the final Discard must release it",
                    "an injected AddItem error drops the item (documented); it counts as given again only if re-offered after "
                    "the drain goroutine has certainly removed it"],
}
