// Package bqsim decides part A of C20 (the block queue): the real
// bqueue.Queue is driven by 2-4 concurrent producers, an optional "consensus"
// producer that advances the ledger behind the queue's back, a Discard at a
// chosen instant and injected AddItem errors, under a schedule chosen by the
// plan's tape.
//
// Scheduling: the queue sees its ledger only through bqueue.Queuer (Height,
// AddItem) and never calls it with queueLock held. The harness ledger parks
// the calling goroutine (sim.Sched.Park) before AND after executing each of
// these calls; producers also park before every Put. The driver releases one
// parked goroutine at a time, so every critical section of the queue is
// executed atomically in one step and the interleaving of the steps is a pure
// function of the plan. The Blocking mode's 1 s ticker runs on the bubble's
// fake clock; the driver advances it by sleeping when every goroutine waits
// for a timer (or earlier, when the tape says so).
package bqsim

import (
	"encoding/json"
	"errors"
	"fmt"
	"reflect"
	"runtime"
	"sort"
	"strconv"
	"strings"
	"sync"
	"testing"
	"time"

	"github.com/nspcc-dev/neo-go/pkg/network/bqueue"
	"go.uber.org/zap"
	"pgregory.net/rapid"

	"verif/sim"
)

// Plan is a whole run.
type Plan struct {
	Cap  int    `json:"cap"`  // ring capacity 2..8
	Mode int    `json:"mode"` // 0 NonBlocking, 1 Blocking
	H0   uint32 `json:"h0"`   // ledger height at start
	// Prod[i] is the Put sequence of producer i as offsets from H0
	// (index = H0+offset; offset <= 0 is stale from the start).
	Prod [][]int `json:"prod"`
	// Direct is the number of blocks the "consensus" producer adds to the
	// ledger directly (each one is height+1 at the moment it runs).
	Direct int `json:"direct,omitempty"`
	// DiscardAt > 0: Discard is called before scheduler step DiscardAt.
	DiscardAt int `json:"discard_at,omitempty"`
	// FailAdd lists ordinals (0-based) of AddItem calls with the expected
	// index that return an injected error instead (fault additem_error).
	FailAdd []int    `json:"fail_add,omitempty"`
	Tape    []uint32 `json:"tape"`
}

// Engine implements sim.Engine.
type Engine struct{}

func (Engine) Name() string { return "bqsim" }

func (Engine) Decode(raw []byte) (any, error) {
	var p Plan
	err := json.Unmarshal(raw, &p)
	return &p, err
}

func (Engine) Draw(rt *rapid.T, prop, tier string) any {
	p := &Plan{}
	p.Cap = rapid.IntRange(2, 8).Draw(rt, "cap")
	p.Mode = rapid.IntRange(0, 1).Draw(rt, "mode")
	p.H0 = uint32(rapid.IntRange(0, 17).Draw(rt, "h0"))
	np := rapid.IntRange(2, 4).Draw(rt, "nprod")
	maxN := 3 * p.Cap
	if tier == "thorough" {
		maxN = 4 * p.Cap
	}
	for i := 0; i < np; i++ {
		n := rapid.IntRange(1, maxN).Draw(rt, "n")
		var seq []int
		switch rapid.IntRange(0, 6).Draw(rt, "pattern") {
		case 0: // in order
			for d := 1; d <= n; d++ {
				seq = append(seq, d)
			}
		case 1: // reversed
			for d := n; d >= 1; d-- {
				seq = append(seq, d)
			}
		case 2: // every index twice
			for d := 1; d <= n; d++ {
				seq = append(seq, d, d)
			}
		case 3: // one residue class of a stride (producers share the range)
			st := rapid.IntRange(2, 3).Draw(rt, "stride")
			r := rapid.IntRange(0, st-1).Draw(rt, "residue")
			for d := 1; d <= n; d++ {
				if d%st == r {
					seq = append(seq, d)
				}
			}
		case 4: // in order, then everything again (stale by then, mostly)
			for d := 1; d <= n; d++ {
				seq = append(seq, d)
			}
			for d := 1; d <= n; d++ {
				seq = append(seq, d)
			}
		case 5: // far ahead first, then in order
			seq = append(seq, rapid.IntRange(p.Cap+1, 3*p.Cap).Draw(rt, "far"))
			for d := 1; d <= n; d++ {
				seq = append(seq, d)
			}
		default: // arbitrary offsets: stale, inside the window, far ahead
			k := rapid.IntRange(1, n).Draw(rt, "k")
			for j := 0; j < k; j++ {
				seq = append(seq, rapid.IntRange(-2, 3*p.Cap).Draw(rt, "off"))
			}
		}
		if len(seq) == 0 {
			seq = []int{1}
		}
		p.Prod = append(p.Prod, seq)
	}
	if rapid.IntRange(0, 2).Draw(rt, "cons") == 2 {
		p.Direct = rapid.IntRange(1, 2*p.Cap).Draw(rt, "direct")
	}
	if rapid.IntRange(0, 4).Draw(rt, "disc") == 4 {
		p.DiscardAt = rapid.IntRange(1, 120).Draw(rt, "discard_at")
	}
	if rapid.IntRange(0, 4).Draw(rt, "flt") == 4 {
		nf := rapid.IntRange(1, 2).Draw(rt, "nfail")
		for j := 0; j < nf; j++ {
			p.FailAdd = append(p.FailAdd, rapid.IntRange(0, 10).Draw(rt, "fail"))
		}
	}
	p.Tape = rapid.SliceOfN(rapid.Uint32Range(0, 11), 0, 160).Draw(rt, "tape")
	return p
}

func sanitize(p *Plan) *Plan {
	q := *p
	if q.Cap < 2 {
		q.Cap = 2
	}
	if q.Cap > 8 {
		q.Cap = 8
	}
	q.Mode &= 1
	if q.H0 > 1000 {
		q.H0 = 1000
	}
	if len(q.Prod) > 4 {
		q.Prod = q.Prod[:4]
	}
	if q.Direct < 0 {
		q.Direct = 0
	}
	if q.Direct > 40 {
		q.Direct = 40
	}
	return &q
}

// strictDirect also demands an accepted successor of blocks that reached the
// ledger only through the direct ("consensus") producer. Off: the statement
// speaks about blocks given to the queue.
var strictDirect = false

// item is the queued element (stands for *block.Block).
type item struct {
	idx uint32
	tag string // producer and ordinal: duplicates of an index are distinct objects
}

func (i *item) GetIndex() uint32 { return i.idx }

var errInjected = errors.New("injected AddItem error")

type applied struct {
	idx  uint32
	via  string // "q" or "direct"
	step int
}

type putRec struct {
	prod    string
	idx     uint32
	shown   uint32 // height returned by the last Height call of this Put
	step    int    // step in which Put returned (= step of its critical section)
	waited  bool   // more than one Height call (Blocking mode wait loop)
	inWin   bool
	discard bool // Discard had been called before the critical section
}

type reject struct {
	idx, height uint32
	step        int
}

// harness is the model ledger plus all bookkeeping. mu protects everything;
// it is never held across a Park.
type harness struct {
	p     *Plan
	sched *sim.Sched

	mu      sync.Mutex
	names   map[uint64]string
	step    int // current scheduler step (written by the driver between steps)
	height  uint32
	applied []applied
	relayed []uint32
	rejects []reject
	valid   int // AddItem calls with the expected index so far
	failSet map[int]bool
	// injected failures: index -> step after which the failed item is
	// certainly gone from the ring (third Height call of the drain goroutine
	// after the failure, its next AddItem, or the drain goroutine seen idle)
	faultClear   map[uint32]int
	pendingFault map[uint32]int // index -> Height calls by run since the fault
	lastShown    map[string]uint32
	heightCalls  map[string]int
	inPut        map[string]bool
	puts         []putRec
	finished     map[string]bool
	runDone      bool
	panics       []*sim.Violation
	events       map[string][]string
	progress     bool
	faults       int
	lenUpdates   int
	discardStep  int // 0 = not discarded
}

func goid() uint64 {
	var buf [64]byte
	n := runtime.Stack(buf[:], false)
	f := strings.Fields(string(buf[:n]))
	if len(f) < 2 {
		return 0
	}
	id, _ := strconv.ParseUint(f[1], 10, 64)
	return id
}

func (h *harness) register(name string) {
	h.mu.Lock()
	h.names[goid()] = name
	h.mu.Unlock()
}

func (h *harness) me() string {
	id := goid()
	h.mu.Lock()
	defer h.mu.Unlock()
	n, ok := h.names[id]
	if !ok {
		return "?"
	}
	return n
}

// resolveFaults marks every injected failure as settled: the failed item is no
// longer in the ring after step `step`. Called with mu held.
func (h *harness) resolveFaults(step int) {
	for idx := range h.pendingFault {
		h.faultClear[idx] = step
		delete(h.pendingFault, idx)
	}
}

func (h *harness) ev(name, format string, args ...any) {
	h.events[name] = append(h.events[name], fmt.Sprintf(format, args...))
}

// chain is the bqueue.Queuer the queue sees.
type chain struct{ h *harness }

func (c chain) Height() uint32 {
	h := c.h
	me := h.me()
	if me == "?" {
		sim.Harnessf("Height called from an unknown goroutine")
	}
	h.mu.Lock()
	if me == "run" {
		// After a failed AddItem the drain goroutine calls Height once or
		// twice (error check, log field) before it removes the item from the
		// ring: at its third call the item is certainly gone.
		for idx, n := range h.pendingFault {
			n++
			h.pendingFault[idx] = n
			if n >= 3 {
				h.faultClear[idx] = h.step
				delete(h.pendingFault, idx)
			}
		}
	}
	h.mu.Unlock()
	h.sched.Park(me, "height")
	h.mu.Lock()
	v := h.height
	h.lastShown[me] = v
	h.heightCalls[me]++
	h.ev(me, "%s Height -> %d", me, v)
	h.mu.Unlock()
	h.sched.Park(me, "height-ret")
	return v
}

func (c chain) AddItem(it *item) error {
	h := c.h
	me := h.me()
	if me == "?" {
		sim.Harnessf("AddItem called from an unknown goroutine")
	}
	h.mu.Lock()
	h.resolveFaults(h.step) // a new AddItem: the previously failed item has been removed
	h.mu.Unlock()
	h.sched.Park(me, "additem")
	var err error
	h.mu.Lock()
	switch {
	case it == nil:
		err = errors.New("nil item")
		h.ev(me, "%s AddItem(nil)", me)
	case it.idx == h.height+1:
		ord := h.valid
		h.valid++
		if h.failSet[ord] {
			err = errInjected
			h.faults++
			h.pendingFault[it.idx] = 0
			h.faultClear[it.idx] = 1 << 30 // until the drain goroutine has moved on
			h.ev(me, "%s AddItem(%d %s) at height %d -> INJECTED ERROR", me, it.idx, it.tag, h.height)
		} else {
			h.height++
			h.applied = append(h.applied, applied{idx: it.idx, via: "q", step: h.step})
			h.progress = true
			h.ev(me, "%s AddItem(%d %s) -> ok, height %d", me, it.idx, it.tag, h.height)
		}
	default:
		err = fmt.Errorf("index %d does not follow height %d", it.idx, h.height)
		h.rejects = append(h.rejects, reject{idx: it.idx, height: h.height, step: h.step})
		h.ev(me, "%s AddItem(%d %s) at height %d -> rejected", me, it.idx, it.tag, h.height)
	}
	h.mu.Unlock()
	h.sched.Park(me, "additem-ret")
	return err
}

func (c chain) AddItems(its ...*item) error {
	sim.Harnessf("AddItems is not used by bqueue.Queue")
	return nil
}

func (h *harness) relay(it *item) {
	h.mu.Lock()
	h.relayed = append(h.relayed, it.idx)
	h.ev("run", "run relay(%d)", it.idx)
	h.mu.Unlock()
}

// residents counts the occupied ring slots (read-only reflection on the
// unexported field, only ever called at quiescence).
func residents(q *bqueue.Queue[*item]) int {
	f := reflect.ValueOf(q).Elem().FieldByName("queue")
	if !f.IsValid() {
		return -1
	}
	n := 0
	for i := 0; i < f.Len(); i++ {
		if !f.Index(i).IsNil() {
			n++
		}
	}
	return n
}

// Run executes the plan.
func (Engine) Run(t *testing.T, prop string, planAny any) *sim.Outcome {
	p := sanitize(planAny.(*Plan))
	out := sim.NewOutcome()
	log := sim.NewLog(4000)
	var own *sim.Violation
	var st *runState
	bv := sim.Bubble(t, func() { st, own = runBubble(p, out, log) })
	v := own
	if v == nil {
		v = bv
	}
	out.Violation = v
	out.Log = log.Lines
	out.TraceHash = log.Hash()
	out.Events = log.Count()
	if st != nil {
		out.SimTimeMS = int64(st.ticks) * 1000
		out.StateHash = sim.HashString(0, fmt.Sprintf("%d|%v|%v|%d", st.height, st.applied, st.relayed, st.lastQ))
		out.Summary = map[string]any{"cap": p.Cap, "mode": p.Mode, "h0": p.H0, "producers": len(p.Prod), "direct": p.Direct,
			"discard_at": p.DiscardAt, "fail_add": len(p.FailAdd), "steps": st.steps, "ticks": st.ticks, "height": st.height}
	}
	return out
}

type runState struct {
	steps, ticks int
	height       uint32
	applied      []string
	relayed      []uint32
	lastQ        uint32
}

func runBubble(p *Plan, out *sim.Outcome, log *sim.Log) (*runState, *sim.Violation) {
	tape := sim.NewTape(p.Tape)
	sched := sim.NewSched(tape, log)
	h := &harness{p: p, sched: sched, names: map[uint64]string{}, height: p.H0, failSet: map[int]bool{},
		faultClear: map[uint32]int{}, pendingFault: map[uint32]int{}, lastShown: map[string]uint32{}, heightCalls: map[string]int{},
		inPut: map[string]bool{}, finished: map[string]bool{}, events: map[string][]string{}}
	for _, f := range p.FailAdd {
		h.failSet[f] = true
	}
	mode := bqueue.NonBlocking
	if p.Mode == 1 {
		mode = bqueue.Blocking
	}
	// The capacity is the cacheSize argument of bqueue.New (<= 0 selects DefaultCacheSize = 2000).
	q := bqueue.New[*item](chain{h}, zap.NewNop(), h.relay, p.Cap, func(int) { h.mu.Lock(); h.lenUpdates++; h.mu.Unlock() }, mode)
	if q == nil {
		sim.Harnessf("bqueue.New returned nil")
	}
	log.Addf("cap=%d mode=%d h0=%d producers=%d direct=%d discard_at=%d fail_add=%v", p.Cap, p.Mode, p.H0, len(p.Prod), p.Direct, p.DiscardAt, p.FailAdd)

	// ---- goroutines ----
	go func() {
		h.register("run")
		v := sim.Recover(q.Run)
		h.mu.Lock()
		if v != nil {
			h.panics = append(h.panics, v)
		}
		h.runDone = true
		h.ev("run", "run exited")
		h.mu.Unlock()
	}()
	var all []string
	for i, seq := range p.Prod {
		name := fmt.Sprintf("p%d", i)
		all = append(all, name)
		log.Addf("%s puts %v", name, seq)
		go func(name string, seq []int) {
			h.register(name)
			for k, d := range seq {
				sched.Park(name, "put")
				x := int64(p.H0) + int64(d)
				if x < 0 {
					x = 0
				}
				it := &item{idx: uint32(x), tag: fmt.Sprintf("%s#%d", name, k)}
				h.mu.Lock()
				h.inPut[name] = true
				calls0 := h.heightCalls[name]
				h.ev(name, "%s Put(%d) begins", name, it.idx)
				h.mu.Unlock()
				var err error
				pv := sim.Recover(func() { err = q.Put(it) })
				h.mu.Lock()
				h.inPut[name] = false
				sh := h.lastShown[name]
				rec := putRec{prod: name, idx: it.idx, shown: sh, step: h.step, waited: h.heightCalls[name]-calls0 > 1,
					discard: h.discardStep != 0}
				rec.inWin = !rec.discard && it.idx > sh && it.idx <= sh+uint32(p.Cap) && pv == nil
				h.puts = append(h.puts, rec)
				h.progress = true
				if pv != nil {
					pv.Msg = fmt.Sprintf("%s Put(%d) with shown height %d panicked: %s", name, it.idx, sh, pv.Msg)
					h.panics = append(h.panics, pv)
					h.ev(name, "%s Put(%d) PANIC", name, it.idx)
				} else {
					h.ev(name, "%s Put(%d) shown=%d -> %v inwindow=%v", name, it.idx, sh, err, rec.inWin)
				}
				h.mu.Unlock()
			}
			h.mu.Lock()
			h.finished[name] = true
			h.progress = true
			h.mu.Unlock()
		}(name, seq)
	}
	if p.Direct > 0 {
		all = append(all, "cons")
		go func() {
			h.register("cons")
			for k := 0; k < p.Direct; k++ {
				sched.Park("cons", "direct")
				h.mu.Lock()
				h.height++
				h.applied = append(h.applied, applied{idx: h.height, via: "direct", step: h.step})
				h.progress = true
				h.ev("cons", "cons adds %d directly", h.height)
				h.mu.Unlock()
			}
			h.mu.Lock()
			h.finished["cons"] = true
			h.mu.Unlock()
		}()
	}

	st := &runState{}
	flush := func() {
		h.mu.Lock()
		names := make([]string, 0, len(h.events))
		for n := range h.events {
			names = append(names, n)
		}
		sort.Strings(names)
		for _, n := range names {
			for _, e := range h.events[n] {
				log.Addf("%s", e)
			}
			delete(h.events, n)
		}
		h.mu.Unlock()
	}
	isParked := func(parked []string, name string) bool {
		for _, g := range parked {
			if strings.HasPrefix(g, name+"@") {
				return true
			}
		}
		return false
	}
	tickWaiters := func(parked []string) int {
		h.mu.Lock()
		defer h.mu.Unlock()
		n := 0
		for name, in := range h.inPut {
			if in && !isParked(parked, name) {
				n++
			}
		}
		return n
	}
	tick := func() {
		st.ticks++
		log.Addf("tick: fake clock +1s")
		time.Sleep(time.Second)
	}
	var lastQSeen uint32
	// soft is the first bookkeeping (LastQueued) violation. It does not end
	// the run: the remaining oracles are still evaluated and take precedence,
	// so that a bookkeeping defect cannot mask a lost block.
	var soft *sim.Violation
	// invariants checked at every quiescent point before Discard
	check := func(parked []string) *sim.Violation {
		h.mu.Lock()
		defer h.mu.Unlock()
		if len(h.panics) > 0 {
			return h.panics[0]
		}
		// relay: once per item the queue added, same order
		nq := 0
		for _, a := range h.applied {
			if a.via != "q" {
				continue
			}
			if nq < len(h.relayed) && h.relayed[nq] != a.idx {
				return sim.Violatef("relay", "relay/order", "relay #%d fired for %d, the queue added %d", nq, h.relayed[nq], a.idx)
			}
			nq++
		}
		if len(h.relayed) > nq || nq-len(h.relayed) > 1 {
			return sim.Violatef("relay", "relay/count", "%d relay callbacks for %d items added by the queue", len(h.relayed), nq)
		}
		// ledger model sanity: h0+1, h0+2, ... each once
		for i, a := range h.applied {
			if a.idx != p.H0+uint32(i)+1 {
				return sim.Violatef("apply-order", "", "ledger applied %d at position %d (h0=%d)", a.idx, i, p.H0)
			}
		}
		if h.discardStep != 0 || soft != nil {
			return nil
		}
		lq, capLeft := q.LastQueued()
		var maxPut uint32
		for _, r := range h.puts {
			maxPut = max(maxPut, r.idx)
		}
		for name, in := range h.inPut {
			_ = name
			if in {
				maxPut = ^uint32(0) // a Put is in flight: its index is not recorded yet
			}
		}
		if lq < lastQSeen && soft == nil {
			soft = sim.Violatef("lastqueued", "lastqueued/decreased", "LastQueued index went from %d to %d", lastQSeen, lq)
		}
		lastQSeen = lq
		if lq > maxPut && soft == nil {
			soft = sim.Violatef("lastqueued", "lastqueued/never-put", "LastQueued index %d but the highest index ever Put is %d", lq, maxPut)
		}
		if !isParked(parked, "run") && !h.runDone && soft == nil {
			// the drain goroutine is idle (waits for a signal): no item is in
			// flight, so the queue's length must equal its occupied slots
			res := residents(q)
			if res < 0 && (capLeft < 0 || capLeft > p.Cap) {
				soft = sim.Violatef("lastqueued", "lastqueued/range", "capacity left %d outside [0,%d] with the drain goroutine idle", capLeft, p.Cap)
			}
			if res >= 0 && p.Cap-capLeft != res {
				soft = sim.Violatef("lastqueued", "lastqueued/len-vs-slots", "LastQueued reports %d of %d slots left but %d slots are occupied (drain goroutine idle, height %d)",
					capLeft, p.Cap, res, h.height)
			}
		}
		return nil
	}

	// ---- main phase ----
	var viol *sim.Violation
	maxSteps := 6000
	fruitless := 0
	rest := false // the loop ended because nothing can move any more
	budgetHit := true
	discardMid := false
	for st.steps = 1; st.steps <= maxSteps; st.steps++ {
		parked := sched.Parked()
		flush()
		if viol = check(parked); viol != nil {
			break
		}
		h.mu.Lock()
		if !isParked(parked, "run") {
			h.resolveFaults(st.steps - 1) // drain goroutine idle: nothing in flight
		}
		h.step = st.steps
		h.mu.Unlock()
		if p.DiscardAt == st.steps && p.DiscardAt > 0 {
			log.Addf("Discard (step %d)", st.steps)
			h.mu.Lock()
			h.discardStep = st.steps
			h.mu.Unlock()
			if pv := sim.Recover(q.Discard); pv != nil {
				viol = pv
				break
			}
			discardMid = true
			out.Probes["discard_midway"]++
		}
		w := tickWaiters(parked)
		if len(parked) == 0 {
			if w == 0 {
				rest, budgetHit = true, false
				break
			}
			h.mu.Lock()
			prog := h.progress
			h.progress = false
			h.mu.Unlock()
			if prog {
				fruitless = 0
			} else {
				fruitless++
			}
			if fruitless >= 3 {
				// Blocking mode: the waiting Puts can never fit; documented behaviour
				rest, budgetHit = true, false
				out.Probes["blocked_forever_until_discard"]++
				break
			}
			tick()
			continue
		}
		if w > 0 && tape.Chance(1, 4) {
			tick()
			continue
		}
		sched.Step()
	}
	flush()
	if budgetHit && viol == nil {
		out.Probes["step_budget_exhausted"]++
	}

	// ---- oracles at rest ----
	if viol == nil && rest {
		viol = check(sched.Parked())
	}
	h.mu.Lock()
	sort.SliceStable(h.puts, func(i, j int) bool {
		if h.puts[i].step != h.puts[j].step {
			return h.puts[i].step < h.puts[j].step
		}
		return h.puts[i].prod < h.puts[j].prod
	})
	allDone := true
	for _, n := range all {
		if !h.finished[n] {
			allDone = false
		}
	}
	if viol == nil && rest && !discardMid {
		H := h.height
		nq := 0
		for _, a := range h.applied {
			if a.via == "q" {
				nq++
			}
		}
		if len(h.relayed) != nq {
			viol = sim.Violatef("relay", "relay/count", "at rest: %d relay callbacks for %d items added by the queue", len(h.relayed), nq)
		}
		// Liveness. given(x): some Put of x was accepted into the window
		// [shown+1, shown+cap] and not consumed by an injected AddItem error
		// afterwards. The statement's demand: the ledger reaches the largest n
		// such that every index h0+1..n was given.
		given := func(x uint32) *putRec {
			for i := range h.puts {
				r := &h.puts[i]
				if r.idx == x && r.inWin && r.step > h.faultClear[x] {
					return r
				}
			}
			return nil
		}
		if r := given(H + 1); viol == nil && r != nil {
			cause, detail := "stalled", "it was never handed to AddItem at a height where it fits (drain goroutine idle)"
			for _, rj := range h.rejects {
				if rj.idx == H+1 && rj.step >= r.step && rj.height+1 < rj.idx {
					cause = "dropped-ahead-of-tip"
					detail = fmt.Sprintf("the queue handed it to AddItem at height %d (step %d) and dropped it", rj.height, rj.step)
				}
			}
			n := p.H0
			for given(n+1) != nil {
				n++
			}
			msg := fmt.Sprintf("at rest the ledger is at %d, but %d was accepted by %s's Put at step %d (height shown %d, window %d..%d): %s",
				H, H+1, r.prod, r.step, r.shown, r.shown+1, r.shown+uint32(p.Cap), detail)
			switch {
			case n > H:
				viol = sim.Violatef("liveness", "liveness/"+cause, "%s; every index %d..%d was accepted from a Put", msg, p.H0+1, n)
			case strictDirect:
				viol = sim.Violatef("liveness", "liveness/"+cause+"-behind-direct-add", "%s; some index up to %d reached the ledger only directly", msg, H)
			default:
				// Indices below H+1 reached the ledger only through the
				// "consensus" producer, which bypasses the queue: outside
				// what the statement demands of the queue; counted, logged.
				out.Probes["unapplied_successor_behind_direct_add/"+cause]++
				log.Addf("observation (not demanded): %s", msg)
			}
		}
	}
	// probes
	for _, r := range h.puts {
		switch {
		case r.discard:
			out.Probes["put_after_discard"]++
		case r.idx <= r.shown:
			out.Probes["stale_put"]++
		case !r.inWin:
			out.Probes["far_ahead_put"]++
		}
		if r.waited {
			out.Probes["blocked_put"]++
		}
	}
	seenIdx := map[uint32]int{}
	for _, r := range h.puts {
		if r.inWin {
			seenIdx[r.idx]++
		}
	}
	for _, c := range seenIdx {
		if c > 1 {
			out.Probes["duplicate_put"]++
			break
		}
	}
	nd := 0
	for _, a := range h.applied {
		if a.via == "direct" {
			nd++
		}
	}
	if nd > 0 {
		out.Probes["consensus_advance"]++
	}
	if len(h.applied) >= p.Cap {
		out.Probes["wrapped_indices"]++
	}
	if len(h.rejects) > 0 {
		out.Probes["additem_rejected_by_ledger"]++
	}
	if h.faults > 0 {
		out.Faults["additem_error"] += h.faults
	}
	if rest && !discardMid && allDone {
		out.Probes["all_producers_finished_at_rest"]++
	}
	out.Probes["items_applied_by_queue"] += len(h.relayed)
	h.mu.Unlock()

	// ---- shutdown as server.go does: Discard, everything must unwind ----
	h.mu.Lock()
	if h.discardStep == 0 {
		h.discardStep = st.steps
	}
	h.mu.Unlock()
	log.Addf("final Discard")
	if pv := sim.Recover(q.Discard); pv != nil && viol == nil {
		viol = pv
	}
	unwound := false
	for round := 0; round < 12; round++ {
		for k := 0; k < 4000; k++ {
			st.steps++
			h.mu.Lock()
			h.step = st.steps
			h.mu.Unlock()
			if sched.Step() == "" {
				break
			}
			flush()
		}
		flush()
		h.mu.Lock()
		done := h.runDone
		for _, n := range all {
			done = done && h.finished[n]
		}
		h.mu.Unlock()
		if done {
			unwound = true
			break
		}
		tick()
	}
	sim.Wait()
	flush()
	h.mu.Lock()
	defer h.mu.Unlock()
	if viol == nil && len(h.panics) > 0 {
		viol = h.panics[0]
	}
	if soft != nil {
		out.Probes["lastqueued_inconsistent"]++
		out.Probes["lastqueued_inconsistent/"+soft.Sig]++
	}
	if viol == nil && !unwound {
		var stuck []string
		for _, n := range all {
			if !h.finished[n] {
				stuck = append(stuck, n)
			}
		}
		if len(stuck) > 0 {
			viol = sim.Violatef("blocked-after-discard", "", "producers %v still inside Put %d s after Discard", stuck, 12)
		} else {
			viol = sim.Violatef("run-not-stopped", "", "the drain goroutine did not exit after Discard")
		}
	}
	// LastQueued bookkeeping is not part of the C20 statement: inconsistencies are counted
	// (probe lastqueued_inconsistent[/kind]) and described in DESIGN.md, never raised.
	_ = soft
	st.height = h.height
	for _, a := range h.applied {
		st.applied = append(st.applied, fmt.Sprintf("%d%s", a.idx, a.via[:1]))
	}
	st.relayed = h.relayed
	st.lastQ = lastQSeen
	log.Addf("end height=%d applied=%v relayed=%d lastQ=%d", st.height, st.applied, len(st.relayed), st.lastQ)
	return st, viol
}
