// Package simdisk is the simulated disk: a storage.Store wrapper that owns the
// persistence seam. It records every atomic batch (PutChangeSet, SeekGC) in a
// durable write log, rebuilds crash images for any batch prefix, fences a
// crashed instance, injects whole-batch write errors and offers lock-free
// hook points for the park/release scheduler.
package simdisk

import (
	"errors"
	"fmt"
	"os"
	"path/filepath"
	"sort"
	"sync"

	"github.com/nspcc-dev/neo-go/pkg/core/storage"
	"github.com/nspcc-dev/neo-go/pkg/core/storage/dbconfig"
)

// Backend kinds.
const (
	Memory = iota
	Bolt
	Level
)

// BackendName names a backend kind.
func BackendName(k int) string { return [...]string{"memory", "boltdb", "leveldb"}[k%3] }

// ErrInjected is the injected disk error ("disk full").
var ErrInjected = errors.New("simdisk: injected write error (disk full)")

// Batch is one atomic write: nil value = delete.
type Batch struct {
	Kind string // put | gc
	KV   map[string][]byte
}

// Disk implements storage.Store.
type Disk struct {
	Kind int
	Dir  string // directory holding the file(s) of disk backends

	mu      sync.Mutex
	inner   storage.Store
	closed  bool
	fenced  bool
	log     []Batch
	failAt  map[int]bool // batch ordinals (counting attempts) that fail
	attempt int

	// BeforeBatch, when set, is called (no simdisk lock held) before a batch
	// is applied; kind is "put" or "gc". It may park the calling goroutine.
	BeforeBatch func(kind string, ordinal int)
	// BeforeSeek, when set, is called before a Seek reaches the backend.
	BeforeSeek func(rng storage.SeekRange)

	Gets, Seeks, Puts, GCs, Injected, FencedWrites int
}

// New opens a fresh disk of the given kind. dir is used by disk backends.
func New(kind int, dir string) (*Disk, error) {
	d := &Disk{Kind: kind % 3, Dir: dir, failAt: map[int]bool{}}
	if err := d.open(); err != nil {
		return nil, err
	}
	return d, nil
}

func (d *Disk) open() error {
	var err error
	switch d.Kind {
	case Memory:
		if d.inner == nil {
			d.inner = storage.NewMemoryStore()
		}
	case Bolt:
		d.inner, err = storage.NewBoltDBStore(dbconfig.BoltDBOptions{FilePath: filepath.Join(d.Dir, "chain.bolt")})
	case Level:
		d.inner, err = storage.NewLevelDBStore(dbconfig.LevelDBOptions{DataDirectoryPath: filepath.Join(d.Dir, "chain.level")})
	}
	d.closed = false
	return err
}

// Reopen makes the disk usable again after Close (clean restart): disk
// backends are reopened from their files, the memory backend keeps its map.
func (d *Disk) Reopen() error {
	d.mu.Lock()
	defer d.mu.Unlock()
	if !d.closed {
		return nil
	}
	return d.open()
}

// Get implements storage.Store.
func (d *Disk) Get(k []byte) ([]byte, error) {
	d.Gets++ // called under the upper layer's read lock: never a park point
	return d.inner.Get(k)
}

// Seek implements storage.Store.
func (d *Disk) Seek(rng storage.SeekRange, f func(k, v []byte) bool) {
	if h := d.BeforeSeek; h != nil {
		h(rng)
	}
	d.mu.Lock()
	d.Seeks++
	d.mu.Unlock()
	d.inner.Seek(rng, f)
}

// FailBatch makes the n-th write attempt from now (1 = the next one) fail as a whole.
func (d *Disk) FailBatch(n int) {
	d.mu.Lock()
	d.failAt[d.attempt+n] = true
	d.mu.Unlock()
}

// Disarm cancels every armed write failure that has not fired yet.
func (d *Disk) Disarm() {
	d.mu.Lock()
	d.failAt = map[int]bool{}
	d.mu.Unlock()
}

func (d *Disk) enter(kind string) (fenced bool, err error) {
	d.mu.Lock()
	d.attempt++
	ord := d.attempt
	fail := d.failAt[ord]
	delete(d.failAt, ord)
	d.mu.Unlock()
	if h := d.BeforeBatch; h != nil {
		h(kind, ord)
	}
	d.mu.Lock()
	defer d.mu.Unlock()
	if d.fenced {
		d.FencedWrites++
		return true, nil
	}
	if fail {
		d.Injected++
		return false, ErrInjected
	}
	return false, nil
}

// PutChangeSet implements storage.Store: one atomic batch.
func (d *Disk) PutChangeSet(puts map[string][]byte, stor map[string][]byte) error {
	fenced, err := d.enter("put")
	if fenced || err != nil {
		return err
	}
	if err := d.inner.PutChangeSet(puts, stor); err != nil {
		return err
	}
	b := Batch{Kind: "put", KV: make(map[string][]byte, len(puts)+len(stor))}
	// deep copies: a real disk keeps the bytes as they were at write time, whatever
	// the caller does with its slices afterwards
	for k, v := range puts {
		b.KV[k] = cloneVal(v)
	}
	for k, v := range stor {
		b.KV[k] = cloneVal(v)
	}
	d.mu.Lock()
	d.Puts++
	d.log = append(d.log, b)
	d.mu.Unlock()
	return nil
}

func cloneVal(v []byte) []byte {
	if v == nil {
		return nil
	}
	c := make([]byte, len(v))
	copy(c, v)
	return c
}

// SeekGC implements storage.Store: the deletions of one pass are one atomic batch.
func (d *Disk) SeekGC(rng storage.SeekRange, keepCont func(k, v []byte) (bool, bool)) error {
	fenced, err := d.enter("gc")
	if fenced || err != nil {
		return err
	}
	b := Batch{Kind: "gc", KV: map[string][]byte{}}
	err = d.inner.SeekGC(rng, func(k, v []byte) (bool, bool) {
		keep, cont := keepCont(k, v)
		if !keep {
			b.KV[string(k)] = nil
		}
		return keep, cont
	})
	if err != nil {
		return err
	}
	d.mu.Lock()
	d.GCs++
	d.log = append(d.log, b)
	d.mu.Unlock()
	return nil
}

// Close implements storage.Store.
func (d *Disk) Close() error {
	d.mu.Lock()
	defer d.mu.Unlock()
	if d.closed {
		return nil
	}
	d.closed = true
	if d.Kind == Memory {
		return nil // the map is the durable medium
	}
	return d.inner.Close()
}

// Fence makes the disk silently discard all further writes (the instance using it has "crashed").
func (d *Disk) Fence() {
	d.mu.Lock()
	d.fenced = true
	d.mu.Unlock()
}

// Batches returns the number of durable batches so far.
func (d *Disk) Batches() int {
	d.mu.Lock()
	defer d.mu.Unlock()
	return len(d.log)
}

// BatchKinds returns the kind of every durable batch.
func (d *Disk) BatchKinds() []string {
	d.mu.Lock()
	defer d.mu.Unlock()
	r := make([]string, len(d.log))
	for i, b := range d.log {
		r[i] = fmt.Sprintf("%s/%d", b.Kind, len(b.KV))
	}
	return r
}

// Image builds a new disk of kind `kind` holding exactly the first k durable
// batches: the state a power loss after batch k leaves behind, the backend's
// own atomicity respected.
func (d *Disk) Image(k int, kind int, dir string) (*Disk, error) {
	d.mu.Lock()
	log := d.log[:k]
	d.mu.Unlock()
	n, err := New(kind, dir)
	if err != nil {
		return nil, err
	}
	for _, b := range log {
		puts := map[string][]byte{}
		stor := map[string][]byte{}
		for k, v := range b.KV {
			if len(k) > 0 && (k[0] == byte(storage.STStorage) || k[0] == byte(storage.STTempStorage)) {
				stor[k] = cloneVal(v)
			} else {
				puts[k] = cloneVal(v)
			}
		}
		if err := n.inner.PutChangeSet(puts, stor); err != nil {
			return nil, err
		}
	}
	// the image starts its own log with one synthetic batch so that images of images work
	all := Batch{Kind: "image", KV: map[string][]byte{}}
	for _, kv := range n.Dump() {
		all.KV[kv.K] = []byte(kv.V)
	}
	n.log = []Batch{all}
	return n, nil
}

// KV is one raw pair.
type KV struct{ K, V string }

// Dump returns the raw sorted content of the backend.
func (d *Disk) Dump() []KV {
	var r []KV
	for p := 0; p < 256; p++ {
		d.inner.Seek(storage.SeekRange{Prefix: []byte{byte(p)}}, func(k, v []byte) bool {
			r = append(r, KV{string(k), string(v)})
			return true
		})
	}
	sort.Slice(r, func(i, j int) bool { return r[i].K < r[j].K })
	return r
}

// Destroy closes the backend and removes its files.
func (d *Disk) Destroy() {
	d.mu.Lock()
	if !d.closed && d.inner != nil && d.Kind != Memory {
		_ = d.inner.Close()
	}
	d.closed = true
	d.mu.Unlock()
	if d.Dir != "" {
		_ = os.RemoveAll(d.Dir)
	}
}
