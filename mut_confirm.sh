#!/bin/bash
# usage: mut_confirm.sh <worktree>   -- re-verifies a seeded change in its scratch worktree:
#  demo fails with the change, passes without it, the touched packages' existing tests pass with the change.
wt=$1
cd $wt || exit 2
export GOFLAGS=-mod=mod GOPROXY=off; unset GOTOOLCHAIN GOSUMDB
demos=$(git ls-files --others --exclude-standard | grep '_test.go$')
[ -z "$demos" ] && { echo "no demo test"; exit 2; }
out=""
for f in $demos; do
  pkg=./$(dirname $f)
  names=$(grep -h -o '^func Test[A-Za-z0-9_]*' $f | sed 's/func //' | paste -sd'|')
  with=$(go test -count=1 -run "^($names)\$" $pkg 2>&1 | tail -1)
  # (no git stash: the stash is shared by all worktrees of a repository)
  git diff > .mut_confirm.patch
  git checkout -q -- .
  without=$(go test -count=1 -run "^($names)\$" $pkg 2>&1 | tail -1)
  git apply .mut_confirm.patch && rm -f .mut_confirm.patch
  out="$out demo[$pkg $names]: with=<$with> without=<$without>;"
done
touched=$(git diff --name-only | xargs -n1 dirname | sort -u | sed 's|^|./|')
names_all=$(for f in $demos; do grep -h -o '^func Test[A-Za-z0-9_]*' $f | sed 's/func //'; done | paste -sd'|')
suite=$(go build ./... 2>&1 | tail -1; go test -count=1 -skip "^($names_all)\$" $touched 2>&1 | grep -v "^ok\|no test files" | head -5)
echo "$out suite-with-change(non-ok lines)=<$suite>"
