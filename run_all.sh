#!/bin/bash
# Runs every registered check once (tier from $1, default quick) and reports exit codes.
cd "$(dirname "$0")"
tier=${1:-quick}
mkdir -p work
props=$(python3 -c "import json;print(' '.join(c['property_id'] for c in json.load(open('MANIFEST.json'))['checks']))")
rc=0
for p in $props; do
  ./check $p --tier $tier > work/$p.$tier.out 2>&1
  e=$?
  echo "$p exit=$e $(tail -1 work/$p.$tier.out)"
  [ $e -ne 0 ] && rc=1
done
exit $rc
