package storesim

import (
	"errors"

	"github.com/nspcc-dev/neo-go/pkg/core/storage"
)

// ErrInjected is the injected whole-batch write error ("disk full").
var ErrInjected = errors.New("simdisk: injected write error")

// Disk ("simdisk") is the bottom storage.Store the layers under test sit on.
// It forwards to a real backend (MemoryStore, BoltDBStore, LevelDBStore) and
// adds whole-batch write errors, counters and - in concurrent mode - the two
// park points of DESIGN.md 1.4:
//
//   - inside PutChangeSet: MemCachedStore.persist(false) calls it with only
//     plock held (memcached_store.go:414-417: s.mut is unlocked before
//     tempstore.ps.PutChangeSet when !isSync);
//   - at the start of Seek: MemCachedStore.Seek/SeekAsync call
//     prepareSeekMemSnapshot, which releases the layer lock (line 222) before
//     performSeek scans the lower store (line 307).
//
// Get never parks: it is called under the layer's read lock
// (memcached_store.go:96-105).
type Disk struct {
	inner storage.Store
	env   *concEnv

	// FailNext makes the next PutChangeSet fail without touching the backend.
	FailNext bool
	// ParkPCS / ParkSeek enable the park points (concurrent mode only).
	ParkPCS  bool
	ParkSeek bool

	// Bookkeeping makes every batch written to the backend carry one live
	// record outside the three key spaces under test (key 0xf0, a fresh value
	// per batch), as every real flush of neo-go carries the current-block
	// record. See REGISTRY_ENTRY.py ("assumptions") for why: without it the
	// tiny batches of this engine let goleveldb compact whole tables away, reuse
	// their file numbers and serve stale cached blocks (timing dependent).
	Bookkeeping bool
	nbatch      int
	// OnPCS: called once when the next PutChangeSet has written its batch, before it returns (sequential mode: the flush window of an asynchronous Persist)
	OnPCS func()

	Gets, Seeks, Batches, GCs, Errors int
}

var bookkeepingKey = string([]byte{0xf0})

func (d *Disk) Get(k []byte) ([]byte, error) {
	d.Gets++
	return d.inner.Get(k)
}

func (d *Disk) PutChangeSet(puts map[string][]byte, stores map[string][]byte) error {
	if d.env != nil && d.ParkPCS {
		d.env.inPCS = true
		d.env.park("f", "pcs")
		d.env.inPCS = false
	}
	if d.FailNext {
		d.FailNext = false
		d.Errors++
		return ErrInjected
	}
	d.Batches++
	if d.Bookkeeping {
		d.nbatch++
		p2 := make(map[string][]byte, len(puts)+1)
		for k, v := range puts {
			p2[k] = v
		}
		p2[bookkeepingKey] = []byte{byte(d.nbatch), byte(d.nbatch >> 8)}
		puts = p2
	}
	err := d.inner.PutChangeSet(puts, stores)
	if f := d.OnPCS; f != nil && err == nil {
		d.OnPCS = nil
		f()
	}
	return err
}

func (d *Disk) Seek(rng storage.SeekRange, f func(k, v []byte) bool) {
	d.Seeks++
	if d.env != nil && d.ParkSeek {
		gid := d.env.cur
		d.env.out.Probes["reader_parked_in_scan"]++
		d.env.park(gid, "scan")
	}
	d.inner.Seek(rng, f)
}

func (d *Disk) SeekGC(rng storage.SeekRange, keepCont func(k, v []byte) (bool, bool)) error {
	d.GCs++
	return d.inner.SeekGC(rng, keepCont)
}

func (d *Disk) Close() error { return d.inner.Close() }
