package storesim

import (
	"bytes"
	"encoding/hex"
	"encoding/json"
	"fmt"
	"sort"
	"strings"

	"github.com/nspcc-dev/neo-go/pkg/core/storage"
)

// HexBytes is a byte string that is written as hex in plans and replay files.
type HexBytes []byte

func (h HexBytes) MarshalJSON() ([]byte, error) { return json.Marshal(hex.EncodeToString(h)) }

func (h *HexBytes) UnmarshalJSON(b []byte) error {
	var s string
	if err := json.Unmarshal(b, &s); err != nil {
		return err
	}
	d, err := hex.DecodeString(s)
	if err != nil {
		return err
	}
	*h = d
	return nil
}

func hx(b []byte) string {
	if len(b) == 0 {
		return "-"
	}
	return hex.EncodeToString(b)
}

// pair is one key/value pair of an answer. hasK/hasV say which halves the
// interface under test delivered (Find with KeysOnly / ValuesOnly).
type pair struct {
	k, v []byte
}

func fmtPairs(ps []pair) string {
	var sb strings.Builder
	sb.WriteByte('[')
	for i, p := range ps {
		if i > 0 {
			sb.WriteByte(' ')
		}
		sb.WriteString(hx(p.k))
		sb.WriteByte('=')
		sb.WriteString(hx(p.v))
	}
	sb.WriteByte(']')
	return sb.String()
}

// ---------------------------------------------------------------------------
// Reference model: one Go map per cache layer (nil value = deletion marker)
// and one Go map for the backend. A view is the trivial overlay.

type layerModel struct {
	private bool
	m       map[string][]byte
}

type model struct {
	backend map[string][]byte
	layers  []*layerModel // [0] = bottom cache layer (directly over the backend)
}

func newModel() *model { return &model{backend: map[string][]byte{}} }

// view returns the ordered-map content seen from layer `top` (-1 = the
// backend itself). depth 0 = all layers and the backend; depth d>0 = only the
// d topmost cache layers counted from `top`, the backend being included only
// when d exceeds the number of cache layers below and including `top`
// (store.go: "SearchDepth ... denotes the number of cached DAO layers to
// perform search").
func (m *model) view(top, depth int) map[string][]byte {
	res := map[string][]byte{}
	lowest := 0
	if depth == 0 || depth > top+1 || top < 0 {
		for k, v := range m.backend {
			res[k] = v
		}
	} else {
		lowest = top - depth + 1
	}
	for i := lowest; i <= top; i++ {
		for k, v := range m.layers[i].m {
			if v == nil {
				delete(res, k)
			} else {
				res[k] = v
			}
		}
	}
	return res
}

// refSeek is the documented meaning of a SeekRange over an ordered map
// (store.go:53-77): keys with prefix Prefix; when Start is not empty the key
// remainder must be >= Start (forwards) or <= Start (backwards), "seeking
// starting from some key includes this key"; ascending order forwards,
// descending backwards.
func refSeek(view map[string][]byte, rng storage.SeekRange) []pair {
	var res []pair
	for k, v := range view {
		if inRange([]byte(k), rng) {
			res = append(res, pair{k: []byte(k), v: v})
		}
	}
	sort.Slice(res, func(i, j int) bool {
		c := bytes.Compare(res[i].k, res[j].k)
		if rng.Backwards {
			return c > 0
		}
		return c < 0
	})
	return res
}

func inRange(k []byte, rng storage.SeekRange) bool {
	if !bytes.HasPrefix(k, rng.Prefix) {
		return false
	}
	if len(rng.Start) == 0 {
		return true
	}
	c := bytes.Compare(k[len(rng.Prefix):], rng.Start)
	if rng.Backwards {
		return c <= 0
	}
	return c >= 0
}

func isPrefixOf(a, b []pair) bool {
	if len(a) > len(b) {
		return false
	}
	for i := range a {
		if !bytes.Equal(a[i].k, b[i].k) || !bytes.Equal(a[i].v, b[i].v) {
			return false
		}
	}
	return true
}

func equalPairs(a, b []pair) bool { return len(a) == len(b) && isPrefixOf(a, b) }

// extendsStart reports whether k is a proper extension of Prefix+Start.
func extendsStart(k []byte, rng storage.SeekRange) bool {
	ps := append(append([]byte{}, rng.Prefix...), rng.Start...)
	return len(k) > len(ps) && bytes.HasPrefix(k, ps)
}

// diffSeek compares an answer with the reference. full is the complete
// reference answer; n>0 means the caller stopped after n pairs (the answer
// must then be exactly the first n reference pairs); prefixOnly means the
// answer only has to be a prefix of the reference (pairs drained after a
// cancellation). It returns "" or the kind of mismatch.
func diffSeek(got, full []pair, rng storage.SeekRange, n int, prefixOnly, cut bool) (kind, msg string) {
	want := full
	if n > 0 && n < len(full) {
		want = full[:n]
	}
	if prefixOnly {
		if isPrefixOf(got, full) {
			return "", ""
		}
	} else if equalPairs(got, want) {
		return "", ""
	}
	describe := func(kind string) (string, string) {
		return kind, fmt.Sprintf("got %s want %s", fmtPairs(got), fmtPairs(want))
	}
	// Special shape 1: a backwards seek with a start point returned keys that
	// properly extend Prefix+Start (they sort after the start point).
	stripped, hadExt := got, false
	if rng.Backwards && len(rng.Start) > 0 {
		stripped = nil
		for _, p := range got {
			if !extendsStart(p.k, rng) {
				stripped = append(stripped, p)
			}
		}
		hadExt = len(stripped) != len(got)
	}
	if hadExt {
		ok := isPrefixOf(stripped, full)
		if ok && !prefixOnly && n == 0 {
			ok = len(stripped) == len(full)
		}
		if ok {
			return describe("backwards-start-extension")
		}
	}
	// Special shape 2: the answer was delivered with the prefix trimmed and the
	// only pairs left out are keys K for which Prefix||K is in the answer too
	// (possibly on top of shape 1).
	if cut {
		inFull := map[string]bool{}
		for _, p := range full {
			inFull[string(p.k)] = true
		}
		loose := prefixOnly || (hadExt && n > 0)
		gi, omitted, ok := 0, 0, true
		for _, r := range full {
			if gi < len(stripped) && bytes.Equal(stripped[gi].k, r.k) && bytes.Equal(stripped[gi].v, r.v) {
				gi++
				continue
			}
			if gi == len(stripped) && (loose || (n > 0 && gi >= n)) {
				break
			}
			if inFull[string(rng.Prefix)+string(r.k)] {
				omitted++
				continue
			}
			ok = false
			break
		}
		if ok && gi == len(stripped) && omitted > 0 {
			if hadExt {
				return describe("backwards-start-extension+cut-omits-key")
			}
			return describe("cut-omits-key")
		}
	}
	seen := map[string]int{}
	for _, p := range got {
		seen[string(p.k)]++
		if seen[string(p.k)] > 1 {
			return describe("dup")
		}
	}
	wantSet := map[string][]byte{}
	for _, p := range want {
		wantSet[string(p.k)] = p.v
	}
	if prefixOnly {
		for _, p := range full {
			wantSet[string(p.k)] = p.v
		}
	}
	for _, p := range got {
		if _, ok := wantSet[string(p.k)]; !ok {
			return describe("extra")
		}
	}
	if !prefixOnly {
		for _, p := range want {
			if _, ok := seen[string(p.k)]; !ok {
				return describe("missing")
			}
		}
	}
	for _, p := range got {
		if !bytes.Equal(wantSet[string(p.k)], p.v) {
			return describe("value")
		}
	}
	return describe("order")
}

func sortedKeys(m map[string]struct{}) []string {
	r := make([]string, 0, len(m))
	for k := range m {
		r = append(r, k)
	}
	sort.Strings(r)
	return r
}
