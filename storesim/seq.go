package storesim

import (
	"bytes"
	"context"
	"encoding/binary"
	"errors"
	"fmt"
	"os"
	"path/filepath"
	"strings"
	"time"

	"github.com/nspcc-dev/neo-go/pkg/core/dao"
	istorage "github.com/nspcc-dev/neo-go/pkg/core/interop/storage"
	"github.com/nspcc-dev/neo-go/pkg/core/storage"
	"github.com/nspcc-dev/neo-go/pkg/core/storage/dbconfig"
	"github.com/nspcc-dev/neo-go/pkg/vm/stackitem"

	"verif/sim"
)

var backendNames = []string{"mem", "bolt", "level"}

type rlayer struct {
	d       *dao.Simple
	private bool
}

// seekSpec is one fully resolved range query.
type seekSpec struct {
	layer  int // stack index, -1 = backend
	via    int
	prefix []byte // raw store prefix
	sub    []byte // dao variants: contract-level prefix
	id     int
	start  []byte
	back   bool
	depth  int
	cut    bool
	stop   int
	opts   int
}

func (s seekSpec) rng() storage.SeekRange {
	return storage.SeekRange{Prefix: s.prefix, Start: s.start, Backwards: s.back, SearchDepth: s.depth}
}

func (s seekSpec) String() string {
	dir := "fwd"
	if s.back {
		dir = "back"
	}
	via := []string{"Seek", "SeekAsync", "dao.Seek", "dao.SeekAsync", "Find"}[s.via]
	x := fmt.Sprintf("%s L%d p=%s s=%s %s d=%d", via, s.layer, hx(s.prefix), hx(s.start), dir, s.depth)
	if s.cut {
		x += " cut"
	}
	if s.stop > 0 {
		x += fmt.Sprintf(" stop=%d", s.stop)
	}
	if s.via == viaFind {
		x += fmt.Sprintf(" opts=%d", s.opts)
	}
	return x
}

type seqRun struct {
	p       *Plan
	out     *sim.Outcome
	log     *sim.Log
	dir     string
	disk    *Disk
	stack   []*rlayer
	m       *model
	touched map[string]struct{}
	watch   []seekSpec
	step    int
	bname   string
}

// tmpBase picks the directory the per-run database directories are created
// in: $VERIF_TMP, else /dev/shm when it exists (no fsync latency: crashes of
// the machine are not part of the fault model, only batch boundaries are),
// else the system default.
func tmpBase() string {
	if d := os.Getenv("VERIF_TMP"); d != "" {
		return d
	}
	if st, err := os.Stat("/dev/shm"); err == nil && st.IsDir() {
		return "/dev/shm"
	}
	return ""
}

func daoKey(id int, sub []byte) []byte {
	k := make([]byte, 5+len(sub))
	k[0] = byte(storage.STStorage)
	binary.LittleEndian.PutUint32(k[1:], uint32(id))
	copy(k[5:], sub)
	return k
}

func value(step, j int, empty bool) []byte {
	if empty {
		return []byte{}
	}
	return []byte{byte(step + 1), byte(j)}
}

func abs(i int) int {
	if i < 0 {
		return -i
	}
	return i
}

func (r *seqRun) openBackend() storage.Store {
	switch r.p.Backend {
	case 1:
		s, err := storage.NewBoltDBStore(dbconfig.BoltDBOptions{FilePath: filepath.Join(r.dir, "bolt.db")})
		if err != nil {
			sim.Harnessf("open boltdb: %v", err)
		}
		return s
	case 2:
		s, err := storage.NewLevelDBStore(dbconfig.LevelDBOptions{DataDirectoryPath: filepath.Join(r.dir, "level")})
		if err != nil {
			sim.Harnessf("open leveldb: %v", err)
		}
		return s
	default:
		return storage.NewMemoryStore()
	}
}

// newDisk opens the backend. VERIF_STORESIM_BARE_BATCHES=1 switches the
// bookkeeping record off (to reproduce the goleveldb stale-read finding).
func (r *seqRun) newDisk() *Disk {
	return &Disk{inner: r.openBackend(), Bookkeeping: os.Getenv("VERIF_STORESIM_BARE_BATCHES") == ""}
}

func (r *seqRun) buildStack(kinds []bool) {
	r.stack = []*rlayer{{d: dao.NewSimple(r.disk, false)}}
	r.m.layers = []*layerModel{{m: map[string][]byte{}}}
	for _, priv := range kinds {
		r.push(priv)
	}
}

func (r *seqRun) push(private bool) {
	top := r.stack[len(r.stack)-1].d
	var d *dao.Simple
	if private {
		d = top.GetPrivate()
		r.out.Probes["private_layer"]++
	} else {
		d = top.GetWrapped()
	}
	r.stack = append(r.stack, &rlayer{d: d, private: private})
	r.m.layers = append(r.m.layers, &layerModel{private: private, m: map[string][]byte{}})
	if len(r.stack) == 4 {
		r.out.Probes["depth4"]++
	}
}

func (r *seqRun) pop() {
	r.stack = r.stack[:len(r.stack)-1]
	r.m.layers = r.m.layers[:len(r.m.layers)-1]
}

func (r *seqRun) top() int { return len(r.stack) - 1 }

func (r *seqRun) layerIdx(l int) int { return r.top() - abs(l)%len(r.stack) }

func (r *seqRun) layerOrBackend(l int) int {
	x := abs(l) % (len(r.stack) + 1)
	if x == len(r.stack) {
		return -1
	}
	return r.top() - x
}

// writable: a private (unlocked) layer is only written by its owner, i.e.
// while it is the top of the stack; shared layers are written at any depth
// (as bc.dao is while RPC wrappers sit on it).
func (r *seqRun) writable(i int) int {
	if i == r.top() || !r.stack[i].private {
		return i
	}
	return r.top()
}

func (r *seqRun) store(i int) storage.Store {
	if i < 0 {
		return r.disk
	}
	return r.stack[i].d.Store
}

func (r *seqRun) fail(v *sim.Violation) *sim.Violation {
	v.Msg = fmt.Sprintf("step %d, backend %s, %d layers: %s", r.step, r.bname, len(r.stack), v.Msg)
	return v
}

func runSeq(p *Plan) (out *sim.Outcome) {
	out = sim.NewOutcome()
	r := &seqRun{p: p, out: out, log: sim.NewLog(4000), m: newModel(), touched: map[string]struct{}{}}
	if p.Backend < 0 || p.Backend > 2 {
		p.Backend = 0
	}
	r.bname = backendNames[p.Backend]
	out.Probes["backend_"+r.bname]++
	if p.Wide {
		out.Probes["wide_alphabet"]++
	}
	if p.Backend != 0 {
		dir, err := os.MkdirTemp(tmpBase(), "verif-storesim-*")
		if err != nil {
			sim.Harnessf("tempdir: %v", err)
		}
		r.dir = dir
		defer os.RemoveAll(dir)
	}
	r.disk = r.newDisk()
	defer func() { _ = r.disk.inner.Close() }()
	var kinds []bool
	for _, k := range p.Layers {
		if len(kinds) < 3 {
			kinds = append(kinds, k == 1)
		}
	}
	r.buildStack(kinds)
	r.log.Addf("seq backend=%s layers=%v wide=%v", r.bname, kinds, p.Wide)

	finish := func(v *sim.Violation) *sim.Outcome {
		out.Violation = v
		out.Log = r.log.Lines
		out.TraceHash = r.log.Hash()
		out.Events = r.log.Count()
		out.Summary = map[string]any{"mode": "sequential", "backend": r.bname, "layers": len(p.Layers) + 1, "ops": len(p.Ops), "wide": p.Wide}
		return out
	}
	var soft *sim.Violation
	for i, op := range p.Ops {
		r.step = i
		var v *sim.Violation
		if pv := sim.Recover(func() { v = r.exec(op) }); pv != nil {
			r.log.Addf("%d PANIC", i)
			pv.Msg = fmt.Sprintf("step %d (kind %d), backend %s: %s", i, op.Kind, r.bname, pv.Msg)
			return finish(pv)
		}
		if v != nil && v.Class == "seek-backwards-start-extension" {
			// recorded finding (known_findings.json): a read-only mismatch, the run goes on so that it
			// cannot mask anything else; reported only when nothing else fails in this run
			out.Probes["backwards_start_extension_mismatch"]++
			if soft == nil {
				soft = v
			}
			v = nil
		}
		if v != nil {
			r.log.Addf("%d VIOLATION %s", i, v.Sig)
			return finish(v)
		}
	}
	r.step = len(p.Ops)
	var v *sim.Violation
	if pv := sim.Recover(func() { v = r.audit("end") }); pv != nil {
		return finish(pv)
	}
	if v != nil {
		return finish(v)
	}
	for _, pr := range refSeekAll(r.m.view(r.top(), 0)) {
		out.StateHash = sim.HashBytes(sim.HashBytes(out.StateHash, pr.k), pr.v)
		out.StateHash = sim.HashString(out.StateHash, ";")
	}
	return finish(soft)
}

func refSeekAll(view map[string][]byte) []pair {
	var res []pair
	for _, pb := range prefixBytes {
		res = append(res, refSeek(view, storage.SeekRange{Prefix: []byte{pb}})...)
	}
	return res
}

func (r *seqRun) exec(op Op) *sim.Violation {
	switch op.Kind {
	case opPut, opDelete:
		i := r.writable(r.layerIdx(op.Layer))
		key := r.rawKey(op)
		var val []byte
		if op.Kind == opPut {
			val = value(r.step, 0, op.Empty)
			if op.Dao {
				r.stack[i].d.PutStorageItem(int32(op.ID), op.Key, val)
			} else {
				r.stack[i].d.Store.Put(key, val)
			}
			if op.Empty {
				r.out.Probes["empty_value"]++
			}
		} else {
			if op.Dao {
				r.stack[i].d.DeleteStorageItem(int32(op.ID), op.Key)
			} else {
				r.stack[i].d.Store.Delete(key)
			}
			if _, ok := r.m.view(i-1, 0)[string(key)]; ok {
				r.out.Probes["tombstone_hides_lower"]++
			}
		}
		r.m.layers[i].m[string(key)] = val
		r.touched[string(key)] = struct{}{}
		if i != r.top() {
			r.out.Probes["write_below_top"]++
		}
		r.log.Addf("%d write L%d %s=%s dao=%v", r.step, i, hx(key), vstr(val), op.Dao)
	case opBatch:
		i := r.layerOrBackend(op.Layer)
		if i >= 0 {
			i = r.writable(i)
		}
		puts, stores := map[string][]byte{}, map[string][]byte{}
		desc := ""
		for j, kv := range op.Batch {
			if len(kv.K) == 0 {
				continue
			}
			var val []byte
			if !kv.Del {
				val = value(r.step, j+1, kv.Empty)
			}
			if kv.K[0] == byte(storage.STStorage) || kv.K[0] == byte(storage.STTempStorage) {
				stores[string(kv.K)] = val
			} else {
				puts[string(kv.K)] = val
			}
			desc += " " + hx(kv.K) + "=" + vstr(val)
		}
		if err := r.store(i).PutChangeSet(puts, stores); err != nil {
			sim.Harnessf("PutChangeSet on %s: %v", r.bname, err)
		}
		for _, mm := range []map[string][]byte{puts, stores} {
			for k, v := range mm {
				r.touched[k] = struct{}{}
				if i < 0 {
					if v == nil {
						delete(r.m.backend, k)
					} else {
						r.m.backend[k] = v
					}
				} else {
					r.m.layers[i].m[k] = v
				}
			}
		}
		r.out.Probes["changeset"]++
		r.log.Addf("%d changeset L%d%s", r.step, i, desc)
	case opGet:
		i := r.layerOrBackend(op.Layer)
		if op.Dao && i < 0 {
			i = 0
		}
		key := r.rawKey(op)
		return r.checkGet(i, key, op.Dao, op.ID, op.Key, true)
	case opSeek:
		s := r.resolveSeek(op)
		if v := r.checkSeek(s, ""); v != nil {
			return v
		}
		r.watch = append(r.watch, s)
		if len(r.watch) > 4 {
			r.watch = r.watch[1:]
		}
	case opPersist:
		return r.persist(op)
	case opPush:
		if len(r.stack) >= 4 {
			r.log.Addf("%d push skipped", r.step)
			return nil
		}
		r.push(op.Private)
		r.log.Addf("%d push private=%v -> %d layers", r.step, op.Private, len(r.stack))
		return r.audit("push")
	case opDiscard:
		if len(r.stack) <= 1 {
			r.log.Addf("%d discard skipped", r.step)
			return nil
		}
		n := len(r.m.layers[r.top()].m)
		r.pop()
		r.out.Probes["layer_discarded"]++
		r.log.Addf("%d discard top (%d cached) -> %d layers", r.step, n, len(r.stack))
		return r.audit("discard")
	case opGC:
		return r.gc(op)
	case opReopen:
		return r.reopen(op)
	}
	return nil
}

func vstr(v []byte) string {
	if v == nil {
		return "DEL"
	}
	return hx(v)
}

func (r *seqRun) rawKey(op Op) []byte {
	if op.Dao {
		return daoKey(op.ID, op.Key)
	}
	if len(op.Key) == 0 {
		return []byte{prefixBytes[0]}
	}
	return op.Key
}

func (r *seqRun) checkGet(i int, key []byte, viaDao bool, id int, sub []byte, logIt bool) *sim.Violation {
	want, wantOK := r.m.view(i, 0)[string(key)]
	var got []byte
	var found bool
	if viaDao {
		got = r.stack[i].d.GetStorageItem(int32(id), sub)
		found = got != nil
		if wantOK && len(want) == 0 {
			found = true // an empty item and a missing one are not distinguishable through GetStorageItem on every backend
		}
	} else {
		g, err := r.store(i).Get(key)
		switch {
		case err == nil:
			found = true
		case errors.Is(err, storage.ErrKeyNotFound):
		default:
			sim.Harnessf("Get on %s: %v", r.bname, err)
		}
		got = g
	}
	if logIt {
		r.out.Probes["get"]++
		r.log.Addf("%d get L%d %s -> %v %s", r.step, i, hx(key), found, hx(got))
	}
	switch {
	case wantOK && !found:
		return r.fail(sim.Violatef("get", "get/missing", "Get(%s) at layer %d: not found, the ordered map holds %s", hx(key), i, hx(want)))
	case !wantOK && found:
		return r.fail(sim.Violatef("get", "get/phantom", "Get(%s) at layer %d returned %s, the ordered map has no such key", hx(key), i, hx(got)))
	case wantOK && !bytes.Equal(got, want):
		return r.fail(sim.Violatef("get", "get/value", "Get(%s) at layer %d returned %s, the ordered map holds %s", hx(key), i, hx(got), hx(want)))
	}
	return nil
}

func (r *seqRun) resolveSeek(op Op) seekSpec {
	s := seekSpec{via: op.Via, start: op.Start, back: op.Back, depth: op.Depth, cut: op.Cut, stop: op.Stop, opts: op.Opts}
	if s.via < 0 || s.via > viaFind {
		s.via = viaSeek
	}
	s.layer = r.layerOrBackend(op.Layer)
	if s.via >= viaDaoSeek {
		s.id = op.ID
		s.sub = op.Prefix
		s.prefix = daoKey(op.ID, op.Prefix)
		if s.layer < 0 {
			s.layer = 0
		}
	} else {
		s.prefix = op.Prefix
		if len(s.prefix) == 0 {
			s.prefix = []byte{prefixBytes[0]}
		}
	}
	if s.layer < 0 {
		s.via = viaSeek
		s.cut = false
	}
	if s.via != viaSeekAsync {
		s.cut = false
	}
	if s.via == viaFind {
		s.start = nil
		s.depth = 0
		if s.opts < 0 || s.opts > 4 {
			s.opts = 0
		}
	}
	if s.depth < 0 || s.depth > 4 {
		s.depth = 0
	}
	return s
}

func clone(b []byte) []byte { return append([]byte{}, b...) }

func concat(a, b []byte) []byte { return append(append([]byte{}, a...), b...) }

// execSeek asks the real stack. got = pairs delivered before the stop point,
// drained = pairs that still arrived after a cancellation (their number
// depends on a select race inside SeekAsync and is never logged).
func (r *seqRun) execSeek(s seekSpec) (got, drained []pair) {
	rng := s.rng()
	add := func(k, v []byte) bool {
		got = append(got, pair{k: k, v: clone(v)})
		return s.stop == 0 || len(got) < s.stop
	}
	switch s.via {
	case viaSeek:
		r.store(s.layer).Seek(rng, func(k, v []byte) bool { return add(clone(k), v) })
	case viaDaoSeek:
		r.stack[s.layer].d.Seek(int32(s.id), storage.SeekRange{Prefix: s.sub, Start: s.start, Backwards: s.back, SearchDepth: s.depth},
			func(k, v []byte) bool {
				// the callback works with the same DAO meanwhile, as contract destruction and the native contracts'
				// iterations do (another contract's item: the DAO's reusable key buffer is rewritten)
				d := r.stack[s.layer].d
				_ = d.GetStorageItem(int32(s.id)^1, k)
				return add(concat(s.prefix, k), v)
			})
		r.out.Probes["dao_seek"]++
	case viaSeekAsync, viaDaoAsync:
		ctx, cancel := context.WithCancel(context.Background())
		var ch chan storage.KeyValue
		cut := s.cut
		if s.via == viaDaoAsync {
			cut = true
			ch = r.stack[s.layer].d.SeekAsync(ctx, int32(s.id), storage.SeekRange{Prefix: s.sub, Start: s.start, Backwards: s.back, SearchDepth: s.depth})
			r.out.Probes["dao_seek"]++
		} else {
			ch = r.stack[s.layer].d.Store.SeekAsync(ctx, rng, s.cut)
		}
		full := func(k []byte) []byte {
			if cut {
				return concat(s.prefix, k)
			}
			return clone(k)
		}
		for kv := range ch {
			if !add(full(kv.Key), kv.Value) {
				break
			}
		}
		cancel()
		for kv := range ch {
			drained = append(drained, pair{k: full(kv.Key), v: clone(kv.Value)})
		}
		r.out.Probes["seek_async"]++
		if cut {
			r.out.Probes["prefix_cut"]++
		}
		if s.stop > 0 && len(got) == s.stop {
			r.out.Probes["seek_async_cancel"]++
		}
	case viaFind:
		ctx, cancel := context.WithCancel(context.Background())
		ch := r.stack[s.layer].d.SeekAsync(ctx, int32(s.id), storage.SeekRange{Prefix: s.sub, Backwards: s.back})
		mask := int64([]int{0, istorage.FindKeysOnly, istorage.FindRemovePrefix, istorage.FindKeysOnly | istorage.FindRemovePrefix, istorage.FindValuesOnly}[s.opts])
		it := istorage.NewIterator(ch, s.sub, mask)
		bytesOf := func(it stackitem.Item) []byte {
			b, err := it.TryBytes()
			if err != nil {
				sim.Harnessf("Find item: %v", err)
			}
			return clone(b)
		}
		fullKey := func(k []byte) []byte {
			if mask&istorage.FindRemovePrefix != 0 {
				return concat(s.prefix, k)
			}
			return daoKey(s.id, k)
		}
		for it.Next() {
			item := it.Value()
			var p pair
			switch {
			case mask&istorage.FindKeysOnly != 0:
				p.k = fullKey(bytesOf(item))
			case mask&istorage.FindValuesOnly != 0:
				p.v = bytesOf(item)
			default:
				kv := item.Value().([]stackitem.Item)
				p.k, p.v = fullKey(bytesOf(kv[0])), bytesOf(kv[1])
			}
			got = append(got, p)
			if s.stop > 0 && len(got) == s.stop {
				break
			}
		}
		cancel()
		for range ch { //nolint:revive // drain like findWithContext's cancel func does
		}
		r.out.Probes["find_iterator"]++
	}
	return got, drained
}

// checkSeek runs one range query and compares it with the reference.
func (r *seqRun) checkSeek(s seekSpec, note string) *sim.Violation {
	got, drained := r.execSeek(s)
	rng := s.rng()
	full := refSeek(r.m.view(s.layer, s.depth), rng)
	if s.via == viaFind {
		for i := range full {
			switch s.opts {
			case 1, 3:
				full[i].v = []byte{}
			case 4:
				full[i].k = nil
			}
		}
		for i := range got {
			if got[i].v == nil {
				got[i].v = []byte{}
			}
		}
	}
	if note == "" {
		r.out.Probes["seek"]++
		if s.back {
			r.out.Probes["backwards_seek"]++
		}
		if len(s.start) > 0 {
			r.out.Probes["seek_with_start"]++
			if s.back {
				for k := range r.m.view(s.layer, s.depth) {
					if extendsStart([]byte(k), rng) {
						r.out.Probes["backwards_start_has_extension_key"]++
						break
					}
				}
			}
		}
		if s.depth > 0 && s.layer >= 0 {
			r.out.Probes["depth_limited"]++
			if s.depth <= s.layer {
				r.out.Probes["depth_excludes_backend"]++
			}
		}
		if len(full) > 0 {
			r.out.Probes["seek_nonempty"]++
		}
		r.log.Addf("%d %s -> %s", r.step, s, fmtPairs(got))
	}
	var kind, msg string
	if s.via == viaFind && s.opts == 4 {
		want := full
		if s.stop > 0 && s.stop < len(full) {
			want = full[:s.stop]
		}
		ok := len(got) == len(want)
		for i := 0; ok && i < len(got); i++ {
			ok = bytes.Equal(got[i].v, want[i].v)
		}
		if !ok {
			kind, msg = "values", fmt.Sprintf("got %s want %s", fmtPairs(got), fmtPairs(want))
		}
	} else {
		cut := s.cut || s.via >= viaDaoSeek
		kind, msg = diffSeek(got, full, rng, s.stop, false, cut)
		if kind == "" && len(drained) > 0 {
			kind, msg = diffSeek(append(append([]pair{}, got...), drained...), full, rng, 0, true, cut)
			if kind != "" && !strings.HasPrefix(kind, "backwards-start-extension") && kind != "cut-omits-key" {
				kind = "after-cancel-" + kind
			}
		}
	}
	if kind == "" {
		return nil
	}
	class := "seek"
	if strings.HasPrefix(kind, "backwards-start-extension") || kind == "cut-omits-key" {
		class = "seek-" + kind
	}
	sig := class + "/" + kind
	if class != "seek" {
		sig = class
	}
	if s.cut || s.via >= viaDaoAsync {
		sig += "/cut"
	}
	lower := "cache-only"
	if s.depth == 0 || s.depth > s.layer+1 || s.layer < 0 {
		lower = r.bname
	}
	sig += "/" + lower
	if note != "" {
		note = " (" + note + ")"
	}
	return r.fail(sim.Violatef(class, sig, "%s%s: %s", s, note, msg))
}

func (r *seqRun) persist(op Op) *sim.Violation {
	i := r.layerIdx(op.Layer)
	top := r.top()
	// Stack discipline for private (unlocked) layers: they are flushed by their
	// owner while on top of the stack and are dead afterwards; a private layer
	// is only written into by the layer directly above it when that one is the top.
	if r.stack[i].private && i != top {
		i = top
	}
	if i > 0 && r.m.layers[i-1].private && i != top {
		i = top
	}
	L := r.stack[i]
	variant := op.Variant
	if variant == 2 && !(L.private && i == top && i >= 1) {
		variant = 0
	}
	wantFail := op.Fail && i == 0
	r.disk.FailNext = wantFail
	var n int
	var err error
	// Overlap > 0 (bottom layer, asynchronous Persist, no injected failure): while the flush is writing to the backend
	// another goroutine puts a fresh key into the same layer and calls PersistSync on it (the state synchronisation
	// module's PersistSync against the persist loop's Persist). Persist keeps a second flush out until it is through,
	// so the second one finds the layer restored and writes the key; a flush let in earlier would write into the
	// first one's temporary lower layer, which is dropped.
	var odone chan error
	var okey string
	var oval []byte
	if op.Overlap > 0 && variant == 0 && i == 0 && !wantFail && len(r.m.layers[0].m) > 0 {
		okey = string([]byte{prefixBytes[0], 0xee, byte(r.step)})
		oval = []byte(fmt.Sprintf("ovl%d", r.step))
		odone = make(chan error, 1)
		r.disk.OnPCS = func() {
			done := make(chan error, 1)
			go func() {
				L.d.Store.Put([]byte(okey), oval)
				_, e := L.d.PersistSync()
				done <- e
			}()
			// (real time, as for the SeekGC pass: on a store that keeps the second flush out the goroutine is blocked
			// until Persist returns and the verdict does not depend on the pause)
			select {
			case e := <-done:
				r.out.Probes["second_flush_not_kept_out"]++
				odone <- e
			case <-time.After(25 * time.Millisecond):
				go func() { odone <- <-done }()
			}
		}
	}
	switch variant {
	case 0:
		n, err = L.d.Persist()
	case 1:
		n, err = L.d.PersistSync()
	case 2:
		n = r.stack[i-1].d.PersistPrivate(L.d)
	}
	r.disk.OnPCS = nil
	fired := wantFail && !r.disk.FailNext
	r.disk.FailNext = false
	r.log.Addf("%d persist L%d variant=%d private=%v -> %d err=%v", r.step, i, variant, L.private, n, err != nil)
	if fired {
		if !errors.Is(err, ErrInjected) {
			return r.fail(sim.Violatef("persist-error-lost", "", "the backend's PutChangeSet failed but Persist of layer %d returned %v", i, err))
		}
		r.out.Faults["putchangeset_error"]++
	} else {
		if err != nil {
			sim.Harnessf("Persist on %s: %v", r.bname, err)
		}
		src := r.m.layers[i].m
		if i == 0 {
			for k, v := range src {
				if v == nil {
					delete(r.m.backend, k)
				} else {
					r.m.backend[k] = v
				}
			}
			if len(src) > 0 {
				r.out.Probes["flush_to_backend"]++
			}
		} else {
			for k, v := range src {
				r.m.layers[i-1].m[k] = v
			}
			if len(src) > 0 {
				r.out.Probes["flush_to_layer"]++
			}
		}
		r.m.layers[i].m = map[string][]byte{}
		if L.private {
			r.pop()
			r.out.Probes["private_persisted"]++
		}
	}
	if odone != nil {
		if oerr := <-odone; oerr != nil {
			sim.Harnessf("overlapping PersistSync on %s: %v", r.bname, oerr)
		}
		// both flushes are through: the key is in the backend
		r.m.backend[okey] = oval
		delete(r.m.layers[0].m, okey)
		r.out.Probes["persist_with_overlapping_sync_flush"]++
	}
	if v := r.audit("persist"); v != nil {
		return v
	}
	return r.reask("flush")
}

// reask repeats the most recent range queries after a flush-like operation.
func (r *seqRun) reask(why string) *sim.Violation {
	for _, s := range r.watch {
		if s.layer > r.top() {
			continue
		}
		if v := r.checkSeek(s, "re-asked after "+why); v != nil {
			return v
		}
		r.out.Probes["reasked_after_flush"]++
	}
	return nil
}

func (r *seqRun) gc(op Op) *sim.Violation {
	rng := storage.SeekRange{Prefix: op.Prefix, Start: op.Start, Backwards: op.Back}
	if len(rng.Prefix) == 0 {
		rng.Prefix = []byte{prefixBytes[0]}
	}
	full := refSeek(r.m.view(-1, 0), rng)
	var visited []pair
	// Race > 0: while the pass is at its Race-th pair, another goroutine commits a fresh value for that very key. The pass
	// is one atomic operation of the backend (it runs inside the backend's write transaction / under its lock), so the
	// writer can only commit after it; a pass that judged the old value and then deletes "by key" would lose the commit.
	var wdone chan error
	var wkey string
	var wval []byte
	early := false
	err := r.disk.SeekGC(rng, func(k, v []byte) (bool, bool) {
		idx := len(visited)
		visited = append(visited, pair{k: clone(k), v: clone(v)})
		drop := op.Keep>>(uint(idx)%32)&1 == 1
		if op.Race > 0 && idx == op.Race-1 {
			wkey = string(k)
			wval = []byte(fmt.Sprintf("gcw%d", r.step))
			wdone = make(chan error, 1)
			puts, stores := map[string][]byte{}, map[string][]byte{}
			if k[0] == byte(storage.STStorage) || k[0] == byte(storage.STTempStorage) {
				stores[wkey] = wval
			} else {
				puts[wkey] = wval
			}
			done := make(chan error, 1)
			go func() { done <- r.disk.inner.PutChangeSet(puts, stores) }()
			// (real time: the writer is blocked by the backend until the pass is over; the pause only gives a backend that
			// does not block it the chance to show that)
			select {
			case e := <-done:
				early = true
				wdone <- e
			case <-time.After(25 * time.Millisecond):
				go func() { wdone <- <-done }()
			}
		}
		return !drop, op.Stop == 0 || len(visited) < op.Stop
	})
	if err != nil {
		sim.Harnessf("SeekGC on %s: %v", r.bname, err)
	}
	if wdone != nil {
		if werr := <-wdone; werr != nil {
			sim.Harnessf("PutChangeSet during SeekGC on %s: %v", r.bname, werr)
		}
		r.out.Probes["seekgc_with_concurrent_commit"]++
		if early {
			r.out.Probes["seekgc_concurrent_commit_not_blocked"]++
		}
	}
	r.out.Probes["seekgc"]++
	r.log.Addf("%d gc p=%s s=%s back=%v keep=%x stop=%d -> %s", r.step, hx(rng.Prefix), hx(rng.Start), op.Back, op.Keep, op.Stop, fmtPairs(visited))
	if kind, msg := diffSeek(visited, full, rng, op.Stop, false, false); kind != "" {
		class := "seekgc"
		sig := class + "/" + kind + "/" + r.bname
		if kind == "backwards-start-extension" {
			class = "seekgc-backwards-start-extension"
			sig = class + "/" + r.bname
		}
		return r.fail(sim.Violatef(class, sig, "SeekGC p=%s s=%s back=%v visited: %s", hx(rng.Prefix), hx(rng.Start), op.Back, msg))
	}
	for idx, p := range visited {
		if op.Keep>>(uint(idx)%32)&1 == 1 {
			delete(r.m.backend, string(p.k))
			r.out.Probes["seekgc_deleted"]++
		}
	}
	if wdone != nil {
		// the commit came after the pass had judged the key's old value: it is the key's value now
		r.m.backend[wkey] = wval
		if got, gerr := r.disk.inner.Get([]byte(wkey)); gerr != nil || !bytes.Equal(got, wval) {
			return r.fail(sim.Violatef("seekgc-lost-commit", "seekgc-lost-commit/"+r.bname, "SeekGC p=%s: a value committed for key %s by another goroutine while the pass was at that key (it had judged the old value) is gone afterwards: Get = %s, %v", hx(rng.Prefix), hx([]byte(wkey)), vstr(got), gerr))
		}
	}
	if v := r.audit("gc"); v != nil {
		return v
	}
	return r.reask("gc")
}

func (r *seqRun) reopen(op Op) *sim.Violation {
	if r.p.Backend == 0 {
		r.log.Addf("%d reopen n/a", r.step)
		return nil
	}
	var kinds []bool
	for _, l := range r.stack[1:] {
		kinds = append(kinds, l.private)
	}
	if !op.Dirty {
		for i := r.top(); i >= 0; i-- {
			if _, err := r.stack[i].d.Persist(); err != nil {
				sim.Harnessf("Persist on %s: %v", r.bname, err)
			}
			src := r.m.layers[i].m
			for k, v := range src {
				if i > 0 {
					r.m.layers[i-1].m[k] = v
				} else if v == nil {
					delete(r.m.backend, k)
				} else {
					r.m.backend[k] = v
				}
			}
			r.m.layers[i].m = map[string][]byte{}
			if i > 0 {
				r.pop()
			}
		}
	}
	if err := r.stack[r.top()].d.Store.Close(); err != nil {
		sim.Harnessf("Close on %s: %v", r.bname, err)
	}
	old := r.disk
	r.disk = r.newDisk()
	r.disk.nbatch = old.nbatch
	r.buildStack(kinds)
	if op.Dirty {
		r.out.Faults["dirty_reopen"]++
	} else {
		r.out.Probes["clean_reopen"]++
	}
	r.log.Addf("%d reopen dirty=%v", r.step, op.Dirty)
	if v := r.audit("reopen"); v != nil {
		return v
	}
	return r.reask("reopen")
}

// audit compares every layer view completely with the reference: full scans
// of the three key spaces in both directions and a point read of every key
// ever written in this run.
func (r *seqRun) audit(why string) *sim.Violation {
	keys := sortedKeys(r.touched)
	for i := -1; i <= r.top(); i++ {
		for _, pb := range prefixBytes {
			for _, back := range []bool{false, true} {
				s := seekSpec{layer: i, via: viaSeek, prefix: []byte{pb}, back: back}
				if v := r.checkSeek(s, "audit after "+why); v != nil {
					return v
				}
			}
		}
		for _, k := range keys {
			if v := r.checkGet(i, []byte(k), false, 0, nil, false); v != nil {
				v.Msg += " (audit after " + why + ")"
				return v
			}
		}
	}
	r.log.Addf("%d audit %s ok", r.step, why)
	return nil
}
