package storesim

import (
	"bytes"
	"context"
	"errors"
	"fmt"
	"sort"
	"strings"
	"testing"
	"time"

	"github.com/anishathalye/porcupine"
	"github.com/nspcc-dev/neo-go/pkg/core/storage"

	"verif/sim"
)

// History records (all stamped with Sched.Seq()).
type kvw struct {
	key string
	val []byte // nil = delete
}

type wEvent struct {
	inv, ret uint64
	kvs      []kvw
	batch    bool
}

type gEvent struct {
	inv, ret uint64
	client   int
	key      string
	val      []byte
	found    bool
}

type sEvent struct {
	inv, ret uint64
	client   int
	rng      storage.SeekRange
	got      []pair
	desc     string
}

type fEvent struct {
	inv, ret uint64
	sync     bool
	failed   bool
}

type concEnv struct {
	sched *sim.Sched
	cur   string
	inPCS bool
	out   *sim.Outcome
	log   *sim.Log
	abort bool
	viol  *sim.Violation

	writes  []wEvent
	gets    []gEvent
	scans   []sEvent
	flushes []fEvent
	nwrite  int
	running int

	finalTop, finalDisk []pair
}

func (e *concEnv) park(gid, point string) {
	e.sched.Park(gid, point)
	e.cur = gid
}

func (e *concEnv) setViol(v *sim.Violation) {
	if v != nil && e.viol == nil {
		e.viol = v
	}
}

// applyWrite performs one whole writer operation on s and records it.
func (e *concEnv) applyWrite(s *storage.MemCachedStore, w WOp, who string) {
	e.nwrite++
	n := e.nwrite
	ev := wEvent{}
	desc := ""
	switch w.Kind {
	case 0, 1:
		key := w.Key
		if len(key) == 0 {
			key = []byte{prefixBytes[0]}
		}
		var val []byte
		if w.Kind == 0 {
			val = []byte{byte(n), 0}
		}
		ev.inv = e.sched.Seq()
		if val != nil {
			s.Put(key, val)
		} else {
			s.Delete(key)
		}
		ev.ret = e.sched.Seq()
		ev.kvs = []kvw{{key: string(key), val: val}}
		desc = hx(key) + "=" + vstr(val)
	default:
		puts, stores := map[string][]byte{}, map[string][]byte{}
		all := map[string][]byte{}
		for j, kv := range w.Batch {
			if len(kv.K) == 0 {
				continue
			}
			var val []byte
			if !kv.Del {
				val = []byte{byte(n), byte(j + 1)}
			}
			if kv.K[0] == byte(storage.STStorage) || kv.K[0] == byte(storage.STTempStorage) {
				stores[string(kv.K)] = val
			} else {
				puts[string(kv.K)] = val
			}
			all[string(kv.K)] = val
		}
		ev.batch = true
		ev.inv = e.sched.Seq()
		if n%2 == 0 && len(all) >= 2 {
			// the batch arrives the way a block does: two private layers (execution results and state changes in
			// storeBlock) merged by one PersistPrivate call, which has to be ONE batch for every reader
			p1, p2 := storage.NewPrivateMemCachedStore(s), storage.NewPrivateMemCachedStore(s)
			var ks []string
			for k := range all {
				ks = append(ks, k)
			}
			sort.Strings(ks)
			for i, k := range ks {
				p := p1
				if i%2 == 1 {
					p = p2
				}
				if all[k] == nil {
					p.Delete([]byte(k))
				} else {
					p.Put([]byte(k), all[k])
				}
			}
			s.PersistPrivate(p1, p2)
			e.out.Probes["writer_batch_persistprivate"]++
		} else {
			_ = s.PutChangeSet(puts, stores)
		}
		ev.ret = e.sched.Seq()
		var ks []string
		for k := range all {
			ks = append(ks, k)
		}
		sort.Strings(ks)
		for _, k := range ks {
			ev.kvs = append(ev.kvs, kvw{key: k, val: all[k]})
			desc += " " + hx([]byte(k)) + "=" + vstr(all[k])
		}
		e.out.Probes["writer_batch"]++
	}
	e.writes = append(e.writes, ev)
	e.log.Addf("[%d-%d] %s write %s", ev.inv, ev.ret, who, strings.TrimSpace(desc))
}

func (e *concEnv) doRead(s *storage.MemCachedStore, client int, gid string, o ROp) {
	if o.Kind == 0 {
		key := o.Key
		if len(key) == 0 {
			key = []byte{prefixBytes[0]}
		}
		g := gEvent{client: client, key: string(key)}
		g.inv = e.sched.Seq()
		v, err := s.Get(key)
		g.ret = e.sched.Seq()
		switch {
		case err == nil:
			g.found = true
			g.val = clone(v)
		case errors.Is(err, storage.ErrKeyNotFound):
		default:
			sim.Harnessf("Get: %v", err)
		}
		e.gets = append(e.gets, g)
		e.out.Probes["conc_get"]++
		if e.inPCS {
			e.out.Probes["get_in_flush_window"]++
		}
		e.log.Addf("[%d-%d] %s get %s -> %v %s", g.inv, g.ret, gid, hx(key), g.found, hx(g.val))
		return
	}
	prefix := o.Prefix
	if len(prefix) == 0 {
		prefix = []byte{prefixBytes[0]}
	}
	sc := sEvent{client: client, rng: storage.SeekRange{Prefix: prefix, Start: o.Start, Backwards: o.Back}}
	sc.inv = e.sched.Seq()
	if !o.Async {
		s.Seek(sc.rng, func(k, v []byte) bool {
			sc.got = append(sc.got, pair{k: clone(k), v: clone(v)})
			return true
		})
	} else {
		ctx, cancel := context.WithCancel(context.Background())
		for kv := range s.SeekAsync(ctx, sc.rng, o.Cut) {
			k := clone(kv.Key)
			if o.Cut {
				k = concat(prefix, k)
			}
			sc.got = append(sc.got, pair{k: k, v: clone(kv.Value)})
		}
		cancel()
		e.out.Probes["conc_seek_async"]++
	}
	sc.ret = e.sched.Seq()
	dir := "fwd"
	if o.Back {
		dir = "back"
		e.out.Probes["backwards_seek"]++
	}
	if len(o.Start) > 0 {
		e.out.Probes["seek_with_start"]++
	}
	sc.desc = fmt.Sprintf("scan p=%s s=%s %s async=%v cut=%v", hx(prefix), hx(o.Start), dir, o.Async, o.Cut)
	e.scans = append(e.scans, sc)
	e.out.Probes["conc_scan"]++
	e.log.Addf("[%d-%d] %s %s -> %s", sc.inv, sc.ret, gid, sc.desc, fmtPairs(sc.got))
}

func runConc(t *testing.T, p *Plan) *sim.Outcome {
	out := sim.NewOutcome()
	log := sim.NewLog(4000)
	e := &concEnv{out: out, log: log}
	c := p.Conc
	readers := c.Readers
	if len(readers) > 2 {
		readers = readers[:2]
	}
	out.Probes["mode_concurrent"]++
	log.Addf("conc pre=%d preflush=%v writer=%d readers=%d flushes=%d tape=%d", len(c.Pre), c.PreFlush, len(c.Writer), len(readers), len(c.Flushes), len(p.Tape))

	bv := sim.Bubble(t, func() {
		tape := sim.NewTape(p.Tape)
		e.sched = sim.NewSched(tape, log)
		inner := storage.NewMemoryStore()
		disk := &Disk{inner: inner, env: e}
		s := storage.NewMemCachedStore(disk)
		for _, w := range c.Pre {
			e.applyWrite(s, w, "pre")
		}
		if c.PreFlush {
			if _, err := s.Persist(); err != nil {
				sim.Harnessf("pre-flush: %v", err)
			}
			log.Addf("pre-flush")
		}
		disk.ParkSeek = true
		// lock-site parks: a client about to take the cache's mutex (Get, Put, Seek's snapshot, both phases of
		// Persist) parks first at the plan's ordinals; it holds none of the cache's locks there
		lockPark := map[int]bool{}
		for _, x := range c.LockParks {
			lockPark[x] = true
		}
		lockN := 0
		depth := map[string]int{}
		lockOn := true
		storage.VerifLockYield = func(site string) {
			if !lockOn {
				return
			}
			gid := e.cur
			switch site {
			case "unlock", "runlock":
				depth[gid]--
				return
			case "lock", "rlock":
				depth[gid]++
				if depth[gid] > 1 {
					return
				}
			}
			lockN++
			if lockPark[lockN] {
				out.Probes["parked_before_lock/"+site]++
				e.park(gid, "lk-"+site)
			}
		}
		defer func() { storage.VerifLockYield = nil }()

		spawn := func(gid string, body func()) {
			e.running++
			go func() {
				defer func() { e.running-- }()
				e.setViol(sim.Recover(body))
			}()
		}
		spawn("w", func() {
			for _, w := range c.Writer {
				e.park("w", "op")
				if e.abort {
					return
				}
				e.applyWrite(s, w, "w")
			}
		})
		spawn("f", func() {
			for _, f := range c.Flushes {
				e.park("f", "idle")
				if e.abort {
					return
				}
				ev := fEvent{sync: f.Sync}
				disk.FailNext = f.Err
				disk.ParkPCS = !f.Sync
				errsBefore := disk.Errors
				var n int
				var err error
				ev.inv = e.sched.Seq()
				if f.Sync {
					n, err = s.PersistSync()
				} else {
					n, err = s.Persist()
				}
				ev.ret = e.sched.Seq()
				disk.ParkPCS = false
				disk.FailNext = false
				fired := disk.Errors > errsBefore
				ev.failed = fired
				if fired {
					out.Faults["putchangeset_error"]++
					if !errors.Is(err, ErrInjected) {
						e.setViol(sim.Violatef("persist-error-lost", "", "the backend's PutChangeSet failed but Persist returned %v", err))
					}
				} else if err != nil {
					sim.Harnessf("Persist: %v", err)
				}
				if n > 0 {
					out.Probes["conc_flush_nonempty"]++
				}
				if f.Sync {
					out.Probes["conc_flush_sync"]++
				}
				e.flushes = append(e.flushes, ev)
				log.Addf("[%d-%d] f flush sync=%v -> %d err=%v", ev.inv, ev.ret, f.Sync, n, err != nil)
			}
		})
		for ri, ops := range readers {
			gid := fmt.Sprintf("r%d", ri+1)
			ops := ops
			ri := ri
			spawn(gid, func() {
				for _, o := range ops {
					e.park(gid, "op")
					if e.abort {
						return
					}
					e.doRead(s, ri+1, gid, o)
				}
			})
		}

		for steps := 0; ; steps++ {
			if steps > 100000 {
				sim.Harnessf("scheduler did not terminate")
			}
			parked := e.sched.Parked()
			if len(parked) == 0 {
				break
			}
			rel := e.sched.Step()
			inWindow := false
			scanning := 0
			for _, pk := range parked {
				if pk == "f@pcs" && rel != pk {
					inWindow = true
				}
				if strings.HasSuffix(pk, "@scan") && rel != pk {
					scanning++
				}
			}
			if inWindow {
				out.Probes["flush_in_window"]++
				if rel == "w@op" {
					out.Probes["write_in_flush_window"]++
				}
				if strings.HasSuffix(rel, "@scan") {
					out.Probes["lower_scan_in_flush_window"]++
				}
			}
			if scanning > 0 && (rel == "w@op" || strings.HasPrefix(rel, "f@")) {
				out.Probes["step_while_reader_in_scan"]++
			}
			if e.viol != nil {
				e.abort = true
			}
		}
		sim.Wait()
		if e.running != 0 {
			sim.Harnessf("%d client goroutines still alive after the scheduler drained", e.running)
		}
		disk.ParkSeek = false
		disk.ParkPCS = false
		disk.FailNext = false
		lockOn = false
		if e.viol != nil {
			return
		}
		if _, err := s.Persist(); err != nil {
			sim.Harnessf("final flush: %v", err)
		}
		for _, pb := range prefixBytes {
			rng := storage.SeekRange{Prefix: []byte{pb}}
			s.Seek(rng, func(k, v []byte) bool {
				e.finalTop = append(e.finalTop, pair{k: clone(k), v: clone(v)})
				return true
			})
			inner.Seek(rng, func(k, v []byte) bool {
				e.finalDisk = append(e.finalDisk, pair{k: clone(k), v: clone(v)})
				return true
			})
		}
		log.Addf("final top=%s", fmtPairs(e.finalTop))
		log.Addf("final disk=%s", fmtPairs(e.finalDisk))
	})

	v := bv
	if v == nil {
		v = e.viol
	}
	if v == nil {
		v = e.oracles()
	}
	out.Violation = v
	out.Log = log.Lines
	out.TraceHash = log.Hash()
	out.Events = log.Count()
	for _, pr := range e.finalTop {
		out.StateHash = sim.HashBytes(sim.HashBytes(out.StateHash, pr.k), pr.v)
		out.StateHash = sim.HashString(out.StateHash, ";")
	}
	out.Summary = map[string]any{"mode": "concurrent", "writer_ops": len(c.Writer), "readers": len(readers), "flushes": len(c.Flushes), "tape": len(p.Tape)}
	return out
}

// ---------------------------------------------------------------------------
// Oracles over the recorded history.

type regIn struct {
	op  int // 0 put 1 delete 2 get
	val string
}

type regOut struct {
	val   string
	found bool
}

var registerModel = porcupine.Model{
	Init: func() interface{} { return "-" },
	Step: func(state, input, output interface{}) (bool, interface{}) {
		in := input.(regIn)
		switch in.op {
		case 0:
			return true, "+" + in.val
		case 1:
			return true, "-"
		default:
			o := output.(regOut)
			st := state.(string)
			if !o.found {
				return st == "-", st
			}
			return st == "+"+o.val, st
		}
	},
	Equal: func(a, b interface{}) bool { return a.(string) == b.(string) },
}

type tlEntry struct {
	inv, ret uint64
	val      []byte
	w        int // index into writes
}

func (e *concEnv) oracles() *sim.Violation {
	// --- point reads: linearizability per key (porcupine, register model)
	perKey := map[string][]porcupine.Operation{}
	timeline := map[string][]tlEntry{}
	for wi, w := range e.writes {
		for _, kv := range w.kvs {
			in := regIn{op: 0, val: string(kv.val)}
			if kv.val == nil {
				in.op = 1
			}
			perKey[kv.key] = append(perKey[kv.key], porcupine.Operation{ClientId: 0, Input: in, Call: int64(w.inv), Output: regOut{}, Return: int64(w.ret)})
			timeline[kv.key] = append(timeline[kv.key], tlEntry{inv: w.inv, ret: w.ret, val: kv.val, w: wi})
		}
	}
	hasGet := map[string]bool{}
	for _, g := range e.gets {
		perKey[g.key] = append(perKey[g.key], porcupine.Operation{ClientId: g.client, Input: regIn{op: 2}, Call: int64(g.inv),
			Output: regOut{val: string(g.val), found: g.found}, Return: int64(g.ret)})
		hasGet[g.key] = true
	}
	var keys []string
	for k := range perKey {
		keys = append(keys, k)
	}
	sort.Strings(keys)
	for _, k := range keys {
		if !hasGet[k] {
			continue
		}
		switch porcupine.CheckOperationsTimeout(registerModel, perKey[k], 10*time.Second) {
		case porcupine.Illegal:
			var sb strings.Builder
			for _, op := range perKey[k] {
				in := op.Input.(regIn)
				o := op.Output.(regOut)
				fmt.Fprintf(&sb, " [%d-%d c%d %s %s %v/%s]", op.Call, op.Return, op.ClientId, []string{"put", "del", "get"}[in.op], hx([]byte(in.val)), o.found, hx([]byte(o.val)))
			}
			return sim.Violatef("linearizability", "", "history of key %s is not linearizable as a register:%s", hx([]byte(k)), sb.String())
		case porcupine.Unknown:
			e.out.Probes["porcupine_unknown"]++
		default:
			e.out.Probes["porcupine_ok"]++
		}
	}

	// --- scans
	stateAt := func(k string, seq uint64) []byte {
		var v []byte
		for _, t := range timeline[k] {
			if t.ret < seq {
				v = t.val
			}
		}
		return v
	}
	for _, s := range e.scans {
		// strictly monotonic, inside the range
		for i, p := range s.got {
			if !inRange(p.k, s.rng) {
				return sim.Violatef("scan-out-of-range", "", "[%d-%d] %s returned key %s outside the range: %s", s.inv, s.ret, s.desc, hx(p.k), fmtPairs(s.got))
			}
			if i > 0 {
				c := bytes.Compare(s.got[i-1].k, p.k)
				if (!s.rng.Backwards && c >= 0) || (s.rng.Backwards && c <= 0) {
					return sim.Violatef("scan-order", "", "[%d-%d] %s not strictly ordered / duplicate key: %s", s.inv, s.ret, s.desc, fmtPairs(s.got))
				}
			}
		}
		// a write has an extent of its own (it may be parked before it takes the lock): it is concurrent with the scan
		// when the two intervals overlap at all
		writerDuring := false
		for _, w := range e.writes {
			if w.inv < s.ret && w.ret > s.inv {
				writerDuring = true
			}
		}
		flushOverlap := false
		for _, f := range e.flushes {
			if f.inv < s.ret && f.ret > s.inv {
				flushOverlap = true
			}
		}
		if writerDuring {
			e.out.Probes["writer_during_scan"]++
		}
		if flushOverlap {
			e.out.Probes["flush_during_scan"]++
		}
		if !writerDuring {
			view := map[string][]byte{}
			for k := range timeline {
				if v := stateAt(k, s.inv); v != nil {
					view[k] = v
				}
			}
			want := refSeek(view, s.rng)
			if !equalPairs(s.got, want) {
				sig := "scan-exact/quiet"
				if flushOverlap {
					sig = "scan-exact/flush-only"
				}
				return sim.Violatef("scan-exact", sig, "[%d-%d] %s with no writer inside the interval (flush overlapping: %v): got %s want %s",
					s.inv, s.ret, s.desc, flushOverlap, fmtPairs(s.got), fmtPairs(want))
			}
			if flushOverlap {
				e.out.Probes["scan_flush_only_exact"]++
			}
			continue
		}
		got := map[string][]byte{}
		for _, p := range s.got {
			got[string(p.k)] = p.v
		}
		cand := map[string]struct{}{}
		for k := range timeline {
			cand[k] = struct{}{}
		}
		for k := range got {
			cand[k] = struct{}{}
		}
		for _, k := range sortedKeys(cand) {
			if !inRange([]byte(k), s.rng) {
				continue
			}
			v0 := stateAt(k, s.inv)
			allowed := [][]byte{v0}
			changed := false
			for _, t := range timeline[k] {
				if t.inv < s.ret && t.ret > s.inv {
					allowed = append(allowed, t.val)
					changed = true
				}
			}
			g, ok := got[k]
			if !changed {
				switch {
				case v0 == nil && ok:
					return sim.Violatef("scan-unchanged-key", "scan-unchanged-key/phantom", "[%d-%d] %s returned %s=%s; the key did not exist at any moment of the interval", s.inv, s.ret, s.desc, hx([]byte(k)), hx(g))
				case v0 != nil && !ok:
					return sim.Violatef("scan-unchanged-key", "scan-unchanged-key/missing", "[%d-%d] %s misses committed key %s=%s which nobody changed during the interval: %s", s.inv, s.ret, s.desc, hx([]byte(k)), hx(v0), fmtPairs(s.got))
				case v0 != nil && !bytes.Equal(g, v0):
					return sim.Violatef("scan-unchanged-key", "scan-unchanged-key/stale", "[%d-%d] %s returned %s=%s; the key held %s during the whole interval", s.inv, s.ret, s.desc, hx([]byte(k)), hx(g), hx(v0))
				}
				continue
			}
			fine := false
			for _, a := range allowed {
				if (a == nil && !ok) || (a != nil && ok && bytes.Equal(a, g)) {
					fine = true
				}
			}
			if !fine {
				return sim.Violatef("scan-impossible-value", "", "[%d-%d] %s: key %s answered %v/%s, which it held at no moment of the interval", s.inv, s.ret, s.desc, hx([]byte(k)), ok, hx(g))
			}
		}
		// batches written during the scan: all-or-nothing unless a flush overlaps too
		for wi, w := range e.writes {
			if !w.batch || !(w.inv < s.ret && w.ret > s.inv) {
				continue
			}
			nNew, nOld := 0, 0
			for _, kv := range w.kvs {
				if !inRange([]byte(kv.key), s.rng) {
					continue
				}
				others := false
				for _, t := range timeline[kv.key] {
					if t.w != wi && t.inv < s.ret && t.ret > s.inv {
						others = true
					}
				}
				old := stateAt(kv.key, w.inv)
				if others || bytes.Equal(old, kv.val) && (old == nil) == (kv.val == nil) {
					continue
				}
				g, ok := got[kv.key]
				isNew := (kv.val == nil && !ok) || (kv.val != nil && ok && bytes.Equal(g, kv.val))
				if isNew {
					nNew++
				} else {
					nOld++
				}
			}
			if nNew > 0 && nOld > 0 {
				if flushOverlap {
					e.out.Probes["mixed_batch_observed"]++
				} else {
					return sim.Violatef("scan-half-batch", "", "[%d-%d] %s saw %d keys of the batch written at [%d-%d] new and %d old although no flush overlapped the scan: %s",
						s.inv, s.ret, s.desc, nNew, w.inv, w.ret, nOld, fmtPairs(s.got))
				}
			} else if nNew+nOld >= 2 {
				e.out.Probes["batch_seen_whole_by_concurrent_scan"]++
			}
		}
	}

	// --- final state: nothing lost by any flush (failed or not)
	view := map[string][]byte{}
	for k := range timeline {
		if v := stateAt(k, ^uint64(0)); v != nil {
			view[k] = v
		}
	}
	want := refSeekAll(view)
	if !equalPairs(e.finalTop, want) {
		return sim.Violatef("final-state", "final-state/layer", "after the final flush the layer answers %s, the writes add up to %s", fmtPairs(e.finalTop), fmtPairs(want))
	}
	if !equalPairs(e.finalDisk, want) {
		return sim.Violatef("final-state", "final-state/disk", "after the final flush the bottom store holds %s, the writes add up to %s", fmtPairs(e.finalDisk), fmtPairs(want))
	}
	return nil
}
