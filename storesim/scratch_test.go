package storesim

import (
	"encoding/json"
	"fmt"
	"os"
	"sync"
	"testing"
)

func TestScratchRepro(t *testing.T) {
	raw, _ := os.ReadFile(os.Getenv("SCRATCH_PLAN"))
	var rp struct{ Plan json.RawMessage }
	if err := json.Unmarshal(raw, &rp); err != nil {
		t.Fatal(err)
	}
	var wg sync.WaitGroup
	var mu sync.Mutex
	res := map[string]int{}
	for g := 0; g < 32; g++ {
		wg.Add(1)
		go func() {
			defer wg.Done()
			for i := 0; i < 300; i++ {
				var p Plan
				_ = json.Unmarshal(rp.Plan, &p)
				out := runSeq(&p)
				k := "ok"
				if out.Violation != nil {
					k = out.Violation.Msg
				}
				mu.Lock()
				res[k]++
				mu.Unlock()
			}
		}()
	}
	wg.Wait()
	for k, v := range res {
		fmt.Println(v, k)
	}
}
