package storesim

import (
	"testing"

	"verif/sim"
)

func TestEngine(t *testing.T) { sim.Main(t, Engine{}) }
