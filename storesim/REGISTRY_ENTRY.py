"""Registration of property C09 (engine storesim) in the shape of registry.py's REGISTRY entries.

Paste as REGISTRY["C09"] = ENTRY and add "storesim" to ENGINES.
"""

ENTRY = {
    "engine": "storesim",
    "level": "exploration",
    "level_text": ("seeded search over operation sequences (sequential mode) and over operation sequences x goroutine "
                   "interleavings at the flush and scan seams (concurrent mode, park/release inside a synctest bubble) "
                   "against the real layered store on the three real backends, every answer compared with a trivial "
                   "ordered-map reference, point-read histories checked with porcupine; shrinking and exact replay; "
                   "sampled, not exhaustive"),
    "level_note": ("trusted: the overlay-of-Go-maps reference and the reading of SeekRange (store.go:53-77) in "
                   "storesim/model.go, the interval rules in storesim/conc.go, porcupine v1.3.0; concurrency is explored "
                   "only at the two seams the bottom store offers (inside PutChangeSet of a non-sync Persist, between "
                   "layer snapshot and lower scan), never inside a locked region"),
    "design_ref": "DESIGN.md section 2, C09",
    "technique": ("deterministic simulation: seeded operation/fault/schedule sequences with shrinking and replay (rapid), "
                  "park/release scheduler under testing/synctest, reference-model and linearizability (porcupine) oracles"),
    "budget": {"quick": 60, "thorough": 1800},
    "chunk": 100,
    "shrink_s": 30,
    "det_runs": 300,
    "rule": ("one run = one rapid-drawn plan. Sequential plans (3 of 4): backend MemoryStore / BoltDB file / LevelDB dir, "
             "a stack of 1-4 cache layers built as dao.NewSimple / GetWrapped / GetPrivate build them, up to 60 (thorough "
             "120) operations: Put/Delete/PutChangeSet on any writable layer or the backend, dao.PutStorageItem/"
             "DeleteStorageItem/GetStorageItem, Get, Seek / SeekAsync (prefix cut on/off, cancel after n) / dao.Seek / "
             "dao.SeekAsync / interop storage Iterator (Find option sets) with prefix 1-3 bytes, start, direction, "
             "SearchDepth 0-4 and early stop, Persist / PersistSync / PersistPrivate of any layer with optional injected "
             "PutChangeSet error (one asynchronous flush of the bottom layer in six overlaps with another goroutine's Put + PersistSync on "
             "that layer, started when the batch has reached the backend), push/discard of layers, SeekGC on the backend (one pass in four with another goroutine committing a "
             "fresh value for the key the pass is at: the commit must survive), clean and dirty close+reopen of disk "
             "backends; after every flush-like operation every layer view is scanned completely in both directions, every "
             "key ever written is read, and the last four range queries are asked again. Concurrent plans (1 of 4): a "
             "writer, a flusher (sync / non-sync / failing) and 1-2 readers (Get, Seek, SeekAsync) over one MemCachedStore "
             "on simdisk(MemoryStore), released one at a time by the tape. Keys: prefix byte 0x70/0x71/0x03 followed by "
             "0-4 bytes of {00,01,7f,ff} (contract-storage keys 0x70|id|0-2 bytes for the dao calls; in 'wide' plans, "
             "1 of 5, also the bytes 0x70/0x71 and keys derived by repeating the prefix byte). A run is non-trivial "
             "when at least one probe or fault fired; distinct = distinct hash of the complete operation/result log"),
    "probes": ["backend_mem", "backend_bolt", "backend_level", "private_layer", "private_persisted", "depth4",
               "write_below_top", "changeset", "empty_value", "tombstone_hides_lower", "layer_discarded",
               "seek", "seek_nonempty", "backwards_seek", "seek_with_start", "backwards_start_has_extension_key",
               "depth_limited", "depth_excludes_backend", "seek_async", "seek_async_cancel", "prefix_cut", "dao_seek",
               "find_iterator", "get", "flush_to_layer", "flush_to_backend", "reasked_after_flush", "seekgc",
               "seekgc_deleted", "seekgc_with_concurrent_commit", "persist_with_overlapping_sync_flush", "clean_reopen", "dirty_reopen", "putchangeset_error", "wide_alphabet",
               "mode_concurrent", "flush_in_window", "write_in_flush_window", "get_in_flush_window",
               "lower_scan_in_flush_window", "reader_parked_in_scan", "step_while_reader_in_scan", "writer_during_scan",
               "flush_during_scan", "scan_flush_only_exact", "writer_batch", "batch_seen_whole_by_concurrent_scan",
               "mixed_batch_observed", "conc_flush_sync", "conc_flush_nonempty", "conc_seek_async", "porcupine_ok"],  # porcupine_unknown is counted too; expected to stay 0
    "components": {
        "real": ["pkg/core/storage.MemCachedStore (Get/Put/Delete/PutChangeSet/Seek/SeekAsync/Persist/PersistSync/"
                 "PersistPrivate/Close, shared and private)",
                 "pkg/core/storage.MemoryStore, BoltDBStore (real bbolt file), LevelDBStore (real goleveldb directory): "
                 "Get/PutChangeSet/Seek/SeekGC/Close and reopen",
                 "pkg/core/dao.Simple: NewSimple/GetWrapped/GetPrivate/Persist/PersistSync/PersistPrivate/Seek/SeekAsync/"
                 "PutStorageItem/DeleteStorageItem/GetStorageItem",
                 "pkg/core/interop/storage.Iterator (Next/Value with KeysOnly, RemovePrefix, ValuesOnly, Backwards)"],
        "stub": ["storesim.Disk (simdisk): pass-through storage.Store around the real backend adding whole-batch "
                 "PutChangeSet errors, one bookkeeping record per batch, counters and the two park points",
                 "System.Storage.Find itself (VM, interop.Context) is not run: the harness builds the Iterator from "
                 "dao.SeekAsync the way findWithContext does; Deserialize/Pick options are not exercised"],
    },
    "assumptions": [
        "expected meaning of SeekRange taken from the comments in store.go:53-77: keys with prefix Prefix whose remainder "
        "is >= Start (forwards) / <= Start (backwards), ascending / descending; SearchDepth d>0 = the d topmost cache "
        "layers, the backend only when d exceeds their number",
        "private (unlocked) layers follow dao's stack discipline: written and flushed only while on top of the stack, "
        "dead after Persist/PersistPrivate; shared layers are written and flushed at any depth; no use of a private layer "
        "while a SeekAsync over it is in flight (find.go:128-133)",
        "values are never nil (Put(key, nil) is a deletion by construction of MemCachedStore.Put); empty values are used",
        "concurrent mode: bottom store = MemoryStore only; one goroutine runs at a time; writer operations, Get and "
        "PersistSync are atomic steps (they hold a layer lock throughout); SearchDepth 0 only (a depth-limited scan "
        "legitimately changes its answer when a flush moves data out of the searched layers)",
        "a scan overlapping both a writer's batch and its flush may see part of the batch (memcached_store.go:191-193); "
        "counted as probe mixed_batch_observed, raised only when no flush overlaps the scan",
        "disk fault model: whole-batch PutChangeSet error and close/reopen at batch boundaries; no torn batches, no fsync "
        "loss: database directories live on /dev/shm when it exists (VERIF_TMP overrides)",
        "every batch written to the backend carries one live bookkeeping record (key 0xf0, fresh value), as every real "
        "flush carries the current-block record. Without it (VERIF_STORESIM_BARE_BATCHES=1) the tiny batches let goleveldb "
        "compact whole level-0 tables away, reuse their file numbers (goleveldb table.go:497 reuseFileNum) and serve "
        "blocks of the removed file from its block cache: a committed batch stays invisible to Get/Seek until reopen, "
        "timing dependent (about 1% of such runs under load). Reported as a finding about the goleveldb version pinned "
        "by neo-go; not reachable with production-shaped batches, so not part of the C09 verdict",
        "number of pairs still delivered after cancelling a SeekAsync depends on a select race inside neo-go; they are "
        "checked (must continue the reference sequence) but not logged",
    ],
}
