// Package storesim decides property C09: the layered key-value store of
// neo-go (stacks of storage.MemCachedStore over MemoryStore / BoltDB /
// LevelDB, as dao.Simple builds them) behaves as one ordered map.
//
// Sequential mode (seq.go) drives a stack of 1-4 real layers over a real
// backend with rapid-drawn operations and compares every answer with a
// trivial overlay of Go maps. Concurrent mode (conc.go) runs a writer, a
// flusher and 1-2 readers as real goroutines inside a synctest bubble; they
// park at the seams of simdisk.go and are released one at a time by the tape.
package storesim

import (
	"encoding/json"
	"testing"

	"pgregory.net/rapid"

	"verif/sim"
)

// Operation kinds of the sequential mode (small = simple).
const (
	opPut = iota
	opDelete
	opGet
	opSeek
	opBatch
	opPersist
	opPush
	opDiscard
	opGC
	opReopen
)

// Seek interfaces ("via").
const (
	viaSeek      = iota // MemCachedStore.Seek / backend Seek
	viaSeekAsync        // MemCachedStore.SeekAsync (with or without prefix cut)
	viaDaoSeek          // dao.Simple.Seek (prefix trimmed)
	viaDaoAsync         // dao.Simple.SeekAsync (prefix cut)
	viaFind             // interop/storage.Iterator over dao.Simple.SeekAsync (System.Storage.Find)
)

// KV is one entry of a change set.
type KV struct {
	K     HexBytes `json:"k"`
	Del   bool     `json:"del,omitempty"`
	Empty bool     `json:"empty,omitempty"`
}

// Op is one operation of the sequential mode.
type Op struct {
	Kind int `json:"kind"`
	// Layer: 0 = top layer, 1 = the one below ... ; for reads and change sets
	// one past the bottom cache layer means the backend itself.
	Layer int `json:"layer,omitempty"`
	// Dao: the key/prefix is a contract storage key (id ID, key Key) handled
	// through dao.Simple; otherwise Key/Prefix are raw store keys.
	Dao   bool     `json:"dao,omitempty"`
	ID    int      `json:"id,omitempty"`
	Key   HexBytes `json:"key,omitempty"`
	Empty bool     `json:"empty,omitempty"` // put an empty (non-nil) value
	Batch []KV     `json:"batch,omitempty"`

	Prefix HexBytes `json:"prefix,omitempty"`
	Start  HexBytes `json:"start,omitempty"`
	Back   bool     `json:"back,omitempty"`
	Depth  int      `json:"depth,omitempty"`
	Via    int      `json:"via,omitempty"`
	Cut    bool     `json:"cut,omitempty"`
	Stop   int      `json:"stop,omitempty"` // stop / cancel after this many pairs (0 = run to the end)
	Opts   int      `json:"opts,omitempty"` // Find: 0 default, 1 KeysOnly, 2 RemovePrefix, 3 KeysOnly|RemovePrefix, 4 ValuesOnly

	Variant int  `json:"variant,omitempty"` // persist: 0 Persist, 1 PersistSync, 2 PersistPrivate
	Fail    bool `json:"fail,omitempty"`    // persist: the backend's PutChangeSet fails

	Private bool   `json:"private,omitempty"` // push: GetPrivate instead of GetWrapped
	Keep    uint32 `json:"keep,omitempty"`    // gc: bit i set = drop the i-th visited pair
	Dirty   bool   `json:"dirty,omitempty"`   // reopen without persisting the layers
	Overlap int    `json:"overlap,omitempty"` // persist: a second goroutine puts a key and calls PersistSync while the flush writes to the backend
	Race    int    `json:"race,omitempty"`    // gc: another goroutine commits a value for the Race-th visited key while the pass is there
}

// WOp is one writer operation of the concurrent mode.
type WOp struct {
	Kind  int      `json:"kind"` // 0 put 1 delete 2 batch
	Key   HexBytes `json:"key,omitempty"`
	Batch []KV     `json:"batch,omitempty"`
}

// ROp is one reader operation of the concurrent mode.
type ROp struct {
	Kind   int      `json:"kind"` // 0 get 1 seek
	Key    HexBytes `json:"key,omitempty"`
	Prefix HexBytes `json:"prefix,omitempty"`
	Start  HexBytes `json:"start,omitempty"`
	Back   bool     `json:"back,omitempty"`
	Async  bool     `json:"async,omitempty"`
	Cut    bool     `json:"cut,omitempty"`
}

// FOp is one flush of the concurrent mode.
type FOp struct {
	Sync bool `json:"sync,omitempty"`
	Err  bool `json:"err,omitempty"`
}

// Conc is the workload of the concurrent mode.
type Conc struct {
	Pre      []WOp   `json:"pre,omitempty"`
	PreFlush bool    `json:"preflush,omitempty"`
	Writer   []WOp   `json:"writer,omitempty"`
	Readers  [][]ROp `json:"readers"`
	Flushes  []FOp   `json:"flushes,omitempty"`
	// LockParks: ordinals (counted over all client goroutines) of the write cache's lock acquisitions at which the
	// acquiring goroutine parks first, holding nothing (build-tag hook storage.VerifLockYield)
	LockParks []int `json:"lock_parks,omitempty"`
}

// Plan is a whole run.
type Plan struct {
	Mode    int      `json:"mode"`             // 0 sequential, 1 concurrent
	Backend int      `json:"backend"`          // 0 memory 1 boltdb 2 leveldb (sequential mode)
	Layers  []int    `json:"layers,omitempty"` // layers above the bottom cache layer: 0 shared (GetWrapped), 1 private (GetPrivate)
	Wide    bool     `json:"wide,omitempty"`   // key bytes may also be 0x70/0x71 (see REGISTRY_ENTRY.py)
	Ops     []Op     `json:"ops,omitempty"`
	Conc    *Conc    `json:"conc,omitempty"`
	Tape    []uint32 `json:"tape,omitempty"`
}

// Engine implements sim.Engine.
type Engine struct{}

func (Engine) Name() string { return "storesim" }

func (Engine) Decode(raw []byte) (any, error) {
	var p Plan
	err := json.Unmarshal(raw, &p)
	return &p, err
}

var prefixBytes = []byte{0x70, 0x71, 0x03}
var alphabet = []byte{0x00, 0x01, 0x7f, 0xff, 0x70, 0x71}

type drawer struct {
	rt   *rapid.T
	wide bool
	prev *[]HexBytes // wide mode: keys drawn so far
}

func (d drawer) n(lo, hi int, label string) int { return rapid.IntRange(lo, hi).Draw(d.rt, label) }

var (
	keyLens    = []int{0, 0, 1, 1, 1, 1, 1, 1, 1, 2, 2, 2, 2, 2, 2, 2, 3, 3, 3, 4}
	shortLens  = []int{0, 1, 1, 1, 1, 1, 1, 2, 2, 2}
	prefixLens = []int{0, 0, 0, 0, 0, 0, 0, 1, 1, 2}
	startLens  = []int{0, 0, 0, 1, 1, 1, 1, 2, 2, 3}
	prefixPick = []byte{0x70, 0x70, 0x70, 0x70, 0x70, 0x71, 0x71, 0x03, 0x03, 0x03}
)

// tail draws a run of alphabet bytes whose length comes from a weight table
// (index 0 = simplest).
func (d drawer) tail(lens []int, label string) []byte {
	l := lens[d.n(0, len(lens)-1, label+"len")]
	hi := 3
	if d.wide {
		hi = 5
	}
	b := make([]byte, 0, l)
	for i := 0; i < l; i++ {
		b = append(b, alphabet[d.n(0, hi, label)])
	}
	return b
}

func (d drawer) pfx() byte { return prefixPick[d.n(0, len(prefixPick)-1, "pfx")] }

// key: one prefix byte followed by 0..4 alphabet bytes.
func (d drawer) key(lens []int) HexBytes {
	// Wide mode also derives keys from earlier ones by repeating the prefix
	// byte in front (k -> k[0] || k): such a key, once a 1-byte seek prefix is
	// trimmed from it, reads like another stored key.
	if d.wide && d.prev != nil && len(*d.prev) > 0 && d.n(0, 2, "derive") == 2 {
		base := (*d.prev)[d.n(0, len(*d.prev)-1, "base")]
		if len(base) <= 5 {
			k := append(HexBytes{base[0]}, base...)
			*d.prev = append(*d.prev, k)
			return k
		}
	}
	k := HexBytes(append([]byte{d.pfx()}, d.tail(lens, "kb")...))
	if d.prev != nil {
		*d.prev = append(*d.prev, k)
	}
	return k
}

// list draws a slice through rapid's own slice generator, so that the shrinker
// can delete elements. rapid's slices average only about five elements, so
// longer lists are the concatenation of several independently drawn chunks
// (each may be empty; min applies to the first chunk).
func list[V any](d drawer, label string, chunks, min, maxPer int, elem func(d drawer) V) []V {
	g := rapid.Custom(func(t *rapid.T) V {
		return elem(drawer{rt: t, wide: d.wide, prev: d.prev})
	})
	var res []V
	for i := 0; i < chunks; i++ {
		m := 0
		if i == 0 {
			m = min
		}
		res = append(res, rapid.SliceOfN(g, m, maxPer).Draw(d.rt, label)...)
	}
	return res
}

func (d drawer) batch(lens []int, minN int) []KV {
	return list(d, "batch", 1, minN, 4, func(d drawer) KV {
		kv := KV{K: d.key(lens)}
		x := d.n(0, 9, "bkind")
		kv.Del = x >= 7
		kv.Empty = x == 6
		return kv
	})
}

// Draw draws a whole plan.
func (Engine) Draw(rt *rapid.T, prop, tier string) any {
	p := &Plan{}
	d := drawer{rt: rt}
	if d.n(0, 3, "mode") == 3 {
		p.Mode = 1
		drawConc(d, p, tier)
		return p
	}
	p.Backend = d.n(0, 2, "backend")
	p.Layers = list(d, "layers", 1, 0, 3, func(d drawer) int { return d.n(0, 1, "lkind") })
	p.Wide = d.n(0, 4, "wide") == 4
	d.wide = p.Wide
	d.prev = &[]HexBytes{}
	chunks := 6 // up to 60 operations, about 25 on average
	if tier == "thorough" {
		chunks = 12
	}
	p.Ops = list(d, "ops", chunks, 0, 10, drawOp)
	return p
}

func drawOp(d drawer) Op {
	o := Op{}
	// rapid's integers lean towards small values, so the two kinds that matter
	// most come first; 0 (the shrink target) is a plain Put.
	x := d.n(0, 99, "kind")
	switch {
	case x < 16:
		o.Kind = opPut
	case x < 46:
		o.Kind = opSeek
	case x < 54:
		o.Kind = opDelete
	case x < 62:
		o.Kind = opGet
	case x < 72:
		o.Kind = opBatch
	case x < 87:
		o.Kind = opPersist
	case x < 91:
		o.Kind = opPush
	case x < 93:
		o.Kind = opDiscard
	case x < 97:
		o.Kind = opGC
	default:
		o.Kind = opReopen
	}
	o.Layer = d.n(0, 4, "layer")
	switch o.Kind {
	case opPut, opDelete, opGet:
		if d.n(0, 6, "dao") == 6 {
			o.Dao = true
			o.ID = d.n(0, 1, "id")
			o.Key = d.tail(shortLens, "sub")
		} else {
			o.Key = d.key(keyLens)
		}
		if o.Kind == opPut {
			o.Empty = d.n(0, 9, "empty") == 9
		}
	case opBatch:
		o.Batch = d.batch(keyLens, 1)
	case opSeek:
		o.Back = d.n(0, 1, "back") == 1
		o.Start = d.tail(startLens, "start")
		o.Depth = d.n(0, 6, "depth")
		if o.Depth > 4 {
			o.Depth = 0
		}
		o.Stop = d.n(0, 7, "stop")
		if o.Stop > 3 {
			o.Stop = 0
		}
		v := d.n(0, 9, "via")
		switch {
		case v < 4:
			o.Via = viaSeek
		case v < 7:
			o.Via = viaSeekAsync
			o.Cut = d.n(0, 1, "cut") == 1
		case v == 7:
			o.Via = viaDaoSeek
		case v == 8:
			o.Via = viaDaoAsync
		default:
			o.Via = viaFind
			o.Opts = d.n(0, 4, "opts")
		}
		if o.Via >= viaDaoSeek {
			o.Dao = true
			o.ID = d.n(0, 1, "id")
			o.Prefix = d.tail(prefixLens, "subp")
		} else {
			o.Prefix = append([]byte{d.pfx()}, d.tail(prefixLens, "pb")...)
		}
	case opPersist:
		o.Variant = d.n(0, 2, "variant")
		o.Fail = d.n(0, 7, "fail") == 7
		if d.n(0, 5, "overlap") == 5 {
			o.Overlap = 1
		}
	case opPush:
		o.Private = d.n(0, 1, "private") == 1
	case opGC:
		o.Prefix = append([]byte{d.pfx()}, d.tail(prefixLens, "pb")...)
		o.Back = d.n(0, 1, "back") == 1
		o.Start = d.tail(prefixLens, "start")
		o.Keep = uint32(d.n(0, 255, "keep"))
		o.Stop = d.n(0, 5, "stop")
		if o.Stop > 3 {
			o.Stop = 0
		}
		if d.n(0, 3, "race") == 3 {
			o.Race = d.n(1, 3, "raceat")
		}
	case opReopen:
		o.Dirty = d.n(0, 1, "dirty") == 1
	}
	return o
}

var (
	concLens       = []int{0, 1, 1, 1, 1, 1, 2, 2}
	concPrefixLens = []int{0, 0, 0, 0, 0, 1}
	concStartLens  = []int{0, 0, 0, 1, 1, 2}
)

func drawConc(d drawer, p *Plan, tier string) {
	c := &Conc{}
	p.Conc = c
	big := tier == "thorough"
	wop := func(d drawer) WOp {
		x := d.n(0, 9, "wkind")
		switch {
		case x < 5:
			return WOp{Kind: 0, Key: d.key(concLens)}
		case x < 7:
			return WOp{Kind: 1, Key: d.key(concLens)}
		default:
			return WOp{Kind: 2, Batch: d.batch(concLens, 2)}
		}
	}
	rop := func(d drawer) ROp {
		if d.n(0, 3, "rkind") == 3 {
			return ROp{Kind: 0, Key: d.key(concLens)}
		}
		o := ROp{Kind: 1}
		o.Prefix = append([]byte{d.pfx()}, d.tail(concPrefixLens, "pb")...)
		o.Start = d.tail(concStartLens, "start")
		o.Back = d.n(0, 1, "back") == 1
		o.Async = d.n(0, 2, "async") == 2
		if o.Async {
			o.Cut = d.n(0, 1, "cut") == 1
		}
		return o
	}
	c.Pre = list(d, "pre", 1, 0, 6, wop)
	c.PreFlush = d.n(0, 1, "preflush") == 1
	wchunks := 2
	if big {
		wchunks = 3
	}
	c.Writer = list(d, "writer", wchunks, 0, 5, wop)
	c.Readers = list(d, "readers", 1, 1, 2, func(d drawer) []ROp {
		return list(d, "rops", 1, 1, 4, rop)
	})
	c.Flushes = list(d, "flushes", 1, 0, 3, func(d drawer) FOp {
		return FOp{Sync: d.n(0, 4, "sync") == 4, Err: d.n(0, 5, "ferr") == 5}
	})
	c.LockParks = list(d, "lockparks", 1, 0, 4, func(d drawer) int { return d.n(1, 40, "lockpark") })
	p.Tape = list(d, "tape", 6, 0, 10, func(d drawer) uint32 { return uint32(d.n(0, 7, "tape")) })
}

// Run executes one plan.
func (Engine) Run(t *testing.T, prop string, planAny any) *sim.Outcome {
	p := planAny.(*Plan)
	if p.Mode == 1 && p.Conc != nil {
		return runConc(t, p)
	}
	return runSeq(p)
}
