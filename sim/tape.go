package sim

import (
	"fmt"
	"hash/fnv"
)

// Tape is the only source of dynamic decisions inside a run. It is drawn
// (search mode) or loaded (replay mode) before the run starts; inside the run
// every decision consumes one cell modulo the number of options. An exhausted
// tape answers 0, which by convention is always the simplest option (no fault,
// FIFO, first choice), so shortening or zeroing a tape simplifies a run.
type Tape struct {
	Data []uint32
	pos  int
	// Used counts cells consumed, including those past the end.
	Used int
	// Tail, when non-zero, seeds a splitmix64 stream that answers once the
	// explicit cells are exhausted (long runs need more decisions than a
	// shrinkable tape can hold). Tail = 0 keeps the "exhausted = 0" rule.
	Tail uint64
}

// NewTape wraps data.
func NewTape(data []uint32) *Tape { return &Tape{Data: data} }

// Choose returns a value in [0,n). n<=1 consumes nothing.
func (t *Tape) Choose(n int) int {
	if n <= 1 {
		return 0
	}
	t.Used++
	if t.pos >= len(t.Data) {
		if t.Tail == 0 {
			return 0
		}
		t.Tail += 0x9e3779b97f4a7c15
		z := t.Tail
		z = (z ^ (z >> 30)) * 0xbf58476d1ce4e5b9
		z = (z ^ (z >> 27)) * 0x94d049bb133111eb
		z ^= z >> 31
		return int(z % uint64(n))
	}
	v := t.Data[t.pos]
	t.pos++
	return int(v % uint32(n))
}

// Chance returns true with probability num/den (never when the tape is exhausted).
func (t *Tape) Chance(num, den int) bool {
	if num <= 0 {
		return false
	}
	// 0 must map to "false": shift so that the highest residues are the hits.
	return t.Choose(den) >= den-num
}

// Log is the event log of one run. Appending never draws from the tape and
// never reads a clock; the log (not only the verdict) must be identical across
// replays of the same plan.
type Log struct {
	Lines []string
	max   int
	h     uint64
	n     int
}

// NewLog keeps at most max lines verbatim (all lines are folded into the hash).
func NewLog(max int) *Log { return &Log{max: max, h: 1469598103934665603} }

// Addf appends one event.
func (l *Log) Addf(format string, args ...any) {
	s := fmt.Sprintf(format, args...)
	hh := fnv.New64a()
	hh.Write([]byte(s))
	l.h = (l.h ^ hh.Sum64()) * 1099511628211
	l.n++
	if len(l.Lines) < l.max {
		l.Lines = append(l.Lines, s)
	}
}

// Hash is the trace hash of everything logged so far.
func (l *Log) Hash() uint64 { return l.h }

// Count is the number of events logged.
func (l *Log) Count() int { return l.n }

// Tail returns the last n kept lines.
func (l *Log) Tail(n int) []string {
	if len(l.Lines) <= n {
		return l.Lines
	}
	return l.Lines[len(l.Lines)-n:]
}

// HashBytes folds bytes into a 64-bit FNV-1a hash.
func HashBytes(h uint64, b []byte) uint64 {
	if h == 0 {
		h = 1469598103934665603
	}
	for _, c := range b {
		h = (h ^ uint64(c)) * 1099511628211
	}
	return h
}

// HashString folds a string into a 64-bit FNV-1a hash.
func HashString(h uint64, s string) uint64 { return HashBytes(h, []byte(s)) }
