// Package sim is the deterministic-simulation kernel shared by all engines.
package sim
