package sim

import (
	"sort"
	"sync"
	"testing/synctest"
)

// Sched is the park/release scheduler (DESIGN.md 1.4): client goroutines are
// real goroutines that park at seam points the simulator owns and which the
// code under test reaches without holding any of its own locks. The driver
// releases exactly one parked goroutine at a time, waits for quiescence and
// chooses the next one from the tape. It must be used inside a Bubble.
type Sched struct {
	Tape *Tape
	Log  *Log

	mu     sync.Mutex
	parked []*parked
	seq    uint64
}

type parked struct {
	gid   string
	point string
	ch    chan struct{}
}

// NewSched creates a scheduler.
func NewSched(tape *Tape, log *Log) *Sched { return &Sched{Tape: tape, Log: log} }

// Park blocks the calling goroutine at seam point `point` until the driver
// releases it. gid must be unique among simultaneously parked goroutines.
// Never call it with a lock held that another client goroutine may need.
func (s *Sched) Park(gid, point string) {
	p := &parked{gid: gid, point: point, ch: make(chan struct{})}
	s.mu.Lock()
	s.parked = append(s.parked, p)
	s.mu.Unlock()
	<-p.ch
}

// Seq returns the next global event sequence number (for history stamps).
func (s *Sched) Seq() uint64 {
	s.mu.Lock()
	defer s.mu.Unlock()
	s.seq++
	return s.seq
}

// Parked returns the sorted list of "gid@point" currently parked (after quiescence).
func (s *Sched) Parked() []string {
	synctest.Wait()
	s.mu.Lock()
	defer s.mu.Unlock()
	r := make([]string, 0, len(s.parked))
	for _, p := range s.parked {
		r = append(r, p.gid+"@"+p.point)
	}
	sort.Strings(r)
	return r
}

// Step waits for quiescence, then releases one parked goroutine chosen by the
// tape (candidates sorted by gid, so the arrival order is irrelevant) and
// waits for quiescence again. It returns the released "gid@point", or "" when
// nothing is parked.
func (s *Sched) Step() string {
	synctest.Wait()
	s.mu.Lock()
	if len(s.parked) == 0 {
		s.mu.Unlock()
		return ""
	}
	sort.Slice(s.parked, func(i, j int) bool { return s.parked[i].gid < s.parked[j].gid })
	i := s.Tape.Choose(len(s.parked))
	p := s.parked[i]
	s.parked = append(s.parked[:i], s.parked[i+1:]...)
	s.mu.Unlock()
	if s.Log != nil {
		s.Log.Addf("release %s@%s", p.gid, p.point)
	}
	close(p.ch)
	synctest.Wait()
	return p.gid + "@" + p.point
}

// ReleaseOnly is Step restricted to goroutines for which filter returns true.
func (s *Sched) ReleaseOnly(filter func(gid, point string) bool) string {
	synctest.Wait()
	s.mu.Lock()
	sort.Slice(s.parked, func(i, j int) bool { return s.parked[i].gid < s.parked[j].gid })
	var idx []int
	for i, p := range s.parked {
		if filter(p.gid, p.point) {
			idx = append(idx, i)
		}
	}
	if len(idx) == 0 {
		s.mu.Unlock()
		return ""
	}
	i := idx[s.Tape.Choose(len(idx))]
	p := s.parked[i]
	s.parked = append(s.parked[:i], s.parked[i+1:]...)
	s.mu.Unlock()
	if s.Log != nil {
		s.Log.Addf("release %s@%s", p.gid, p.point)
	}
	close(p.ch)
	synctest.Wait()
	return p.gid + "@" + p.point
}

// Drain releases parked goroutines (tape order) until none is left or max steps were taken.
func (s *Sched) Drain(max int) int {
	n := 0
	for n < max {
		if s.Step() == "" {
			break
		}
		n++
	}
	return n
}
