package sim

import (
	"encoding/json"
	"flag"
	"fmt"
	"os"
	"regexp"
	"runtime"
	"runtime/debug"
	"strconv"
	"strings"
	"sync"
	"testing"
	"time"

	"pgregory.net/rapid"
)

// Violation is one failed oracle.
type Violation struct {
	// Class is the oracle that failed (stable identifier, used to keep
	// shrinking on the same violation).
	Class string `json:"class"`
	// Sig is Class plus the minimal distinguishing facts; known_findings.json
	// is matched against it.
	Sig string `json:"sig"`
	Msg string `json:"msg"`
}

func (v *Violation) Error() string { return v.Sig + ": " + v.Msg }

// Violatef builds a violation.
func Violatef(class, sig, format string, args ...any) *Violation {
	if sig == "" {
		sig = class
	}
	return &Violation{Class: class, Sig: sig, Msg: fmt.Sprintf(format, args...)}
}

// Outcome is what one simulated run reports.
type Outcome struct {
	Violation *Violation     `json:"violation,omitempty"`
	Faults    map[string]int `json:"faults,omitempty"` // faults that actually fired, by kind
	Probes    map[string]int `json:"probes,omitempty"` // rare-condition counters
	SimTimeMS int64          `json:"sim_ms"`           // simulated time covered
	Events    int            `json:"events"`           // driver events / operations executed
	TraceHash uint64         `json:"trace"`            // hash of the decision/event sequence
	StateHash uint64         `json:"state"`            // hash of the final observable state
	Summary   any            `json:"summary,omitempty"`
	Log       []string       `json:"-"`
	// Known counts violations that matched a known finding (not raised).
	Known map[string]int `json:"known,omitempty"`
}

// NewOutcome allocates the maps.
func NewOutcome() *Outcome {
	return &Outcome{Faults: map[string]int{}, Probes: map[string]int{}, Known: map[string]int{}}
}

// Engine is one simulator. Draw is only called outside a bubble; Run must be
// a pure function of the plan and the code.
type Engine interface {
	// Name of the engine (directory name).
	Name() string
	// Draw draws a JSON-serialisable plan (configuration, workload, fault
	// plan and tape) for property prop from rapid.
	Draw(rt *rapid.T, prop, tier string) any
	// Decode parses a plan back from JSON.
	Decode(raw []byte) (any, error)
	// Run executes one plan and evaluates the oracles of property prop.
	Run(t *testing.T, prop string, plan any) *Outcome
}

// Replay is the replay file format.
type Replay struct {
	Property string          `json:"property"`
	Engine   string          `json:"engine"`
	Class    string          `json:"class"`
	Sig      string          `json:"sig"`
	Msg      string          `json:"msg"`
	Seed     uint64          `json:"seed"`
	Plan     json.RawMessage `json:"plan"`
	Trace    []string        `json:"trace,omitempty"`
	Repro    string          `json:"repro,omitempty"`
}

// KnownFinding is one entry of known_findings.json.
type KnownFinding struct {
	Property string `json:"property"`
	Status   string `json:"status"` // finding | fixed
	Sig      string `json:"signature"`
	Commit   string `json:"commit,omitempty"`
	What     string `json:"what"`
}

type shimTB struct {
	mu     sync.Mutex
	failed bool
	msgs   []string
	name   string
}

type failNow struct{}

func (s *shimTB) Helper()      {}
func (s *shimTB) Name() string { return s.name }
func (s *shimTB) Logf(f string, a ...any) {
}
func (s *shimTB) Log(a ...any)             {}
func (s *shimTB) Skipf(f string, a ...any) { panic("skip") }
func (s *shimTB) Skip(a ...any)            { panic("skip") }
func (s *shimTB) SkipNow()                 { panic("skip") }
func (s *shimTB) Errorf(f string, a ...any) {
	s.mu.Lock()
	s.failed = true
	s.msgs = append(s.msgs, fmt.Sprintf(f, a...))
	s.mu.Unlock()
}
func (s *shimTB) Error(a ...any)            { s.Errorf("%s", fmt.Sprint(a...)) }
func (s *shimTB) Fatalf(f string, a ...any) { s.Errorf(f, a...); s.FailNow() }
func (s *shimTB) Fatal(a ...any)            { s.Error(a...); s.FailNow() }
func (s *shimTB) FailNow()                  { s.Fail(); panic(failNow{}) }
func (s *shimTB) Fail()                     { s.mu.Lock(); s.failed = true; s.mu.Unlock() }
func (s *shimTB) Failed() bool              { s.mu.Lock(); defer s.mu.Unlock(); return s.failed }

func envInt(name string, def int64) int64 {
	if v := os.Getenv(name); v != "" {
		if n, err := strconv.ParseInt(v, 10, 64); err == nil {
			return n
		}
	}
	return def
}

func mix(a, b uint64) uint64 {
	x := a ^ (b+0x9e3779b97f4a7c15)*0xbf58476d1ce4e5b9
	x ^= x >> 30
	x *= 0x94d049bb133111eb
	x ^= x >> 31
	if x == 0 {
		x = 1
	}
	return x
}

// agg is the per-worker aggregate written to VERIF_OUT (rewritten every few
// seconds, so a crashing worker loses little).
type agg struct {
	path       string
	last       time.Time
	Runs       int              `json:"runs"`
	ShrinkRuns int              `json:"shrink_runs"`
	SimMS      int64            `json:"sim_ms"`
	Events     int64            `json:"events"`
	Faults     map[string]int   `json:"faults"`
	Probes     map[string]int   `json:"probes"`
	Known      map[string]int   `json:"known"`
	NonTrivial []uint64         `json:"nontrivial"` // distinct trace hashes of non-trivial runs (capped)
	Traces     int              `json:"traces"`     // distinct trace hashes (capped)
	States     int              `json:"states"`     // distinct final-state hashes (capped)
	Samples    []map[string]any `json:"samples"`
	nt, tr, st map[uint64]struct{}
}

const aggCap = 300000

func newAgg(path string) *agg {
	return &agg{path: path, last: time.Now(), Faults: map[string]int{}, Probes: map[string]int{}, Known: map[string]int{},
		nt: map[uint64]struct{}{}, tr: map[uint64]struct{}{}, st: map[uint64]struct{}{}}
}

func (a *agg) add(seed uint64, shrinking bool, o *Outcome) {
	if shrinking {
		a.ShrinkRuns++
		return
	}
	a.Runs++
	a.SimMS += o.SimTimeMS
	a.Events += int64(o.Events)
	non := false
	for k, v := range o.Faults {
		a.Faults[k] += v
		non = non || v > 0
	}
	for k, v := range o.Probes {
		a.Probes[k] += v
		non = non || v > 0
	}
	for k, v := range o.Known {
		a.Known[k] += v
	}
	if len(a.tr) < aggCap {
		a.tr[o.TraceHash] = struct{}{}
	}
	if len(a.st) < aggCap {
		a.st[o.StateHash] = struct{}{}
	}
	if non && len(a.nt) < aggCap {
		a.nt[o.TraceHash] = struct{}{}
	}
	if non && len(a.Samples) < 3 && len(o.Log) > 0 {
		a.Samples = append(a.Samples, map[string]any{"rapid_seed": seed, "summary": o.Summary, "faults": o.Faults,
			"probes": o.Probes, "sim_ms": o.SimTimeMS, "events": o.Events, "event_log_head": head(o.Log, 40)})
	}
	if time.Since(a.last) > 5*time.Second {
		a.flush()
	}
}

func head(s []string, n int) []string {
	if len(s) > n {
		return s[:n]
	}
	return s
}

func (a *agg) flush() {
	if a.path == "" {
		return
	}
	a.last = time.Now()
	a.NonTrivial = a.NonTrivial[:0]
	for h := range a.nt {
		a.NonTrivial = append(a.NonTrivial, h)
	}
	a.Traces = len(a.tr)
	a.States = len(a.st)
	b, _ := json.Marshal(a)
	_ = os.WriteFile(a.path+".tmp", b, 0o644)
	_ = os.Rename(a.path+".tmp", a.path)
}

// Main is the worker entry point, called from each engine's TestEngine.
//
//	VERIF_PROP     property id the oracles are evaluated for
//	VERIF_MODE     search (default) | replay | logs
//	VERIF_SEED     base seed (search, logs)
//	VERIF_WORKER   worker index, mixed into the seed
//	VERIF_BUDGET_S wall-clock budget of this worker (search)
//	VERIF_MAXRUNS  maximum number of runs (search, logs)
//	VERIF_OUT      JSON-lines file, one line per run
//	VERIF_REPLAY   replay file to write (search) or read (replay)
//	VERIF_TIER     quick | thorough
//	VERIF_KNOWN    path of known_findings.json
//	VERIF_LOGDIR   (logs) directory receiving one event log per run
//	VERIF_INFLIGHT file receiving the plan of the run in progress (crash capture)
func Main(t *testing.T, e Engine) {
	prop := os.Getenv("VERIF_PROP")
	if prop == "" {
		t.Skip("VERIF_PROP not set: this binary is driven by /verif/check")
	}
	mode := os.Getenv("VERIF_MODE")
	tier := os.Getenv("VERIF_TIER")
	if tier == "" {
		tier = "quick"
	}
	known := loadKnown(os.Getenv("VERIF_KNOWN"), prop)
	switch mode {
	case "replay":
		replayMain(t, e, prop, known)
	case "logs":
		logsMain(t, e, prop, tier)
	default:
		searchMain(t, e, prop, tier, known)
	}
}

func loadKnown(path, prop string) []*regexp.Regexp {
	if path == "" {
		return nil
	}
	raw, err := os.ReadFile(path)
	if err != nil {
		return nil
	}
	var kf struct {
		Findings []KnownFinding `json:"findings"`
	}
	if json.Unmarshal(raw, &kf) != nil {
		return nil
	}
	var res []*regexp.Regexp
	for _, f := range kf.Findings {
		if f.Property == prop && f.Status == "finding" {
			if re, err := regexp.Compile(f.Sig); err == nil {
				res = append(res, re)
			}
		}
	}
	return res
}

func matchKnown(known []*regexp.Regexp, v *Violation) bool {
	for _, re := range known {
		if re.MatchString(v.Sig) {
			return true
		}
	}
	return false
}

// SafeRun runs the engine and converts a panic of the driver goroutine into a
// violation of class "panic" (the engines recover panics of neo-go code at the
// call sites they care about; this is the last line of defence).
func SafeRun(t *testing.T, e Engine, prop string, plan any) (out *Outcome) {
	defer func() {
		if r := recover(); r != nil {
			st := string(debug.Stack())
			out = NewOutcome()
			out.Violation = classifyPanic(r, st)
		}
	}()
	return e.Run(t, prop, plan)
}

// HarnessError is panicked by engines when the harness itself is in trouble
// (never a property violation).
type HarnessError struct{ Msg string }

func (h HarnessError) Error() string { return "harness: " + h.Msg }

// Harnessf panics with a HarnessError.
func Harnessf(format string, args ...any) {
	panic(HarnessError{Msg: fmt.Sprintf(format, args...)})
}

func classifyPanic(r any, stack string) *Violation {
	if he, ok := r.(HarnessError); ok {
		return &Violation{Class: "harness", Sig: "harness", Msg: he.Msg}
	}
	// first neo-go frame gives the signature
	site := ""
	for _, ln := range strings.Split(stack, "\n") {
		if strings.Contains(ln, "github.com/nspcc-dev/neo-go/") && strings.Contains(ln, "(") && !strings.HasPrefix(ln, "\t") {
			site = strings.TrimSpace(ln)
			if i := strings.LastIndex(site, "("); i > 0 {
				site = site[:i]
			}
			site = strings.TrimPrefix(site, "github.com/nspcc-dev/neo-go/")
			break
		}
	}
	if site == "" {
		return &Violation{Class: "harness", Sig: "harness-panic", Msg: fmt.Sprintf("%v\n%s", r, stack)}
	}
	return &Violation{Class: "panic", Sig: "panic@" + site, Msg: fmt.Sprintf("%v\n%s", r, stack)}
}

func searchMain(t *testing.T, e Engine, prop, tier string, known []*regexp.Regexp) {
	seed := uint64(envInt("VERIF_SEED", 1))
	worker := uint64(envInt("VERIF_WORKER", 0))
	budget := time.Duration(envInt("VERIF_BUDGET_S", 20)) * time.Second
	maxRuns := int(envInt("VERIF_MAXRUNS", 1<<40))
	chunk := int(envInt("VERIF_CHUNK", 8))
	outPath := os.Getenv("VERIF_OUT")
	replayPath := os.Getenv("VERIF_REPLAY")
	shrinkS := envInt("VERIF_SHRINK_S", 60)
	inflight := os.Getenv("VERIF_INFLIGHT")

	ag := newAgg(outPath)
	defer ag.flush()
	_ = flag.Set("rapid.nofailfile", "true")
	_ = flag.Set("rapid.shrinktime", fmt.Sprintf("%ds", shrinkS))
	_ = flag.Set("rapid.checks", strconv.Itoa(chunk))

	start := time.Now()
	runs := 0
	var firstClass string
	var found *Replay
	harnessTrouble := ""
	base := mix(seed, worker)
	fmt.Printf("WORKER engine=%s prop=%s seed=%d worker=%d base=%d tier=%s\n", e.Name(), prop, seed, worker, base, tier)

	for iter := uint64(0); found == nil && harnessTrouble == "" && runs < maxRuns && time.Since(start) < budget; iter++ {
		cs := mix(base, iter)
		_ = flag.Set("rapid.seed", strconv.FormatUint(cs, 10))
		left := maxRuns - runs
		if left < chunk {
			_ = flag.Set("rapid.checks", strconv.Itoa(left))
		}
		shim := &shimTB{name: "sim"}
		shrinking := false
		prop1 := func(rt *rapid.T) {
			plan := e.Draw(rt, prop, tier)
			if harnessTrouble != "" {
				return
			}
			if inflight != "" {
				praw, _ := json.Marshal(plan)
				b, _ := json.Marshal(&Replay{Property: prop, Engine: e.Name(), Class: "crash", Sig: "crash", Seed: cs, Plan: praw})
				_ = os.WriteFile(inflight, b, 0o644)
			}
			out := SafeRun(t, e, prop, plan)
			runs++
			memStat(runs)
			if v := out.Violation; v != nil && v.Class != "harness" && matchKnown(known, v) {
				out.Known[v.Sig]++
				out.Violation = nil
			}
			ag.add(cs, shrinking, out)
			if v := out.Violation; v != nil {
				if v.Class == "harness" {
					harnessTrouble = v.Msg
					return
				}
				if firstClass == "" {
					firstClass = v.Class
				}
				if v.Class != firstClass {
					return // keep shrinking on the same violation class
				}
				shrinking = true
				praw, _ := json.Marshal(plan)
				found = &Replay{Property: prop, Engine: e.Name(), Class: v.Class, Sig: v.Sig, Msg: v.Msg,
					Seed: cs, Plan: praw, Trace: tail(out.Log, 400)}
				if replayPath != "" {
					b, _ := json.MarshalIndent(found, "", " ")
					_ = os.WriteFile(replayPath, b, 0o644)
				}
				rt.Fatalf("%s", v.Sig)
			}
		}
		done := make(chan struct{})
		go func() {
			defer close(done)
			defer func() {
				if r := recover(); r != nil {
					if _, ok := r.(failNow); !ok {
						harnessTrouble = fmt.Sprintf("rapid driver panic: %v\n%s", r, debug.Stack())
					}
				}
			}()
			rapid.Check(shim, prop1)
		}()
		<-done
		if shim.Failed() && found == nil && harnessTrouble == "" {
			harnessTrouble = "rapid failed without a violation: " + strings.Join(shim.msgs, " | ")
		}
	}
	ag.flush()
	fmt.Printf("WORKER-DONE runs=%d wall=%.1fs\n", runs, time.Since(start).Seconds())
	if harnessTrouble != "" {
		fmt.Printf("HARNESS-TROUBLE %s\n", harnessTrouble)
		t.Fatalf("harness trouble")
	}
	if found != nil {
		fmt.Printf("FOUND property=%s class=%s sig=%q replay=%s\n", prop, found.Class, found.Sig, replayPath)
	}
}

// memStat (VERIF_MEMSTAT=n): every n runs one line with the live heap, the memory obtained from the OS and the number
// of goroutines, so that a leak across runs shows.
func memStat(runs int) {
	n := int(envInt("VERIF_MEMSTAT", 0))
	if n <= 0 || runs%n != 0 {
		return
	}
	runtime.GC()
	var m runtime.MemStats
	runtime.ReadMemStats(&m)
	fmt.Printf("MEM runs=%d heap_alloc=%dMB heap_sys=%dMB sys=%dMB goroutines=%d\n", runs, m.HeapAlloc>>20, m.HeapSys>>20, m.Sys>>20, runtime.NumGoroutine())
}

func tail(s []string, n int) []string {
	if len(s) > n {
		return s[len(s)-n:]
	}
	return s
}

func replayMain(t *testing.T, e Engine, prop string, known []*regexp.Regexp) {
	path := os.Getenv("VERIF_REPLAY")
	raw, err := os.ReadFile(path)
	if err != nil {
		t.Fatalf("harness: %v", err)
	}
	var rp Replay
	if err := json.Unmarshal(raw, &rp); err != nil {
		t.Fatalf("harness: %v", err)
	}
	plan, err := e.Decode(rp.Plan)
	if err != nil {
		t.Fatalf("harness: decode plan: %v", err)
	}
	if rp.Property != "" {
		prop = rp.Property
	}
	out := SafeRun(t, e, prop, plan)
	if ld := os.Getenv("VERIF_LOGDIR"); ld != "" {
		_ = os.WriteFile(ld+"/replay.log", []byte(strings.Join(out.Log, "\n")+"\n"), 0o644)
	}
	if out.Violation == nil {
		fmt.Printf("NOT-REPRODUCED property=%s trace=%d\n", prop, out.TraceHash)
		return
	}
	v := out.Violation
	if v.Class == "harness" {
		fmt.Printf("HARNESS-TROUBLE %s\n", v.Msg)
		t.Fatalf("harness trouble")
	}
	kn := ""
	if matchKnown(known, v) {
		kn = " known=1"
	}
	fmt.Printf("REPRODUCED property=%s class=%s sig=%q trace=%d%s\n%s\n", prop, v.Class, v.Sig, out.TraceHash, kn, v.Msg)
}

// logsMain: the determinism self-test. Runs VERIF_MAXRUNS plans drawn from
// the seed and writes the complete event log of each to VERIF_LOGDIR.
func logsMain(t *testing.T, e Engine, prop, tier string) {
	seed := uint64(envInt("VERIF_SEED", 1))
	maxRuns := int(envInt("VERIF_MAXRUNS", 10))
	dir := os.Getenv("VERIF_LOGDIR")
	_ = flag.Set("rapid.nofailfile", "true")
	_ = flag.Set("rapid.checks", strconv.Itoa(maxRuns))
	_ = flag.Set("rapid.seed", strconv.FormatUint(mix(seed, 0), 10))
	n := 0
	shim := &shimTB{name: "sim"}
	done := make(chan struct{})
	go func() {
		defer close(done)
		defer func() { recover() }()
		rapid.Check(shim, func(rt *rapid.T) {
			plan := e.Draw(rt, prop, tier)
			if os.Getenv("VERIF_LOGPLANS") != "" {
				// debugging aid: the plan of every run as a replay file next to its log (written before the run)
				praw, _ := json.Marshal(plan)
				b, _ := json.Marshal(&Replay{Property: prop, Engine: e.Name(), Class: "logs", Sig: "logs", Plan: praw})
				_ = os.WriteFile(fmt.Sprintf("%s/run%04d.replay.json", dir, n+1), b, 0o644)
			}
			out := SafeRun(t, e, prop, plan)
			n++
			memStat(n)
			verdict := "ok"
			if out.Violation != nil {
				verdict = out.Violation.Sig
			}
			body := strings.Join(out.Log, "\n") + fmt.Sprintf("\ntrace=%d state=%d verdict=%s\n", out.TraceHash, out.StateHash, verdict)
			_ = os.WriteFile(fmt.Sprintf("%s/run%04d.log", dir, n), []byte(body), 0o644)
		})
	}()
	<-done
	fmt.Printf("LOGS runs=%d\n", n)
}
