package sim

import (
	"fmt"
	"runtime/debug"
	"strings"
	"testing"
	"testing/synctest"
)

// Bubble runs f inside a testing/synctest bubble: every timer and clock read
// by code started from f uses the bubble's fake clock, which advances only
// when all goroutines of the bubble are durably blocked. A panic of f itself
// is returned as a violation; so is the deadlock panic synctest raises when
// the bubble ends with goroutines still blocked (class "leak").
func Bubble(t *testing.T, f func()) (v *Violation) {
	defer func() {
		if r := recover(); r != nil {
			msg := fmt.Sprint(r)
			if strings.Contains(msg, "deadlock") {
				v = &Violation{Class: "leak", Sig: "leak", Msg: msg + "\n" + goroutineDump()}
				return
			}
			v = classifyPanic(r, string(debug.Stack()))
		}
	}()
	var inner *Violation
	synctest.Test(t, func(t *testing.T) {
		defer func() {
			if r := recover(); r != nil {
				inner = classifyPanic(r, string(debug.Stack()))
			}
		}()
		f()
	})
	return inner
}

// Wait blocks until every other goroutine of the bubble is durably blocked.
func Wait() { synctest.Wait() }

func goroutineDump() string {
	buf := make([]byte, 1<<16)
	n := 0
	for {
		n = copy(buf, debug.Stack())
		break
	}
	return string(buf[:n])
}

// Recover runs f and converts a panic into a violation (class "panic" when a
// neo-go frame is on the stack).
func Recover(f func()) (v *Violation) {
	defer func() {
		if r := recover(); r != nil {
			v = classifyPanic(r, string(debug.Stack()))
		}
	}()
	f()
	return nil
}
