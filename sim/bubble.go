package sim

import (
	"fmt"
	"runtime"
	"runtime/debug"
	"strings"
	"testing"
	"testing/synctest"
)

// Bubble runs f inside a testing/synctest bubble: every timer and clock read
// by code started from f uses the bubble's fake clock, which advances only
// when all goroutines of the bubble are durably blocked. A panic of f itself
// is returned as a violation; so is the deadlock panic synctest raises when
// the bubble ends with goroutines still blocked (class "leak").
func Bubble(t *testing.T, f func()) (v *Violation) {
	defer func() {
		if r := recover(); r != nil {
			msg := fmt.Sprint(r)
			if strings.Contains(msg, "deadlock") {
				v = &Violation{Class: "leak", Sig: "leak", Msg: msg + "\n" + goroutineDump()}
				return
			}
			v = classifyPanic(r, string(debug.Stack()))
		}
	}()
	var inner *Violation
	synctest.Test(t, func(t *testing.T) {
		defer func() {
			if r := recover(); r != nil {
				inner = classifyPanic(r, string(debug.Stack()))
			}
		}()
		f()
	})
	return inner
}

// Wait blocks until every other goroutine of the bubble is durably blocked.
func Wait() { synctest.Wait() }

func goroutineDump() string {
	buf := make([]byte, 1<<20)
	n := runtime.Stack(buf, true)
	// keep only goroutines that belong to a bubble and are blocked
	var keep []string
	for _, g := range strings.Split(string(buf[:n]), "\n\n") {
		if strings.Contains(g, "synctest bubble") || strings.Contains(g, "(durable)") {
			keep = append(keep, g)
		}
	}
	if len(keep) == 0 {
		return string(buf[:min(n, 20000)])
	}
	return strings.Join(keep, "\n\n")
}

// Recover runs f and converts a panic into a violation (class "panic" when a
// neo-go frame is on the stack).
func Recover(f func()) (v *Violation) {
	defer func() {
		if r := recover(); r != nil {
			v = classifyPanic(r, string(debug.Stack()))
		}
	}()
	f()
	return nil
}
