#!/usr/bin/env python3
"""Regenerates MANIFEST.json from registry.py (claimed checks) and the not-applicable table below."""
import json, os, sys
ROOT = os.path.dirname(os.path.abspath(__file__))
sys.path.insert(0, ROOT)
from registry import REGISTRY, ENGINES

NOT_APPLICABLE = {
    "C12": "pure sequential function of (script, gas limit): no schedule, clock, I/O or second party for a simulator to own; fuzzing territory (DESIGN.md section 3)",
    "C13": "pure function of operands; needs an executable VM specification and input generation, not a simulator (DESIGN.md section 3)",
    "C14": "differential compilation of generated programs; the compiler has no concurrency, time or faults (DESIGN.md section 3)",
    "C15": "pure function of (signer configuration, call chain, manifests); nothing for a scheduler or fault injector to vary (DESIGN.md section 3)",
    "C16": "finite flag table and pure permission matching; enumeration, not simulation, decides it (DESIGN.md section 3)",
}
PENDING = "check planned in DESIGN.md section 2 but not built yet; not claimed until its engine is registered"
ALL = ["C%02d" % i for i in range(1, 21)]

hooks_commits = []
try:
    import subprocess
    out = subprocess.run(["git", "-C", "/repo", "log", "--format=%H %s"], stdout=subprocess.PIPE, text=True).stdout
    for ln in out.splitlines():
        h, _, s = ln.partition(" ")
        if s.startswith("verif hook:"):
            hooks_commits.append(h)
except Exception:
    pass

m = {
    "version": 1,
    "setup_cmd": "./check build",
    "hooks": {
        "guard": "verif",
        "enable": "go test -c -tags verif (every engine binary is built by ./check with -tags verif against /repo through the replace directive in go.mod)",
        "baseline_off_cmd": "for m in $(cat /w/out/gomods.txt); do MF=$(cd /repo/$m && . /w/out/goenv.sh && gomodflag); (cd /repo/$m && go test $MF -json -vet=off -count=1 -timeout 25m ./...); done",
        "source_commits": hooks_commits,
        # all hooks but one only add code; the page-size hook moves one constant (headerBatchCount = 2000) verbatim from
        # headerhashes.go into headerhashes_batch.go (//go:build !verif) so that verif_headerbatch.go can give it
        # another value under the tag: one existing line is deleted and re-added elsewhere
        "add_only": False,
    },
    "engines": [{"name": e, "path": e + "/", "serves_properties": [p for p, r in REGISTRY.items() if e in (r["engine"] if isinstance(r["engine"], list) else [r["engine"]])],
                 "kind_free_text": "deterministic simulation engine (Go test binary driven by ./check; rapid is the sole choice source; plan+tape replay files)"} for e in ENGINES],
    "checks": [],
    "notes": "Technique family: deterministic simulation with fault injection. See DESIGN.md. Exit 2 of a check = build/watchdog/harness trouble, never a violation. third_party/dbft is a copy of github.com/nspcc-dev/dbft v0.4.0 (the version /repo pins) with one loop made order-deterministic (README.verif there); everything from /repo is built from its current working tree. Hooks: all add code only, except that the header hash page size constant was moved into a tag-selected file (2000 without the tag, 16 under it) - hooks.add_only is therefore false.",
    "not_applicable": [],
}
for p in ALL:
    if p in REGISTRY:
        r = REGISTRY[p]
        m["checks"].append({
            "property_id": p,
            "quick_cmd": "./check %s --tier quick" % p,
            "thorough_cmd": "./check %s --tier thorough" % p,
            "evidence_file": "evidence/%s.json" % p,
            "replay_cmd_template": "./check %s --replay {path}" % p,
            "engine": "+".join(dict.fromkeys(r["engine"])) if isinstance(r["engine"], list) else r["engine"],
            "level_claimed": {"category": r["level"], "text": r["level_text"], "design_ref": r["design_ref"]},
            "level_note": r["level_note"],
            "technique": r["technique"],
        })
    else:
        m["not_applicable"].append({"property_id": p, "reason": NOT_APPLICABLE.get(p, PENDING)})
json.dump(m, open(os.path.join(ROOT, "MANIFEST.json"), "w"), indent=1)
print("claimed:", [c["property_id"] for c in m["checks"]])
