// Package msigsim decides the schedule clause of C18: vm.CheckMultisigPar
// gives the answer of the sequential in-order greedy matcher whatever the order
// in which the results of its worker goroutines arrive.
//
// Scheduling: under build tag `verif` every worker calls vm.VerifMultisigYield
// right before it publishes a result. The harness parks the worker there
// (sim.Sched.Park, no lock of the code under test is held at that point) and
// the driver releases parked workers one at a time in the order chosen by the
// plan's tape, so the arrival order of results is a pure function of the plan.
package msigsim

import (
	"crypto/elliptic"
	"crypto/sha256"
	"encoding/binary"
	"encoding/json"
	"fmt"
	"math/big"
	"sort"
	"strings"
	"sync"
	"sync/atomic"
	"testing"

	"github.com/nspcc-dev/neo-go/pkg/crypto/keys"
	"github.com/nspcc-dev/neo-go/pkg/util"
	"github.com/nspcc-dev/neo-go/pkg/vm"
	"pgregory.net/rapid"

	"verif/sim"
)

const (
	listKeys = 10 // key ids that may appear in the key list
	universe = 12 // ids 10, 11 only ever sign ("keys not in the list")
	// an id is base + universe*form: form bit 0 = the mirrored key (private scalar N-d, the point with the same X and
	// the other Y), form bit 1 = the key is given in its uncompressed encoding
	formMirror  = 1
	formUncompr = 2
	// form bit 2 = 33 bytes that look like a compressed key but name no point of the curve (the interop hands the list's
	// byte strings to the checker as they are; decoding one of these fails)
	formMalformed = 4
	allIDs        = 8 * universe
	maxKeys       = 8
	sigKinds      = 4
	maxSchedCap   = 4096
)

// SigSpec is one signature of the input.
type SigSpec struct {
	Key  int `json:"key"`  // signer id in the key universe
	Kind int `json:"kind"` // 0 valid, 1 one bit flipped, 2 truncated to 63 bytes, 3 all zero
}

// Plan is a whole run: the input of the check plus the release order.
type Plan struct {
	Keys []int     `json:"keys"` // key list (ids, may repeat), 1..8
	Sigs []SigSpec `json:"sigs"` // 1..len(Keys) signatures
	// Enum > 0: in addition to the tape's schedule, enumerate every release
	// order of this input, at most Enum schedules.
	Enum int      `json:"enum,omitempty"`
	Tape []uint32 `json:"tape"`
}

// Engine implements sim.Engine.
type Engine struct{}

func (Engine) Name() string { return "msigsim" }

func (Engine) Decode(raw []byte) (any, error) {
	var p Plan
	err := json.Unmarshal(raw, &p)
	return &p, err
}

// Draw draws an input that starts from an in-order selection of list keys
// (which the matcher must accept) and applies 0..3 mutations to it.
func (Engine) Draw(rt *rapid.T, prop, tier string) any {
	p := &Plan{}
	n := rapid.IntRange(1, maxKeys).Draw(rt, "n")
	for i := 0; i < n; i++ {
		id := i
		if rapid.IntRange(0, 5).Draw(rt, "rep") == 5 {
			id = rapid.IntRange(0, listKeys-1).Draw(rt, "keyid")
		}
		// one key in eight is the mirror image of a list key (often of one that is in the list as well), one in ten comes
		// in the uncompressed encoding
		if rapid.IntRange(0, 7).Draw(rt, "mirror") == 7 {
			if i > 0 && rapid.Bool().Draw(rt, "mirror_of_earlier") {
				id = p.Keys[rapid.IntRange(0, i-1).Draw(rt, "mirror_which")] % universe
			}
			id += universe * formMirror
		}
		if rapid.IntRange(0, 9).Draw(rt, "uncompressed") == 9 {
			id += universe * formUncompr
		}
		if rapid.IntRange(0, 11).Draw(rt, "malformed") == 11 {
			id = id%universe + universe*formMalformed
		}
		p.Keys = append(p.Keys, id)
	}
	// m = 1 takes the sequential path of CheckMultisigPar (no workers): keep it rare
	m := 1
	if n >= 2 && rapid.IntRange(0, 9).Draw(rt, "single") != 9 {
		m = rapid.IntRange(2, n).Draw(rt, "m")
	}
	// in-order selection of m positions: skip budget n-m spread by draws
	pos := 0
	skips := n - m
	for i := 0; i < m; i++ {
		s := 0
		if skips > 0 {
			s = rapid.IntRange(0, skips).Draw(rt, "skip")
		}
		skips -= s
		pos += s
		p.Sigs = append(p.Sigs, SigSpec{Key: p.Keys[pos]})
		pos++
	}
	nmut := rapid.IntRange(0, 3).Draw(rt, "nmut")
	for k := 0; k < nmut; k++ {
		i := rapid.IntRange(0, m-1).Draw(rt, "mi")
		switch rapid.IntRange(0, 4).Draw(rt, "mkind") {
		case 0: // invalid signature
			p.Sigs[i].Kind = rapid.IntRange(1, sigKinds-1).Draw(rt, "skind")
		case 1: // swap with another one (out of order)
			j := rapid.IntRange(0, m-1).Draw(rt, "mj")
			p.Sigs[i], p.Sigs[j] = p.Sigs[j], p.Sigs[i]
		case 2: // repeat another signature
			j := rapid.IntRange(0, m-1).Draw(rt, "mj")
			p.Sigs[i] = p.Sigs[j]
		case 3: // signer outside the list
			p.Sigs[i].Key = rapid.IntRange(listKeys, universe-1).Draw(rt, "foreign")
		case 4: // any signer
			p.Sigs[i].Key = rapid.IntRange(0, 2*universe-1).Draw(rt, "any")
		}
	}
	switch e := rapid.IntRange(0, 7).Draw(rt, "enum"); {
	case tier == "thorough" && e >= 4:
		p.Enum = maxSchedCap
	case tier == "thorough" && e >= 2:
		p.Enum = 256
	case tier != "thorough" && e == 7 && n <= 5:
		p.Enum = 64
	}
	p.Tape = rapid.SliceOfN(rapid.Uint32Range(0, 3), 0, 2*maxKeys+4).Draw(rt, "tape")
	return p
}

// ---- deterministic key material (memoised pure functions of small integers) ----

type keyMat struct {
	priv *keys.PrivateKey
	pub  *keys.PublicKey
	pubB []byte
	sig  []byte // signature of msgHash
	bad  bool   // pubB decodes to no key
}

var (
	matMu   sync.Mutex
	mats    = map[int]*keyMat{}
	verMemo = map[[3]int]bool{}
	msgHash = sha256.Sum256([]byte("verif/msigsim fixed message"))
)

func material(id int) *keyMat {
	matMu.Lock()
	defer matMu.Unlock()
	if m, ok := mats[id]; ok {
		return m
	}
	var seed [12]byte
	copy(seed[:], "msigsim-")
	binary.BigEndian.PutUint32(seed[8:], uint32(id%universe))
	d := sha256.Sum256(seed[:])
	d[0] &= 0x7f // keep the scalar below the group order
	if d[31] == 0 {
		d[31] = 1
	}
	form := id / universe
	if form&formMalformed != 0 {
		// 0x02 || X for the first X (derived from the id) that is not the abscissa of a curve point
		for ctr := byte(0); ; ctr++ {
			x := sha256.Sum256(append(seed[:], 'b', 'a', 'd', ctr))
			b := append([]byte{0x02}, x[:]...)
			if _, err := keys.NewPublicKeyFromBytes(b, elliptic.P256()); err != nil {
				m := &keyMat{pubB: b, bad: true}
				mats[id] = m
				return m
			}
		}
	}
	if form&formMirror != 0 {
		x := new(big.Int).Sub(elliptic.P256().Params().N, new(big.Int).SetBytes(d[:]))
		x.FillBytes(d[:])
	}
	priv, err := keys.NewPrivateKeyFromBytes(d[:])
	if err != nil {
		sim.Harnessf("key %d: %v", id, err)
	}
	pub := priv.PublicKey()
	m := &keyMat{priv: priv, pub: pub, pubB: pub.Bytes(), sig: priv.SignHash(util.Uint256(msgHash))}
	if form&formUncompr != 0 {
		m.pubB = pub.UncompressedBytes()
	}
	mats[id] = m
	return m
}

func sigBytes(s SigSpec) []byte {
	if material(s.Key).bad {
		return make([]byte, 64) // (nobody can sign for a malformed key)
	}
	b := append([]byte(nil), material(s.Key).sig...)
	switch s.Kind {
	case 1:
		b[5] ^= 0x04
	case 2:
		b = b[:len(b)-1]
	case 3:
		for i := range b {
			b[i] = 0
		}
	}
	return b
}

// verifies is the harness's own use of PublicKey.Verify (memoised).
func verifies(keyID int, s SigSpec) bool {
	k := [3]int{keyID, s.Key, s.Kind}
	matMu.Lock()
	r, ok := verMemo[k]
	matMu.Unlock()
	if ok {
		return r
	}
	if material(keyID).bad {
		sim.Harnessf("verifies() asked about a malformed key")
	}
	r = material(keyID).pub.Verify(sigBytes(s), msgHash[:])
	matMu.Lock()
	verMemo[k] = r
	matMu.Unlock()
	return r
}

// reference is the NeoVM specification of CHECKMULTISIG: i over signatures, j
// over keys; j always advances, i advances on a match; fail as soon as more
// signatures than keys remain; accept iff every signature was matched.
// A key that does not decode faults the execution at the moment the matcher gets to it (reference(p) == wantFault);
// keys the matcher never gets to are never looked at.
func reference(p *Plan) int {
	n, m := len(p.Keys), len(p.Sigs)
	if n == 0 || m == 0 || m > n {
		return wantFalse
	}
	i, j := 0, 0
	for i < m && j < n {
		if material(p.Keys[j]).bad {
			return wantFault
		}
		if verifies(p.Keys[j], p.Sigs[i]) {
			i++
		}
		j++
		if m-i > n-j {
			return wantFalse
		}
	}
	if i == m {
		return wantTrue
	}
	return wantFalse
}

const (
	wantFalse = iota
	wantTrue
	wantFault
)

var wantNames = [...]string{"false", "true", "FAULT"}

func sanitize(p *Plan) *Plan {
	q := &Plan{Enum: p.Enum, Tape: p.Tape}
	for _, k := range p.Keys {
		if len(q.Keys) < maxKeys {
			k = ((k % allIDs) + allIDs) % allIDs
			q.Keys = append(q.Keys, (k%universe)%listKeys+k/universe*universe)
		}
	}
	if len(q.Keys) == 0 {
		q.Keys = []int{0}
	}
	for _, s := range p.Sigs {
		// preconditions the interop guarantees: 1 <= len(sigs) <= len(pkeys)
		if len(q.Sigs) < len(q.Keys) {
			q.Sigs = append(q.Sigs, SigSpec{Key: ((s.Key % allIDs) + allIDs) % allIDs, Kind: ((s.Kind % sigKinds) + sigKinds) % sigKinds})
		}
	}
	if len(q.Sigs) == 0 {
		q.Sigs = []SigSpec{{Key: q.Keys[0]}}
	}
	if q.Enum > maxSchedCap {
		q.Enum = maxSchedCap
	}
	return q
}

// schedResult is what one execution under one release order produced.
type schedResult struct {
	v         *sim.Violation
	res       bool
	fault     bool // the call panicked on the caller's goroutine
	faultMsg  string
	decisions []int // number of candidates at every decision (>= 2)
	arrivals  []string
	reordered int
	lateFree  int // workers still parked when the call had returned
	steps     int
}

// runOnce executes the check once inside a bubble with the given tape.
func runOnce(t *testing.T, pkeys, sigs [][]byte, tape []uint32, log *sim.Log) *schedResult {
	r := &schedResult{}
	var own *sim.Violation
	bv := sim.Bubble(t, func() {
		tp := sim.NewTape(tape)
		sched := sim.NewSched(tp, log)
		var mu sync.Mutex
		occ := map[int]int{}
		vm.VerifMultisigYield = func(signum int) {
			mu.Lock()
			occ[signum]++
			k := occ[signum]
			mu.Unlock()
			// At most one task per direction is outstanding and the forward
			// signature index is always below the backward one, so the
			// signature index identifies a parked worker; the occurrence
			// counter keeps gids unique over the run.
			sched.Park(fmt.Sprintf("s%02d#%02d", signum, k), "yield")
		}
		defer func() { vm.VerifMultisigYield = nil }()

		var doneF atomic.Bool
		var pv *sim.Violation
		go func() {
			pv = sim.Recover(func() { r.res = vm.CheckMultisigPar(elliptic.P256(), msgHash[:], pkeys, sigs) })
			doneF.Store(true)
		}()

		issue := map[string]int{} // gid -> issue rank (order of first appearance, ties by gid)
		for r.steps = 0; r.steps < 8*maxKeys+16; r.steps++ {
			parked := sched.Parked()
			for _, g := range parked {
				if _, ok := issue[g]; !ok {
					issue[g] = len(issue)
				}
			}
			if len(parked) == 0 {
				break
			}
			if len(parked) >= 2 {
				r.decisions = append(r.decisions, len(parked))
			}
			if doneF.Load() {
				r.lateFree++
			}
			rel := sched.Step()
			if rel == "" {
				break
			}
			for _, g := range parked {
				if issue[g] < issue[rel] {
					r.reordered++
					break
				}
			}
			r.arrivals = append(r.arrivals, strings.TrimSuffix(rel, "@yield"))
		}
		sim.Wait()
		if pv != nil {
			// the interop runs the check on the VM's goroutine: a panic there is the script's FAULT (a panic on a
			// worker goroutine cannot be recovered by anybody and ends the process)
			r.fault = true
			r.faultMsg = pv.Msg
		}
		if left := sched.Parked(); len(left) > 0 {
			own = sim.Violatef("hang", "hang/livelock", "workers still yielding after %d releases: %v", r.steps, left)
			sched.Drain(1 << 10)
			return
		}
		if !doneF.Load() && pv == nil {
			own = sim.Violatef("hang", "hang", "no worker is parked or running and CheckMultisigPar has not returned (arrivals %v)", r.arrivals)
		}
	})
	vm.VerifMultisigYield = nil
	switch {
	case own != nil:
		r.v = own
	case bv != nil:
		r.v = bv
	}
	return r
}

// Run executes the plan.
func (Engine) Run(t *testing.T, prop string, planAny any) *sim.Outcome {
	p := sanitize(planAny.(*Plan))
	out := sim.NewOutcome()
	log := sim.NewLog(3000)

	n, m := len(p.Keys), len(p.Sigs)
	pkeys := make([][]byte, n)
	for i, id := range p.Keys {
		pkeys[i] = material(id).pubB
	}
	sigs := make([][]byte, m)
	for i, s := range p.Sigs {
		sigs[i] = sigBytes(s)
	}
	want := reference(p)
	log.Addf("keys=%v sigs=%v want=%v", p.Keys, p.Sigs, want)
	// the decoder's process-wide key cache starts every run empty: what it holds is part of the run's history
	keys.VerifPurgeKeyCache()
	bases := map[int]int{}
	for _, id := range p.Keys {
		bases[id%universe] |= 1 << uint(id/universe&formMirror)
		if id/universe&formUncompr != 0 {
			out.Probes["uncompressed_key_in_list"]++
		}
	}
	for _, b := range bases {
		if b == 3 {
			out.Probes["key_and_its_mirror_image_in_list"]++
			break
		}
	}

	// input probes
	seenK := map[int]bool{}
	seenSigner := map[int]bool{} // (the encoding of the key does not matter to the signer)
	for _, id := range p.Keys {
		seenSigner[id%(2*universe)] = true
	}
	for _, id := range p.Keys {
		if seenK[id] {
			out.Probes["repeated_keys"]++
			break
		}
		seenK[id] = true
	}
	seenS := map[SigSpec]bool{}
	inv, foreign, rep := false, false, false
	for _, s := range p.Sigs {
		if s.Kind != 0 {
			inv = true
		}
		if !seenSigner[s.Key%(2*universe)] {
			foreign = true
		}
		if seenS[s] {
			rep = true
		}
		seenS[s] = true
	}
	if inv {
		out.Probes["invalid_sig"]++
	}
	if foreign {
		out.Probes["foreign_signer"]++
	}
	if rep {
		out.Probes["repeated_sig"]++
	}
	if m < n {
		out.Probes["m_less_than_n"]++
	}
	if m == 1 {
		out.Probes["single_sig_path"]++
	}
	switch want {
	case wantTrue:
		out.Probes["result_true"]++
	case wantFault:
		out.Probes["result_fault_malformed_key_reached"]++
	default:
		out.Probes["result_false"]++
		if !inv && !foreign {
			out.Probes["false_by_order_only"]++
		}
	}
	for _, id := range p.Keys {
		if material(id).bad {
			out.Probes["malformed_key_in_list"]++
			if want != wantFault {
				out.Probes["malformed_key_not_reached_by_in_order_matcher"]++
			}
			break
		}
	}

	finish := func(v *sim.Violation) *sim.Outcome {
		out.Violation = v
		out.Log = log.Lines
		out.TraceHash = log.Hash()
		out.Events = log.Count()
		out.StateHash = sim.HashString(0, fmt.Sprintf("%v|%v|%v", p.Keys, p.Sigs, want))
		out.Summary = map[string]any{"n": n, "m": m, "want": want, "enum": p.Enum, "tape": len(p.Tape)}
		return out
	}
	judge := func(r *schedResult, what string) *sim.Violation {
		if r.v != nil {
			r.v.Msg = fmt.Sprintf("%s keys=%v sigs=%v: %s", what, p.Keys, p.Sigs, r.v.Msg)
			return r.v
		}
		got := wantFalse
		switch {
		case r.fault:
			got = wantFault
		case r.res:
			got = wantTrue
		}
		if got != want {
			kind := "accepts-unmatchable"
			switch {
			case want == wantTrue:
				kind = "rejects-matchable"
			case want == wantFault:
				kind = "answers-where-in-order-matcher-faults"
			case got == wantFault:
				kind = "faults-where-in-order-matcher-answers"
			}
			return sim.Violatef("schedule-dependent-result", "multisig/"+kind,
				"%s keys=%v sigs=%v: CheckMultisigPar=%s (%s), in-order matcher=%s, arrival order %v", what, p.Keys, p.Sigs, wantNames[got], r.faultMsg, wantNames[want], r.arrivals)
		}
		return nil
	}

	// 1. the schedule of the tape
	r := runOnce(t, pkeys, sigs, p.Tape, log)
	log.Addf("result=%v arrivals=%v decisions=%v", r.res, r.arrivals, r.decisions)
	out.Probes["results_arrived"] += len(r.arrivals)
	out.Probes["scheduling_decisions"] += len(r.decisions)
	if r.reordered > 0 {
		out.Probes["reordered_arrival"]++
	}
	if r.lateFree > 0 {
		out.Probes["result_unconsumed_at_return"]++
	}
	if v := judge(r, "tape schedule"); v != nil {
		return finish(v)
	}

	// 2. every release order of this input (bounded)
	if p.Enum > 0 && len(r.decisions) > 0 {
		choice := make([]uint32, 0, 16)
		count := 0
		results := map[bool]int{}
		orders := map[string]bool{}
		for {
			er := runOnce(t, pkeys, sigs, choice, nil)
			count++
			results[er.res && !er.fault]++
			orders[strings.Join(er.arrivals, ",")] = true
			if v := judge(er, fmt.Sprintf("enumerated schedule %v", choice)); v != nil {
				log.Addf("enum #%d choice=%v -> VIOLATION", count, choice)
				// make the violating schedule the replayable one
				return finish(v)
			}
			// odometer over the decisions this execution actually met
			full := make([]uint32, len(er.decisions))
			copy(full, choice)
			i := len(full) - 1
			for ; i >= 0; i-- {
				if int(full[i])+1 < er.decisions[i] {
					break
				}
			}
			if i < 0 {
				out.Probes["enum_complete"]++
				break
			}
			full[i]++
			choice = full[:i+1]
			if count >= p.Enum {
				out.Probes["enum_truncated"]++
				break
			}
		}
		out.Probes["schedules_enumerated"] += count
		ks := make([]string, 0, len(orders))
		for k := range orders {
			ks = append(ks, k)
		}
		sort.Strings(ks)
		log.Addf("enum schedules=%d distinct_arrival_orders=%d true=%d false=%d orders_hash=%d", count, len(ks), results[true], results[false],
			sim.HashString(0, strings.Join(ks, ";")))
	}
	return finish(nil)
}
