{
    "engine": "msigsim",
    "level": "exploration",
    "level_text": ("seeded search over m-of-n inputs and over the arrival order of the parallel checker's worker results "
                   "(every worker parks at the verif-tagged yield before publishing; the tape picks which parked worker is "
                   "released next), compared with the sequential in-order matcher; for a share of the inputs every release "
                   "order is enumerated (bounded), still sampled over inputs, not exhaustive"),
    "level_note": ("only the schedule clause of C18 is decided here (\"a multi-signature check accepts exactly when the signatures "
                   "can be matched to keys in order, whatever the scheduling of its parallel verification\"); the other clauses "
                   "(sign/verify algebra, WIF, NEP-2, Base58, integer codecs, Merkle root) are pure functions of their input "
                   "and are not claimed. trusted: keys.PublicKey.Verify (used by both sides), the greedy reference matcher in "
                   "msigsim/engine.go, the yield hook placement (vm.go, right before `result <-`)"),
    "design_ref": "DESIGN.md section 2, C18; section 1.4 (park/release at seams); section 1.9 (hook)",
    "technique": ("deterministic simulation: real goroutines in a testing/synctest bubble, park/release scheduler driven by a "
                  "replayable tape, rapid-drawn inputs with shrinking; bounded exhaustive enumeration of release orders per input"),
    "budget": {"quick": 45, "thorough": 1200},
    "chunk": 200,
    "inflight": True,
    "shrink_s": 30,
    "det_runs": 300,
    "rule": ("one run = one input (1-8 P-256 keys from a universe of 12 deterministic keys, repeats allowed, one key in eight the "
             "mirror image (same X, other Y) of a list key, one in ten in the uncompressed encoding; the decoder's process-wide key "
             "cache, part of the call's history, starts every run empty; 1..n signatures over "
             "a fixed 32-byte hash built from an in-order selection plus 0-3 mutations: bit-flipped / truncated / all-zero "
             "signature, swapped order, repeated signature, signer outside the list) executed by vm.CheckMultisigPar under the "
             "release order of the tape, plus (Enum>0: quick 64, thorough 256 or 4096) every release order of that input; "
             "one key in twelve is malformed (33 bytes naming no curve point; the in-order matcher faults when, and only when, it gets "
             "to it: the expected answer is true, false or FAULT); inputs stay inside the interop's preconditions "
             "(1 <= len(sigs) <= len(pkeys)); a run is "
             "non-trivial when a probe fired; distinct = distinct hash of input + release/arrival log"),
    "probes": ["result_true", "result_false", "false_by_order_only", "reordered_arrival", "result_unconsumed_at_return",
               "repeated_keys", "repeated_sig", "invalid_sig", "foreign_signer", "m_less_than_n", "single_sig_path",
               "key_and_its_mirror_image_in_list", "uncompressed_key_in_list", "malformed_key_in_list",
               "malformed_key_not_reached_by_in_order_matcher", "result_fault_malformed_key_reached",
               "results_arrived", "scheduling_decisions", "schedules_enumerated", "enum_complete", "enum_truncated"],
    "components": {"real": ["pkg/vm.CheckMultisigPar with its 3 worker goroutines and channels",
                            "pkg/crypto/keys (key decoding, RFC6979 signing, ECDSA verification)"],
                   "stub": ["Go scheduler's choice of which worker publishes first = harness (vm.VerifMultisigYield, build tag verif)",
                            "the CHECKMULTISIG interop wrapper (stack handling, gas) is not executed; its preconditions are respected"]},
    "assumptions": ["the only schedule-dependent observable is the arrival order of results on the results channel; the order in "
                    "which idle workers pick tasks from the task channel is not controlled (workers are identical)",
                    "hang = nothing parked, nothing runnable and the call has not returned; leak = synctest reports blocked "
                    "goroutines at bubble end (workers released by the driver after the call returned are not leaks)",
                    "signatures of wrong length are allowed (pre-Gorgon behaviour of the interop); a panic on the caller's goroutine is the script's FAULT, a panic on a worker goroutine ends the process (crash)"],
}
