#!/bin/bash
# usage: mut_eval.sh <seeded-name> <worktree> <prop> [<prop>...]
# Saves the change (patch.diff + demonstration) under seeded/<name>/, applies it to /repo, runs the quick checks of the
# given properties, and undoes it straight afterwards. Prints one line per check.
set -u
name=$1; wt=$2; shift 2
cd "$(dirname "$0")"
d=seeded/$name
mkdir -p $d
git -C $wt diff -- . ':(exclude)*_test.go' > $d/patch.diff
# demonstration = untracked files of the worktree (plus modified test files, if any)
for f in $(git -C $wt ls-files --others --exclude-standard | grep -v "\.patch$"); do
  case "$f" in MUTANT.md) cp $wt/$f $d/MUTANT.md;; *) mkdir -p $d/demo/$(dirname $f); cp $wt/$f $d/demo/$f;; esac
done
if [ ! -s $d/patch.diff ]; then echo "EMPTY PATCH"; exit 2; fi
if ! git -C /repo diff --quiet; then echo "/repo is dirty"; exit 2; fi
git -C /repo apply $PWD/$d/patch.diff || { echo "patch does not apply"; exit 2; }
res=""
for p in "$@"; do
  VERIF_BUDGET_S=${MUT_BUDGET_S:-90} ./check $p --tier quick > work/mut_$name.$p.out 2>&1
  e=$?
  line=$(grep -m1 "^VIOLATION" work/mut_$name.$p.out | cut -c1-200)
  echo "$name $p exit=$e $line"
  res="$res $p=$e"
done
git -C /repo checkout -- .
echo "RESULT $name:$res"
