"""Per-property registration used by ./check: engine, budgets, evidence texts."""

ENGINES = ["poolsim", "msigsim", "bqsim", "ledger", "mptsim", "storesim"]

REGISTRY = {
    "C08": {
        "engine": "poolsim",
        "level": "exploration",
        "level_text": ("seeded search over operation sequences against the real pool with invariants checked through the public "
                       "API after every operation and shrinking to a minimal sequence; sampled, not exhaustive"),
        "level_note": "trusted: harness Feer, the invariant formulas in poolsim/engine.go; concurrent callers only at critical-section granularity",
        "design_ref": "DESIGN.md section 2, C08",
        "technique": "deterministic simulation: seeded operation/fault sequences with shrinking and replay (rapid), invariant oracles",
        "budget": {"quick": 40, "thorough": 1500},
        "chunk": 200,
        "shrink_s": 45,
        "det_runs": 300,
        "rule": ("rapid-drawn sequences (<=40 ops) of Add/Remove/RemoveStale(block: predicate + new balances + new "
                 "FeePerByte)/Verify over a universe of 3-14 transactions (3 ordinary payers, 2 notary depositors, "
                 "HighPriority, Conflicts to lower universe members, OracleResponse ids 1-2, capacity 1-6) against the "
                 "real mempool.Pool; a run is non-trivial when at least one probe fired (failed add, capacity eviction, "
                 "removal by conflict/oracle, insolvent drop at a block, balance/policy change); distinct = distinct "
                 "hash of the operation/result log. One run in two ends with 2-3 clients running 1-3 operations each "
                 "(add/remove/verify) concurrently as real goroutines that are released one at a time at the pool's lock "
                 "acquisitions (build-tag hook mempool.VerifLockYield) in plan order; the invariants are checked when they are done"),
        "probes": ["add_ok", "add_fail", "add_fail_at_capacity", "capacity_eviction", "eviction_while_resolving_conflict",
                   "removed_by_conflict_or_oracle", "stale_dropped_insolvent_or_policy", "reached_capacity",
                   "balance_change", "policy_change", "concurrent_phase", "concurrent_steps"],
        "components": {"real": ["pkg/core/mempool.Pool (all of Add/Remove/RemoveStale/Verify/HasConflicts/TryGetData)",
                                "pkg/core/transaction (hash, size, attributes)"],
                       "stub": ["mempool.Feer = harness (balances, FeePerByte, height): this is the seam the pool reads"]},
        "assumptions": ["balances and policy change only at RemoveStale (as in blockchain.go's post-block refresh)",
                        "resend goroutine disabled (threshold 0); subscriptions disabled",
                        "concurrent callers are interleaved at the granularity of the pool's critical sections only (a client runs alone between two lock acquisitions)"],
    },
}


import ast as _ast, os as _os
_here = _os.path.dirname(_os.path.abspath(__file__))


def _load(engine):
    return _ast.literal_eval(open(_os.path.join(_here, engine, "REGISTRY_ENTRY.py")).read())


REGISTRY["C18"] = _load("msigsim")
_m = _load("mptsim")
REGISTRY["C10"] = _m["C10"]
REGISTRY["C11"] = _m["C11"]
REGISTRY["C20"] = _load("bqsim")


def _load_entry(engine):
    ns = {}
    exec(open(_os.path.join(_here, engine, "REGISTRY_ENTRY.py")).read(), ns)
    return ns["ENTRY"]


REGISTRY["C09"] = _load_entry("storesim")

_LEDGER_COMPONENTS = {
    "real": ["pkg/core.Blockchain incl. Run() loop, persist timer, GC, notification dispatcher (one instance per node)",
             "pkg/core/dao, native contracts, interop layer, VM, mempool, stateroot module, MPT",
             "storage.MemoryStore / BoltDB / LevelDB behind the simdisk wrapper (pass-through + batch log)",
             "block and transaction binary codecs (every block reaches a replica as bytes)"],
    "stub": ["block producer = harness (packs the producer node's real mempool, signs with the real validator keys the way "
             "consensus.newBlockFromContext fills the header)",
             "clock = testing/synctest bubble clock; persist timer fires only at plan-chosen ticks",
             "helper contracts are hand-assembled NeoVM code (ledger/contract.go), not compiler output"],
}
_LEDGER_ASSUMPTIONS = [
    "protocol-level settings (StateRootInHeader, P2PSigExtensions, MaxTraceableBlocks, hard-fork heights of the unit-test "
    "network) are drawn per run and shared by all nodes; only node-local settings differ between nodes",
    "within one driver event the node's own goroutines run to quiescence on one P; their relative order is not chosen by the tape",
    "Go map iteration order inside neo-go is not controlled; oracles are order-insensitive",
    "a flush running concurrently with AddBlock, and a second AddBlock of the same block, are real goroutines released one at a time at the "
    "write cache's lock sites (build-tag hook storage.VerifLockYield); between two yields a goroutine runs alone; a goroutine waiting for a "
    "mutex of the ledger is recognised from the goroutine dump",
]
_LEDGER_RULE = ("one run = a rapid-drawn history (bootstrap funding block, optional election blocks, then 2-24 (thorough: 2-60) "
                "blocks of 0-5 operations each out of 16 kinds: GAS/NEO transfers incl. self/zero/to contracts, votes, candidate "
                "(un)registration, committee policy changes, role designation, deploy/update/destroy of helper contracts, storage "
                "put/delete/find, notifications, nested calls with try/catch and throwing callees, token moves from contracts, "
                "notary deposit/lock/withdraw, notary-assisted (sponsored) transactions, Conflicts/HighPriority/NotValidBefore "
                "attributes, whitelisted fee contracts set/re-set/removed, attribute fees, block time; a run is general, "
                "governance-heavy, contract-life-cycle-heavy or vote-heavy) under a drawn hard fork schedule (Aspidochelone..Echidna "
                "at heights 1..5; plus Faun at 6 and Gorgon at 8; Faun+Gorgon at 5; or all from genesis) produced on node P and fed as "
                "bytes to 1-3 replicas with independently drawn node-local settings (backend memory/BoltDB/LevelDB, "
                "KeepOnlyLatestState, RemoveUntraceableBlocks+GC period, VerifyTransactions, SaveStorageBatch, SaveInvocations, "
                "mempool preload none/all/half), flush policy (only timer ticks / every block / tape-chosen / concurrent with "
                "AddBlock and placed inside storeBlock by the lock-yield scheduler), clean restarts at "
                "drawn heights, and fake-clock ticks that fire the real persist timer and GC of every node; one run in five appends 14-30 "
                "empty blocks with MaxTraceableBlocks 8/12/20 and a pruning replica so that header hash pages (16 headers under the verif "
                "build tag) are crossed (one in four of those with a traceable window of 34-44 blocks on a chain of 100+ blocks and native Ledger reads "
                "by index and hash along the way); one block in ten reaches a replica from two callers at once (the first parked inside AddBlock at a "
                "lock yield, the second run up to the add lock); helper contract manifests express their permissions in three different ways. ")

REGISTRY["C01"] = {
    "engine": "ledger",
    "level": "exploration",
    "level_text": ("seeded search over histories x node-local configurations x flush schedules x restart heights with the real "
                   "Blockchain on every node; after every block, flush and restart the complete observation of the node "
                   "(state root, AERs, full contract storage, governance, policy incl. attribute fees, contracts incl. the price of a "
                   "test invocation and the manifest the node holds, designated roles, balances) must equal the producer's; "
                   "sampled, not exhaustive"),
    "level_note": "trusted: harness observer (ledger/digest.go) and block producer; see assumptions",
    "design_ref": "DESIGN.md section 2, C01",
    "technique": "deterministic simulation: replicated real ledgers under seeded flush/restart/configuration schedules, pairwise observation equality, shrinking and replay",
    "budget": {"quick": 75, "thorough": 1800},
    "chunk": 4, "shrink_s": 90, "det_runs": 12, "inflight": True,
    "rule": _LEDGER_RULE + "Oracle: per height and node, observation == producer's, also after every flush and cold restart; no block refused. "
            "Non-trivial = at least one fault (forced flush, timer tick, clean restart) or probe fired; distinct = distinct event-log hash "
            "(the log contains every operation and every state root).",
    "probes": ["forced_flush", "timer_flush_tick", "clean_restart", "backend_boltdb", "backend_leveldb", "backend_memory",
               "preloaded_tx", "tx_fault", "tx_halt", "validator_set_change", "election_block", "contract_deployed",
               "contract_updated", "contract_destroyed", "tx_rejected_by_pool",
               "op_oracleRequest", "op_oracleResponse", "oracle_response_halt", "oracle_response_fault",
               "oracle_response_unknown_id_rejected", "oracle_nodes_designated", "oracle_request_removed_after_response",
               "same_block_from_two_sources_overlapping", "second_source_waited_for_the_add_lock", "op_ledgerRead"],
    "components": _LEDGER_COMPONENTS,
    "assumptions": _LEDGER_ASSUMPTIONS,
}
REGISTRY["C05"] = dict(REGISTRY["C01"], **{
    "level_text": ("the same replicated-ledger simulation with an arithmetic monitor after every block on the producer and after every "
                   "restart on replicas: NEO supply = 100000000 = sum of balances, GAS supply = sum of balances, candidate votes and "
                   "voters count recomputed from raw account records, Notary GAS = sum of deposits, no negative balance, per-account "
                   "balance delta = net Transfer events of HALTed executions (OnPersist/PostPersist included); GAS supply <= initial supply + the stored "
                   "GAS-per-block values summed over the heights (every other mint follows a burn); an account changed by block h carries as voter "
                   "reward checkpoint the cumulative record of the key it votes for now as it stood after block h-1; on every node after every "
                   "block the token transfer log (what getnep17transfers serves) holds for every account exactly the NEO/GAS Transfer events of the "
                   "block's successful executions, in order (log batches hold 3 entries under the verif build tag, 128 in production)"),
    "level_note": "trusted: storage decoders of pkg/core/state used by the monitor; GAS sent to the Notary hash before the contract's activation hard fork is not generated (no contract exists to record a deposit)",
    "design_ref": "DESIGN.md section 2, C05",
    "technique": "deterministic simulation: conservation invariants monitored over seeded histories with restarts (caches rebuilt from storage)",
    "rule": _LEDGER_RULE + "Oracle: independent arithmetic over raw NEO/GAS/Notary storage and AER Transfer events after every block. "
            "Non-trivial/distinct as for C01.",
    "probes": ["delta_checked_blocks", "candidate_with_votes", "voters_present", "notary_deposit_present", "clean_restart",
               "validator_set_change", "election_block", "tx_fault", "op_vote", "op_register", "op_unregister", "op_notary", "op_payContract",
               "op_oracleRequest", "op_oracleResponse", "oracle_response_halt", "oracle_response_fault", "oracle_reward_as_modelled",
               "gas_issuance_bound_checked", "voter_reward_checkpoint_checked_nonzero",
               "transfer_log_blocks_compared", "transfer_log_batch_rolled_inside_block"],
})
REGISTRY["C03"] = dict(REGISTRY["C01"], **{
    "level_text": ("the same replicated-ledger simulation; the harness keeps per height the flat storage map read from the producer's "
                   "live store and compares, at tape-chosen later moments and on differently configured nodes, full SeekStates "
                   "enumeration, paged FindStates, GetState of present and absent keys, proofs (valid, tampered, for absent keys) "
                   "and a battery of read-only historic invocations (balances, policy, candidates, designated roles, contract reads, forward searches and the "
                   "first key of backwards searches under prefixes that are keys themselves) against it; one verification in two asks the same questions through the "
                   "RPC server's handlers (an rpcsrv.Server per node, never started, called in process through RegisterLocal): getstoragehistoric, "
                   "getstate, getproof + verifyproof, absent neighbours, findstoragehistoric and findstates page by page (pages of 1-3) with the "
                   "first/last proofs verified"),
    "level_note": "trusted: flat map taken through Blockchain.SeekStorage on the producer; historic invocations only on archival nodes; battery scripts read state only",
    "design_ref": "DESIGN.md section 2, C03",
    "technique": "deterministic simulation: per-height reference map vs trie reads/proofs/historic VM under seeded flush, restart and GC schedules",
    "rule": _LEDGER_RULE + "Oracle: everything readable under root_h equals the flat map of height h; tampered proofs never verify to another value. "
            "Non-trivial/distinct as for C01.",
    "probes": ["c03_roots_verified", "c03_old_root_verified", "c03_paged_find", "c03_proofs_verified", "c03_tampered_proofs",
               "c03_absent_keys", "c03_historic_invocations", "c03_unretained_root_fails_cleanly", "c03_unretained_root_still_right",
               "c03_rpc_point_reads", "c03_rpc_absent_reads", "c03_rpc_empty_value_read", "c03_rpc_findstorage_sequences", "c03_rpc_findstates_sequences",
               "c03_rpc_findstates_proofs",
               "clean_restart", "forced_flush", "timer_flush_tick"],
})

REGISTRY["C02"] = dict(REGISTRY["C01"], **{
    "level": "fault_enumeration",
    "level_text": ("the victim node's simulated disk records every atomic batch (PutChangeSet / SeekGC) it issues; for each generated "
                   "run the crash points are the batch prefixes k=0..B (thorough: all of them; quick: 10 tape-chosen incl. first and "
                   "last), each rebuilt as the database a power loss after batch k leaves, reopened with the real NewBlockchain and "
                   "driven on; 1 run in 4 instead resets the stopped victim with Blockchain.Reset and crashes after every batch of "
                   "the reset; the runs themselves are sampled"),
    "level_note": ("trusted: simdisk batch log (values deep-copied at write time), image = replay of the batch prefix into a fresh "
                   "backend of the same kind (file-level recovery of bbolt/goleveldb is not exercised); torn batches are not "
                   "injected (the property respects the backend's atomicity); the state-jump scenario is covered by C20's engine"),
    "design_ref": "DESIGN.md section 2, C02",
    "technique": "deterministic simulation with crash injection at every durable batch boundary, recovered node vs uninterrupted reference, raw-dump equality for resumed resets",
    "budget": {"quick": 90, "thorough": 2400},
    "rule": _LEDGER_RULE + "C02: one victim replica; one run in four extends the history by 18-30 empty blocks with MaxTraceableBlocks 8 and a pruning victim, so that "
            "header hash pages (16 headers under the verif build tag) and their garbage collection are among the crash points; headers may arrive ahead of blocks; flushes forced per block or tape-chosen, with GC, "
            "with injected disk-full errors; oracle per crash point: NewBlockchain succeeds, height within [durably flushed, last accepted], "
            "observation == reference at that height, remaining blocks accepted with identical state roots and final observation, and (every other "
            "crash point) a clean stop and another start after catching up open the database again with the same observation; one flush in four "
            "(always before a block whose header completes a hash page) has the next block accepted between the flush and the garbage collection "
            "of the same round; up to six batch boundaries right after garbage collection batches are always among the crash points; reset: "
            "completed reset is observationally a fresh node synchronised to the target (heights, tip hash, blocks/txs/AERs retrievable, "
            "transfer logs, next blocks), every crash point of the reset reopens at the old or the target height and a resumed reset ends "
            "in the same raw database content (TokenTransferInfo compared decoded: its encoding iterates a Go map). "
            "Non-trivial = at least one crash point examined; distinct = distinct event-log hash.",
    "probes": ["crash_at_batch_boundary", "crash_during_reset", "disk_full_on_flush", "state_reset", "forced_flush", "timer_flush_tick",
               "gc_batches", "batches", "all_crash_points_enumerated", "crash_lost_unflushed_blocks", "headers_ahead_of_blocks",
               "reset_crash_before_marker", "reset_resumed", "reset_equivalence_checked", "reset_refused", "crash_resume_then_clean_restart",
               "block_accepted_between_flush_and_gc",
               "backend_boltdb", "backend_leveldb", "backend_memory"],
})

REGISTRY["C06"] = dict(REGISTRY["C01"], **{
    "level_text": ("a corrupting / Byzantine block source in front of a verifying replica: at plan-chosen heights the next valid block is "
                   "delivered first in 1-8 corrupted variants out of a catalogue of 26 classes (header fields, witness, transaction "
                   "list, encoding), unsigned and - where the result is still an invalid extension - re-signed with the real "
                   "validator keys; after every rejected delivery tip, observation, mempool and (after a forced flush) the raw "
                   "database dump must be unchanged, then the correct block must still be accepted; after the main run one run in three "
                   "delivers a validly signed block carrying a transaction named by on-chain Conflicts attributes (victim pooled at the "
                   "verifying node or unknown to it, named by its sender or only by its co-signer, or named twice with the older namer "
                   "just untraceable), and one in three offers a forged header batch (known index with another NextConsensus, child "
                   "signed by that key) through AddHeaders; the conflict attack also comes with a two-signer victim named by an untraceable "
                   "transaction of one signer and a traceable one of the other; one correct block in six reaches the victim from two callers at once (one applies it, "
                   "the copy is refused and changes nothing); chain states are sampled, the catalogue is enumerated by the plan generator"),
    "level_note": ("trusted: corruption builders in ledger/c06.go. Only the conditions the statement lists are demanded: re-signed "
                   "variants of fields the statement does not mention (version, nonce, primary, next consensus, dropped/reordered "
                   "transactions with a rebuilt Merkle root) are valid different blocks and are not generated. When the corrupted "
                   "block's header is itself validly signed and linked only the header record / pointer / hash page may change; if "
                   "that header differs from the genuine one (equivocation built by the harness) the run ends there"),
    "design_ref": "DESIGN.md section 2, C06",
    "technique": "deterministic simulation: fault injection by a corrupting block source, rejected-delivery = no observable or durable change, then normal progress",
    "budget": {"quick": 75, "thorough": 1800},
    "rule": _LEDGER_RULE + "C06: one verifying replica; corrupted deliveries as described in level_text. Non-trivial = at least one corrupted "
            "delivery that differs from the valid bytes; distinct = distinct event-log hash.",
    "probes": ["corrupted_block_delivered"] + ["corruption/" + n for n in
               ["version", "prevhash", "merkle", "timestamp", "index+1", "index-far", "index-1", "nonce", "primary", "nextconsensus",
                "prevstateroot", "sig-flip", "sig-missing", "sig-reorder", "sig-otherkeys", "verifscript", "tx-dup", "tx-alter",
                "tx-expired", "tx-onchain", "tx-underfunded", "tx-drop-keep-merkle", "tx-reorder-keep-merkle", "truncated", "trailing",
                "nonminimal-count", "tx-named-by-onchain-conflicts", "tx-signed-by-blocked-account"]] + ["blocked_attack_delivered", "conflict_attack_delivered", "conflict_attack_victim_pooled",
               "conflict_attack_named_by_cosigner", "conflict_attack_two_namers", "forged_header_batch", "valid_header_of_rejected_block_recorded", "genuine_header_recorded_before_body",
               "equivocating_header_recorded", "lenient_decoding_accepted_identical_block", "corruption_keeps_genuine_header",
               "same_block_from_two_sources_overlapping", "second_source_waited_for_the_add_lock"],
})
REGISTRY["C04"] = dict(REGISTRY["C01"], **{
    "level": "fault_enumeration",
    "level_text": ("twin execution on a forked ledger: after a generated history the ledger is forked; fork A receives a block with the "
                   "faulting transaction X, fork B the same block with X replaced by a twin with the same signers, fees and validity "
                   "window whose script is a bare ABORT (or, for caught exceptions, whose callee throws at once). The fault is injected "
                   "as (i) ABORT/THROW/failing call/ASSERT at position k of a generated effect script, or an execution that ends while an "
                   "exception is still being unwound (payment callback of a native contract throws under try; ABORT / aborting call inside "
                   "a finally block running for a pending exception) followed in the same block by another account's halting transactions "
                   "whose effects sit behind try blocks, finally blocks and native callbacks, (ii) gas exhaustion: the halting "
                   "script re-run with its system fee cut at a plan-chosen per-mille point plus up to 48 (thorough; quick 4) cut points "
                   "spread over the distinct cumulative-gas levels recorded in a dry run, (iii) an exception raised at depth 1-3 of a "
                   "call tree and caught by the caller (the callee also called with restricted call flags, or as a dynamically loaded script under the entry "
                   "script's try block; or 250+ exceptions thrown by a called function and caught in a loop, which must halt if one round does). Fault points per script are enumerated, scripts and histories are sampled"),
    "level_note": ("trusted: helper contracts (hand-assembled NeoVM code), the twin construction. Not demanded: empty Events of a FAULTed "
                   "transaction's execution result (neo-go keeps them in the log while applying none). Failures that neo-go does not "
                   "make catchable (X FAULTs although wrapped in try) are outside the caught-exception clause and only counted"),
    "design_ref": "DESIGN.md section 2, C04",
    "technique": "deterministic simulation: fault injection at script positions / gas charge points / call depths, twin execution on forked real ledgers, state equality",
    "budget": {"quick": 75, "thorough": 1800},
    "rule": _LEDGER_RULE + "C04: history of 3-10 blocks with the three helper contracts deployed, then the twin experiment. Effects: K.put/del/ev/seq, "
            "nested K.call(K2.put), GAS/NEO transfers, NEO.vote, ContractManagement.deploy, GAS transfer to a contract with payment callback. "
            "Oracle: every observation section except the execution results themselves is equal on both forks (state root, complete storage, "
            "governance, policy, contracts, balances); for caught exceptions both HALT and their event lists are equal. "
            "Non-trivial = a fork pair was compared; distinct = distinct event-log hash.",
    "probes": ["fault_at_position", "gas_cut", "caught_exception", "caught_exception/depth1", "caught_exception/depth2", "caught_exception/depth3",
               "atom_forks_compared", "atom_caught_events_compared", "gas_levels_seen", "atom_x_did_not_fault", "atom_caught_not_halting",
               "atom_tx_not_admissible"] + ["fault/" + n for n in ["ABORT", "THROW", "K.fail", "K.abort", "call-missing-method",
               "call-missing-contract", "ASSERT-false", "K.putFail", "try{GAS.transfer->K.onPayment throws}", "try{K.fail}finally{ABORT}",
               "try{K.fail}finally{K.abort}"]] + ["atom_witness_txs_after_x"],
})

_NET_COMPONENTS = {
    "real": ["pkg/consensus.Service (event loop, payload validation, proposal checks, block assembly) + nspcc-dev/dbft v0.4.0 with its real timers on the fake clock, one per validator",
             "pkg/core.Blockchain per node (validators and observers), mempool, native contracts, VM",
             "pkg/network/extpool.Pool in front of OnPayload (payload witness verified against the ledger as server.go does)",
             "pkg/network.Message encode/decode (incl. compression rule) for every consensus payload, block and transaction that crosses the transport",
             "wallet files (NEP-6, cheap scrypt) opened by the consensus service"],
    "stub": ["transport = harness event heap (drop, duplicate, delay, reorder, silence, lateness, corruption decided from the tape)",
             "server.go's handlers = thin harness stub: relay of committed blocks, RequestTx answered from other nodes' pools, next missing block offered to a node that is behind, optional re-broadcast of consensus payloads",
             "block queue = synchronous adapter (AddBlock then relay); the real bqueue.Queue is exercised by the C20 engine",
             "crypto/rand.Reader = deterministic stream (dBFT block nonce)"],
}
_NET_ASSUMPTIONS = [
    "4 validators (f=1) with the unit-test network's standby keys, 1 s block time; 7 validators (f=2) are not built",
    "validator crash-restart is not injected: the property quantifies over silent/late validators, and dBFT without a persisted commit log does not promise safety across amnesia; observers are restarted",
    "the bubble clock starts in 2000 while the genesis block is stamped 2016: block timestamps advance by dBFT's minimum increment; code comparing block timestamps with the wall clock is not exercised",
    "fault decisions come from a 200-cell explicit tape followed by a splitmix64 stream seeded from the plan (tail_seed): replay is exact, shrinking works on the plan and the explicit prefix",
]
_NET_RULE = ("one run = 4 validators + 0-1 observers for 6-24 simulated seconds; synchronous configuration (1 run in 3: no loss, no silence, delays 1-240 ms, "
             "duplicates and reordering allowed, 21 s) or faulty configuration (drop 0-16%, duplicate 0-15%, delays up to 20/200/900/2500 ms, up to 4 consecutive "
             "spans in which one validator - a different one each time - is silent or 300-4000 ms late), optional payload re-broadcast, 0-16 client "
             "transactions (the ledger generator's 16 operation kinds) each delivered to a drawn subset of nodes, observer restart. ")

REGISTRY["C19"] = {
    "engine": "ledger",
    "level": "exploration",
    "level_text": ("seeded search over delivery schedules and fault sequences with 4 real consensus services on 4 real ledgers; safety checked after every driver "
                   "event (one block hash and one state root per height over all ledgers, every committed block accepted by every other ledger after the bytes "
                   "round trip, full observation equality at the end); bounded liveness: in the synchronous configuration >= 5 blocks on every "
                   "ledger within 20 block times, a transaction pooled by a majority on chain within 10 block times and no pause longer than 8 block times "
                   "between two heights or after the last one; after a faulty run every fault stops and every validator must gain two blocks within "
                   "300 simulated seconds; in one 4-validator run in three an election rotates the validator set at an epoch boundary"),
    "level_note": "trusted: the harness transport and the server.go stub; sampled schedules, not exhaustive; N=7 not built",
    "design_ref": "DESIGN.md section 2, C19",
    "technique": "deterministic simulation: real dBFT services and ledgers on a simulated transport with seeded message loss, duplication, delay, reordering and silent/late validators",
    "budget": {"quick": 75, "thorough": 1800},
    "chunk": 4, "shrink_s": 120, "det_runs": 8, "inflight": True,
    "rule": _NET_RULE + "Non-trivial = at least one fault fired or a block was committed; distinct = distinct event-log hash (every committed block hash with its time and first node is logged).",
    "probes": ["msg_dropped", "msg_duplicated", "msg_late", "dropped_by_silence", "observer_restart", "blocks_committed", "runs_with_blocks",
               "block_accepted_from_network", "sync_block_offered", "tx_request_answered", "tx_pooled", "tx_pooled_at_majority", "pending_tx_included",
               "log/info: changing dbft view", "log/info: received ChangeView", "heal_phase_entered", "healed_within_5s",
               "net_election_voted", "net_validators_rotated", "sync_max_block_gap_le_2"],
    "components": _NET_COMPONENTS,
    "assumptions": _NET_ASSUMPTIONS,
}
REGISTRY["C07"] = dict(REGISTRY["C19"], **{
    "level_text": ("the multi-party half of C07 inside the network simulation: clients submit, through the byte-level P2P path, generated transactions that are "
                   "valid or invalid in exactly one respect (11 defect kinds) at chain states that evolve under the run; (1) a generator-invalid transaction is "
                   "never pooled by any node and never on chain; (2) for signature and 3-of-4 multi-signature witnesses the calculator's network fee is accepted "
                   "by the full admission pipeline and one unit less is rejected (fresh scratch pool); (3) every block a primary proposes from its real pool, and "
                   "a block the harness packs from a validator's pool in pool order under per-run limits at the end, is accepted by every ledger after "
                   "encode -> bytes -> decode, and each of its transactions passes a from-scratch verification against the packing validator's own ledger "
                   "(fresh pool, Blockchain.PoolTx: what a backup that does not hold it performs); one plan in three raises FeePerByte or the execution fee "
                   "factor by a committee transaction while five exact-fee transfers and one transaction co-signed by an inline verification script "
                   "that is valid for two more blocks only wait in the pools at two transactions per block"),
    "level_note": "the input-quantified half of the statement (every accepted encoding, all sizes and attribute mixes) is only sampled by the workload generator; simulation adds wire round trip, differing pools, evolving state, restarts",
    "design_ref": "DESIGN.md section 2, C07",
    "technique": "deterministic simulation: admission soundness, fee threshold and proposability oracles inside a simulated 4-validator network with differing mempools",
    "rule": _NET_RULE + "C07: 4-16 client transactions, one third of them with exactly one defect; MaxTransactionsPerBlock drawn 0(default)-3. Non-trivial/distinct as for C19.",
    "probes": ["client_tx", "tx_pooled", "tx_not_pooled", "fee_threshold_checked/signature", "fee_threshold_checked/multisig", "block_packed_from_pool", "packed_txs",
               "tx_request_answered", "blocks_committed", "packed_txs_verified_from_scratch", "stateful_witness_tx_pooled"] + ["defective_tx/" + d for d in ["expired", "valid-until-too-far", "already-on-chain", "bad-witness",
               "fee-one-short", "highpriority-without-committee", "notvalidbefore-in-future", "sender-cannot-pay", "cosigned-by-blocked-account",
               "conflicts-hash-named-twice"]],
})
REGISTRY["C17"] = dict(REGISTRY["C19"], **{
    "level_text": ("only the clause of C17 that has a wire path in it: inside the network simulation 3-18% of all messages are corrupted (bit flip, truncation, trailing "
                   "bytes, duplicated segment, non-minimal re-encoding of a varint); Message.Decode either fails or yields a payload whose re-encoding decodes to an "
                   "equal value with the same hash, re-encoding is a fixed point, nothing panics; the dBFT message inside every consensus extensible decodes and "
                   "re-encodes to the signed bytes; every other P2P message kind (version, addr, ping, headers, inventories, MPT data, merkle block ...) is built from "
                   "the real chain and delivered unaltered, altered, or with an element count blown up to 4M / 2^31 / 2^64-1 (incompressible payloads above "
                   "the compression threshold among them, serialised for peers with and without compression support), and decoding an altered message may not "
                   "allocate more than 48 MiB; for every transaction and block seen, Hash() and Size() are equal "
                   "whether the object came from a P2P message, from inside a block body, from NewTransactionFromBytes (RPC path) or from the database after a restart"),
    "level_note": "not decided here: round trip of every value of every serialisable type in binary and JSON, size laws, decoder limits on arbitrary byte strings - pure functions of the input, not claimed",
    "design_ref": "DESIGN.md section 2, C17",
    "technique": "deterministic simulation: wire corruption faults on a simulated transport, decode/re-encode fixed point and path-independence oracles",
    "rule": _NET_RULE + "C17: corruption rate 3-18% of messages; one observer, restarted in 1 run out of 3 (database path). Non-trivial/distinct as for C19.",
    "probes": ["wire_bitflip", "wire_truncated", "wire_trailing", "wire_duplicated_segment", "wire_nonminimal_varint", "wire_decode_rejected", "wire_reencode_checked",
               "tx_paths_compared", "block_paths_compared", "tx_db_path_compared", "corrupted_block_rejected", "observer_restart",
               "chatter_message_sent", "wire_count_inflated", "wire_other_command", "consensus_payload_checked/0x41", "consensus_payload_checked/0x0"],
})

# C20 = part A (block queue, engine bqsim) + part B (state synchronisation, engine ledger); workers alternate between the two engines.
_c20a = REGISTRY["C20"]
REGISTRY["C20"] = dict(_c20a, **{
    "engine": ["bqsim", "ledger"],
    "level_text": ("part A: " + _c20a["level_text"] + "; part B: a real Blockchain with state exchange on bootstraps from a fully synchronised "
                   "real source node through the statesync.Module API (what server.go calls): header batches (partial, overlapping, with a "
                   "broken-signature header injected), MPT nodes answering GetUnknownMPTNodesBatch in tape order and batch sizes 1-8 with "
                   "duplicates, corrupted / unsolicited / garbage nodes injected, blocks in order with out-of-order offers injected, clean "
                   "restarts and crashes (only durable state survives) at plan-chosen deliveries, and a crash after each of the last 12 "
                   "batches around the state jump; the synced node must end at the sync point with the source's state root and complete "
                   "contract storage, without leftover temporary items, and then follow the source in lockstep"),
    "level_note": ("part A: " + _c20a["level_note"] + ". part B: MPT-based mode only (the raw-storage-item mode needs the NeoFS fetcher configuration "
                   "and is not built); the peer (server.go's request logic) is the harness; the source serves nodes through "
                   "statesync.Module.Traverse as handleGetMPTDataCmd does; header hash pages hold 16 headers under the verif build tag (2000 in production)"),
    "design_ref": "DESIGN.md section 2, C20 parts A and B; section 9",
    "technique": _c20a["technique"] + "; state sync: real source and target ledgers, simulated peer set with seeded ordering/batching/duplication/wrong data, restart and crash injection incl. every batch boundary of the state jump",
    "budget": {"quick": 75, "thorough": 1800},
    "chunk": 8, "shrink_s": 60, "inflight": True,
    "rule": ("part A: " + _c20a["rule"] + " || part B: one run = source history of 2*interval+1..+10 blocks (StateSyncInterval 2-4, MaxTraceableBlocks 4/6/1000, "
             "StateRootInHeader on), target with RemoveUntraceableBlocks (+KeepOnlyLatestState) or archival on memory/BoltDB/LevelDB; a run is "
             "non-trivial when a fault or probe fired; distinct = distinct event-log hash"),
    "probes": _c20a["probes"] + ["sync_started", "sync_jump_completed", "sync_state_checked", "sync_mpt_batches", "sync_mpt_nodes", "sync_blocks_fed",
               "sync_header_batches", "sync_lockstep_blocks", "sync_target_restart", "sync_target_crash", "crash_during_jump",
               "jump_resumed_or_complete", "jump_crash_before_marker", "bad_header", "headers_overlapping", "mpt_node_duplicated",
               "mpt_node_corrupted", "mpt_node_unsolicited", "mpt_node_garbage", "block_out_of_order", "sync_inactive_short_chain"],
    "components": {"real": _c20a["components"]["real"] + ["part B: pkg/core.Blockchain (source and target), pkg/core/statesync.Module, mptpool, mpt.Billet, jumpToStateInternal, stateroot module, storage backends behind simdisk"],
                   "stub": _c20a["components"]["stub"] + ["part B: the peer set / server.go request logic = harness (asks GetUnknownMPTNodesBatch, fetches nodes from the source with Module.Traverse)"]},
    "assumptions": _c20a["assumptions"] + ["part B: the peers' height shown to Module.Init is such that header P+1 exists on the source"],
})


# Server mode ("Tier B", ledger/srvnet*.go): about one third of the C19 and C20(ledger) plans and one fifth of the C07 plans run whole
# network.Server instances instead of the server.go stub of the network simulation.
_SRV_REAL = ["server mode: pkg/network.Server per node (VerifNewServer + Start: peer management loop, handshake, inv/getdata gossip, block relay, "
             "RequestTx, extensible pool, getblockbyindex / getheaders / getmptdata synchronisation requests, RelayTxn / RelayTxnDirectly), "
             "pkg/network.TCPPeer per connection (read loop, three send queues, ping/pong timers), the Server's bqueue.Queue instances, "
             "consensus.Service wired as cli/server/server.go's mkConsensus does, statesync.Module behind the Server for late joiners"]
_SRV_STUB = ["server mode: transport = harness net.Conn pair per connection (Write = one packet into the driver's outbox, Read = durable block until the "
             "driver delivers; delay, and in the lossy configuration drop / duplicate / reorder, keyed on the plan's seed; tcp-faithful configuration: "
             "in sequence, exactly once, blackholes hold packets back, loss only by resetting the connection)",
             "server mode: discovery = a statement-by-statement port of DefaultDiscovery with sorted instead of Go-map iteration and a seeded "
             "instead of a random pause before a dial (VERIF_SRV_REALDISC=1 runs the real one)",
             "server mode: RPC server = harness calling Server.RelayTxn / RelayTxnDirectly"]
_SRV_RULE = (" || server mode: 4 or 7 validators, 0-1 observers, 0-2 late joiners (full node by block synchronisation, or P2PStateExchangeExtensions + "
             "RemoveUntraceableBlocks node by P2P state synchronisation; optional restart shortly after joining, also in the middle of a state "
             "synchronisation), observer restart; fault-free configuration (delays 1-80 ms per hop, 21+ s) or faulty (tcp-faithful or lossy: drop 0-6%, "
             "duplicate 0-12%, reorder 0-18%, delays up to 20/100/400/1200 ms, silent validators (at most f at a time), partitions, connection resets); "
             "0-10 client transactions plus 0-6 transactions that reach one validator 1-150 ms before a proposal is due; 1 run in 4 with one "
             "DisableCompression node and direct relay of deployments; 1 run in 3 (not C20) with 1-2 rival transaction pairs (two transactions of "
             "one fresh account, each affordable alone, handed to disjoint validator groups at one instant; fault-free configuration: one of them on "
             "chain within 10 block times); 1 joiner in 6 starts 46-60 blocks behind the top (block request window 8, block queue 32 under the "
             "verif build tag; the random window choice of getRequestBlocksPayload comes from the plan)")
_SRV_PROBES = ["srv_runs", "srv_runs_sync", "srv_runs_lossy", "srv_runs_tcp_faithful_faulty", "srv_validators_7", "connections", "redial", "peer_disconnected",
               "services_started", "getblockbyindex_served", "headers_served", "mptdata_served", "inv_getdata_tx", "consensus_missing_tx",
               "late_tx_submitted", "joiner_started/joiner-full", "joiner_started/joiner-statesync", "joiner_caught_up_in_bound", "statesync_jump_done",
               "statesync_state_checked", "joiner_restart_in_the_middle_of_state_sync", "node_restart/observer", "conn_killed", "partition", "silence_span",
               "pkt_held_by_blackhole", "pkt_dropped", "pkt_duplicated", "pkt_reordered", "view_changed", "undecodable_packet_between_honest_nodes",
               "rival_pairs_pooled_on_both_sides", "rival_pairs_split_2_2", "rival_pair_one_included", "node_started_more_than_a_block_queue_behind",
               "block_request_window_chosen_at_random"]
for _p in ("C19", "C07", "C20"):
    _r = REGISTRY[_p]
    REGISTRY[_p] = dict(_r, **{
        "rule": _r["rule"] + _SRV_RULE,
        "probes": _r["probes"] + [x for x in _SRV_PROBES if x not in _r["probes"]],
        "components": {"real": _r["components"]["real"] + _SRV_REAL, "stub": _r["components"]["stub"] + _SRV_STUB},
        "assumptions": _r["assumptions"] + [
            "server mode: packets written to one connection at one simulated instant are delivered in an order derived from their content, and a "
            "packet of several messages is handed to the reader message by message: which goroutine of a node writes first is the Go scheduler's "
            "decision; BroadcastFactor 100 (with a smaller factor the Server cancels a broadcast after 'enough' per-peer goroutines have queued it)",
            "server mode: liveness (>= 5 blocks in 20 block times, consecutive blocks at most 2 block times apart, nodes that have reached the top stay within 2 blocks of "
            "it, joiners within 2 blocks of the top 15 block times after their start (one more per 4 blocks of a starting gap beyond 20), all ledgers at one height after the settling phase) is asserted only in "
            "the fault-free configuration"],
    })


# C11 = trie-level life cycle (engine mptsim, 3 workers out of 4) + the same audit of the raw DataMPT records on the databases of real
# pruning Blockchain replicas (engine ledger, 1 worker out of 4).
_c11a = REGISTRY["C11"]
REGISTRY["C11"] = dict(_c11a, **{
    "engine": ["mptsim", "mptsim", "ledger", "mptsim"],
    "level_text": ("part A: " + _c11a["level_text"] + "; part B: the replicated-ledger simulation of C01 with pruning replicas "
                   "(RemoveUntraceableBlocks with MaxTraceableBlocks 8/12, and/or KeepOnlyLatestState) on memory/BoltDB/LevelDB behind "
                   "simdisk, real timer-driven flushes with garbage collection, flushes placed inside storeBlock, clean restarts; after "
                   "tape-chosen blocks and at the end the raw DataMPT records of the replica's database are walked by the hand-written "
                   "decoder: the current root is completely present and holds exactly the producer's flat contract storage of that "
                   "height, reference counters equal the number of referencing parents, no record is unreachable from the retained roots "
                   "beyond those awaiting the next GC pass, and every root inside the retention window is completely stored"),
    "level_note": ("part A: " + _c11a["level_note"] + ". part B: trusted: the same walker, the producer's flat map taken through "
                   "Blockchain.SeekStorage, the harness' computation of the retention window (height - MaxTraceableBlocks, GC only after "
                   "a timer-driven flush as in bc.persist)"),
    "design_ref": "DESIGN.md section 2, C11; section 9",
    "technique": _c11a["technique"] + "; chain level: real pruning ledgers under seeded flush/GC/restart schedules, same raw-record audit",
    "chunk": {"mptsim": 200, "ledger": 20},
    "inflight": True,
    "rule": ("part A: " + _c11a["rule"] + " || part B: one run = a seeded history of 14-40 blocks (transfers, contract storage churn, "
             "deploy/update/destroy, governance) on one producer and 1-3 pruning replicas; a run is non-trivial when an audit ran; "
             "distinct = distinct event-log hash"),
    "probes": _c11a["probes"] + ["c11_audits", "c11_records", "c11_inactive_records", "c11_retained_roots_walked", "forced_flush",
                                 "timer_flush_tick", "clean_restart", "flush_inside_block"],
    "components": {"real": _c11a["components"]["real"] + ["part B: pkg/core.Blockchain.storeBlock/persist/tryRunGC, stateroot.Module, mpt in reference-counting modes, storage backends behind simdisk"],
                   "stub": _c11a["components"]["stub"] + ["part B: consensus = harness block builder (producer signs with the real validator keys)"]},
    "assumptions": _c11a["assumptions"] + ["part B: replicas receive every block exactly once in order (delivery faults belong to C19/C20)"],
})
