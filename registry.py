"""Per-property registration used by ./check: engine, budgets, evidence texts."""

ENGINES = ["poolsim"]

REGISTRY = {
    "C08": {
        "engine": "poolsim",
        "level": "exploration",
        "level_text": ("seeded search over operation sequences against the real pool with invariants checked through the public "
                       "API after every operation and shrinking to a minimal sequence; sampled, not exhaustive"),
        "level_note": "trusted: harness Feer, the invariant formulas in poolsim/engine.go; single caller only",
        "design_ref": "DESIGN.md section 2, C08",
        "technique": "deterministic simulation: seeded operation/fault sequences with shrinking and replay (rapid), invariant oracles",
        "budget": {"quick": 40, "thorough": 1500},
        "chunk": 200,
        "shrink_s": 45,
        "det_runs": 300,
        "rule": ("rapid-drawn sequences (<=40 ops) of Add/Remove/RemoveStale(block: predicate + new balances + new "
                 "FeePerByte)/Verify over a universe of 3-14 transactions (3 ordinary payers, 2 notary depositors, "
                 "HighPriority, Conflicts to lower universe members, OracleResponse ids 1-2, capacity 1-6) against the "
                 "real mempool.Pool; a run is non-trivial when at least one probe fired (failed add, capacity eviction, "
                 "removal by conflict/oracle, insolvent drop at a block, balance/policy change); distinct = distinct "
                 "hash of the operation/result log"),
        "probes": ["add_ok", "add_fail", "add_fail_at_capacity", "capacity_eviction", "eviction_while_resolving_conflict",
                   "removed_by_conflict_or_oracle", "stale_dropped_insolvent_or_policy", "reached_capacity",
                   "balance_change", "policy_change"],
        "components": {"real": ["pkg/core/mempool.Pool (all of Add/Remove/RemoveStale/Verify/HasConflicts/TryGetData)",
                                "pkg/core/transaction (hash, size, attributes)"],
                       "stub": ["mempool.Feer = harness (balances, FeePerByte, height): this is the seam the pool reads"]},
        "assumptions": ["balances and policy change only at RemoveStale (as in blockchain.go's post-block refresh)",
                        "resend goroutine disabled (threshold 0); subscriptions disabled",
                        "single caller: concurrent callers of the pool are not explored here"],
    },
}
