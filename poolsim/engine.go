// Package poolsim drives the real mempool.Pool through rapid-drawn operation
// sequences and checks the C08 invariants through the public API after every
// operation. The Feer (the pool's only view of balances, policy and height)
// is the harness: it is the seam.
package poolsim

import (
	"encoding/json"
	"fmt"
	"math/big"
	"sort"
	"testing"

	"github.com/nspcc-dev/neo-go/pkg/core/mempool"
	"github.com/nspcc-dev/neo-go/pkg/core/native/nativehashes"
	"github.com/nspcc-dev/neo-go/pkg/core/transaction"
	"github.com/nspcc-dev/neo-go/pkg/util"
	"pgregory.net/rapid"

	"verif/sim"
)

// TxSpec describes one member of the transaction universe.
type TxSpec struct {
	Payer     int   `json:"payer"`            // ordinary payer 0..2, or depositor 0..1 when Sponsored
	Sponsored bool  `json:"sponsored"`        // sender = Notary, second signer = depositor
	Shared    bool  `json:"shared"`           // carries the shared co-signer (makes Conflicts admissible)
	CoSign    int   `json:"cosign,omitempty"` // 1..3: ordinary payer CoSign-1 signs as well (without paying) unless it is the sender
	SysFee    int64 `json:"sys"`
	FeeK      int64 `json:"k"` // network fee = size*K + R  => FeePerByte = K
	FeeR      int64 `json:"r"`
	Pad       int   `json:"pad"` // script padding (size)
	High      bool  `json:"high"`
	Conflicts []int `json:"conf,omitempty"` // lower universe indices named by Conflicts attributes
	Oracle    int   `json:"oracle"`         // 0 none, else OracleResponse id
}

// Op is one operation.
type Op struct {
	Kind   int     `json:"kind"` // 0 add 1 remove 2 block(RemoveStale) 3 verify
	Tx     int     `json:"tx"`
	Keep   uint32  `json:"keep,omitempty"`   // block: bitmask of universe members the predicate keeps
	NewBal []int64 `json:"newbal,omitempty"` // block: new balances (len 5) or nil
	NewFPB int64   `json:"fpb,omitempty"`    // block: new FeePerByte policy value
}

// Plan is a whole run.
type Plan struct {
	Capacity int      `json:"cap"`
	Txs      []TxSpec `json:"txs"`
	Bal      []int64  `json:"bal"` // 3 ordinary payers, 2 depositors
	Ops      []Op     `json:"ops"`
	// Conc: after the sequential operations, that many clients run their operations (add / remove / verify)
	// concurrently; they are released one at a time at the pool's lock acquisitions in the order Sched chooses
	Conc  [][]Op   `json:"conc,omitempty"`
	Sched []uint32 `json:"sched,omitempty"`
}

// Engine implements sim.Engine.
type Engine struct{}

func (Engine) Name() string { return "poolsim" }

func (Engine) Decode(raw []byte) (any, error) {
	var p Plan
	err := json.Unmarshal(raw, &p)
	return &p, err
}

func (Engine) Draw(rt *rapid.T, prop, tier string) any {
	p := &Plan{}
	p.Capacity = rapid.IntRange(1, 6).Draw(rt, "cap")
	n := rapid.IntRange(3, 14).Draw(rt, "ntx")
	for i := 0; i < n; i++ {
		s := TxSpec{}
		s.Sponsored = rapid.IntRange(0, 2).Draw(rt, "sp") == 2
		if s.Sponsored {
			s.Payer = rapid.IntRange(0, 1).Draw(rt, "dep")
		} else {
			s.Payer = rapid.IntRange(0, 2).Draw(rt, "payer")
		}
		s.Shared = rapid.IntRange(0, 2).Draw(rt, "shared") != 0
		if rapid.IntRange(0, 2).Draw(rt, "cosigned") == 0 {
			s.CoSign = rapid.IntRange(1, 3).Draw(rt, "cosign")
		}
		s.SysFee = int64(rapid.IntRange(0, 300).Draw(rt, "sys"))
		s.FeeK = int64(rapid.IntRange(0, 3).Draw(rt, "k"))
		s.FeeR = int64(rapid.IntRange(0, 40).Draw(rt, "r"))
		s.Pad = rapid.IntRange(0, 3).Draw(rt, "pad") * 17
		s.High = rapid.IntRange(0, 5).Draw(rt, "high") == 5
		if i > 0 {
			nc := rapid.IntRange(0, 3).Draw(rt, "nconf") - 1
			seen := map[int]bool{}
			for c := 0; c < nc; c++ {
				j := rapid.IntRange(0, i-1).Draw(rt, "conf")
				if !seen[j] {
					seen[j] = true
					s.Conflicts = append(s.Conflicts, j)
				}
			}
		}
		if rapid.IntRange(0, 3).Draw(rt, "orc") == 3 {
			s.Oracle = rapid.IntRange(1, 2).Draw(rt, "oid")
		}
		p.Txs = append(p.Txs, s)
	}
	for i := 0; i < 5; i++ {
		p.Bal = append(p.Bal, int64(rapid.IntRange(0, 1500).Draw(rt, "bal")))
	}
	nops := rapid.IntRange(1, 40).Draw(rt, "nops")
	for i := 0; i < nops; i++ {
		o := Op{}
		k := rapid.IntRange(0, 9).Draw(rt, "kind")
		switch {
		case k <= 5:
			o.Kind = 0
		case k == 6:
			o.Kind = 1
		case k == 7 || k == 8:
			o.Kind = 2
		default:
			o.Kind = 3
		}
		o.Tx = rapid.IntRange(0, n-1).Draw(rt, "tx")
		if o.Kind == 2 {
			o.Keep = ^uint32(0)
			nd := rapid.IntRange(0, 3).Draw(rt, "ndrop")
			for d := 0; d < nd; d++ {
				o.Keep &^= 1 << uint(rapid.IntRange(0, n-1).Draw(rt, "drop"))
			}
			if rapid.IntRange(0, 1).Draw(rt, "chbal") == 1 {
				for b := 0; b < 5; b++ {
					o.NewBal = append(o.NewBal, int64(rapid.IntRange(0, 1500).Draw(rt, "nbal")))
				}
			}
			o.NewFPB = int64(rapid.IntRange(0, 3).Draw(rt, "fpb"))
		}
		p.Ops = append(p.Ops, o)
	}
	if rapid.Bool().Draw(rt, "concurrent") {
		nc := rapid.IntRange(2, 3).Draw(rt, "nclients")
		for c := 0; c < nc; c++ {
			var ops []Op
			for i, m := 0, rapid.IntRange(1, 3).Draw(rt, "ncops"); i < m; i++ {
				k := rapid.IntRange(0, 5).Draw(rt, "ckind")
				o := Op{Tx: rapid.IntRange(0, n-1).Draw(rt, "ctx")}
				switch {
				case k <= 3:
					o.Kind = 0
				case k == 4:
					o.Kind = 1
				default:
					o.Kind = 3
				}
				ops = append(ops, o)
			}
			p.Conc = append(p.Conc, ops)
		}
		p.Sched = rapid.SliceOfN(rapid.Uint32Range(0, 7), 0, 40).Draw(rt, "sched")
	}
	return p
}

type feer struct {
	fpb     int64
	height  uint32
	ord     [3]util.Uint160
	dep     [2]util.Uint160
	bal     []int64
	queries int
}

func (f *feer) FeePerByte() int64   { return f.fpb }
func (f *feer) BlockHeight() uint32 { return f.height }
func (f *feer) GetUtilityTokenBalance(primary, secondary util.Uint160) *big.Int {
	f.queries++
	return big.NewInt(f.balanceOf(primary, secondary))
}
func (f *feer) balanceOf(primary, secondary util.Uint160) int64 {
	if primary.Equals(nativehashes.Notary) {
		for i, d := range f.dep {
			if d.Equals(secondary) {
				return f.bal[3+i]
			}
		}
		return 0
	}
	for i, d := range f.ord {
		if d.Equals(primary) {
			return f.bal[i]
		}
	}
	return 0
}

func acc(tag byte, i int) util.Uint160 {
	var u util.Uint160
	u[0] = tag
	u[1] = byte(i + 1)
	return u
}

type payerKey struct{ p, s util.Uint160 }

func payerOf(tx *transaction.Transaction) payerKey {
	if tx.Sender().Equals(nativehashes.Notary) {
		return payerKey{tx.Sender(), tx.Signers[1].Account}
	}
	return payerKey{p: tx.Sender()}
}

func prio(tx *transaction.Transaction) [3]int64 {
	var h int64
	if tx.HasAttribute(transaction.HighPriority) {
		h = 1
	}
	return [3]int64{h, tx.NetworkFee / int64(tx.Size()), tx.NetworkFee}
}

func cmpPrio(a, b [3]int64) int {
	for i := range a {
		if a[i] != b[i] {
			if a[i] < b[i] {
				return -1
			}
			return 1
		}
	}
	return 0
}

func conflictsOf(tx *transaction.Transaction) []util.Uint256 {
	var r []util.Uint256
	for _, a := range tx.GetAttributes(transaction.ConflictsT) {
		r = append(r, a.Value.(*transaction.Conflicts).Hash)
	}
	return r
}

func oracleID(tx *transaction.Transaction) (uint64, bool) {
	if a := tx.GetAttributes(transaction.OracleResponseT); len(a) > 0 {
		return a[0].Value.(*transaction.OracleResponse).ID, true
	}
	return 0, false
}

type snapshot struct {
	list     []util.Uint256
	contains []bool
	hasConf  []bool
	verify   []bool
	data     []string
}

func (s *snapshot) equal(o *snapshot) string {
	if len(s.list) != len(o.list) {
		return fmt.Sprintf("list length %d -> %d", len(s.list), len(o.list))
	}
	for i := range s.list {
		if s.list[i] != o.list[i] {
			return fmt.Sprintf("list[%d] changed", i)
		}
	}
	for i := range s.contains {
		if s.contains[i] != o.contains[i] {
			return fmt.Sprintf("ContainsKey(tx%d) %v -> %v", i, s.contains[i], o.contains[i])
		}
		if s.hasConf[i] != o.hasConf[i] {
			return fmt.Sprintf("HasConflicts(tx%d) %v -> %v", i, s.hasConf[i], o.hasConf[i])
		}
		if s.verify[i] != o.verify[i] {
			return fmt.Sprintf("Verify(tx%d) %v -> %v", i, s.verify[i], o.verify[i])
		}
		if s.data[i] != o.data[i] {
			return fmt.Sprintf("TryGetData(tx%d) %s -> %s", i, s.data[i], o.data[i])
		}
	}
	return ""
}

// Run executes the plan.
func (Engine) Run(t *testing.T, prop string, planAny any) *sim.Outcome {
	p := planAny.(*Plan)
	out := sim.NewOutcome()
	log := sim.NewLog(2000)
	f := &feer{bal: append([]int64(nil), p.Bal...)}
	for len(f.bal) < 5 {
		f.bal = append(f.bal, 0)
	}
	for i := range f.ord {
		f.ord[i] = acc(0xa0, i)
	}
	for i := range f.dep {
		f.dep[i] = acc(0xd0, i)
	}
	shared := acc(0x55, 0)

	// Build the universe.
	txs := make([]*transaction.Transaction, len(p.Txs))
	for i, s := range p.Txs {
		script := make([]byte, 1+s.Pad)
		script[0] = 0x40
		tx := transaction.New(script, s.SysFee)
		tx.Nonce = uint32(i + 1)
		tx.ValidUntilBlock = 1000
		if s.Sponsored {
			tx.Signers = []transaction.Signer{{Account: nativehashes.Notary}, {Account: f.dep[s.Payer%2]}}
		} else {
			tx.Signers = []transaction.Signer{{Account: f.ord[s.Payer%3]}}
		}
		if s.Shared {
			tx.Signers = append(tx.Signers, transaction.Signer{Account: shared})
		}
		if s.CoSign >= 1 && s.CoSign <= 3 && !tx.HasSigner(f.ord[s.CoSign-1]) {
			tx.Signers = append(tx.Signers, transaction.Signer{Account: f.ord[s.CoSign-1]})
		}
		if s.High {
			tx.Attributes = append(tx.Attributes, transaction.Attribute{Type: transaction.HighPriority})
		}
		if s.Oracle != 0 {
			tx.Attributes = append(tx.Attributes, transaction.Attribute{Type: transaction.OracleResponseT,
				Value: &transaction.OracleResponse{ID: uint64(s.Oracle), Code: transaction.Success, Result: []byte{}}})
		}
		for _, c := range s.Conflicts {
			if c >= 0 && c < i {
				tx.Attributes = append(tx.Attributes, transaction.Attribute{Type: transaction.ConflictsT,
					Value: &transaction.Conflicts{Hash: txs[c].Hash()}})
			}
		}
		for range tx.Signers {
			tx.Scripts = append(tx.Scripts, transaction.Witness{InvocationScript: []byte{}, VerificationScript: []byte{}})
		}
		sz := int64(tx.Size())
		tx.NetworkFee = sz*s.FeeK + s.FeeR
		txs[i] = tx
	}
	idx := map[util.Uint256]int{}
	for i, tx := range txs {
		idx[tx.Hash()] = i
	}

	capn := p.Capacity
	if capn < 1 {
		capn = 1
	}
	mp := mempool.New(capn, false, nil)

	snap := func() *snapshot {
		s := &snapshot{}
		for _, tx := range mp.GetVerifiedTransactions() {
			s.list = append(s.list, tx.Hash())
		}
		for i, tx := range txs {
			s.contains = append(s.contains, mp.ContainsKey(tx.Hash()))
			s.hasConf = append(s.hasConf, mp.HasConflicts(tx, f))
			s.verify = append(s.verify, mp.Verify(tx, f))
			d, ok := mp.TryGetData(tx.Hash())
			s.data = append(s.data, fmt.Sprintf("%v/%v", d, ok))
			_ = i
		}
		return s
	}

	invariants := func(step int) *sim.Violation {
		list := mp.GetVerifiedTransactions()
		if mp.Count() != len(list) {
			return sim.Violatef("count", "", "step %d: Count()=%d but list has %d", step, mp.Count(), len(list))
		}
		if len(list) > capn {
			return sim.Violatef("capacity", "", "step %d: %d pooled > capacity %d", step, len(list), capn)
		}
		seen := map[util.Uint256]bool{}
		sums := map[payerKey]int64{}
		oracles := map[uint64]int{}
		for i, tx := range list {
			h := tx.Hash()
			if seen[h] {
				return sim.Violatef("duplicate", "", "step %d: tx%d listed twice", step, idx[h])
			}
			seen[h] = true
			if i > 0 && cmpPrio(prio(list[i-1]), prio(tx)) < 0 {
				return sim.Violatef("order", "", "step %d: list[%d]=tx%d %v before list[%d]=tx%d %v", step, i-1, idx[list[i-1].Hash()], prio(list[i-1]), i, idx[h], prio(tx))
			}
			sums[payerOf(tx)] += tx.SystemFee + tx.NetworkFee
			if id, ok := oracleID(tx); ok {
				oracles[id]++
				if oracles[id] > 1 {
					return sim.Violatef("oracle-dup", "", "step %d: two pooled responses for oracle request %d", step, id)
				}
			}
		}
		for i, tx := range txs {
			in := seen[tx.Hash()]
			if mp.ContainsKey(tx.Hash()) != in {
				return sim.Violatef("contains", "", "step %d: ContainsKey(tx%d)=%v but listed=%v", step, i, !in, in)
			}
			d, ok := mp.TryGetData(tx.Hash())
			if ok != in || (in && d != any(i)) {
				return sim.Violatef("data", "", "step %d: TryGetData(tx%d)=%v,%v listed=%v", step, i, d, ok, in)
			}
			if _, ok := mp.TryGetValue(tx.Hash()); ok != in {
				return sim.Violatef("contains", "", "step %d: TryGetValue(tx%d)=%v but listed=%v", step, i, ok, in)
			}
			// reference for HasConflicts
			want := in
			for _, o := range list {
				for _, c := range conflictsOf(o) {
					if c == tx.Hash() {
						want = true
					}
				}
			}
			for _, c := range conflictsOf(tx) {
				if seen[c] {
					want = true
				}
			}
			if got := mp.HasConflicts(tx, f); got != want {
				return sim.Violatef("hasconflicts", "", "step %d: HasConflicts(tx%d)=%v want %v", step, i, got, want)
			}
		}
		for pk, sum := range sums {
			bal := f.balanceOf(pk.p, pk.s)
			if sum > bal {
				kind := "ordinary"
				if !pk.s.Equals(util.Uint160{}) {
					kind = "depositor"
				}
				return sim.Violatef("solvency", "solvency/"+kind, "step %d: %s payer %s/%s pooled fees %d > balance %d", step, kind, pk.p.StringLE()[:6], pk.s.StringLE()[:6], sum, bal)
			}
		}
		for _, tx := range list {
			for _, c := range conflictsOf(tx) {
				if seen[c] {
					return sim.Violatef("conflict-pair", "", "step %d: tx%d and tx%d (named by its Conflicts) both pooled", step, idx[tx.Hash()], idx[c])
				}
			}
		}
		return nil
	}

	fail := func(v *sim.Violation) *sim.Outcome {
		out.Violation = v
		out.Log = log.Lines
		out.TraceHash = log.Hash()
		out.Events = log.Count()
		return out
	}

	atCap := false
	for step, op := range p.Ops {
		if op.Tx < 0 || op.Tx >= len(txs) {
			continue
		}
		tx := txs[op.Tx]
		switch op.Kind {
		case 0:
			before := mp.GetVerifiedTransactions()
			bs := snap()
			var err error
			if v := sim.Recover(func() { err = mp.Add(tx, f, op.Tx) }); v != nil {
				log.Addf("%d add tx%d PANIC", step, op.Tx)
				v.Msg = fmt.Sprintf("step %d: Add(tx%d) panicked: %s", step, op.Tx, v.Msg)
				return fail(v)
			}
			log.Addf("%d add tx%d -> %v", step, op.Tx, err)
			if err != nil {
				out.Probes["add_fail"]++
				if len(before) == capn {
					out.Probes["add_fail_at_capacity"]++
				}
				as := snap()
				if d := bs.equal(as); d != "" {
					return fail(sim.Violatef("failed-add-changed-pool", "", "step %d: Add(tx%d) failed with %q but %s", step, op.Tx, err, d))
				}
				break
			}
			out.Probes["add_ok"]++
			after := mp.GetVerifiedTransactions()
			inAfter := map[util.Uint256]bool{}
			for _, a := range after {
				inAfter[a.Hash()] = true
			}
			if !inAfter[tx.Hash()] {
				return fail(sim.Violatef("add-lost", "", "step %d: Add(tx%d) succeeded but the transaction is not pooled", step, op.Tx))
			}
			// justified removals
			just := map[util.Uint256]bool{}
			for _, c := range conflictsOf(tx) {
				just[c] = true
			}
			oid, isOracle := oracleID(tx)
			remaining := 0
			for _, b := range before {
				for _, c := range conflictsOf(b) {
					if c == tx.Hash() {
						just[b.Hash()] = true
					}
				}
				if id, ok := oracleID(b); ok && isOracle && id == oid {
					just[b.Hash()] = true
				}
				if !just[b.Hash()] {
					remaining++
				}
			}
			var victims []*transaction.Transaction
			for _, b := range before {
				if !inAfter[b.Hash()] {
					if just[b.Hash()] {
						out.Probes["removed_by_conflict_or_oracle"]++
					} else {
						victims = append(victims, b)
					}
				} else if just[b.Hash()] {
					// a justified removal that did not happen would be caught by the pair/oracle invariants
					_ = b
				}
			}
			if len(victims) > 1 || (len(victims) == 1 && remaining < capn) {
				return fail(sim.Violatef("eviction", "eviction/unjustified", "step %d: Add(tx%d) removed %d unrelated transactions with %d/%d slots used", step, op.Tx, len(victims), remaining, capn))
			}
			if len(victims) == 1 {
				out.Probes["capacity_eviction"]++
				if len(just) > 0 {
					out.Probes["eviction_while_resolving_conflict"]++
				}
				vp := prio(victims[0])
				for _, a := range after {
					if a.Hash() != tx.Hash() && cmpPrio(prio(a), vp) < 0 {
						return fail(sim.Violatef("eviction", "eviction/not-lowest", "step %d: Add(tx%d) evicted tx%d %v while tx%d %v has lower priority", step, op.Tx, idx[victims[0].Hash()], vp, idx[a.Hash()], prio(a)))
					}
				}
			}
			if len(after) == capn {
				atCap = true
			}
		case 1:
			before := mp.GetVerifiedTransactions()
			if v := sim.Recover(func() { mp.Remove(tx.Hash()) }); v != nil {
				return fail(v)
			}
			log.Addf("%d remove tx%d", step, op.Tx)
			after := mp.GetVerifiedTransactions()
			want := 0
			for _, b := range before {
				if b.Hash() != tx.Hash() {
					want++
				}
			}
			if len(after) != want {
				return fail(sim.Violatef("remove", "", "step %d: Remove(tx%d) left %d of %d", step, op.Tx, len(after), len(before)))
			}
		case 2:
			before := mp.GetVerifiedTransactions()
			if len(op.NewBal) == 5 {
				copy(f.bal, op.NewBal)
				out.Faults["balance_change"]++
			}
			if op.NewFPB != f.fpb {
				out.Faults["policy_change"]++
			}
			f.fpb = op.NewFPB
			f.height++
			keep := func(x *transaction.Transaction) bool { return op.Keep&(1<<uint(idx[x.Hash()])) != 0 }
			if v := sim.Recover(func() { mp.RemoveStale(keep, f) }); v != nil {
				return fail(v)
			}
			after := mp.GetVerifiedTransactions()
			log.Addf("%d block keep=%x bal=%v fpb=%d : %d -> %d", step, op.Keep, f.bal, f.fpb, len(before), len(after))
			inAfter := map[util.Uint256]bool{}
			for _, a := range after {
				inAfter[a.Hash()] = true
				if !keep(a) {
					return fail(sim.Violatef("stale-kept", "", "step %d: tx%d was in the block but stayed pooled", step, idx[a.Hash()]))
				}
			}
			// payers whose complete surviving candidate set is affordable must lose nothing
			sums := map[payerKey]int64{}
			for _, b := range before {
				if keep(b) {
					sums[payerOf(b)] += b.SystemFee + b.NetworkFee
				}
			}
			for _, b := range before {
				if keep(b) && !inAfter[b.Hash()] {
					out.Probes["stale_dropped_insolvent_or_policy"]++
					pk := payerOf(b)
					if sums[pk] <= f.balanceOf(pk.p, pk.s) && b.FeePerByte() >= f.fpb {
						return fail(sim.Violatef("stale-overdrop", "", "step %d: tx%d dropped although valid, policy-conformant and affordable", step, idx[b.Hash()]))
					}
				}
			}
		case 3:
			var r bool
			if v := sim.Recover(func() { r = mp.Verify(tx, f) }); v != nil {
				return fail(v)
			}
			log.Addf("%d verify tx%d -> %v", step, op.Tx, r)
		}
		if v := invariants(step); v != nil {
			return fail(v)
		}
	}
	if len(p.Conc) > 0 {
		if v := concurrentPhase(p, mp, f, txs, log, out); v != nil {
			return fail(v)
		}
		if v := invariants(len(p.Ops)); v != nil {
			v.Msg = "after the concurrent clients finished: " + v.Msg
			v.Sig = "concurrent/" + v.Class
			return fail(v)
		}
	}
	if atCap {
		out.Probes["reached_capacity"]++
	}
	// final state hash
	var hs []string
	for _, tx := range mp.GetVerifiedTransactions() {
		hs = append(hs, fmt.Sprint(idx[tx.Hash()]))
	}
	sort.Strings(hs)
	for _, s := range hs {
		out.StateHash = sim.HashString(out.StateHash, s+",")
	}
	out.Log = log.Lines
	out.TraceHash = log.Hash()
	out.Events = log.Count()
	out.Summary = map[string]any{"cap": capn, "universe": len(txs), "ops": len(p.Ops)}
	return out
}

// concurrentPhase runs the clients of p.Conc as real goroutines against the pool. Exactly one of them runs at any
// time: a client stops right before every lock acquisition of the pool (build-tag hook mempool.VerifLockYield, a
// point at which it holds none of the pool's locks) and the driver decides from p.Sched who goes on. The
// interleavings of whole critical sections are therefore the plan's, and replay is exact.
func concurrentPhase(p *Plan, mp *mempool.Pool, f *feer, txs []*transaction.Transaction, log *sim.Log, out *sim.Outcome) *sim.Violation {
	type client struct {
		id   int
		wake chan struct{}
		done bool
		at   string
		pv   *sim.Violation
	}
	drv := make(chan struct{})
	clients := make([]*client, len(p.Conc))
	var cur *client
	mempool.VerifLockYield = func(site string) {
		c := cur
		if c == nil {
			return
		}
		c.at = site
		drv <- struct{}{}
		<-c.wake
	}
	defer func() { mempool.VerifLockYield = nil }()
	for i := range p.Conc {
		c := &client{id: i, wake: make(chan struct{}), at: "start"}
		clients[i] = c
		ops := p.Conc[i]
		go func() {
			<-c.wake
			for _, op := range ops {
				if op.Tx < 0 || op.Tx >= len(txs) {
					continue
				}
				tx := txs[op.Tx]
				if v := sim.Recover(func() {
					switch op.Kind {
					case 0:
						err := mp.Add(tx, f, op.Tx)
						log.Addf("c%d add tx%d -> %v", c.id, op.Tx, err)
					case 1:
						mp.Remove(tx.Hash())
						log.Addf("c%d remove tx%d", c.id, op.Tx)
					default:
						r := mp.Verify(tx, f)
						log.Addf("c%d verify tx%d -> %v", c.id, op.Tx, r)
					}
				}); v != nil {
					v.Msg = fmt.Sprintf("client %d, operation on tx%d panicked: %s", c.id, op.Tx, v.Msg)
					c.pv = v
					break
				}
			}
			c.done = true
			drv <- struct{}{}
		}()
	}
	si := 0
	for steps := 0; steps < 400; steps++ {
		var live []*client
		for _, c := range clients {
			if !c.done {
				live = append(live, c)
			}
		}
		if len(live) == 0 {
			break
		}
		k := 0
		if si < len(p.Sched) {
			k = int(p.Sched[si]) % len(live)
			si++
		}
		cur = live[k]
		log.Addf("run c%d from %s", cur.id, cur.at)
		cur.wake <- struct{}{}
		<-drv
		out.Probes["concurrent_steps"]++
	}
	cur = nil
	out.Probes["concurrent_phase"]++
	for _, c := range clients {
		if c.pv != nil {
			return c.pv
		}
		if !c.done {
			return sim.Violatef("harness", "harness", "client %d did not finish", c.id)
		}
	}
	return nil
}
