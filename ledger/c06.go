package ledger

import (
	"bytes"
	"crypto/elliptic"
	"errors"
	"fmt"
	"sort"

	"github.com/nspcc-dev/neo-go/pkg/core"
	"github.com/nspcc-dev/neo-go/pkg/core/block"
	"github.com/nspcc-dev/neo-go/pkg/core/storage"
	"github.com/nspcc-dev/neo-go/pkg/core/transaction"
	"github.com/nspcc-dev/neo-go/pkg/crypto/keys"
	"github.com/nspcc-dev/neo-go/pkg/io"
	"github.com/nspcc-dev/neo-go/pkg/neotest"
	"github.com/nspcc-dev/neo-go/pkg/smartcontract"
	"github.com/nspcc-dev/neo-go/pkg/smartcontract/scparser"
	"github.com/nspcc-dev/neo-go/pkg/smartcontract/trigger"
	"github.com/nspcc-dev/neo-go/pkg/util"
	"github.com/nspcc-dev/neo-go/pkg/vm/opcode"
	"github.com/nspcc-dev/neo-go/pkg/vm/vmstate"
	"pgregory.net/rapid"

	"verif/sim"
	"verif/simdisk"
)

// C06: a corrupting / Byzantine block source in front of a verifying replica.

// Corruption classes.
const (
	cVersion = iota
	cPrevHash
	cMerkle
	cTimestamp
	cIndexPlus
	cIndexFar
	cIndexMinus
	cNonce
	cPrimary
	cNextConsensus
	cPrevStateRoot
	cSigFlip
	cSigMissing
	cSigReorder
	cSigOtherKeys
	cVerifScript
	cTxDup
	cTxAlter
	cTxExpired
	cTxOnChain
	cTxUnderfunded
	cTxDropKeepMerkle
	cTxReorderKeepMerkle
	cTruncated
	cTrailing
	cNonMinimalCount
	cTxNamedOnChain  // a transaction named by a traceable on-chain Conflicts attribute of one of its signers (prepared by conflictAttack)
	cTxBlockedSigner // a transaction one of whose signers is blocked by the Policy contract (prepared by blockedSignerAttack)
	numCorruptions
)

var corruptionNames = [...]string{"version", "prevhash", "merkle", "timestamp", "index+1", "index-far", "index-1", "nonce", "primary",
	"nextconsensus", "prevstateroot", "sig-flip", "sig-missing", "sig-reorder", "sig-otherkeys", "verifscript", "tx-dup", "tx-alter",
	"tx-expired", "tx-onchain", "tx-underfunded", "tx-drop-keep-merkle", "tx-reorder-keep-merkle", "truncated", "trailing", "nonminimal-count",
	"tx-named-by-onchain-conflicts", "tx-signed-by-blocked-account"}

// resignable: corruptions whose re-signed variant is still an invalid chain extension
// (re-signing nonce/primary/nextconsensus/drop/reorder variants would produce a different VALID block).
var resignable = map[int]bool{cPrevHash: true, cMerkle: true, cTimestamp: true, cIndexPlus: true, cIndexFar: true,
	cIndexMinus: true, cPrevStateRoot: true, cTxDup: true, cTxAlter: true, cTxExpired: true, cTxOnChain: true, cTxUnderfunded: true, cTxNamedOnChain: true, cTxBlockedSigner: true}

// CorruptOp is one corrupted delivery before block At (index into the produced chain).
type CorruptOp struct {
	At     int  `json:"at"`
	Kind   int  `json:"kind"`
	Resign bool `json:"resign,omitempty"`
	X      int  `json:"x,omitempty"`
}

func drawC06(rt *rapid.T, p *Plan, tier string) *Plan {
	maxB := 14
	if tier == "thorough" {
		maxB = 30
	}
	p.Blocks = drawBlocks(rt, 2, maxB, p.Proto.P2PSig)
	l := drawLocal(rt, len(p.Blocks))
	l.VerifyTx = true
	l.RestartPlan = nil
	p.Locals = []Local{l}
	n := rapid.IntRange(1, 8).Draw(rt, "ncorrupt")
	for i := 0; i < n; i++ {
		p.Corrupt = append(p.Corrupt, CorruptOp{
			At:     rapid.IntRange(0, len(p.Blocks)).Draw(rt, "at"),
			Kind:   rapid.IntRange(0, numCorruptions-1).Draw(rt, "ckind"),
			Resign: rapid.Bool().Draw(rt, "resign"),
			X:      rapid.IntRange(0, 63).Draw(rt, "cx"),
		})
	}
	p.Election = drawElection(rt)
	p.HeadersFirst = rapid.Bool().Draw(rt, "hdrfirst")
	p.KnownHeader = rapid.Bool().Draw(rt, "knownhdr")
	p.ConflictAttack = rapid.IntRange(0, 2).Draw(rt, "conflictattack") == 0
	p.ForgedHeaders = rapid.IntRange(0, 2).Draw(rt, "forgedheaders") == 0
	p.BlockedAttack = rapid.IntRange(0, 3).Draw(rt, "blockedattack") == 0
	p.Tape = drawTape(rt, 128)
	return p
}

func encodeBlock(b *block.Block) []byte {
	w := io.NewBufBinWriter()
	b.EncodeBinary(w.BinWriter)
	if w.Err != nil {
		sim.Harnessf("encode block: %v", w.Err)
	}
	return w.Bytes()
}

func decodeBlock(raw []byte, srih bool) (*block.Block, error) {
	b := block.New(srih)
	r := io.NewBinReaderFromBuf(raw)
	b.DecodeBinary(r)
	return b, r.Err
}

// resign signs block b (given as freshly decoded object) with the validators named by its verification script.
func (r *run) resign(b *block.Block) bool {
	m, pubsB, ok := scparser.ParseMultiSigContract(b.Script.VerificationScript)
	if !ok {
		return false
	}
	var pubs keys.PublicKeys
	for _, pb := range pubsB {
		pk, err := keys.NewPublicKeyFromBytes(pb, elliptic.P256())
		if err != nil {
			return false
		}
		pubs = append(pubs, pk)
	}
	ms, err := r.prod.kr.multiSigner(pubs, m)
	if err != nil {
		return false
	}
	b.Script.InvocationScript = ms.SignHashable(uint32(r.P.BC.GetConfig().Magic), b)
	return true
}

// corrupt builds the corrupted bytes for block b; ok=false when the corruption does not apply here.
func (r *run) corrupt(b *block.Block, prev *block.Block, op CorruptOp) (raw []byte, validHeader bool, desc string, ok bool) {
	srih := r.plan.Proto.StateRootInHeader
	valid := encodeBlock(b)
	c, err := decodeBlock(valid, srih)
	if err != nil {
		sim.Harnessf("re-decode: %v", err)
	}
	kind := op.Kind % numCorruptions
	desc = corruptionNames[kind]
	rebuildMerkle := false
	switch kind {
	case cVersion:
		c.Version = 1
	case cPrevHash:
		c.PrevHash[op.X%32] ^= 0x01
	case cMerkle:
		c.MerkleRoot[op.X%32] ^= 0x01
	case cTimestamp:
		if prev == nil {
			return nil, false, desc, false
		}
		c.Timestamp = prev.Timestamp - uint64(op.X%2)
	case cIndexPlus:
		c.Index++
	case cIndexFar:
		c.Index += 1000
	case cIndexMinus:
		c.Index--
	case cNonce:
		c.Nonce ^= 1 << uint(op.X%64)
	case cPrimary:
		c.PrimaryIndex ^= 1
	case cNextConsensus:
		c.NextConsensus[op.X%20] ^= 0x01
	case cPrevStateRoot:
		if !srih {
			return nil, false, desc, false
		}
		c.PrevStateRoot[op.X%32] ^= 0x01
	case cSigFlip:
		if len(c.Script.InvocationScript) < 10 {
			return nil, false, desc, false
		}
		// flip a byte inside a signature (skip the 2-byte PUSHDATA1 headers)
		pos := 2 + (op.X % 64)
		c.Script.InvocationScript[pos] ^= 0x01
	case cSigMissing:
		if len(c.Script.InvocationScript) < 66 {
			return nil, false, desc, false
		}
		c.Script.InvocationScript = c.Script.InvocationScript[66:]
	case cSigReorder:
		if len(c.Script.InvocationScript) < 132 {
			return nil, false, desc, false
		}
		inv := c.Script.InvocationScript
		sw := append([]byte{}, inv[66:132]...)
		sw = append(sw, inv[:66]...)
		c.Script.InvocationScript = append(sw, inv[132:]...)
	case cSigOtherKeys:
		// a different (well-formed) validator set signs: the generator's accounts
		var pubs keys.PublicKeys
		for i := 0; i < 4; i++ {
			pubs = append(pubs, r.prod.kr.accts[i].PublicKey())
		}
		ms, err := r.prod.kr.multiSigner(pubs, 3)
		if err != nil {
			return nil, false, desc, false
		}
		c.Script.VerificationScript = ms.Script()
		c2, _ := decodeBlock(encodeBlock(c), srih)
		c.Script.InvocationScript = ms.SignHashable(uint32(r.P.BC.GetConfig().Magic), c2)
	case cVerifScript:
		if len(c.Script.VerificationScript) == 0 {
			return nil, false, desc, false
		}
		c.Script.VerificationScript[op.X%len(c.Script.VerificationScript)] ^= 0x01
	case cTxDup:
		if len(c.Transactions) == 0 {
			return nil, false, desc, false
		}
		c.Transactions = append(c.Transactions, c.Transactions[op.X%len(c.Transactions)])
		rebuildMerkle = true
	case cTxAlter:
		if len(c.Transactions) == 0 {
			return nil, false, desc, false
		}
		i := op.X % len(c.Transactions)
		t := c.Transactions[i].Copy()
		t.SystemFee++
		// keep the old witnesses: they do not sign the altered transaction
		c.Transactions[i] = t
		rebuildMerkle = true
	case cTxExpired:
		tx := r.extraTx(func(t *transaction.Transaction) { t.ValidUntilBlock = c.Index - 1 })
		if tx == nil {
			return nil, false, desc, false
		}
		c.Transactions = append(c.Transactions, tx)
		rebuildMerkle = true
	case cTxOnChain:
		if len(r.prod.txLog) == 0 || prev == nil || len(prev.Transactions) == 0 {
			return nil, false, desc, false
		}
		c.Transactions = append(c.Transactions, prev.Transactions[op.X%len(prev.Transactions)])
		rebuildMerkle = true
	case cTxUnderfunded:
		tx := r.extraTx(func(t *transaction.Transaction) { t.SystemFee = 900_000_000_00000000 })
		if tx == nil {
			return nil, false, desc, false
		}
		c.Transactions = append(c.Transactions, tx)
		rebuildMerkle = true
	case cTxNamedOnChain, cTxBlockedSigner:
		if r.c06Victim == nil {
			return nil, false, desc, false
		}
		c.Transactions = append(c.Transactions, r.c06Victim)
		rebuildMerkle = true
	case cTxDropKeepMerkle:
		if len(c.Transactions) == 0 {
			return nil, false, desc, false
		}
		i := op.X % len(c.Transactions)
		c.Transactions = append(c.Transactions[:i:i], c.Transactions[i+1:]...)
	case cTxReorderKeepMerkle:
		if len(c.Transactions) < 2 {
			return nil, false, desc, false
		}
		i := op.X % (len(c.Transactions) - 1)
		c.Transactions[i], c.Transactions[i+1] = c.Transactions[i+1], c.Transactions[i]
	case cTruncated:
		cut := 1 + op.X%min(len(valid)-1, 60)
		return valid[:len(valid)-cut], false, desc, true
	case cTrailing:
		return append(append([]byte{}, valid...), byte(op.X), 0x00), false, desc + "(not rejected by Block.DecodeBinary by design: checked as accepted-identical)", true
	case cNonMinimalCount:
		// re-encode the transaction count as a 3-byte varint
		hdr := io.NewBufBinWriter()
		c.Header.EncodeBinary(hdr.BinWriter)
		hl := len(hdr.Bytes())
		n := len(c.Transactions)
		if n >= 0xfd || hl >= len(valid) {
			return nil, false, desc, false
		}
		out := append([]byte{}, valid[:hl]...)
		out = append(out, 0xfd, byte(n), 0x00)
		out = append(out, valid[hl+1:]...)
		return out, false, desc, true
	}
	if rebuildMerkle {
		c.RebuildMerkleRoot()
	}
	signed := false
	if op.Resign && resignable[kind] {
		c2, err := decodeBlock(encodeBlock(c), srih)
		if err != nil {
			return nil, false, desc, false
		}
		if r.resign(c2) {
			c.Script.InvocationScript = c2.Script.InvocationScript
			signed = true
			desc += "+resigned"
		}
	}
	// the header of the corrupted block is itself valid and linked when it is re-signed and its own
	// fields are consistent with the chain (only the body is wrong)
	if kind == cTxDropKeepMerkle || kind == cTxReorderKeepMerkle {
		// the genuine header with a body that does not match it
		return encodeBlock(c), true, desc, true
	}
	validHeader = signed && (kind == cMerkle || kind == cTxDup || kind == cTxAlter || kind == cTxExpired || kind == cTxOnChain || kind == cTxUnderfunded || kind == cTxNamedOnChain || kind == cTxBlockedSigner)
	return encodeBlock(c), validHeader, desc, true
}

// extraTx builds a signed transfer with one field mutated before signing.
func (r *run) extraTx(mut func(*transaction.Transaction)) *transaction.Transaction {
	var tx *transaction.Transaction
	if v := sim.Recover(func() {
		p := r.prod
		a := p.kr.acct(0)
		tx = transaction.New(callScript(r.P.BC.UtilityTokenHash(), "transfer", a.ScriptHash(), p.kr.acctHash(1), int64(1), nil), 0)
		p.nonce++
		tx.Nonce = p.nonce
		tx.ValidUntilBlock = r.P.BC.BlockHeight() + 2
		tx.Signers = []transaction.Signer{{Account: a.ScriptHash(), Scopes: transaction.Global}}
		tx.NetworkFee = 5_000_000
		tx.SystemFee = 10_000_000
		mut(tx)
		if err := a.SignTx(r.P.BC.GetConfig().Magic, tx); err != nil {
			tx = nil
		}
	}); v != nil {
		return nil
	}
	return tx
}

func poolHashes(n *Node) []string {
	var hs []string
	for _, tx := range n.BC.GetMemPool().GetVerifiedTransactions() {
		hs = append(hs, tx.Hash().StringLE())
	}
	sort.Strings(hs)
	return hs
}

func (r *run) runC06() {
	r.setupProducer()
	V := r.newNode("V", r.plan.Locals[0])
	byAt := map[int][]CorruptOp{}
	for _, c := range r.plan.Corrupt {
		byAt[c.At] = append(byAt[c.At], c)
	}
	blocks := append([]BlockPlan{{}}, r.plan.Blocks...)
	var prev *block.Block
	headerPoisoned := false
	for bi, bp := range blocks {
		var pre []*transaction.Transaction
		if bi == 0 {
			pre = r.bootstrapTxs()
		}
		if bi == 1 || bi == 2 {
			pre = r.electionTxs(bi)
		}
		b, ok := r.produce(bp, pre)
		if !ok {
			return
		}
		// some unrelated valid transactions sit in the victim's pool
		if bi > 0 {
			if tx := r.extraTx(func(*transaction.Transaction) {}); tx != nil {
				if cp, err := transaction.NewTransactionFromBytes(tx.Bytes()); err == nil {
					_ = V.BC.PoolTx(cp)
				}
			}
		}
		r.c06Delivered = false
		for _, cop := range byAt[bi] {
			if r.c06Delivered {
				break
			}
			if r.attack(V, b, prev, cop, &headerPoisoned) {
				return
			}
			if headerPoisoned {
				// a different validly signed header for this height is recorded now (equivocation built by the
				// harness): the original block is legitimately refused from here on; the run ends
				r.out.Probes["equivocating_header_recorded"]++
				return
			}
		}
		if !r.c06Delivered && r.plan.KnownHeader && prev != nil && r.tape.Chance(1, 2) {
			if r.knownHeaderDelivery(V, b, prev) {
				return
			}
		}
		if r.c06Delivered {
			prev = b
			continue
		}
		if r.tape.Chance(1, 6) {
			// the correct block arrives from two sources at once: one of them applies it, the copy is refused and
			// changes nothing
			e1, e2 := r.addBlockFromTwoSources(V, r.raw[b.Index])
			if r.fail != nil {
				return
			}
			if !(e1 == nil && errors.Is(e2, core.ErrAlreadyExists)) && !(e2 == nil && errors.Is(e1, core.ErrAlreadyExists)) {
				r.violate(sim.Violatef("duplicate-block-not-refused", "", "V was given valid block %d by two callers at once; they were answered %v and %v (expected: one applies it, the other is told it exists already)", b.Index, e1, e2))
				return
			}
		} else if err := V.AddBlockBytes(r.raw[b.Index]); err != nil {
			r.violate(sim.Violatef("valid-block-rejected-after-attack", "", "V rejected the correct block %d (after %d corrupted deliveries): %v", b.Index, len(byAt[bi]), err))
			return
		}
		sim.Wait()
		r.compare(V, b.Index, "after-block")
		if r.fail != nil {
			return
		}
		prev = b
	}
	if r.plan.ForgedHeaders && r.fail == nil {
		r.forgedHeaderBatchAttack(V)
		if r.fail != nil {
			return
		}
	}
	if r.plan.BlockedAttack && r.fail == nil {
		r.blockedSignerAttack(V, prev)
		return
	}
	if r.plan.ConflictAttack && r.fail == nil {
		r.conflictAttack(V, prev)
		return
	}
	if r.plan.Proto.StateRootInHeader && r.plan.HeadersFirst {
		r.headersFirstAttack(V)
	}
}

// conflictAttack: "named as a conflict by an on-chain transaction of one of its signers". A victim transaction is
// prepared (never sent to the producer), transactions naming it in a Conflicts attribute get on chain, and then a
// block that contains the victim - otherwise valid, validly signed by the validators - is delivered: it must be
// refused and change nothing. Variants (tape): the victim sits in V's own pool before the naming block arrives (the
// pool refresh after that block has to drop it; AddBlock does not re-verify pooled transactions) and is named by
// its sender or only by its co-signer; or two transactions name it at different heights - first one of an unrelated
// account, later one of the victim's signer - and the block arrives when the older namer has just left the
// traceable window while the younger one is still inside.
func (r *run) conflictAttack(V *Node, prev *block.Block) {
	bc := r.P.BC
	kr := r.prod.kr
	a, other := kr.acct(0), kr.acct(1)
	gas := func(h util.Uint160) bool { return bc.GetUtilityTokenBalance(h, util.Uint160{}).Sign() > 0 }
	if !gas(a.ScriptHash()) || !gas(other.ScriptHash()) || prev == nil {
		return
	}
	mtb := bc.GetMaxTraceableBlocks()
	inc := bc.GetMaxValidUntilBlockIncrement()
	magic := bc.GetConfig().Magic
	h0 := bc.BlockHeight()
	mk := func(signers []neotest.SingleSigner, amount int64, vub uint32, names *transaction.Transaction) *transaction.Transaction {
		tx := transaction.New(callScript(bc.UtilityTokenHash(), "transfer", signers[0].ScriptHash(), kr.acctHash(2), amount, nil), 0)
		r.prod.nonce++
		tx.Nonce = r.prod.nonce
		tx.ValidUntilBlock = vub
		for _, sg := range signers {
			tx.Signers = append(tx.Signers, transaction.Signer{Account: sg.ScriptHash(), Scopes: transaction.CalledByEntry})
		}
		if names != nil {
			tx.Attributes = append(tx.Attributes, transaction.Attribute{Type: transaction.ConflictsT, Value: &transaction.Conflicts{Hash: names.Hash()}})
		}
		tx.SystemFee = 20_000_000
		var sgs []neotest.Signer
		for _, sg := range signers {
			sgs = append(sgs, sg)
		}
		neotest.AddNetworkFee(r.P.tb, bc, tx, sgs...)
		if names != nil {
			tx.NetworkFee += 10_000_000
		}
		for _, sg := range signers {
			if err := sg.SignTx(magic, tx); err != nil {
				sim.Harnessf("sign: %v", err)
			}
		}
		return tx
	}
	step := func(pre []*transaction.Transaction) (*block.Block, bool) {
		b, ok := r.produce(BlockPlan{}, pre)
		if !ok {
			return nil, false
		}
		for _, tx := range pre {
			if _, _, err := bc.GetTransaction(tx.Hash()); err != nil {
				r.out.Probes["conflict_attack_namer_not_on_chain"]++
				return nil, false
			}
		}
		if err := V.AddBlockBytes(r.raw[b.Index]); err != nil {
			r.violate(sim.Violatef("valid-block-rejected-after-attack", "", "V rejected the correct block %d: %v", b.Index, err))
			return nil, false
		}
		sim.Wait()
		r.compare(V, b.Index, "after-block")
		return b, r.fail == nil
	}
	var victim *transaction.Transaction
	variant := r.tape.Choose(4)
	if variant >= 2 && (mtb > 12 || inc < 3) {
		variant = r.tape.Choose(2)
	}
	switch variant {
	case 0, 1:
		// pooled at V (variant 0) or unknown to V (variant 1); sender a, co-signer other; named by one of them
		victim = mk([]neotest.SingleSigner{a, other}, 7, h0+min(inc, 4), nil)
		if variant == 0 {
			cp, err := transaction.NewTransactionFromBytes(victim.Bytes())
			if err != nil {
				sim.Harnessf("tx copy: %v", err)
			}
			if err := V.BC.PoolTx(cp); err != nil {
				r.out.Probes["conflict_attack_victim_not_poolable"]++
				return
			}
			r.out.Probes["conflict_attack_victim_pooled"]++
		}
		namer := []neotest.SingleSigner{a}
		if r.tape.Chance(1, 2) {
			namer = []neotest.SingleSigner{other}
			r.out.Probes["conflict_attack_named_by_cosigner"]++
		}
		b, ok := step([]*transaction.Transaction{mk(namer, 3, h0+min(inc, 3), victim)})
		if !ok {
			return
		}
		prev = b
		if min(inc, 4) >= 3 && r.tape.Chance(1, 2) {
			if b, ok = step(nil); !ok {
				return
			}
			prev = b
		}
		if variant == 0 && V.BC.GetMemPool().ContainsKey(victim.Hash()) {
			// not demanded by C06 itself: what counts is whether the block carrying it is refused below
			r.out.Probes["conflict_attack_victim_still_pooled"]++
		}
	case 2, 3:
		// two namers at different heights; the block arrives when the older one is just untraceable
		i1 := h0 + 1
		victim = mk([]neotest.SingleSigner{a}, 7, i1+mtb+1, nil)
		older, newer := []neotest.SingleSigner{other}, []neotest.SingleSigner{a}
		if variant == 3 {
			// the victim has two signers; the older (untraceable) namer is signed by one of them, the newer one by the
			// other: whichever signer's record is looked at first, the traceable conflict counts
			vs := []neotest.SingleSigner{a, other}
			if r.tape.Chance(1, 2) {
				older, newer = []neotest.SingleSigner{a}, []neotest.SingleSigner{other}
			} else {
				older, newer = []neotest.SingleSigner{other}, []neotest.SingleSigner{a}
			}
			victim = mk(vs, 7, i1+mtb+1, nil)
			r.out.Probes["conflict_attack_two_namers_two_signers"]++
		}
		b, ok := step([]*transaction.Transaction{mk(older, 3, h0+min(inc, 3), victim)})
		if !ok {
			return
		}
		prev = b
		gap := r.tape.Choose(int(min(mtb-2, 4)))
		for i := 0; i < gap; i++ {
			if b, ok = step(nil); !ok {
				return
			}
			prev = b
		}
		hb := bc.BlockHeight()
		if b, ok = step([]*transaction.Transaction{mk(newer, 4, hb+min(inc, 3), victim)}); !ok {
			return
		}
		prev = b
		// the attacked block has index i1+mtb+1-back: its verification height is i1+mtb-back
		back := uint32(r.tape.Choose(2))
		for bc.BlockHeight() < i1+mtb-back {
			if b, ok = step(nil); !ok {
				return
			}
			prev = b
		}
		r.out.Probes["conflict_attack_two_namers"]++
	}
	// the genuine next block and its variant carrying the victim
	b, ok := r.produce(BlockPlan{}, nil)
	if !ok {
		return
	}
	if victim.ValidUntilBlock < b.Index || victim.ValidUntilBlock > b.Index-1+inc {
		r.out.Probes["conflict_attack_victim_out_of_window"]++
		return
	}
	r.c06Victim = victim
	poisoned := false
	r.out.Probes["conflict_attack_delivered"]++
	if r.attack(V, b, prev, CorruptOp{Kind: cTxNamedOnChain, Resign: true}, &poisoned) {
		return
	}
	if !poisoned {
		if err := V.AddBlockBytes(r.raw[b.Index]); err != nil {
			r.violate(sim.Violatef("valid-block-rejected-after-attack", "", "V rejected the correct block %d after the block carrying a conflicting transaction: %v", b.Index, err))
		}
	}
}

// headersFirstAttack: headers run ahead of blocks. The header of block N+1 - validly linked and signed by the
// real validators (equivocation only the harness can build) but with a wrong PrevStateRoot - is recorded while
// the state is still at N-1, where the previous state root cannot be checked yet. Whatever happens to block N
// then, the block N+1 carrying that header must never be accepted.
func (r *run) headersFirstAttack(V *Node) {
	bn, ok := r.produce(BlockPlan{}, nil)
	if !ok {
		return
	}
	bn1, ok := r.produce(BlockPlan{}, nil)
	if !ok {
		return
	}
	srih := true
	bad, err := decodeBlock(encodeBlock(bn1), srih)
	if err != nil {
		sim.Harnessf("re-decode: %v", err)
	}
	bad.PrevStateRoot[3] ^= 0x10
	c2, err := decodeBlock(encodeBlock(bad), srih)
	if err != nil || !r.resign(c2) {
		return
	}
	bad.Script.InvocationScript = c2.Script.InvocationScript
	badRaw := encodeBlock(bad)
	badBlk, err := decodeBlock(badRaw, srih)
	if err != nil {
		sim.Harnessf("re-decode: %v", err)
	}
	gn, _ := decodeBlock(r.raw[bn.Index], srih)
	r.out.Faults["headers_first_bad_prevstateroot"]++
	herr := V.BC.AddHeaders(&gn.Header, &badBlk.Header)
	r.log.Addf("headers-first attack: AddHeaders(%d genuine, %d with a wrong PrevStateRoot) -> %v", bn.Index, bn1.Index, herr != nil)
	e1 := V.AddBlockBytes(r.raw[bn.Index])
	sim.Wait()
	e2 := V.AddBlockBytes(badRaw)
	sim.Wait()
	if e2 == nil {
		r.violate(sim.Violatef("corrupted-block-accepted", "corrupted-block-accepted/prevstateroot-headers-first", "block %d whose (validly signed) header carries a PrevStateRoot that does not match the local state root of %d was accepted after its header had been recorded ahead of the blocks (AddHeaders err=%v, AddBlock(%d) err=%v)", bn1.Index, bn.Index, herr, bn.Index, e1))
		return
	}
	if V.BC.BlockHeight() > bn.Index {
		r.violate(sim.Violatef("rejected-block-changed-tip", "", "height moved to %d although block %d was rejected", V.BC.BlockHeight(), bn1.Index))
	}
}

// blockedSignerAttack: "satisfies policy rules". The committee blocks an account; then a validly signed block arrives
// that carries a transaction signed (as sender or as a co-signer at any position) by the blocked account, with all
// witnesses valid. It must be refused and change nothing.
func (r *run) blockedSignerAttack(V *Node, prev *block.Block) {
	bc := r.P.BC
	kr := r.prod.kr
	if prev == nil {
		return
	}
	xi := 4 + r.tape.Choose(2)
	x := kr.acct(xi)
	// the committee blocks account x (both nodes accept that block)
	var btx *transaction.Transaction
	if v := sim.Recover(func() { btx, _ = r.prod.buildTx(Op{Kind: OpPolicy, X: 3, B: xi, Y: 1}, nil) }); v != nil || btx == nil {
		r.out.Probes["blocked_attack_not_applicable"]++
		return
	}
	b, ok := r.produce(BlockPlan{}, []*transaction.Transaction{btx})
	if !ok {
		return
	}
	if err := V.AddBlockBytes(r.raw[b.Index]); err != nil {
		r.violate(sim.Violatef("valid-block-rejected-after-attack", "", "V rejected the correct block %d: %v", b.Index, err))
		return
	}
	sim.Wait()
	r.compare(V, b.Index, "after-block")
	if r.fail != nil {
		return
	}
	prev = b
	if aer, err := bc.GetAppExecResults(btx.Hash(), trigger.Application); err != nil || len(aer) != 1 || aer[0].VMState != vmstate.Halt {
		r.out.Probes["blocked_attack_not_applicable"]++ // e.g. the committee is no longer the one the keyring can sign for
		return
	}
	// the transaction: 1-3 signers, the blocked one at a tape-chosen position
	var signers []neotest.SingleSigner
	n := 1 + r.tape.Choose(3)
	pos := r.tape.Choose(n)
	for i := 0; i < n; i++ {
		if i == pos {
			signers = append(signers, x)
		} else {
			signers = append(signers, kr.acct(r.tape.Choose(4)))
		}
	}
	seen := map[util.Uint160]bool{}
	for _, sg := range signers {
		if seen[sg.ScriptHash()] {
			r.out.Probes["blocked_attack_not_applicable"]++
			return
		}
		seen[sg.ScriptHash()] = true
	}
	if bc.GetUtilityTokenBalance(signers[0].ScriptHash(), util.Uint160{}).Sign() <= 0 {
		r.out.Probes["blocked_attack_not_applicable"]++
		return
	}
	tx := transaction.New(callScript(bc.UtilityTokenHash(), "transfer", signers[0].ScriptHash(), kr.acctHash(3), int64(5), nil), 20_000_000)
	r.prod.nonce++
	tx.Nonce = r.prod.nonce
	tx.ValidUntilBlock = bc.BlockHeight() + 2
	var sgs []neotest.Signer
	for _, sg := range signers {
		tx.Signers = append(tx.Signers, transaction.Signer{Account: sg.ScriptHash(), Scopes: transaction.CalledByEntry})
		sgs = append(sgs, sg)
	}
	neotest.AddNetworkFee(r.P.tb, bc, tx, sgs...)
	for _, sg := range signers {
		if err := sg.SignTx(bc.GetConfig().Magic, tx); err != nil {
			sim.Harnessf("sign: %v", err)
		}
	}
	nb, ok := r.produce(BlockPlan{}, nil)
	if !ok {
		return
	}
	r.c06Victim = tx
	poisoned := false
	r.out.Probes["blocked_attack_delivered"]++
	r.out.Probes[fmt.Sprintf("blocked_attack_signer_%d_of_%d", pos+1, n)]++
	if r.attack(V, nb, prev, CorruptOp{Kind: cTxBlockedSigner, Resign: true}, &poisoned) {
		return
	}
	if !poisoned {
		if err := V.AddBlockBytes(r.raw[nb.Index]); err != nil {
			r.violate(sim.Violatef("valid-block-rejected-after-attack", "", "V rejected the correct block %d after the block carrying a transaction of a blocked account: %v", nb.Index, err))
		}
	}
}

// forgedHeaders builds a two-header batch only a peer that lies can send: X has the index (and all other fields) of
// the genuine header `base`, which the receiver already knows, but names the attacker's own key as next consensus;
// N is a well-formed child of X (next index, later timestamp) signed by that key. A receiver has to judge N against
// the parent it has stored itself, not against what the batch claims the parent to be.
func (r *run) forgedHeaders(base *block.Header) (*block.Header, *block.Header) {
	att := r.prod.kr.acct(0)
	srih := r.plan.Proto.StateRootInHeader
	recode := func(h *block.Header) *block.Header {
		bw := io.NewBufBinWriter()
		h.EncodeBinary(bw.BinWriter)
		if bw.Err != nil {
			sim.Harnessf("header recode: %v", bw.Err)
		}
		fresh := &block.Header{StateRootEnabled: srih}
		br := io.NewBinReaderFromBuf(bw.Bytes())
		fresh.DecodeBinary(br)
		if br.Err != nil {
			sim.Harnessf("header recode: %v", br.Err)
		}
		return fresh
	}
	x := *base
	x.NextConsensus = att.ScriptHash()
	xx := recode(&x)
	n := block.Header{Version: base.Version, PrevHash: xx.Hash(), Timestamp: base.Timestamp + 1500, Nonce: 7, Index: base.Index + 1,
		NextConsensus: att.ScriptHash(), StateRootEnabled: srih, PrevStateRoot: base.PrevStateRoot}
	n.Script.VerificationScript = att.Script()
	nn := recode(&n)
	nn.Script.InvocationScript = att.SignHashable(uint32(r.P.BC.GetConfig().Magic), nn)
	return xx, recode(nn)
}

// forgedHeaderBatchAttack: the batch of forgedHeaders is offered to V through AddHeaders; nothing may be recorded.
func (r *run) forgedHeaderBatchAttack(V *Node) {
	bc := V.BC
	hh := bc.HeaderHeight()
	at := hh - uint32(r.tape.Choose(int(min(hh, 2))+1))
	base, err := bc.GetHeader(bc.GetHeaderHash(at))
	if err != nil {
		return
	}
	x, n := r.forgedHeaders(base)
	if err := bc.VerifPersist(false); err != nil {
		sim.Harnessf("flush: %v", err)
	}
	sim.Wait()
	dumpBefore := V.Disk.Dump()
	var aerr error
	if v := sim.Recover(func() { aerr = bc.AddHeaders(x, n) }); v != nil {
		r.violate(v)
		return
	}
	sim.Wait()
	r.out.Faults["forged_header_batch"]++
	r.log.Addf("forged header batch [known index %d with another NextConsensus, child %d signed by that key] -> rejected=%v", x.Index, n.Index, aerr != nil)
	if bc.HeaderHeight() != hh || (n.Index <= bc.HeaderHeight() && bc.GetHeaderHash(n.Index) == n.Hash()) {
		r.violate(sim.Violatef("corrupted-block-accepted", "corrupted-block-accepted/forged-header-batch", "AddHeaders accepted header %d signed by a key that only the preceding header OF THE SAME BATCH (index %d, already known with other content) names as next consensus: header height %d -> %d (err=%v)", n.Index, x.Index, hh, bc.HeaderHeight(), aerr))
		return
	}
	if err := bc.VerifPersist(false); err != nil {
		sim.Harnessf("flush: %v", err)
	}
	sim.Wait()
	if diff := rawDiff(dumpBefore, V.Disk.Dump()); len(diff) > 0 {
		r.violate(sim.Violatef("rejected-block-changed-db", "rejected-block-changed-db/forged-header-batch", "after the refused forged header batch the database changed: %x", diff))
	}
}

// signSubset builds the invocation script of an m-of-n witness from the signatures of the keys other than pubs[skip]
// (pubs sorted): another valid witness of the same block, as another consensus node would assemble it.
func (r *run) signSubset(b *block.Block, pubs keys.PublicKeys, m, skip int) []byte {
	pubs = pubs.Copy()
	sort.Sort(pubs)
	var inv []byte
	n := 0
	for i, p := range pubs {
		if i == skip || n == m {
			continue
		}
		pk, ok := r.prod.kr.byPub[p.StringCompressed()]
		if !ok {
			return nil
		}
		sig := pk.SignHashable(uint32(r.P.BC.GetConfig().Magic), b)
		inv = append(inv, byte(opcode.PUSHDATA1), byte(len(sig)))
		inv = append(inv, sig...)
		n++
	}
	if n != m {
		return nil
	}
	return inv
}

// knownHeaderDelivery: the genuine header of b is recorded ahead of the block (AddHeaders). Then (1) when b hands the
// chain over to other validators, a copy of b witnessed by the validators b itself designates - they have no authority
// over b - must be refused without any change; (2) b witnessed by another valid subset of the validators designated
// by the previous block (what another consensus node assembles) is a valid extension and must be accepted.
// Returns true when the run must stop.
func (r *run) knownHeaderDelivery(V *Node, b, prev *block.Block) bool {
	srih := r.plan.Proto.StateRootInHeader
	m, pubsB, ok := scparser.ParseMultiSigContract(b.Script.VerificationScript)
	if !ok || len(pubsB) <= m {
		return false
	}
	var pubs keys.PublicKeys
	for _, pb := range pubsB {
		pk, err := keys.NewPublicKeyFromBytes(pb, elliptic.P256())
		if err != nil {
			return false
		}
		pubs = append(pubs, pk)
	}
	g, err := decodeBlock(r.raw[b.Index], srih)
	if err != nil {
		sim.Harnessf("re-decode: %v", err)
	}
	if herr := V.BC.AddHeaders(&g.Header); herr != nil {
		r.violate(sim.Violatef("valid-header-rejected", "", "AddHeaders refused the genuine header %d: %v", b.Index, herr))
		return true
	}
	sim.Wait()
	r.out.Faults["header_known_before_block"]++
	h, tip := V.BC.BlockHeight(), V.BC.CurrentBlockHash()
	if b.NextConsensus != prev.NextConsensus {
		// (1) witnessed by the validators of the NEXT block
		if next, nerr := r.P.BC.GetNextBlockValidators(); nerr == nil {
			if ms, merr := r.prod.kr.multiSigner(next, smartcontract.GetDefaultHonestNodeCount(len(next))); merr == nil {
				c, _ := decodeBlock(r.raw[b.Index], srih)
				c.Script.VerificationScript = ms.Script()
				c2, _ := decodeBlock(encodeBlock(c), srih)
				c.Script.InvocationScript = ms.SignHashable(uint32(r.P.BC.GetConfig().Magic), c2)
				e := V.AddBlockBytes(encodeBlock(c))
				sim.Wait()
				r.out.Faults["handover_block_signed_by_next_validators"]++
				r.log.Addf("known header %d, block witnessed by the validators it designates -> refused=%v", b.Index, e != nil)
				if e == nil || V.BC.BlockHeight() != h || V.BC.CurrentBlockHash() != tip {
					r.violate(sim.Violatef("corrupted-block-accepted", "corrupted-block-accepted/witness-of-next-validators", "block %d (header already known) witnessed by the validators it designates for block %d instead of those designated by block %d was accepted (err=%v, height %d->%d)", b.Index, b.Index+1, prev.Index, e, h, V.BC.BlockHeight()))
					return true
				}
			}
		}
	}
	// (2) another valid witness
	alt, _ := decodeBlock(r.raw[b.Index], srih)
	inv := r.signSubset(alt, pubs, m, int(r.tape.Choose(m)))
	if inv == nil || bytes.Equal(inv, b.Script.InvocationScript) {
		return false
	}
	alt.Script.InvocationScript = inv
	e := V.AddBlockBytes(encodeBlock(alt))
	sim.Wait()
	r.out.Probes["known_header_alt_witness_delivered"]++
	if b.NextConsensus != prev.NextConsensus {
		r.out.Probes["known_header_alt_witness_at_handover"]++
	}
	r.log.Addf("known header %d, block delivered with another valid witness -> %v", b.Index, e == nil)
	if e != nil {
		r.violate(sim.Violatef("valid-block-rejected", "valid-block-rejected/other-witness-after-header", "block %d, correctly witnessed by another subset of the validators designated by block %d, was refused after its header had been recorded: %v", b.Index, prev.Index, e))
		return true
	}
	r.compare(V, b.Index, "after-known-header-block")
	r.c06Delivered = true
	return r.fail != nil
}

// attack delivers one corrupted variant of b and checks that nothing changed. Returns true when the run must stop.
func (r *run) attack(V *Node, b, prev *block.Block, cop CorruptOp, poisoned *bool) bool {
	raw, validHeader, desc, ok := r.corrupt(b, prev, cop)
	if !ok {
		r.out.Probes["corruption_not_applicable"]++
		return false
	}
	valid := r.raw[b.Index]
	if bytes.Equal(raw, valid) {
		r.out.Probes["corruption_identical_to_valid"]++
		return false
	}
	if cb, derr := decodeBlock(raw, r.plan.Proto.StateRootInHeader); derr == nil && cb.Hash() == b.Hash() &&
		bytes.Equal(cb.Script.InvocationScript, b.Script.InvocationScript) && bytes.Equal(cb.Script.VerificationScript, b.Script.VerificationScript) {
		// the header is the genuine one (e.g. duplicating the last of an odd number of transactions keeps the Merkle root)
		validHeader = true
		r.out.Probes["corruption_keeps_genuine_header"]++
	}
	h := V.BC.BlockHeight()
	// baseline: flushed state, raw dump, pool, tip
	if err := V.BC.VerifPersist(false); err != nil {
		sim.Harnessf("flush: %v", err)
	}
	sim.Wait()
	dumpBefore := V.Disk.Dump()
	poolBefore := poolHashes(V)
	tipBefore := V.BC.CurrentBlockHash()
	hdrBefore := V.BC.HeaderHeight()

	var err error
	if v := sim.Recover(func() { err = V.AddBlockBytes(raw) }); v != nil {
		v.Msg = fmt.Sprintf("AddBlock of a corrupted block (%s) panicked: %s", desc, v.Msg)
		r.violate(v)
		return true
	}
	sim.Wait()
	r.out.Faults["corrupted_block_delivered"]++
	r.out.Faults["corruption/"+corruptionNames[cop.Kind%numCorruptions]]++
	r.log.Addf("attack %s before block %d -> %v", desc, b.Index, err != nil)
	kind := cop.Kind % numCorruptions
	if err == nil {
		if kind == cTrailing || kind == cNonMinimalCount {
			// the decoder ignores trailing bytes / accepts the count: the accepted block must be exactly the valid one
			r.out.Probes["lenient_decoding_accepted_identical_block"]++
			r.compare(V, b.Index, "after-lenient-decode")
			if r.fail == nil && V.BC.CurrentBlockHash() != b.Hash() {
				r.violate(sim.Violatef("corrupted-block-accepted", "corrupted-block-accepted/"+desc, "block %d delivered with %s was accepted with another hash", b.Index, desc))
			}
			// the block is on the chain now: skip the valid delivery by making it a duplicate
			if err2 := V.AddBlockBytes(valid); err2 == nil {
				r.violate(sim.Violatef("duplicate-accepted", "", "block %d accepted twice", b.Index))
			}
			return true
		}
		if cb, derr := decodeBlock(raw, r.plan.Proto.StateRootInHeader); derr == nil && cb.Hash() == b.Hash() && hdrBefore >= b.Index &&
			(kind == cSigFlip || kind == cSigMissing || kind == cSigReorder || kind == cSigOtherKeys || kind == cVerifScript) {
			// recorded finding: once the header of this height is known, AddBlock only compares hashes, and the hash
			// does not cover the witness, so the block is stored with whatever witness it was delivered with.
			// Content and state are those of the valid block: the run goes on (soft), the valid delivery is skipped.
			r.out.Probes["bad_witness_accepted_after_header"]++
			if r.soft == nil {
				r.soft = sim.Violatef("corrupted-block-accepted", "bad-witness-accepted-after-header", "V accepted block %d delivered with a corrupted witness (%s) because its header was already recorded: AddBlock compares only the hash, which does not cover the witness", b.Index, desc)
			}
			r.compare(V, b.Index, "after-bad-witness-block")
			r.c06Delivered = true
			return r.fail != nil
		}
		r.violate(sim.Violatef("corrupted-block-accepted", "corrupted-block-accepted/"+corruptionNames[kind], "V accepted block %d corrupted by %s", b.Index, desc))
		return true
	}
	// nothing may have changed
	if V.BC.BlockHeight() != h || V.BC.CurrentBlockHash() != tipBefore {
		r.violate(sim.Violatef("rejected-block-changed-tip", "", "after rejecting %s the tip moved: height %d -> %d", desc, h, V.BC.BlockHeight()))
		return true
	}
	if h > 0 {
		r.compare(V, h, "after-rejected-block")
		if r.fail != nil {
			r.fail.Msg = fmt.Sprintf("after rejecting a block corrupted by %s: %s", desc, r.fail.Msg)
			return true
		}
	}
	if pa := poolHashes(V); fmt.Sprint(pa) != fmt.Sprint(poolBefore) {
		r.violate(sim.Violatef("rejected-block-changed-pool", "", "after rejecting %s the mempool changed: %d -> %d transactions", desc, len(poolBefore), len(pa)))
		return true
	}
	if err := V.BC.VerifPersist(false); err != nil {
		sim.Harnessf("flush: %v", err)
	}
	sim.Wait()
	dumpAfter := V.Disk.Dump()
	diff := rawDiff(dumpBefore, dumpAfter)
	if len(diff) > 0 {
		if !validHeader {
			r.violate(sim.Violatef("rejected-block-changed-db", "rejected-block-changed-db/"+corruptionNames[kind], "after rejecting block %d corrupted by %s (header not valid) the database changed: %x", b.Index, desc, diff))
			return true
		}
		// only the header record, the header pointer and header hash pages may differ
		for _, k := range diff {
			if !(k[0] == byte(storage.DataExecutable) || k[0] == byte(storage.SYSCurrentHeader) || k[0] == byte(storage.IXHeaderHashList)) {
				r.violate(sim.Violatef("rejected-block-changed-db", "rejected-block-changed-db/beyond-header", "after rejecting block %d corrupted by %s (valid header) the database changed beyond the header record: key %x", b.Index, desc, k))
				return true
			}
		}
		r.out.Probes["valid_header_of_rejected_block_recorded"]++
		if cb, err := decodeBlock(raw, r.plan.Proto.StateRootInHeader); err != nil || cb.Hash() != b.Hash() {
			*poisoned = true
		} else {
			r.out.Probes["genuine_header_recorded_before_body"]++
		}
		return false
	}
	if V.BC.HeaderHeight() != hdrBefore {
		if !validHeader {
			r.violate(sim.Violatef("rejected-block-changed-headers", "", "after rejecting block %d corrupted by %s the header height moved %d -> %d", b.Index, desc, hdrBefore, V.BC.HeaderHeight()))
			return true
		}
		if cb, err := decodeBlock(raw, r.plan.Proto.StateRootInHeader); err != nil || cb.Hash() != b.Hash() {
			*poisoned = true
		}
	}
	return false
}

func rawDiff(a, b []simdisk.KV) []string {
	am := map[string]string{}
	for _, kv := range a {
		am[kv.K] = canonValue(kv.K, kv.V)
	}
	var d []string
	seen := map[string]bool{}
	for _, kv := range b {
		seen[kv.K] = true
		if v, ok := am[kv.K]; !ok || v != canonValue(kv.K, kv.V) {
			d = append(d, kv.K)
		}
	}
	for _, kv := range a {
		if !seen[kv.K] {
			d = append(d, kv.K)
		}
	}
	sort.Strings(d)
	return d
}

var _ = util.Uint256{}
