package ledger

import (
	"bytes"
	"fmt"
	"runtime"
	"strconv"
	"strings"
	"sync"

	"github.com/nspcc-dev/neo-go/pkg/core/storage"

	"verif/sim"
)

// Flush inside a block (DESIGN.md 1.4, "flush window scenarios"): the production flush runs on the Run()
// goroutine concurrently with AddBlock; the only lock they share is the write cache's mutex. Under the build tag
// verif the cache yields to the harness right before it takes that mutex (storage.VerifLockYield), which is a
// point where the yielding goroutine holds none of the cache's locks. The harness runs AddBlock and the flush as
// two real goroutines, parks them at plan-chosen yields and releases one at a time, so that the flush lands at a
// chosen place inside storeBlock: the batch it writes is then one more crash point of the C02 sweep.

func curGoroutineID() uint64 {
	var buf [64]byte
	b := buf[:runtime.Stack(buf[:], false)]
	b = bytes.TrimPrefix(b, []byte("goroutine "))
	if i := bytes.IndexByte(b, ' '); i > 0 {
		if id, err := strconv.ParseUint(string(b[:i]), 10, 64); err == nil {
			return id
		}
	}
	return 0
}

type interleaver struct {
	mu       sync.Mutex
	role     map[uint64]string
	count    map[string]int
	parkAt   map[string]map[int]bool // role -> yield ordinals at which to park (flusher: every yield)
	parked   map[string]chan struct{}
	sites    map[string]string
	finished map[string]bool
	depth    map[uint64]int
	buf      []byte
}

func (il *interleaver) hook(site string) {
	gid := curGoroutineID()
	il.mu.Lock()
	role := il.role[gid]
	if role == "" {
		il.mu.Unlock()
		return
	}
	// lock nesting: while the write cache is being flushed its lower store is another (non-private) cache, so a
	// read that falls through takes a second read lock while holding the first. A goroutine is parked only when
	// it holds none.
	switch site {
	case "unlock", "runlock":
		il.depth[gid]--
		il.mu.Unlock()
		return
	case "lock", "rlock":
		il.depth[gid]++
		if il.depth[gid] > 1 {
			il.mu.Unlock()
			return
		}
	}
	il.count[role]++
	n := il.count[role]
	// the flusher parks only at Persist's own two lock sites: its other store accesses (GC) can happen under a
	// lock of the bottom store, where parking would block the adder on a mutex
	park := (role == "flusher" && strings.HasPrefix(site, "persist-")) || (role == "adder" && il.parkAt[role][n])
	var ch chan struct{}
	if park {
		ch = make(chan struct{})
		il.parked[role] = ch
		il.sites[role] = fmt.Sprintf("%s#%d", site, n)
	}
	il.mu.Unlock()
	if park {
		<-ch
	}
}

func (il *interleaver) release(role string) bool {
	il.mu.Lock()
	ch := il.parked[role]
	delete(il.parked, role)
	il.mu.Unlock()
	if ch == nil {
		return false
	}
	close(ch)
	return true
}

// goroutineStates returns the wait reason of every goroutine ("running", "chan receive (durable), synctest bubble 1",
// "sync.RWMutex.RLock, synctest bubble 1", ...), parsed from the headers of a full stack dump.
func (il *interleaver) goroutineStates() map[uint64]string {
	if il.buf == nil {
		il.buf = make([]byte, 4<<20)
	}
	b := il.buf[:runtime.Stack(il.buf, true)]
	res := map[uint64]string{}
	for len(b) > 0 {
		line := b
		if i := bytes.IndexByte(b, '\n'); i >= 0 {
			line, b = b[:i], b[i+1:]
		} else {
			b = nil
		}
		if !bytes.HasPrefix(line, []byte("goroutine ")) {
			continue
		}
		rest := line[len("goroutine "):]
		sp := bytes.IndexByte(rest, ' ')
		lb, rb := bytes.IndexByte(rest, '['), bytes.LastIndexByte(rest, ']')
		if sp <= 0 || lb < 0 || rb < lb {
			continue
		}
		if id, err := strconv.ParseUint(string(rest[:sp]), 10, 64); err == nil {
			res[id] = string(rest[lb+1 : rb])
		}
	}
	return res
}

// settle waits until both goroutines of the concurrent section are in a state that only a decision of the
// scheduler can change: parked at a yield, finished, or waiting for a sync.(RW)Mutex while the other one is parked
// (a parked goroutine holds none of the cache's locks, but it may hold one of the ledger's other locks - the native
// cache lock inside dao.Persist, the header hashes lock, bc.lock - that the flush or the GC pass after it needs;
// production simply waits there, and so does the harness: the lock holder is released next). synctest.Wait cannot
// be used inside the section, a goroutine waiting for a mutex is not durably blocked. The decision depends on
// goroutine states only, never on time.
func (il *interleaver) settle() (adder, flusher string) {
	for i := 0; ; i++ {
		if i > 200000 {
			sim.Harnessf("concurrent flush: the section did not settle (adder %s, flusher %s)", adder, flusher)
		}
		runtime.Gosched()
		il.mu.Lock()
		gids := map[string]uint64{}
		for g, r := range il.role {
			gids[r] = g
		}
		st := map[string]string{}
		for _, r := range []string{"adder", "flusher"} {
			switch {
			case il.finished[r]:
				st[r] = "finished"
			case il.parked[r] != nil:
				st[r] = "parked"
			case gids[r] == 0:
				st[r] = "finished" // not started
			}
		}
		il.mu.Unlock()
		adder, flusher = st["adder"], st["flusher"]
		if adder != "" && flusher != "" {
			return
		}
		gs := il.goroutineStates()
		for _, r := range []string{"adder", "flusher"} {
			if st[r] == "" {
				if s := gs[gids[r]]; strings.HasPrefix(s, "sync.Mutex.Lock") || strings.HasPrefix(s, "sync.RWMutex.") {
					st[r] = "blocked"
				}
			}
		}
		adder, flusher = st["adder"], st["flusher"]
		if (adder == "blocked" && flusher == "parked") || (flusher == "blocked" && adder == "parked") {
			return
		}
	}
}

func (il *interleaver) isParked(role string) bool {
	il.mu.Lock()
	defer il.mu.Unlock()
	return il.parked[role] != nil
}

// addBlockWithConcurrentFlush delivers raw to n while one flush runs concurrently; k1,k2 (tape) place the two
// phases of the flush (map swap + write to disk; restoring the lower store pointer) among the adder's yields.
func (r *run) addBlockWithConcurrentFlush(n *Node, raw []byte, withGC bool) (addErr, flushErr error) {
	il := &interleaver{role: map[uint64]string{}, count: map[string]int{}, parkAt: map[string]map[int]bool{"adder": {}},
		parked: map[string]chan struct{}{}, sites: map[string]string{}, finished: map[string]bool{}, depth: map[uint64]int{}}
	// the adder yields a few hundred times per block; the two parking ordinals are spread over that range
	k1 := 1 + r.tape.Choose(90)
	k2 := k1 + 1 + r.tape.Choose(60)
	il.parkAt["adder"][k1] = true
	il.parkAt["adder"][k2] = true
	storage.VerifLockYield = il.hook
	defer func() { storage.VerifLockYield = nil }()

	var wg sync.WaitGroup
	var pv1, pv2 *sim.Violation
	wg.Add(2)
	go func() {
		defer wg.Done()
		il.mu.Lock()
		il.role[curGoroutineID()] = "adder"
		il.mu.Unlock()
		pv1 = sim.Recover(func() { addErr = n.AddBlockBytes(raw) })
		il.mu.Lock()
		il.finished["adder"] = true
		il.mu.Unlock()
	}()
	sim.Wait() // adder parked at k1 or finished
	go func() {
		defer wg.Done()
		il.mu.Lock()
		il.role[curGoroutineID()] = "flusher"
		il.mu.Unlock()
		pv2 = sim.Recover(func() { flushErr = n.BC.VerifPersist(withGC) })
		il.mu.Lock()
		il.finished["flusher"] = true
		il.mu.Unlock()
	}()
	il.settle() // flusher parked before its first lock (or finished: nothing to flush)
	inside := il.isParked("adder")
	// tape-chosen order of releases; every goroutine parked here holds none of the cache's locks
	for guard := 0; ; guard++ {
		if guard > 5000 {
			sim.Harnessf("concurrent flush: too many scheduling steps")
		}
		a, f := il.settle()
		if a != "parked" && f != "parked" {
			break
		}
		switch {
		case a == "parked" && f == "parked":
			if r.tape.Choose(2) == 0 {
				il.release("flusher")
			} else {
				il.release("adder")
			}
		case f == "parked":
			il.release("flusher")
		default:
			if f == "blocked" {
				r.out.Probes["flusher_waited_for_lock_of_parked_adder"]++
			}
			il.release("adder")
		}
	}
	wg.Wait()
	sim.Wait()
	if inside {
		r.out.Faults["flush_inside_block"]++
	} else {
		r.out.Probes["concurrent_flush_after_block_end"]++
	}
	r.out.Probes["adder_yields"] += il.count["adder"]
	if pv1 != nil {
		r.violate(pv1)
	} else if pv2 != nil {
		r.violate(pv2)
	}
	return addErr, flushErr
}

// addBlockFromTwoSources hands the same block to the node from two goroutines (the network's block queue and an RPC
// submitblock, say): the first one is parked at a tape-chosen yield inside its AddBlock (it holds the ledger's add
// lock there), then the second one calls AddBlock with the same bytes and is left to run until it waits for that lock;
// then the first one is released. Exactly one of them may apply the block; the other one is told it exists already.
// (The second caller has the interleaver role "flusher": that role never parks outside Persist.)
func (r *run) addBlockFromTwoSources(n *Node, raw []byte) (firstErr, secondErr error) {
	il := &interleaver{role: map[uint64]string{}, count: map[string]int{}, parkAt: map[string]map[int]bool{"adder": {}},
		parked: map[string]chan struct{}{}, sites: map[string]string{}, finished: map[string]bool{}, depth: map[uint64]int{}}
	il.parkAt["adder"][1+r.tape.Choose(120)] = true
	storage.VerifLockYield = il.hook
	defer func() { storage.VerifLockYield = nil }()
	var wg sync.WaitGroup
	var pv1, pv2 *sim.Violation
	wg.Add(2)
	go func() {
		defer wg.Done()
		il.mu.Lock()
		il.role[curGoroutineID()] = "adder"
		il.mu.Unlock()
		pv1 = sim.Recover(func() { firstErr = n.AddBlockBytes(raw) })
		il.mu.Lock()
		il.finished["adder"] = true
		il.mu.Unlock()
	}()
	sim.Wait() // first caller parked inside AddBlock, or finished
	inside := il.isParked("adder")
	go func() {
		defer wg.Done()
		il.mu.Lock()
		il.role[curGoroutineID()] = "flusher"
		il.mu.Unlock()
		pv2 = sim.Recover(func() { secondErr = n.AddBlockBytes(raw) })
		il.mu.Lock()
		il.finished["flusher"] = true
		il.mu.Unlock()
	}()
	for guard := 0; ; guard++ {
		if guard > 5000 {
			sim.Harnessf("two sources: too many scheduling steps")
		}
		a, s := il.settle()
		if a != "parked" {
			if s == "blocked" {
				continue
			}
			break
		}
		if s == "blocked" {
			r.out.Probes["second_source_waited_for_the_add_lock"]++
		}
		il.release("adder")
	}
	wg.Wait()
	sim.Wait()
	if inside {
		r.out.Probes["same_block_from_two_sources_overlapping"]++
	} else {
		r.out.Probes["same_block_from_two_sources_one_after_another"]++
	}
	if pv1 != nil {
		r.violate(pv1)
	} else if pv2 != nil {
		r.violate(pv2)
	}
	return firstErr, secondErr
}
