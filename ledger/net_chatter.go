package ledger

import (
	"crypto/sha256"
	"fmt"
	"net"
	"runtime"
	"time"

	"github.com/nspcc-dev/neo-go/pkg/core/block"
	"github.com/nspcc-dev/neo-go/pkg/core/mpt"
	"github.com/nspcc-dev/neo-go/pkg/core/transaction"
	nio "github.com/nspcc-dev/neo-go/pkg/io"
	"github.com/nspcc-dev/neo-go/pkg/network"
	"github.com/nspcc-dev/neo-go/pkg/network/capability"
	"github.com/nspcc-dev/neo-go/pkg/network/payload"
	"github.com/nspcc-dev/neo-go/pkg/util"

	"verif/sim"
)

// C17, wire clause: besides consensus payloads, blocks and transactions, the nodes of a network run receive every
// other kind of P2P message a neighbour may send - built from the real chain of node 0 - and the transport alters
// some of them (bit flips, truncation, trailing bytes, duplicated segments, and element counts blown up to 2^31 /
// 2^64-1). Whatever arrives is decoded the way a peer connection decodes it: no panic, no allocation out of
// proportion to the message, and whatever decodes must re-encode stably.

// chatterMessages builds one message of every kind from node 0's current chain.
func (s *netSim) chatterMessages() (kinds []string, raws [][]byte) {
	bc := s.nodes[0].n.BC
	h := bc.BlockHeight()
	add := func(cmd network.CommandType, p payload.Payload) {
		var raw []byte
		if v := sim.Recover(func() { raw = msgBytes(cmd, p) }); v != nil || raw == nil {
			return
		}
		kinds = append(kinds, "p2p/"+cmd.String())
		raws = append(raws, raw)
	}
	var hashes []util.Uint256
	var hdrs []*block.Header
	for i := uint32(0); i <= h && i < 6; i++ {
		hh := bc.GetHeaderHash(i)
		hashes = append(hashes, hh)
		if hd, err := bc.GetHeader(hh); err == nil {
			hdrs = append(hdrs, hd)
		}
	}
	magic := bc.GetConfig().Magic
	add(network.CMDVersion, payload.NewVersion(magic, 77, "/verif:1/", []capability.Capability{
		{Type: capability.TCPServer, Data: &capability.Server{Port: 20333}},
		{Type: capability.FullNode, Data: &capability.Node{StartHeight: h}},
		{Type: capability.ArchivalNode, Data: &capability.Archival{}},
	}))
	add(network.CMDVerack, payload.NewNullPayload())
	add(network.CMDGetAddr, payload.NewNullPayload())
	al := payload.NewAddressList(3)
	for i := range al.Addrs {
		al.Addrs[i] = payload.NewAddressAndTime(&net.TCPAddr{IP: net.IPv4(10, 0, 0, byte(i+1)), Port: 20333}, time.Unix(1700000000+int64(i), 0),
			capability.Capabilities{{Type: capability.TCPServer, Data: &capability.Server{Port: 20333}}})
	}
	add(network.CMDAddr, al)
	add(network.CMDPing, payload.NewPing(h, 5))
	add(network.CMDPong, payload.NewPing(h, 6))
	add(network.CMDGetHeaders, payload.NewGetBlockByIndex(0, -1))
	add(network.CMDGetBlockByIndex, payload.NewGetBlockByIndex(1, 3))
	add(network.CMDGetBlocks, payload.NewGetBlocks(hashes[0], 5))
	add(network.CMDHeaders, &payload.Headers{Hdrs: hdrs, StateRootInHeader: s.r.plan.Proto.StateRootInHeader})
	add(network.CMDInv, payload.NewInventory(payload.BlockType, hashes))
	add(network.CMDInv, payload.NewInventory(payload.TXType, hashes[:1]))
	add(network.CMDGetData, payload.NewInventory(payload.ExtensibleType, hashes))
	add(network.CMDNotFound, payload.NewInventory(payload.TXType, hashes))
	add(network.CMDGetMPTData, payload.NewMPTInventory(hashes))
	nodes := [][]byte{{0x04}, append([]byte{0x02, 0x03}, hashes[0][:]...)}
	if sr, err := bc.GetStateRoot(h); err == nil {
		_ = bc.GetStateSyncModule().Traverse(sr.Root, func(_ mpt.Node, nb []byte) bool {
			nodes = append(nodes, append([]byte{}, nb...))
			return len(nodes) >= 6
		})
	}
	add(network.CMDMPTData, &payload.MPTData{Nodes: nodes[:2]})
	add(network.CMDMPTData, &payload.MPTData{Nodes: nodes})
	add(network.CMDMempool, payload.NewNullPayload())
	if len(hdrs) > 0 && len(hashes) >= 2 {
		add(network.CMDMerkleBlock, &payload.MerkleBlock{Header: hdrs[len(hdrs)-1], TxCount: 2, Hashes: hashes[:2:2], Flags: []byte{3}})
	}
	if b, err := bc.GetBlock(hashes[len(hashes)-1]); err == nil {
		add(network.CMDBlock, b)
	}
	// what a server does when it broadcasts one message to peers with and without compression support: the same
	// Message object is serialised twice, compressed first and uncompressed second; the second packet is what a peer
	// that does not support compression receives
	var big [][]byte
	for len(big) < 14 {
		big = append(big, nodes...)
	}
	twice := func(cmd network.CommandType, p payload.Payload) {
		m := network.NewMessage(cmd, p)
		b1, err1 := m.BytesCompressed(true)
		b2, err2 := m.BytesCompressed(false)
		if err1 != nil || err2 != nil {
			return
		}
		kinds = append(kinds, "p2p/"+cmd.String()+"/compressed", "p2p/"+cmd.String()+"/then-uncompressed")
		raws = append(raws, b1, b2)
	}
	twice(network.CMDMPTData, &payload.MPTData{Nodes: big})
	// payloads above the compression threshold that no compressor shrinks (hashes, signatures: here a hash chain)
	noise := func(n int, salt byte) []byte {
		var out []byte
		x := sha256.Sum256([]byte{salt, byte(h)})
		for len(out) < n {
			x = sha256.Sum256(x[:])
			out = append(out, x[:]...)
		}
		return out[:n]
	}
	var rnd [][]byte
	for i := 0; i < 8; i++ {
		rnd = append(rnd, noise(200, byte(i)))
	}
	twice(network.CMDMPTData, &payload.MPTData{Nodes: rnd})
	var many []util.Uint256
	for i := 0; i < 64; i++ {
		var u util.Uint256
		copy(u[:], noise(32, byte(100+i)))
		many = append(many, u)
	}
	twice(network.CMDInv, payload.NewInventory(payload.TXType, many[:min(len(many), payload.MaxHashesCount)]))
	twice(network.CMDExtensible, &payload.Extensible{Category: "verifNoise", ValidBlockStart: 0, ValidBlockEnd: h + 10, Sender: util.Uint160{1},
		Data: noise(1500, 200), Witness: transaction.Witness{InvocationScript: noise(66, 201), VerificationScript: noise(40, 202)}})
	for i := h; i > 0 && i+8 > h; i-- {
		if b, err := bc.GetBlock(bc.GetHeaderHash(i)); err == nil && len(b.Transactions) > 0 {
			for _, tx := range b.Transactions {
				if tx.Size() > 1100 {
					twice(network.CMDTX, tx)
					return
				}
			}
		}
	}
	return
}

// inflateCount rewrites one byte of an uncompressed message's payload (preferably the first ones, where element
// counts live) into a maximal 5- or 9-byte varint and fixes the frame length up.
func (s *netSim) inflateCount(raw []byte) ([]byte, bool) {
	if len(raw) < 4 || raw[0] != 0 {
		return nil, false
	}
	br := nio.NewBinReaderFromBuf(raw[2:])
	body := br.ReadVarBytes()
	if br.Err != nil || br.Len() != 0 || len(body) == 0 {
		return nil, false
	}
	t := s.r.tape
	pos := t.Choose(3)
	if t.Chance(1, 4) {
		pos = t.Choose(1<<16) % len(body)
	}
	if pos >= len(body) {
		pos = 0
	}
	var big []byte
	switch t.Choose(3) {
	case 0:
		big = []byte{0xff, 0xff, 0xff, 0xff, 0xff, 0xff, 0xff, 0xff, 0xff}
	case 1:
		big = []byte{0xfe, 0xff, 0xff, 0xff, 0x7f}
	default:
		big = []byte{0xfe, 0x00, 0x00, 0x40, 0x00} // 4M
	}
	nb := append(append(append([]byte{}, body[:pos]...), big...), body[pos+1:]...)
	w := nio.NewBufBinWriter()
	w.WriteB(0)
	w.WriteB(raw[1])
	w.WriteVarBytes(nb)
	return w.Bytes(), true
}

// scheduleChatter plans the deliveries of a C17 run.
func (s *netSim) scheduleChatter() {
	for t := 1700; t < s.np.DurationMS; t += 2300 {
		s.at(time.Duration(t)*time.Millisecond, func() {
			kinds, raws := s.chatterMessages()
			tape := s.r.tape
			for i := range raws {
				raw, kind := raws[i], kinds[i]
				switch tape.Choose(4) {
				case 0:
				case 1:
					raw, kind = s.corruptWire(raw, "p2p"), kind+"*"
				default:
					if c, ok := s.inflateCount(raw); ok {
						raw, kind = c, kind+"*"
						s.r.out.Faults["wire_count_inflated"]++
					} else {
						raw, kind = s.corruptWire(raw, "p2p"), kind+"*"
					}
				}
				to := tape.Choose(len(s.nodes))
				k, rw := kind, raw
				s.at(s.now()+time.Duration(1+tape.Choose(50))*time.Millisecond, func() { s.deliver(to, k, rw) })
				s.r.out.Probes["chatter_message_sent"]++
			}
		})
	}
}

// decodeMeasured decodes raw the way a peer connection does and reports the memory allocated meanwhile.
func decodeMeasured(msg *network.Message, raw []byte) (err error, allocated uint64) {
	var m1, m2 runtime.MemStats
	runtime.ReadMemStats(&m1)
	err = msg.Decode(nio.NewBinReaderFromBuf(raw))
	runtime.ReadMemStats(&m2)
	return err, m2.TotalAlloc - m1.TotalAlloc
}

// maxDecodeAlloc: a message is at most payload.MaxSize (32 MiB) on the wire; decoding a message of a few KB must
// not allocate more than that limit.
const maxDecodeAlloc = 48 << 20

func allocViolation(kind string, n int, allocated uint64) *sim.Violation {
	return sim.Violatef("c17-decode-alloc", "c17-decode-alloc/"+kindBase(kind), "decoding a %s message of %d bytes allocated %d MiB", kind, n, allocated>>20)
}

func kindBase(kind string) string {
	for len(kind) > 0 && kind[len(kind)-1] == '*' {
		kind = kind[:len(kind)-1]
	}
	return kind
}

var _ = fmt.Sprint
