package ledger

import (
	"fmt"
	"path/filepath"
	"runtime"
	"strings"
	"sync"
	"time"

	"github.com/nspcc-dev/neo-go/pkg/config"
	"github.com/nspcc-dev/neo-go/pkg/consensus"
	"github.com/nspcc-dev/neo-go/pkg/core/statesync"
	"github.com/nspcc-dev/neo-go/pkg/crypto/keys"
	"github.com/nspcc-dev/neo-go/pkg/network"
	"github.com/nspcc-dev/neo-go/pkg/wallet"
	"go.uber.org/zap"
	"go.uber.org/zap/zapcore"

	"verif/sim"
	"verif/simdisk"
)

// Tier B nodes: real core.Blockchain (+Run), real network.Server (VerifNewServer, Start), for validators a real
// consensus.Service wired as cli/server/server.go's mkConsensus does it.

const (
	srvValidator = iota
	srvObserver
	srvJoinFull  // late joiner, ordinary block synchronisation
	srvJoinState // late joiner, P2P state synchronisation (P2PStateExchangeExtensions + RemoveUntraceableBlocks)
)

var srvKindNames = [...]string{"validator", "observer", "joiner-full", "joiner-statesync"}

type approved struct {
	height uint32
	hash   string
}

// srvLogCore is the zap core of one node's Server and consensus service: it counts like logCore and keeps what the
// oracles and probes need (block rejections by the block queue, blocks approved by the own consensus service).
type srvLogCore struct {
	inner    *logCore
	mu       sync.Mutex
	info     map[string]int
	rejected []string
	approved []approved
	reasons  map[string]int // why peers were disconnected
	// proposedAt: when this node's consensus service (as primary) sent its latest PrepareRequest for a height
	proposedAt map[uint32]time.Time
	// undecodable: a peer was dropped because a message it sent could not be decompressed (the transport never alters bytes)
	undecodable []string
}

func (c *srvLogCore) Enabled(l zapcore.Level) bool {
	return l >= zapcore.InfoLevel || debugNodeLogs != nil
}
func (c *srvLogCore) With([]zapcore.Field) zapcore.Core { return c }
func (c *srvLogCore) Check(e zapcore.Entry, ce *zapcore.CheckedEntry) *zapcore.CheckedEntry {
	if c.Enabled(e.Level) {
		return ce.AddCore(e, c)
	}
	return ce
}
func (c *srvLogCore) Sync() error { return nil }

var srvInfoWatched = map[string]string{
	"node reached synchronized state, starting services": "services_started",
	"started protocol":               "handshake_completed",
	"new peer connected":             "peer_connected",
	"not all headers were processed": "headers_truncated",
	"changing dbft view":             "view_changed",
	"missing tx":                     "consensus_missing_tx",
	"sending RecoveryMessage":        "recovery_message_sent",
	"sending RecoveryRequest":        "recovery_request_sent",
}

// reasonClass strips what varies (numbers, hashes) from a disconnect reason.
func reasonClass(r string) string {
	var b strings.Builder
	for _, c := range r {
		if c >= '0' && c <= '9' {
			continue
		}
		b.WriteRune(c)
		if b.Len() >= 70 {
			break
		}
	}
	return b.String()
}

func fieldMap(fs []zapcore.Field) map[string]any {
	enc := zapcore.NewMapObjectEncoder()
	for _, f := range fs {
		f.AddTo(enc)
	}
	return enc.Fields
}

func (c *srvLogCore) Write(e zapcore.Entry, fs []zapcore.Field) error {
	_ = c.inner.Write(e, fs)
	switch {
	case e.Message == "queue: failed to add item into the blockchain":
		m := fieldMap(fs)
		c.mu.Lock()
		c.rejected = append(c.rejected, fmt.Sprintf("index=%v chainHeight=%v mode=%v error=%v", m["index"], m["chainHeight"], m["mode"], m["error"]))
		c.mu.Unlock()
	case e.Message == "sending PrepareRequest":
		m := fieldMap(fs)
		h, _ := m["height"].(uint32)
		c.mu.Lock()
		c.proposedAt[h] = time.Now() // (the bubble's clock)
		c.mu.Unlock()
	case e.Message == "approving block":
		m := fieldMap(fs)
		h, _ := m["height"].(uint32)
		c.mu.Lock()
		c.approved = append(c.approved, approved{height: h, hash: fmt.Sprint(m["hash"])})
		c.mu.Unlock()
	case e.Message == "peer disconnected":
		m := fieldMap(fs)
		reason := fmt.Sprint(m["error"])
		c.mu.Lock()
		c.info["peer_disconnected"]++
		c.reasons[reasonClass(reason)]++
		if strings.Contains(reason, "lz4: ") || strings.Contains(reason, "compressed payload") || strings.Contains(reason, "decompressed payload") {
			c.undecodable = append(c.undecodable, fmt.Sprintf("peer %v: %s", m["addr"], reason))
		}
		c.mu.Unlock()
	default:
		if p, ok := srvInfoWatched[e.Message]; ok {
			c.mu.Lock()
			c.info[p]++
			c.mu.Unlock()
		}
	}
	return nil
}

type snode struct {
	idx   int
	kind  int
	n     *Node
	local Local
	lc    *srvLogCore
	wpath string
	seeds []string

	// guarded by srvSim.mu
	up       bool
	stopping bool
	gen      int
	srv      *network.Server

	svc consensus.Service
	mod *statesync.Module
	tr  *simTransport

	bornAt     time.Duration // first start
	startedAt  time.Duration // last (re)start
	fromStart  bool
	restarts   int
	checked    uint32 // agreement checked up to this height
	base       uint32 // lowest height the node holds state for (a state-synchronised node: its sync point)
	jumped     bool
	inStep     time.Duration // when the node first was at the top height after its last start (0: not yet)
	gapAtStart int           // top height minus own height at the last (re)start
	caughtUp   time.Duration // when the node first was within 2 blocks of the top after its last start (0: not yet)
	seenRej    int
	seenAppr   int
	seenUndec  int
	ownBlocks  map[uint32]string
	h20        uint32 // height 20 block times after the start of the run
	has20      bool
}

func (v *snode) validator() bool { return v.kind == srvValidator }

func (v *snode) name() string { return fmt.Sprintf("N%d(%s)", v.idx, srvKindNames[v.kind]) }

// newSrvNode opens the ledger of a node with the protocol settings of the run.
func (s *srvSim) newSrvNode(idx, kind int, l Local) *snode {
	r := s.r
	sp := s.sp
	n, err := newNodeWithHook(r.t, fmt.Sprintf("N%d", idx), r.plan.Proto, l, func(c *config.Blockchain) {
		c.TimePerBlock = blockTimeMS * time.Millisecond
		c.Genesis.TimePerBlock = blockTimeMS * time.Millisecond
		if sp.Validators == 7 {
			var sc []string
			for _, pk := range extraValidatorKeys() {
				sc = append(sc, pk.PublicKey().StringCompressed())
			}
			c.StandbyCommittee = sc
			c.ValidatorsCount = 7
			c.CommitteeHistory = nil
			c.ValidatorsHistory = nil
		}
		if sp.MaxTxPB > 0 {
			c.MaxTransactionsPerBlock = uint16(sp.MaxTxPB)
		}
		if sp.StateSync {
			c.P2PStateExchangeExtensions = true
			c.StateSyncInterval = sp.Interval
		}
	})
	if n != nil {
		r.nodes = append(r.nodes, n)
	}
	if err != nil {
		sim.Harnessf("cannot create node N%d: %v", idx, err)
	}
	v := &snode{idx: idx, kind: kind, n: n, local: l, ownBlocks: map[uint32]string{}}
	v.lc = &srvLogCore{inner: n.logs, info: map[string]int{}, reasons: map[string]int{}, proposedAt: map[uint32]time.Time{}}
	return v
}

func srvLogger(c *srvLogCore) *zap.Logger {
	return zap.New(c, zap.WithFatalHook(zapcore.WriteThenPanic))
}

// makeWallet writes the NEP-6 wallet of validator i (cheap scrypt parameters) the consensus service opens.
func (s *srvSim) makeWallet(i int, pk *keys.PrivateKey) string {
	wpath := filepath.Join(s.tmp, fmt.Sprintf("w%d.json", i))
	w, err := wallet.NewWallet(wpath)
	if err != nil {
		sim.Harnessf("wallet: %v", err)
	}
	w.Scrypt = keys.ScryptParams{N: 2, R: 1, P: 1}
	pkCopy, err := keys.NewPrivateKeyFromBytes(pk.Bytes()) // Wallet.Close wipes the key: never hand out the keyring's object
	if err != nil {
		sim.Harnessf("key copy: %v", err)
	}
	acc := wallet.NewAccountFromPrivateKey(pkCopy)
	if err := acc.Encrypt("pass", w.Scrypt); err != nil {
		sim.Harnessf("wallet encrypt: %v", err)
	}
	w.AddAccount(acc)
	if err := w.Save(); err != nil {
		sim.Harnessf("wallet save: %v", err)
	}
	w.Close()
	return wpath
}

func (s *srvSim) serverConfig(v *snode) network.ServerConfig {
	sp := s.sp
	bc := v.n.BC
	return network.ServerConfig{
		MinPeers:          s.minPeers,
		AttemptConnPeers:  20,
		MaxPeers:          100,
		UserAgent:         "/verif-tierb/",
		Addresses:         []config.AnnounceableAddress{{Address: nodeAddr(v.idx)}},
		Net:               bc.GetConfig().Magic,
		Relay:             true,
		Seeds:             v.seeds,
		DialTimeout:       time.Duration(sp.DialTimeoutMS) * time.Millisecond,
		ProtoTickInterval: time.Duration(sp.ProtoTickMS) * time.Millisecond,
		PingInterval:      time.Duration(sp.PingMS) * time.Millisecond,
		PingTimeout:       time.Duration(sp.PingTimeoutMS) * time.Millisecond,
		// every broadcast goes to every peer: with a smaller factor the Server stops a broadcast as soon as
		// "enough" of the per-peer goroutines have queued the packet, and which peers those are is decided by the
		// Go scheduler, not by the plan
		BroadcastFactor:    100,
		ExtensiblePoolSize: 20,
		DisableCompression: sp.NoCompress == v.idx+1,
	}
}

// startServer builds and starts the Server (and the consensus service of a validator) on the node's open ledger.
func (s *srvSim) startServer(v *snode) {
	bc := v.n.BC
	log := srvLogger(v.lc)
	s.mu.Lock()
	v.gen++
	gen := v.gen
	s.mu.Unlock()
	tr := &simTransport{sim: s, node: v, closed: make(chan struct{}), gen: gen}
	mod := bc.GetStateSyncModule()
	srv, err := network.VerifNewServer(s.serverConfig(v), bc, mod, log,
		func(srv *network.Server, addr string) network.Transporter {
			tr.srv = srv
			return tr
		},
		newSrvDiscovery)
	if err != nil {
		sim.Harnessf("network server of %s: %v", v.name(), err)
	}
	v.tr, v.mod = tr, mod
	v.svc = nil
	if v.validator() {
		// cli/server/server.go mkConsensus
		svc, err := consensus.NewService(consensus.Config{
			Logger:                log,
			Broadcast:             srv.BroadcastExtensible,
			Chain:                 bc,
			BlockQueue:            srv.GetBlockQueue(),
			ProtocolConfiguration: bc.GetConfig().ProtocolConfiguration,
			RequestTx:             srv.RequestTx,
			StopTxFlow:            srv.StopTxFlow,
			Wallet:                config.Wallet{Path: v.wpath, Password: "pass"},
		})
		if err != nil {
			sim.Harnessf("consensus.NewService: %v", err)
		}
		srv.AddConsensusService(svc, svc.OnPayload, svc.OnTransaction)
		v.svc = svc
	}
	s.mu.Lock()
	v.srv = srv
	v.up = true
	s.mu.Unlock()
	v.startedAt = s.now()
	v.caughtUp = 0
	v.inStep = 0
	v.gapAtStart = int(s.top()) - int(v.n.BC.BlockHeight())
	if v.gapAtStart > 32 {
		s.r.out.Probes["node_started_more_than_a_block_queue_behind"]++
	}
	// the number of transaction handler goroutines is min(GOMAXPROCS, NumCPU, 16): one, as on a single-core host
	old := runtime.GOMAXPROCS(1)
	srv.Start()
	if old != 1 {
		runtime.GOMAXPROCS(old)
	}
	sim.Wait()
}

// stopServer is a clean stop of the network side (Server.Shutdown stops the services it manages).
func (s *srvSim) stopServer(v *snode) {
	s.mu.Lock()
	srv := v.srv
	v.up = false
	v.srv = nil
	v.stopping = srv != nil
	s.mu.Unlock()
	if srv == nil {
		return
	}
	srv.Shutdown()
	sim.Wait()
	s.mu.Lock()
	v.stopping = false
	s.mu.Unlock()
}

// restartNode: Server.Shutdown, Blockchain.Close, reopen on the same disk, new Server.
func (s *srvSim) restartNode(v *snode) bool {
	r := s.r
	hBefore := v.n.BC.BlockHeight()
	s.stopServer(v)
	s.flush()
	if err := v.n.Restart(); err != nil {
		r.violate(sim.Violatef("restart-failed", "", "%s failed to reopen after a clean stop at height %d: %v", v.name(), hBefore, err))
		return false
	}
	v.restarts++
	if v.kind == srvJoinState {
		v.jumped = false // the new instance decides again whether it synchronises state
	}
	r.out.Faults["node_restart/"+srvKindNames[v.kind]]++
	r.log.Addf("t=%dms %s restarted: height %d -> %d, headers %d", s.now()/time.Millisecond, v.name(), hBefore, v.n.BC.BlockHeight(), v.n.BC.HeaderHeight())
	if h := v.n.BC.BlockHeight(); h < hBefore {
		r.violate(sim.Violatef("restart-height", "", "%s reopened at height %d after a clean stop at height %d", v.name(), h, hBefore))
		return false
	}
	s.startServer(v)
	return true
}

func joinerLocal(j SrvJoiner) Local {
	if j.Kind == 1 {
		return Local{Backend: simdisk.Memory, VerifyTx: true, RemoveOld: true, KeepLatest: j.KeepLatest, GCPeriod: 2}
	}
	return Local{Backend: simdisk.Memory, VerifyTx: true}
}
