package ledger

import (
	"bytes"
	"encoding/binary"
	"fmt"
	"math/big"
	"sort"
	"strings"

	"github.com/nspcc-dev/neo-go/pkg/core/fee"
	"github.com/nspcc-dev/neo-go/pkg/core/native"
	"github.com/nspcc-dev/neo-go/pkg/core/native/nativehashes"
	"github.com/nspcc-dev/neo-go/pkg/core/native/noderoles"
	"github.com/nspcc-dev/neo-go/pkg/core/state"
	"github.com/nspcc-dev/neo-go/pkg/core/transaction"
	"github.com/nspcc-dev/neo-go/pkg/crypto/hash"
	"github.com/nspcc-dev/neo-go/pkg/crypto/keys"
	"github.com/nspcc-dev/neo-go/pkg/encoding/bigint"
	nio "github.com/nspcc-dev/neo-go/pkg/io"
	"github.com/nspcc-dev/neo-go/pkg/smartcontract"
	"github.com/nspcc-dev/neo-go/pkg/smartcontract/trigger"
	"github.com/nspcc-dev/neo-go/pkg/util"
	"github.com/nspcc-dev/neo-go/pkg/vm/stackitem"
	"github.com/nspcc-dev/neo-go/pkg/vm/vmstate"
)

// Native Oracle contract in the generated histories.
//
// A request is made by a helper contract (the caller of Oracle.request must be a contract):
// K.call(Oracle, "request", [url, filter|null, "oracleCb", userData, gasForResponse]). The producer learns the ids
// of pending requests from the OracleRequest notifications of HALTed transactions (like an oracle node does), takes
// url and GasForResponse from the stored request, and answers them with response transactions built the way
// services/oracle.CreateResponseTx builds them: sender = Oracle contract (fixed empty witness), second signer = the
// default multisig of the designated Oracle nodes (keyring accounts), script = the fixed response script, nonce = id,
// network fee = size + attribute fee + both verifications, system fee = the rest of GasForResponse.

// storage prefixes of the native Oracle contract (pkg/core/native/oracle.go)
const (
	oraPfxPrice   = 5
	oraPfxIDList  = 6
	oraPfxRequest = 7
)

var oracleURLs = []string{"https://a.example/x", "https://a.example/x", "https://b.example/y", "u", "https://a.example/x?q=1"}

var oracleGas = []int64{native.MinimumResponseGas, 20_000_000, 100_000_000}

var oracleFailCodes = []transaction.OracleResponseCode{transaction.Error, transaction.NotFound, transaction.Timeout, transaction.Forbidden,
	transaction.ResponseTooLarge, transaction.InsufficientFunds, transaction.ConsensusUnreachable, transaction.ProtocolNotSupported,
	transaction.ContentTypeNotSupported}

// oraReq is a pending oracle request as the producer knows it.
type oraReq struct {
	id     uint64
	url    string
	gas    int64
	height uint32
}

// oraState is what the producer knows about the native Oracle contract.
type oraState struct {
	scanned uint32             // blocks up to this height have been looked at
	pending map[uint64]*oraReq // requests seen in notifications and not answered on chain yet
	done    []uint64           // ids answered on chain
	next    uint64             // highest id seen + 1
	// Oracle nodes in effect for block nodesFor (= what GetDesignatedByRole answered after block nodesFor-1)
	nodesFor uint32
	nodes    keys.PublicKeys
	// hash of the last response transaction that was built for an id which is not pending (must not be pooled)
	unknownTx util.Uint256
	// asOracleNode: some responses with an error code keep Result == nil, which is how services/oracle builds them
	// (getFailedResponse, the InsufficientFunds branch of CreateResponseTx) and how the node running that service pools
	// them. Every other node decodes the transaction from bytes and sees an empty, non-nil Result. nilResult holds the
	// hashes of such transactions.
	asOracleNode bool
	nilResult    map[util.Uint256]bool
	// answerStale: requests whose transaction has left the traceable window (height + MaxTraceableBlocks <= the
	// response's ValidUntilBlock) are answered as well. Oracle.finish reads the request's transaction from the node's
	// transaction store, which pruning and state-synchronised nodes no longer have for such heights (finding F-ora-2),
	// so only the checks of the properties this breaks (C01, C20) do it. stale holds the hashes of such responses.
	answerStale bool
	stale       map[util.Uint256]bool
}

func (p *producer) probe(name string) {
	if p.probes != nil {
		p.probes[name]++
	}
}

func oraRequestKey(id uint64) []byte {
	k := make([]byte, 9)
	k[0] = oraPfxRequest
	binary.BigEndian.PutUint64(k[1:], id)
	return k
}

func oraIDListKey(url string) []byte {
	return append([]byte{oraPfxIDList}, hash.Hash160([]byte(url)).BytesBE()...)
}

func (p *producer) oracleID() int32 {
	cs := p.n.BC.GetContractState(nativehashes.OracleContract)
	if cs == nil {
		panic("native Oracle contract has no state")
	}
	return cs.ID
}

// storedOracleRequest reads a request from the raw storage of the Oracle contract.
func (p *producer) storedOracleRequest(id uint64) *state.OracleRequest {
	si := p.n.BC.GetStorageItem(p.oracleID(), oraRequestKey(id))
	if si == nil {
		return nil
	}
	req := new(state.OracleRequest)
	if err := stackitem.DeserializeConvertible(si, req); err != nil {
		return nil
	}
	return req
}

// storedIDList reads the id list of a url from the raw storage of the Oracle contract.
func (p *producer) storedIDList(url string) []uint64 {
	si := p.n.BC.GetStorageItem(p.oracleID(), oraIDListKey(url))
	if si == nil {
		return nil
	}
	l := new(native.IDList)
	if err := stackitem.DeserializeConvertible(si, l); err != nil {
		return nil
	}
	return []uint64(*l)
}

// oracleSync looks at every block added since the last call: OracleRequest notifications of HALTed transactions add
// pending requests, response transactions (HALTed or FAULTed - PostPersist finishes the request either way) end them.
func (p *producer) oracleSync() {
	bc := p.n.BC
	if p.ora.pending == nil {
		p.ora.pending = map[uint64]*oraReq{}
	}
	for h := p.ora.scanned + 1; h <= bc.BlockHeight(); h++ {
		b, err := bc.GetBlock(bc.GetHeaderHash(h))
		if err != nil {
			return
		}
		var answered []uint64
		for _, tx := range b.Transactions {
			aers, err := bc.GetAppExecResults(tx.Hash(), trigger.Application)
			if err != nil || len(aers) != 1 {
				continue
			}
			a := &aers[0]
			if tx.HasAttribute(transaction.OracleResponseT) {
				resp := tx.GetAttributes(transaction.OracleResponseT)[0].Value.(*transaction.OracleResponse)
				p.oracleResponded(resp, a)
				answered = append(answered, resp.ID)
				continue
			}
			if a.VMState != vmstate.Halt {
				continue
			}
			for _, e := range a.Events {
				if e.ScriptHash != nativehashes.OracleContract || e.Name != "OracleRequest" {
					continue
				}
				arr, ok := e.Item.Value().([]stackitem.Item)
				if !ok || len(arr) != 4 {
					continue
				}
				bi, err := arr[0].TryInteger()
				if err != nil || !bi.IsUint64() {
					continue
				}
				id := bi.Uint64()
				if id >= p.ora.next {
					p.ora.next = id + 1
				}
				req := p.storedOracleRequest(id)
				if req == nil {
					// a request announced by a successful execution is not in the contract's storage
					p.probe("oracle_request_notified_but_not_stored")
					continue
				}
				p.ora.pending[id] = &oraReq{id: id, url: req.URL, gas: int64(req.GasForResponse), height: h}
				p.probe("oracle_request_on_chain")
				if n := len(p.storedIDList(req.URL)); n > 1 {
					p.probe("oracle_url_with_several_pending_ids")
				}
			}
		}
		if len(answered) > 0 && p.ora.nodesFor == h && h == bc.BlockHeight() {
			p.oracleRewardModel(b.Hash(), answered)
		}
		p.ora.scanned = h
	}
	if ns, _, err := bc.GetDesignatedByRole(noderoles.Oracle); err == nil {
		p.ora.nodes, p.ora.nodesFor = ns, bc.BlockHeight()+1
	}
}

// oracleRewardModel (a measurement, not an oracle of a listed property): PostPersist of a block mints the request
// price (as stored after the block's transactions) once per answered request to node[id % n] of the Oracle nodes in
// effect for the block. An account that is also a committee member may receive the committee reward on top.
func (p *producer) oracleRewardModel(blockHash util.Uint256, answered []uint64) {
	bc := p.n.BC
	nodes := p.ora.nodes
	if len(nodes) == 0 {
		p.probe("oracle_response_without_nodes_in_effect")
		return
	}
	si := bc.GetStorageItem(p.oracleID(), []byte{oraPfxPrice})
	if si == nil {
		return
	}
	price := bigint.FromBytes(si)
	want := make([]*big.Int, len(nodes))
	for i := range want {
		want[i] = new(big.Int)
	}
	for _, id := range answered {
		i := id % uint64(len(nodes))
		want[i].Add(want[i], price)
	}
	aers, err := bc.GetAppExecResults(blockHash, trigger.PostPersist)
	if err != nil || len(aers) != 1 {
		return
	}
	committee := map[util.Uint160]bool{}
	if cm, err := bc.GetCommittee(); err == nil {
		for _, k := range cm {
			committee[k.GetScriptHash()] = true
		}
	}
	for i, nk := range nodes {
		nh := nk.GetScriptHash()
		got := new(big.Int)
		for _, e := range aers[0].Events {
			if e.ScriptHash != nativehashes.GasToken || e.Name != "Transfer" {
				continue
			}
			arr, ok := e.Item.Value().([]stackitem.Item)
			if !ok || len(arr) != 3 {
				continue
			}
			if _, fromNull := arr[0].(stackitem.Null); !fromNull {
				continue
			}
			to, err := arr[1].TryBytes()
			if err != nil || !bytes.Equal(to, nh.BytesBE()) {
				continue
			}
			if amt, err := arr[2].TryInteger(); err == nil {
				got.Add(got, amt)
			}
		}
		switch {
		case got.Cmp(want[i]) == 0:
			p.probe("oracle_reward_as_modelled")
		case committee[nh]:
			p.probe("oracle_reward_not_comparable_committee_member")
		default:
			p.probe("oracle_reward_NOT_as_modelled")
		}
	}
}

// oracleResponded: a response transaction is on chain.
func (p *producer) oracleResponded(resp *transaction.OracleResponse, a *state.AppExecResult) {
	if a.VMState == vmstate.Halt {
		p.probe("oracle_response_halt")
		if resp.Code != transaction.Success {
			p.probe("oracle_response_halt_with_error_code")
		}
	} else {
		p.probe("oracle_response_fault")
		switch {
		case strings.Contains(a.FaultException, "oracleCb"):
			p.probe("oracle_response_fault_callback_threw")
		case strings.Contains(strings.ToLower(a.FaultException), "gas limit"):
			p.probe("oracle_response_fault_out_of_gas")
		case strings.Contains(a.FaultException, "not found"):
			p.probe("oracle_response_fault_callback_contract_gone")
		default:
			p.probe("oracle_response_fault_other")
		}
	}
	req := p.ora.pending[resp.ID]
	delete(p.ora.pending, resp.ID)
	p.ora.done = append(p.ora.done, resp.ID)
	// PostPersist removes the request and its id from the url's id list whatever the callback did
	gone := p.storedOracleRequest(resp.ID) == nil
	if gone && req != nil {
		for _, id := range p.storedIDList(req.url) {
			if id == resp.ID {
				gone = false
			}
		}
	}
	if gone {
		p.probe("oracle_request_removed_after_response")
	} else {
		p.probe("oracle_request_NOT_removed_after_response")
	}
}

// pendingOracleIDs returns the pending request ids in ascending order.
func (p *producer) pendingOracleIDs() []uint64 {
	ids := make([]uint64, 0, len(p.ora.pending))
	for id := range p.ora.pending {
		ids = append(ids, id)
	}
	sort.Slice(ids, func(i, j int) bool { return ids[i] < ids[j] })
	return ids
}

// liveK returns the hash of a deployed helper contract of slot ki. Where nobody calls afterBlock (network runs) the
// chain is searched for any deployment of the slot's code.
func (p *producer) liveK(ki int) (util.Uint160, bool) {
	bc := p.n.BC
	if p.kalive[ki] {
		if bc.GetContractState(p.khash[ki]) != nil {
			return p.khash[ki], true
		}
		return util.Uint160{}, false
	}
	for a := 0; a < numAccounts; a++ {
		for v := byte(0); v <= p.kver[ki]+1; v++ {
			h := p.variant(ki, v).hashFor(p.kr.acctHash(a))
			if bc.GetContractState(h) != nil {
				return h, true
			}
		}
	}
	return util.Uint160{}, false
}

// oracleRequestArgs: the arguments of Oracle.request chosen by an op.
func oracleRequestArgs(o Op) []any {
	var filter any
	switch o.Y % 3 {
	case 1:
		filter = "$.a"
	case 2:
		filter = ""
	}
	var userData any
	switch o.N % 5 {
	case 0, 1:
		userData = "ok"
	case 2:
		userData = "fail"
	case 3:
		userData = []byte{1, 2, 3}
	default:
		userData = []any{o.N, "x"}
	}
	return []any{oracleURLs[o.X%len(oracleURLs)], filter, "oracleCb", userData, oracleGas[(o.Y/3)%len(oracleGas)]}
}

// oracleRequestScript: account A asks helper contract B to make an oracle request. Some requests are made inside an
// execution that faults afterwards or inside a callee whose exception is caught: those must leave nothing behind.
func (p *producer) oracleRequestScript(o Op) ([]byte, string) {
	ki := o.B % numContracts
	kh, ok := p.liveK(ki)
	if !ok {
		return nil, "oracleRequest: no helper contract deployed"
	}
	args := oracleRequestArgs(o)
	req := []any{"call", []any{nativehashes.OracleContract, "request", args}}
	desc := fmt.Sprintf("K%d.call Oracle.request url=%q filter=%v data=%v gas=%d", ki, args[0], args[1], args[3], args[4])
	switch (o.N / 5) % 8 {
	case 6:
		return callScript(kh, "seq", []any{req, []any{"ev", []any{[]byte("requested")}}, []any{"abort", []any{}}}), desc + " then abort (FAULT)"
	case 7:
		if k2, ok := p.liveK((ki + 1) % numContracts); ok {
			return callScript(kh, "seq", []any{
				[]any{"tryCall", []any{k2, "seq", []any{[]any{req, []any{"fail", []any{}}}}}},
				[]any{"ev", []any{[]byte("after")}}}), desc + " inside a caught failing callee"
		}
	}
	return callScript(kh, "call", nativehashes.OracleContract, "request", args), desc
}

// oracleResponseTx builds a response transaction the way services/oracle.CreateResponseTx does.
func (p *producer) oracleResponseTx(o Op) (*transaction.Transaction, string) {
	bc := p.n.BC
	p.oracleSync()
	nodes, _, err := bc.GetDesignatedByRole(noderoles.Oracle)
	if err != nil || len(nodes) == 0 {
		return nil, "oracleResponse: no Oracle node designated"
	}
	ms, err := p.kr.multiSigner(nodes, smartcontract.GetDefaultHonestNodeCount(len(nodes)))
	if err != nil {
		return nil, "oracleResponse: " + err.Error()
	}
	vub := bc.BlockHeight() + 1 + uint32(o.Y%3)
	fresh := func(r *oraReq) bool { return r.height+bc.GetMaxTraceableBlocks() > vub }
	pend := p.pendingOracleIDs()
	if !p.ora.answerStale {
		var f []uint64
		for _, id := range pend {
			if fresh(p.ora.pending[id]) {
				f = append(f, id)
			}
		}
		if len(f) < len(pend) {
			p.probe("oracle_stale_request_left_unanswered")
		}
		pend = f
	}
	unknown := o.X%5 == 4 || len(pend) == 0
	var id uint64
	var gas int64
	staleReq := false
	if !unknown {
		r := p.ora.pending[pend[o.Y%len(pend)]]
		id, gas = r.id, r.gas
		staleReq = !fresh(r)
	} else {
		if len(pend) == 0 && o.X%4 != 3 {
			return nil, "oracleResponse: no pending request"
		}
		// an id that is not pending: answered before, or never assigned
		if len(p.ora.done) > 0 && o.Y%2 == 0 {
			id = p.ora.done[int(o.N)%len(p.ora.done)]
		} else {
			id = p.ora.next + uint64(o.Y%3)
		}
		gas = oracleGas[o.Y%len(oracleGas)]
		if req := p.storedOracleRequest(id); req != nil {
			// (the pool check in produce() will say so: a request that was answered on chain, or never announced, is stored)
			p.probe("oracle_answered_or_unannounced_request_is_stored")
			gas = int64(req.GasForResponse)
		}
	}
	resp := &transaction.OracleResponse{ID: id}
	switch o.N % 4 {
	case 0, 1:
		resp.Code = transaction.Success
		resp.Result = []byte(fmt.Sprintf(`{"v":%d}`, o.N))
	case 2:
		resp.Code = transaction.Success
		resp.Result = []byte{}
	default:
		resp.Code = oracleFailCodes[o.Y%len(oracleFailCodes)]
		resp.Result = []byte{} // what a node that received the transaction from the network has
	}
	nilResult := p.ora.asOracleNode && resp.Code != transaction.Success && (o.N/4)%8 == 7
	if nilResult {
		resp.Result = nil
	}
	tx := transaction.New(native.CreateOracleResponseScript(nativehashes.OracleContract), 0)
	tx.Nonce = uint32(id)
	tx.ValidUntilBlock = vub
	tx.Attributes = []transaction.Attribute{{Type: transaction.OracleResponseT, Value: resp}}
	tx.Signers = []transaction.Signer{{Account: nativehashes.OracleContract, Scopes: transaction.None}, {Account: ms.ScriptHash(), Scopes: transaction.None}}
	tx.Scripts = []transaction.Witness{{InvocationScript: []byte{}, VerificationScript: []byte{}}}
	size := nio.GetVarSize(tx)
	// cost of the Oracle contract's `verify`
	cp := *tx
	ic, err := bc.GetTestVM(trigger.Verification, &cp, nil)
	if err != nil {
		return nil, "oracleResponse: " + err.Error()
	}
	ic.VM.SetGasLimit(bc.GetMaxVerificationGAS())
	if err := bc.InitVerificationContext(ic, nativehashes.OracleContract, &transaction.Witness{InvocationScript: []byte{}, VerificationScript: []byte{}}); err != nil {
		ic.Finalize()
		return nil, "oracleResponse: " + err.Error()
	}
	rerr := ic.VM.Run()
	netFee := ic.VM.GasConsumed()
	ic.Finalize()
	if rerr != nil {
		return nil, "oracleResponse: Oracle.verify failed: " + rerr.Error()
	}
	nf, sizeDelta := fee.Calculate(bc.GetBaseExecFee(), ms.Script())
	netFee += nf
	size += sizeDelta
	netFee += int64(size)*bc.FeePerByte() + bc.CalculateAttributesFee(tx)
	tx.NetworkFee = netFee
	tx.SystemFee = max(0, gas-netFee)
	tx.Scripts = nil
	inv := ms.SignHashable(uint32(bc.GetConfig().Magic), tx)
	tx.Scripts = []transaction.Witness{{InvocationScript: []byte{}, VerificationScript: []byte{}}, {InvocationScript: inv, VerificationScript: ms.Script()}}
	desc := fmt.Sprintf("oracleResponse id=%d code=%#x result=%d bytes nodes=%d sysfee=%d netfee=%d (GasForResponse %d)", id, byte(resp.Code), len(resp.Result), len(nodes), tx.SystemFee, tx.NetworkFee, gas)
	// (a response to a pending request can be byte-identical to one built earlier, when that id was not pending yet)
	p.ora.unknownTx = util.Uint256{}
	if unknown {
		p.ora.unknownTx = tx.Hash()
		desc += " NOT PENDING"
	}
	if staleReq {
		if p.ora.stale == nil {
			p.ora.stale = map[util.Uint256]bool{}
		}
		p.ora.stale[tx.Hash()] = true
		desc += " (request older than MaxTraceableBlocks)"
	}
	if nilResult {
		if p.ora.nilResult == nil {
			p.ora.nilResult = map[util.Uint256]bool{}
		}
		p.ora.nilResult[tx.Hash()] = true
		desc += " (Result nil, as the oracle service builds it)"
	}
	if gas < netFee {
		p.probe("oracle_response_netfee_exceeds_gas_for_response")
	}
	return tx, desc
}
