package ledger

import (
	"encoding/binary"
	"fmt"
	"os"
	"sort"
	"time"

	"github.com/nspcc-dev/neo-go/pkg/util"

	"verif/sim"
)

// Oracles of the server mode. Only what the statements of C19, C20 and C07 say:
//   safety, after every driver event: one block hash and one state root per height over all ledgers; a block approved
//     by a validator's consensus service, or relayed by a peer, that a ledger's block queue fails to add is a violation;
//   liveness, only in the fault-free configuration: >= 5 blocks within 20 block times on every node that was up from
//     the start, every late joiner within 2 blocks of the top 15 block times after its (last) start;
//   state synchronisation: at its sync point the joiner has the state root and the complete contract storage a fully
//     synchronised node has for that height; from then on it is one more ledger for the safety oracle;
//   at the end: observations (digest.go) of nodes at equal heights are equal.
// Under faults nothing about timing is asserted, only measured (probes).

const srvJoinBoundMS = 15 * blockTimeMS

var srvStrictWire = os.Getenv("VERIF_SRV_STRICTWIRE") != ""

// check runs after every driver event.
func (s *srvSim) check() {
	r := s.r
	if r.fail != nil {
		return
	}
	for _, v := range s.nodes {
		if v == nil {
			continue
		}
		// block queue failures (any node, any source of the block)
		v.lc.mu.Lock()
		rej := v.lc.rejected[v.seenRej:]
		v.seenRej = len(v.lc.rejected)
		appr := v.lc.approved[v.seenAppr:]
		v.seenAppr = len(v.lc.approved)
		undec := v.lc.undecodable[v.seenUndec:]
		v.seenUndec = len(v.lc.undecodable)
		v.lc.mu.Unlock()
		if len(undec) > 0 {
			// not part of the C19/C20/C07 statements: counted; raised only on request (VERIF_SRV_STRICTWIRE=1)
			r.out.Probes["undecodable_packet_between_honest_nodes"] += len(undec)
			if srvStrictWire {
				r.violate(sim.Violatef("srv-undecodable-packet", "", "%s dropped a peer because a message of that (honest, unmodified) peer does not decode; the transport delivers the written bytes unchanged: %s", v.name(), undec[0]))
				return
			}
		}
		if len(rej) > 0 {
			who := "a block relayed by a peer"
			if v.validator() {
				who = "a block approved by its own consensus service or relayed by a peer"
			}
			r.violate(sim.Violatef("srv-block-rejected", "srv-block-rejected/"+srvKindNames[v.kind], "%s (height %d): the block queue failed to add %s to the ledger: %s", v.name(), v.n.BC.BlockHeight(), who, rej[0]))
			return
		}
		for _, a := range appr {
			v.ownBlocks[a.height] = a.hash
			r.out.Probes["block_approved_by_consensus"]++
		}
		if !v.up {
			continue
		}
		bc := v.n.BC
		h := bc.BlockHeight()
		// a state-synchronising joiner: the jump
		if v.kind == srvJoinState && !v.jumped && v.mod != nil && v.mod.IsInitialized() && !v.mod.IsActive() {
			if p := v.mod.GetStateSyncPoint(); p > 0 && h >= p {
				v.jumped = true
				v.base = p
				v.checked = max(v.checked, p-1)
				r.out.Probes["statesync_jump_done"]++
				r.log.Addf("t=%dms %s jumped to its sync point %d (height now %d)", s.ms(), v.name(), p, h)
				if !s.checkSyncPoint(v, p) {
					return
				}
			} else if p == 0 {
				// no sync point: the chain was too short for one, or the node had been synchronised before its restart
				v.jumped = true
				if v.restarts == 0 {
					r.out.Probes["statesync_inactive_short_chain"]++
				}
			}
		}
		if v.kind == srvJoinState && !v.jumped {
			continue
		}
		for x := v.checked + 1; x <= h; x++ {
			hh := bc.GetHeaderHash(x)
			if c, ok := s.canon[x]; ok {
				if c != hh {
					r.violate(sim.Violatef("fork", "fork/height", "two ledgers accepted different blocks at height %d: %s (%s) vs %s", x, hh.StringLE()[:8], v.name(), c.StringLE()[:8]))
					return
				}
			} else {
				s.canon[x] = hh
				s.topAt[x] = s.now()
				if prev, ok := s.topAt[x-1]; ok && x > 1 && s.sp.Sync && !s.settling {
					// fault-free configuration: blocks keep being produced at the configured rate. One block time plus
					// three rounds of three hops is the worst case without a view change; a view change (the backups'
					// timer is two block times) always takes longer than two block times.
					gap := s.now() - prev
					r.out.Probes["sync_block_intervals"]++
					r.out.Probes["sync_block_interval_ms_total"] += int(gap / time.Millisecond)
					if gap > 1500*time.Millisecond {
						r.out.Probes["sync_block_interval_above_1500ms"]++
					}
					// (the block time is a policy value since Echidna: a committee transaction of the workload may have
					// changed it; the bound follows what the chain says at the previous block and now)
					bt := max(blockTimeMS, int(bc.GetMillisecondsPerBlock()))
					if bt > s.maxBlockTimeMS {
						s.maxBlockTimeMS = bt
					}
					if gap > 2*time.Duration(s.maxBlockTimeMS)*time.Millisecond {
						r.violate(sim.Violatef("liveness", "liveness/block-interval", "fault-free configuration (delays <= %d ms, block time %d ms): block %d is first seen %d ms after block %d", s.sp.MaxDelayMS, s.maxBlockTimeMS, x, gap/time.Millisecond, x-1))
						return
					}
				}
				r.log.Addf("t=%dms height %d = %s", s.ms(), x, hh.StringLE()[:8])
				s.lateTxs(x)
			}
			sr, err := bc.GetStateRoot(x)
			if err != nil {
				r.violate(sim.Violatef("net-stateroot", "", "%s has no state root for its height %d: %v", v.name(), x, err))
				return
			}
			if c, ok := s.croot[x]; ok {
				if c != sr.Root.StringLE() {
					r.violate(sim.Violatef("net-divergence", "", "same block, different state roots at height %d: %s has %s, another node %s", x, v.name(), sr.Root.StringLE()[:12], c[:12]))
					return
				}
			} else {
				s.croot[x] = sr.Root.StringLE()
			}
			if own, ok := v.ownBlocks[x]; ok && own != hh.StringBE() {
				r.violate(sim.Violatef("fork", "fork/own", "%s: its consensus service approved block %s for height %d, its ledger holds %s", v.name(), own[:8], x, hh.StringLE()[:8]))
				return
			}
		}
		v.checked = max(v.checked, h)
		// a validator's approved block is in its ledger once the node is quiescent
		for x, own := range v.ownBlocks {
			if x > h {
				r.violate(sim.Violatef("srv-own-block-not-applied", "", "%s: its consensus service approved block %s for height %d, the ledger is still at height %d", v.name(), own[:8], x, h))
				return
			}
		}
		if s.sp.Sync && !s.settling && v.inStep != 0 && h+2 < s.top() {
			// fault-free configuration: a node that has reached the top stays in lockstep (a block reaches it within a
			// fraction of a block time: three hops of at most MaxDelayMS each). "Reached the top", not "within two blocks
			// of it": a node that is still a block or two behind gets the rest with its next block request (protocol
			// tick or ping), new blocks relayed meanwhile wait in its queue
			r.violate(sim.Violatef("liveness", "liveness/lockstep/"+srvKindNames[v.kind], "fault-free configuration (delays <= %d ms): %s, at the top since %d ms, is at height %d while the top is %d at %d ms", s.sp.MaxDelayMS, v.name(), v.inStep/time.Millisecond, h, s.top(), s.ms()))
			return
		}
		if v.inStep == 0 && h >= s.top() && h > 0 {
			v.inStep = s.now()
		}
		if v.caughtUp == 0 && h+2 >= s.top() && h > 0 {
			v.caughtUp = s.now()
			if !v.fromStart {
				r.log.Addf("t=%dms %s caught up (height %d), %d ms after its start", s.ms(), v.name(), h, (s.now()-v.startedAt)/time.Millisecond)
			}
		}
	}
}

// refDump is the complete contract storage of height x on an archival node, from the trie of that height.
func (s *srvSim) refDump(ref *snode, root util.Uint256) []string {
	var res []string
	ref.n.BC.GetStateModule().SeekStates(root, []byte{}, func(k, v []byte) bool {
		if len(k) >= 4 {
			res = append(res, fmt.Sprintf("%d/%x=%x", int32(binary.LittleEndian.Uint32(k[:4])), k[4:], v))
		}
		return true
	})
	sort.Strings(res)
	return res
}

// liveDump is the complete contract storage of the node now, for the contract ids in ids.
func liveDump(v *snode, ids []int32) []string {
	var res []string
	for _, id := range ids {
		v.n.BC.SeekStorage(id, nil, func(k, val []byte) bool {
			res = append(res, fmt.Sprintf("%d/%x=%x", id, k, val))
			return true
		})
	}
	sort.Strings(res)
	return res
}

// checkSyncPoint: the state-synchronised node has, for its current height (the sync point), the header chain, the state
// root and exactly the contract storage a fully synchronised node has for that height.
func (s *srvSim) checkSyncPoint(v *snode, p uint32) bool {
	r := s.r
	bc := v.n.BC
	h := bc.BlockHeight()
	for x := uint32(1); x <= h; x++ {
		if c, ok := s.canon[x]; ok && bc.GetHeaderHash(x) != c {
			r.violate(sim.Violatef("fork", "fork/statesync-headers", "%s synchronised header %s for height %d, the other ledgers hold block %s", v.name(), bc.GetHeaderHash(x).StringLE()[:8], x, c.StringLE()[:8]))
			return false
		}
	}
	rootS, ok := s.croot[h]
	if !ok {
		r.out.Probes["statesync_point_ahead_of_every_full_node"]++
		return true
	}
	got, err := bc.GetStateRoot(h)
	if err != nil || got.Root.StringLE() != rootS {
		r.violate(sim.Violatef("sync-stateroot", "sync-stateroot/srv", "%s after state synchronisation at %d: state root of height %d is %v (%v), fully synchronised nodes have %s", v.name(), p, h, got, err, rootS))
		return false
	}
	var ref *snode
	for _, o := range s.nodes {
		if o != nil && o.up && o != v && !o.local.RemoveOld && !o.local.KeepLatest && o.n.BC.BlockHeight() >= h {
			ref = o
			break
		}
	}
	if ref == nil {
		r.out.Probes["statesync_no_reference_node"]++
		return true
	}
	root, _ := util.Uint256DecodeStringLE(rootS)
	want := s.refDump(ref, root)
	idSet := map[int32]bool{}
	for _, c := range bc.GetNatives() {
		idSet[c.ID] = true
	}
	for _, ln := range want {
		var id int32
		fmt.Sscanf(ln, "%d/", &id)
		idSet[id] = true
	}
	var ids []int32
	for id := range idSet {
		ids = append(ids, id)
	}
	sort.Slice(ids, func(i, j int) bool { return ids[i] < ids[j] })
	have := liveDump(v, ids)
	if d := listDiff(have, want); d != "" {
		r.violate(sim.Violatef("sync-storage", "sync-storage/srv", "%s after state synchronisation at %d: contract storage at height %d differs from the fully synchronised %s: %s", v.name(), p, h, ref.name(), clip(d)))
		return false
	}
	r.out.Probes["statesync_state_checked"]++
	r.out.Probes["statesync_storage_items_compared"] += len(want)
	return true
}

// finalSrv: end-of-run oracles.
func (s *srvSim) finalSrv() {
	r := s.r
	sp := s.sp
	endAt := s.now()
	type snap struct {
		h       uint32
		caught  time.Duration
		started time.Duration
	}
	atEnd := map[int]snap{}
	for _, v := range s.nodes {
		if v != nil && v.up {
			atEnd[v.idx] = snap{h: v.n.BC.BlockHeight(), caught: v.caughtUp, started: v.startedAt}
		}
	}
	topEnd := s.top()
	r.out.Probes["blocks_committed"] += int(topEnd)
	if topEnd > 0 {
		r.out.Probes["runs_with_blocks"]++
	}
	s.mu.Lock()
	r.out.Probes["redial"] += s.redials
	r.out.Probes["dial_refused"] += s.dialRefused
	r.out.Probes["dial_timeout"] += s.dialTimeouts
	r.out.Probes["dial_to_own_address"] += s.selfDials
	s.mu.Unlock()
	// liveness under synchrony
	if sp.Sync {
		for _, v := range s.nodes {
			if v == nil || !v.up {
				continue
			}
			sn := atEnd[v.idx]
			if v.fromStart && v.restarts == 0 {
				if h20 := v.h20; v.has20 && h20 < 5 {
					r.violate(sim.Violatef("liveness", "liveness/blocks", "fault-free configuration (delays <= %d ms): %s is at height %d after 20 block times (top %d)", sp.MaxDelayMS, v.name(), h20, topEnd))
					return
				}
			}
			if !v.fromStart || v.restarts > 0 {
				// (a node that starts far behind gets one more block time for every four blocks of its gap beyond 20)
				bound := sn.started + srvJoinBoundMS*time.Millisecond + time.Duration(max(0, v.gapAtStart-20)/4)*blockTimeMS*time.Millisecond
				if bound <= endAt && (sn.caught == 0 || sn.caught > bound) {
					r.violate(sim.Violatef("liveness", "liveness/"+srvKindNames[v.kind], "fault-free configuration (delays <= %d ms): %s started at %d ms is at height %d at %d ms (top %d), first within 2 blocks of the top at %d ms (0 = never); bound %d block times",
						sp.MaxDelayMS, v.name(), sn.started/time.Millisecond, sn.h, endAt/time.Millisecond, topEnd, sn.caught/time.Millisecond, srvJoinBoundMS/blockTimeMS))
					return
				}
				if sn.caught != 0 {
					r.out.Probes["joiner_caught_up_in_bound"]++
				}
			}
		}
		// every valid transaction pooled at a majority of validators at time t is on chain by t + 10 block times
		for h, t := range s.ns.goodAt {
			if t+10*blockTimeMS*time.Millisecond > endAt {
				continue
			}
			if _, _, err := s.nodes[0].n.BC.GetTransaction(h); err != nil {
				if tx, ok := s.nodes[0].n.BC.GetMemPool().TryGetValue(h); ok && tx != nil {
					r.violate(sim.Violatef("liveness", "liveness/tx", "fault-free configuration: transaction %s pooled by a majority at %d ms is still only in the pool at %d ms", h.StringLE()[:8], t/time.Millisecond, endAt/time.Millisecond))
					return
				}
			} else {
				r.out.Probes["pending_tx_included"]++
			}
		}
		if !s.checkRivals(endAt) {
			return
		}
	}
	for _, v := range s.nodes {
		if v != nil && v.up && !v.fromStart {
			if v.caughtUp != 0 {
				r.out.Probes["joiner_caught_up/"+srvKindNames[v.kind]]++
				r.out.Probes["joiner_catchup_ms_total"] += int((v.caughtUp - v.startedAt) / time.Millisecond)
			} else {
				r.out.Probes["joiner_not_caught_up/"+srvKindNames[v.kind]]++
			}
		}
	}
	// settle: block production stops, injected faults stop, gossip and synchronisation requests go on
	s.settling = true
	for _, v := range s.nodes {
		if v != nil && v.svc != nil {
			v.svc.Shutdown()
		}
	}
	sim.Wait()
	s.flush()
	settle := time.Duration(2*sp.PingMS+sp.PingTimeoutMS+3*sp.ProtoTickMS+4*sp.MaxDelayMS+1000) * time.Millisecond
	s.loop(s.now() + settle)
	if r.fail != nil {
		return
	}
	// C07: a generator-invalid transaction is never pooled and never on chain on any node
	for _, v := range s.nodes {
		if v == nil || !v.up {
			continue
		}
		for h, d := range s.ns.defective {
			if _, _, err := v.n.BC.GetTransaction(h); err == nil {
				r.violate(sim.Violatef("c07-invalid-tx-on-chain", "c07-invalid-tx-on-chain/"+d, "%s knows the generator-invalid transaction (%s) as pooled or on chain", v.name(), d))
				return
			}
		}
	}
	// observations of nodes at equal heights are equal
	byH := map[uint32][]*snode{}
	var hs []uint32
	minH, maxH := ^uint32(0), uint32(0)
	for _, v := range s.nodes {
		if v == nil || !v.up || (v.kind == srvJoinState && !v.jumped) {
			continue
		}
		h := v.n.BC.BlockHeight()
		if len(byH[h]) == 0 {
			hs = append(hs, h)
		}
		byH[h] = append(byH[h], v)
		minH, maxH = min(minH, h), max(maxH, h)
	}
	sort.Slice(hs, func(i, j int) bool { return hs[i] < hs[j] })
	r.log.Addf("end: heights %d..%d after settling (top at the end of the run %d)", minH, maxH, topEnd)
	if len(hs) == 1 {
		r.out.Probes["settled_all_at_one_height"]++
	} else {
		r.out.Probes["settled_at_different_heights"]++
	}
	if sp.Sync && len(hs) > 1 {
		var lag []string
		for _, v := range s.nodes {
			if v != nil && v.up && v.n.BC.BlockHeight() < maxH {
				lag = append(lag, fmt.Sprintf("%s@%d", v.name(), v.n.BC.BlockHeight()))
			}
		}
		r.violate(sim.Violatef("liveness", "liveness/converge", "fault-free configuration: %d ms after the last block the ledgers are at different heights (top %d): %v", settle/time.Millisecond, maxH, lag))
		return
	}
	for _, h := range hs {
		if h == 0 {
			continue
		}
		var ref *Observation
		var refNode *snode
		for _, v := range byH[h] {
			o, err := Observe(v.n, r.w)
			if err != nil {
				r.violate(sim.Violatef("observe-failed", "", "%s at height %d: %v", v.name(), h, err))
				return
			}
			if ref == nil {
				ref, refNode = o, v
			} else if d := o.Diff(ref); len(d) > 0 {
				r.violate(sim.Violatef("net-divergence", "net-divergence/observation", "%s and %s at height %d differ in %v", v.name(), refNode.name(), h, d))
				return
			} else {
				r.out.Probes["observations_compared"]++
				if !v.fromStart || !refNode.fromStart {
					r.out.Probes["joiner_observation_compared"]++
				}
			}
		}
	}
	st := uint64(0)
	for x := uint32(1); x <= maxH; x++ {
		st = sim.HashString(st, s.canon[x].StringLE())
	}
	r.out.StateHash = st
	r.log.Addf("wire: packets=%d hash=%016x", s.wirePkts, s.wireHash)
	for _, v := range s.nodes {
		if v == nil {
			continue
		}
		v.lc.mu.Lock()
		var ks []string
		for k := range v.lc.info {
			ks = append(ks, k)
		}
		sort.Strings(ks)
		for _, k := range ks {
			r.out.Probes[k] += v.lc.info[k]
		}
		for k, n := range v.lc.reasons {
			r.out.Probes["disconnect/"+k] += n
		}
		v.lc.mu.Unlock()
	}
}

// lateTxs: block x has just been seen for the first time; the next proposal is due one block time after its timestamp.
func (s *srvSim) lateTxs(x uint32) {
	// (block timestamps are of no use: the simulated clock is behind the genesis timestamp, every block is "previous + 1 ms")
	var at0 time.Time
	for _, o := range s.nodes {
		if o == nil {
			continue
		}
		o.lc.mu.Lock()
		if t, ok := o.lc.proposedAt[x]; ok && t.After(at0) {
			at0 = t
		}
		o.lc.mu.Unlock()
	}
	if at0.IsZero() {
		return
	}
	proposed := at0.Sub(s.start)
	for _, lt := range s.sp.Late {
		if uint32(lt.Height) != x {
			continue
		}
		lt := lt
		at := proposed + blockTimeMS*time.Millisecond - time.Duration(lt.BeforeMS)*time.Millisecond
		if at <= s.now() {
			s.r.out.Probes["late_tx_too_late"]++
			s.r.log.Addf("late tx for height %d: proposed at %dms, due %dms, now %dms", x, proposed/time.Millisecond, at/time.Millisecond, s.ms())
			continue
		}
		if netDebug {
			s.r.log.Addf("late tx for height %d: proposed at %dms, due %dms, now %dms", x, proposed/time.Millisecond, at/time.Millisecond, s.ms())
		}
		s.ns.at(at, func() {
			s.r.out.Probes["late_tx_submitted"]++
			s.ns.clientTx(NetTx{AtMS: int(at / time.Millisecond), Op: lt.Op, Targets: 1 << uint(lt.Node)})
		})
	}
}
