package ledger

import (
	"fmt"
	"math"
	"os"
	"sort"
	"sync"
	"sync/atomic"
	"time"

	"github.com/nspcc-dev/neo-go/pkg/network"
	"github.com/nspcc-dev/neo-go/pkg/network/capability"
)

// detDiscovery is pkg/network's DefaultDiscovery (discovery.go) statement by statement, with the two things no plan
// controls taken out: where DefaultDiscovery takes "the first" address of a Go map (RequestRemote) this one takes the
// smallest, and the random pause before a dial attempt is zero. Which of several known addresses a node dials next
// decides which connections exist, and with them every packet of the run; with the real discovery two executions of
// one plan differ in that from the first moment a node knows more addresses than it is asked to dial.
// VERIF_SRV_REALDISC=1 runs the real network.NewDefaultDiscovery instead (it works inside the bubble; its choices and
// pauses come from the runtime's random source, so two executions of one plan differ).
type detDiscovery struct {
	seeds            map[string]string
	transport        network.Transporter
	lock             sync.RWMutex
	dialTimeout      time.Duration
	badAddrs         map[string]bool
	connectedAddrs   map[string]bool
	handshakedAddrs  map[string]bool
	goodAddrs        map[string]capability.Capabilities
	unconnectedAddrs map[string]int
	attempted        map[string]bool
	outstanding      atomic.Int32
	optimalFanOut    atomic.Int32
	networkSize      atomic.Int32
	seed             uint64
	tries            map[string]uint64
}

const (
	discMaxPoolSize = 10000
	discConnRetries = 3
)

var srvRealDiscovery = os.Getenv("VERIF_SRV_REALDISC") != ""

func newSrvDiscovery(addrs []string, dt time.Duration, ts network.Transporter) network.Discoverer {
	if srvRealDiscovery {
		return network.NewDefaultDiscovery(addrs, dt, ts)
	}
	seeds := make(map[string]string)
	for i := range addrs {
		seeds[addrs[i]] = ""
	}
	seed := uint64(0x5eed)
	if t, ok := ts.(*simTransport); ok {
		seed = splitmix(t.sim.sp.TailSeed ^ uint64(t.node.idx+1)<<48 ^ uint64(t.gen)<<40)
	}
	return &detDiscovery{
		seed:             seed,
		tries:            make(map[string]uint64),
		seeds:            seeds,
		transport:        ts,
		dialTimeout:      dt,
		badAddrs:         make(map[string]bool),
		connectedAddrs:   make(map[string]bool),
		handshakedAddrs:  make(map[string]bool),
		goodAddrs:        make(map[string]capability.Capabilities),
		unconnectedAddrs: make(map[string]int),
		attempted:        make(map[string]bool),
	}
}

func (d *detDiscovery) BackFill(addrs ...string) {
	d.lock.Lock()
	d.backfill(addrs...)
	d.lock.Unlock()
}

func (d *detDiscovery) backfill(addrs ...string) {
	for _, addr := range addrs {
		if d.badAddrs[addr] || d.connectedAddrs[addr] || d.handshakedAddrs[addr] ||
			d.unconnectedAddrs[addr] > 0 {
			continue
		}
		d.pushToPoolOrDrop(addr)
	}
	d.updateNetSize()
}

func (d *detDiscovery) PoolCount() int {
	d.lock.RLock()
	defer d.lock.RUnlock()
	return len(d.unconnectedAddrs)
}

func (d *detDiscovery) pushToPoolOrDrop(addr string) {
	if len(d.unconnectedAddrs) < discMaxPoolSize {
		d.unconnectedAddrs[addr] = discConnRetries
	}
}

func sortedKeys[V any](m map[string]V) []string {
	ks := make([]string, 0, len(m))
	for k := range m {
		ks = append(ks, k)
	}
	sort.Strings(ks)
	return ks
}

func (d *detDiscovery) RequestRemote(requested int) {
	outstanding := int(d.outstanding.Load())
	if netDebug {
		if t, ok := d.transport.(*simTransport); ok {
			t.sim.mu.Lock()
			t.sim.dbg = append(t.sim.dbg, fmt.Sprintf("node %d RequestRemote(%d) outstanding=%d pool=%v", t.node.idx, requested, outstanding, d.UnconnectedPeers()))
			t.sim.mu.Unlock()
		}
	}
	requested -= outstanding
	for ; requested > 0; requested-- {
		var nextAddr string
		d.lock.Lock()
		for _, addr := range sortedKeys(d.unconnectedAddrs) {
			if !d.connectedAddrs[addr] && !d.handshakedAddrs[addr] && !d.attempted[addr] {
				nextAddr = addr
				break
			}
		}
		if nextAddr == "" {
			// Empty pool, try seeds.
			for _, addr := range sortedKeys(d.seeds) {
				if d.seeds[addr] == "" && !d.attempted[addr] {
					nextAddr = addr
					break
				}
			}
		}
		if nextAddr == "" {
			d.lock.Unlock()
			break
		}
		d.attempted[nextAddr] = true
		d.lock.Unlock()
		d.outstanding.Add(1)
		go d.tryAddress(nextAddr)
	}
}

func (d *detDiscovery) RegisterSelf(p network.AddressablePeer) {
	var connaddr = p.ConnectionAddr()
	d.lock.Lock()
	delete(d.connectedAddrs, connaddr)
	d.registerBad(connaddr, true)
	d.registerBad(p.PeerAddr().String(), true)
	d.lock.Unlock()
}

func (d *detDiscovery) registerBad(addr string, force bool) {
	_, isSeed := d.seeds[addr]
	if isSeed {
		if !force {
			d.seeds[addr] = ""
		} else {
			d.seeds[addr] = "forever" // That's our own address, so never try connecting to it.
		}
	} else {
		d.unconnectedAddrs[addr]--
		if d.unconnectedAddrs[addr] <= 0 || force {
			d.badAddrs[addr] = true
			delete(d.unconnectedAddrs, addr)
			delete(d.goodAddrs, addr)
		}
	}
	d.updateNetSize()
}

func (d *detDiscovery) UnconnectedPeers() []string {
	d.lock.RLock()
	defer d.lock.RUnlock()
	return sortedKeys(d.unconnectedAddrs)
}

func (d *detDiscovery) BadPeers() []string {
	d.lock.RLock()
	defer d.lock.RUnlock()
	return sortedKeys(d.badAddrs)
}

func (d *detDiscovery) GoodPeers() []network.AddressWithCapabilities {
	d.lock.RLock()
	addrs := make([]network.AddressWithCapabilities, 0, len(d.goodAddrs))
	for _, addr := range sortedKeys(d.goodAddrs) {
		addrs = append(addrs, network.AddressWithCapabilities{
			Address:      addr,
			Capabilities: d.goodAddrs[addr],
		})
	}
	d.lock.RUnlock()
	return addrs
}

func (d *detDiscovery) RegisterGood(p network.AddressablePeer) {
	var (
		s        = p.PeerAddr().String()
		connAddr = p.ConnectionAddr()
	)
	d.lock.Lock()
	d.handshakedAddrs[s] = true
	d.goodAddrs[s] = p.Version().Capabilities
	delete(d.badAddrs, s)
	delete(d.unconnectedAddrs, s)
	delete(d.badAddrs, connAddr)
	delete(d.unconnectedAddrs, connAddr)
	d.lock.Unlock()
}

func (d *detDiscovery) UnregisterConnected(p network.AddressablePeer, duplicate bool) {
	var (
		peeraddr   = p.PeerAddr().String()
		connaddr   = p.ConnectionAddr()
		remoteAddr = p.RemoteAddr().String()
	)
	d.lock.Lock()
	delete(d.connectedAddrs, connaddr)
	if !duplicate {
		for _, addr := range sortedKeys(d.seeds) {
			if ip := d.seeds[addr]; ip == peeraddr || ip == connaddr || ip == remoteAddr {
				d.seeds[addr] = ""
				break
			}
		}
		delete(d.handshakedAddrs, peeraddr)
		if _, ok := d.goodAddrs[peeraddr]; ok {
			d.backfill(peeraddr)
		}
	}
	d.lock.Unlock()
}

func (d *detDiscovery) RegisterConnected(p network.AddressablePeer) {
	var addr = p.ConnectionAddr()
	d.lock.Lock()
	d.registerConnected(addr)
	d.lock.Unlock()
}

func (d *detDiscovery) registerConnected(addr string) {
	delete(d.unconnectedAddrs, addr)
	d.connectedAddrs[addr] = true
	d.updateNetSize()
}

func (d *detDiscovery) GetFanOut() int { return int(d.optimalFanOut.Load()) }

func (d *detDiscovery) NetworkSize() int { return int(d.networkSize.Load()) }

func (d *detDiscovery) updateNetSize() {
	var netsize = max(len(d.seeds), len(d.handshakedAddrs)+len(d.unconnectedAddrs)+1)
	var fanOut = max(1, 2.5*math.Log(float64(netsize-1)))

	d.optimalFanOut.Store(int32(fanOut + 0.5))
	d.networkSize.Store(int32(netsize))
}

// discTryMaxWait is discovery.go's tryMaxWait: the longest pause before a connection attempt.
const discTryMaxWait = time.Second / 2

func (d *detDiscovery) tryAddress(addr string) {
	// DefaultDiscovery pauses here for a random time below tryMaxWait. The pause is what ends the cycle of two nodes
	// that dial each other at the same moment, each drop the connection they accepted as a duplicate ("already
	// connected") and dial again; without it that cycle goes on for ever. Here the pause is a function of the plan's
	// seed, the node, the address and the number of the attempt.
	d.lock.Lock()
	d.tries[addr]++
	n := d.tries[addr]
	d.lock.Unlock()
	x := splitmix(d.seed ^ uint64(n)<<32)
	for _, c := range []byte(addr) {
		x = splitmix(x ^ uint64(c))
	}
	time.Sleep(time.Duration(x % uint64(discTryMaxWait)))
	p, err := d.transport.Dial(addr, d.dialTimeout)
	d.outstanding.Add(-1)
	d.lock.Lock()
	delete(d.attempted, addr)
	if err == nil {
		if _, ok := d.seeds[addr]; ok {
			d.seeds[addr] = p.PeerAddr().String()
		}
		d.registerConnected(addr)
	} else {
		d.registerBad(addr, false)
	}
	d.lock.Unlock()
	if err != nil {
		time.Sleep(d.dialTimeout)
		d.RequestRemote(1)
	}
}

var _ network.Discoverer = (*detDiscovery)(nil)
