package ledger

import (
	"encoding/binary"
	"encoding/hex"
	"fmt"
	"math/big"
	"os"
	"sort"

	"github.com/nspcc-dev/neo-go/pkg/core/native/nativehashes"
	"github.com/nspcc-dev/neo-go/pkg/core/state"
	"github.com/nspcc-dev/neo-go/pkg/encoding/bigint"
	"github.com/nspcc-dev/neo-go/pkg/smartcontract/trigger"
	"github.com/nspcc-dev/neo-go/pkg/util"
	"github.com/nspcc-dev/neo-go/pkg/vm/stackitem"
	"github.com/nspcc-dev/neo-go/pkg/vm/vmstate"

	"verif/sim"
)

// C05: independent arithmetic over raw contract storage and execution results.

const (
	pfxAccount     = 20
	pfxTotalSupply = 11
	pfxCandidate   = 33
	pfxVotersCount = 1
	pfxDeposit     = 1
)

type ledgerBalances struct {
	neo map[util.Uint160]*big.Int
	gas map[util.Uint160]*big.Int
	// voter reward bookkeeping: the cumulative GAS-per-vote record of every candidate key (compressed, hex) and, per NEO
	// account, the height of its last change, the key it votes for and the record value it has been paid up to
	cum  map[string]*big.Int
	acct map[util.Uint160]neoAcct
}

type neoAcct struct {
	height uint32
	voteTo string
	paidTo *big.Int
}

func nativeID(n *Node, h util.Uint160) int32 {
	cs := n.BC.GetContractState(h)
	if cs == nil {
		sim.Harnessf("native contract %s has no state", h.StringLE())
	}
	return cs.ID
}

func accKey(k []byte) (util.Uint160, bool) {
	if len(k) != 21 || k[0] != pfxAccount {
		return util.Uint160{}, false
	}
	u, err := util.Uint160DecodeBytesBE(k[1:])
	return u, err == nil
}

// readBalances enumerates every NEO and GAS account from raw storage.
func (r *run) readBalances(n *Node) (*ledgerBalances, map[string]*big.Int, *big.Int, *sim.Violation) {
	lb := &ledgerBalances{neo: map[util.Uint160]*big.Int{}, gas: map[util.Uint160]*big.Int{}, cum: map[string]*big.Int{}, acct: map[util.Uint160]neoAcct{}}
	votesFor := map[string]*big.Int{}
	voters := big.NewInt(0)
	var bad *sim.Violation
	neoID := nativeID(n, nativehashes.NeoToken)
	gasID := nativeID(n, nativehashes.GasToken)
	n.BC.SeekStorage(neoID, []byte{pfxAccount}, func(k, v []byte) bool {
		full := append([]byte{pfxAccount}, k...)
		a, ok := accKey(full)
		if !ok {
			bad = sim.Violatef("c05-storage", "", "%s: malformed NEO account key %x", n.Name, k)
			return false
		}
		nb, err := state.NEOBalanceFromBytes(v)
		if err != nil {
			bad = sim.Violatef("c05-storage", "", "%s: NEO balance of %s does not decode: %v", n.Name, a.StringLE(), err)
			return false
		}
		lb.neo[a] = new(big.Int).Set(&nb.Balance)
		na := neoAcct{height: nb.BalanceHeight, paidTo: new(big.Int).Set(&nb.LastGasPerVote)}
		if nb.VoteTo != nil {
			na.voteTo = nb.VoteTo.StringCompressed()
		}
		lb.acct[a] = na
		if nb.VoteTo != nil {
			key := nb.VoteTo.StringCompressed()
			if votesFor[key] == nil {
				votesFor[key] = big.NewInt(0)
			}
			votesFor[key].Add(votesFor[key], &nb.Balance)
			voters.Add(voters, &nb.Balance)
		}
		return true
	})
	if bad != nil {
		return nil, nil, nil, bad
	}
	n.BC.SeekStorage(neoID, []byte{23}, func(k, v []byte) bool { // prefixVoterRewardPerCommittee + compressed key
		lb.cum[hex.EncodeToString(k)] = bigint.FromBytes(v)
		return true
	})
	n.BC.SeekStorage(gasID, []byte{pfxAccount}, func(k, v []byte) bool {
		full := append([]byte{pfxAccount}, k...)
		a, ok := accKey(full)
		if !ok {
			bad = sim.Violatef("c05-storage", "", "%s: malformed GAS account key %x", n.Name, k)
			return false
		}
		gb, err := state.NEP17BalanceFromBytes(v)
		if err != nil {
			bad = sim.Violatef("c05-storage", "", "%s: GAS balance of %s does not decode: %v", n.Name, a.StringLE(), err)
			return false
		}
		lb.gas[a] = new(big.Int).Set(&gb.Balance)
		return true
	})
	return lb, votesFor, voters, bad
}

func (r *run) checkC05(n *Node, h uint32) {
	if v := r.conservation(n, h); v != nil {
		r.violate(v)
	}
}

func (r *run) conservation(n *Node, h uint32) *sim.Violation {
	bc := n.BC
	neoID := nativeID(n, nativehashes.NeoToken)
	gasID := nativeID(n, nativehashes.GasToken)
	lb, votesFor, voters, bad := r.readBalances(n)
	if bad != nil {
		return bad
	}
	// --- supplies
	neoSum := big.NewInt(0)
	for a, b := range lb.neo {
		if b.Sign() < 0 {
			return sim.Violatef("c05-negative", "", "%s h=%d: NEO balance of %s is %s", n.Name, h, a.StringLE(), b)
		}
		neoSum.Add(neoSum, b)
	}
	if neoSum.Cmp(big.NewInt(100_000_000)) != 0 {
		return sim.Violatef("c05-neo-supply", "", "%s h=%d: sum of NEO balances is %s, not 100000000", n.Name, h, neoSum)
	}
	if si := bc.GetStorageItem(neoID, []byte{pfxTotalSupply}); si == nil || bigint.FromBytes(si).Cmp(neoSum) != 0 {
		return sim.Violatef("c05-neo-supply", "c05-neo-supply/item", "%s h=%d: NEO total supply item %v != sum of balances %s", n.Name, h, si, neoSum)
	}
	gasSum := big.NewInt(0)
	for a, b := range lb.gas {
		if b.Sign() < 0 {
			return sim.Violatef("c05-negative", "", "%s h=%d: GAS balance of %s is %s", n.Name, h, a.StringLE(), b)
		}
		gasSum.Add(gasSum, b)
	}
	si := bc.GetStorageItem(gasID, []byte{pfxTotalSupply})
	if si == nil || bigint.FromBytes(si).Cmp(gasSum) != 0 {
		var got string = "<nil>"
		if si != nil {
			got = bigint.FromBytes(si).String()
		}
		return sim.Violatef("c05-gas-supply", "", "%s h=%d: GAS total supply %s != sum of balances %s", n.Name, h, got, gasSum)
	}
	// --- issuance: GAS comes into being at genesis and as block rewards only (committee, holder and voter shares of the
	// GAS-per-block setting; every other mint - network fees to the primary, Oracle and Notary payments - follows a burn
	// of at least that amount), so the supply never exceeds the initial supply plus the per-block amounts so far
	type gpbRec struct {
		idx uint32
		g   *big.Int
	}
	var recs []gpbRec
	bc.SeekStorage(neoID, []byte{29}, func(k, v []byte) bool { // prefixGASPerBlock; key = big-endian first block index
		if len(k) == 4 {
			recs = append(recs, gpbRec{binary.BigEndian.Uint32(k), bigint.FromBytes(v)})
		}
		return true
	})
	sort.Slice(recs, func(i, j int) bool { return recs[i].idx < recs[j].idx })
	if len(recs) > 0 {
		bound := big.NewInt(int64(bc.GetConfig().InitialGASSupply))
		for i, rc := range recs {
			from := max(rc.idx, 1)
			to := h + 1
			if i+1 < len(recs) {
				to = min(to, recs[i+1].idx)
			}
			if to > from {
				bound.Add(bound, new(big.Int).Mul(rc.g, big.NewInt(int64(to-from))))
			}
		}
		if gasSum.Cmp(bound) > 0 {
			return sim.Violatef("c05-gas-issuance", "", "%s h=%d: GAS supply %s exceeds the initial supply plus all per-block amounts up to this height, %s", n.Name, h, gasSum, bound)
		}
		r.out.Probes["gas_issuance_bound_checked"]++
	}
	// --- votes
	seenCand := map[string]bool{}
	bc.SeekStorage(neoID, []byte{pfxCandidate}, func(k, v []byte) bool {
		it, err := stackitem.Deserialize(v)
		if err != nil {
			bad = sim.Violatef("c05-storage", "", "%s: candidate record %x does not decode: %v", n.Name, k, err)
			return false
		}
		arr, ok := it.Value().([]stackitem.Item)
		if !ok || len(arr) != 2 {
			bad = sim.Violatef("c05-storage", "", "%s: candidate record %x malformed", n.Name, k)
			return false
		}
		votes, err := arr[1].TryInteger()
		if err != nil {
			bad = sim.Violatef("c05-storage", "", "%s: candidate votes %x malformed", n.Name, k)
			return false
		}
		key := fmt.Sprintf("%x", k)
		seenCand[key] = true
		want := votesFor[key]
		if want == nil {
			want = big.NewInt(0)
		}
		if votes.Cmp(want) != 0 {
			bad = sim.Violatef("c05-candidate-votes", "", "%s h=%d: candidate %s has %s votes but accounts voting for it hold %s NEO", n.Name, h, key[:10], votes, want)
			return false
		}
		if votes.Sign() != 0 {
			r.out.Probes["candidate_with_votes"]++
		}
		return true
	})
	if bad != nil {
		return bad
	}
	var vk []string
	for k := range votesFor {
		vk = append(vk, k)
	}
	sort.Strings(vk)
	for _, k := range vk {
		if !seenCand[k] && votesFor[k].Sign() != 0 {
			return sim.Violatef("c05-candidate-votes", "c05-candidate-votes/missing", "%s h=%d: accounts holding %s NEO vote for %s which has no candidate record", n.Name, h, votesFor[k], k[:10])
		}
	}
	vc := bc.GetStorageItem(neoID, []byte{pfxVotersCount})
	if vc == nil || bigint.FromBytes(vc).Cmp(voters) != 0 {
		got := "<nil>"
		if vc != nil {
			got = bigint.FromBytes(vc).String()
		}
		return sim.Violatef("c05-voters-count", "", "%s h=%d: voters count %s != NEO held by voting accounts %s", n.Name, h, got, voters)
	}
	if voters.Sign() != 0 {
		r.out.Probes["voters_present"]++
	}
	// --- notary
	if r.plan.Proto.P2PSig {
		if ncs := bc.GetContractState(nativehashes.Notary); ncs != nil {
			dep := big.NewInt(0)
			bc.SeekStorage(ncs.ID, []byte{pfxDeposit}, func(k, v []byte) bool {
				var d state.Deposit
				if err := stackitem.DeserializeConvertible(v, &d); err != nil {
					bad = sim.Violatef("c05-storage", "", "%s: notary deposit %x does not decode: %v", n.Name, k, err)
					return false
				}
				if d.Amount.Sign() < 0 {
					bad = sim.Violatef("c05-negative", "", "%s h=%d: notary deposit %x is %s", n.Name, h, k, d.Amount)
					return false
				}
				dep.Add(dep, d.Amount)
				r.out.Probes["notary_deposit_present"]++
				return true
			})
			if bad != nil {
				return bad
			}
			have := lb.gas[nativehashes.Notary]
			if have == nil {
				have = big.NewInt(0)
			}
			if have.Cmp(dep) != 0 {
				return sim.Violatef("c05-notary", "", "%s h=%d: Notary holds %s GAS but deposits sum to %s", n.Name, h, have, dep)
			}
		}
	}
	// --- per-account deltas (only where the previous block was observed on the same node)
	prev := n.prevBal
	if prev != nil && n.prevBalHeight+1 == h {
		dNeo, dGas, v := r.transferDeltas(n, h)
		if v != nil {
			return v
		}
		if v := checkDeltas(n.Name, h, "NEO", prev.neo, lb.neo, dNeo); v != nil {
			return v
		}
		if v := checkDeltas(n.Name, h, "GAS", prev.gas, lb.gas, dGas); v != nil {
			return v
		}
		r.out.Probes["delta_checked_blocks"]++
		// voter rewards are paid as balance x (record of the candidate voted for, now - value the account has been paid
		// up to): an account changed by this block (balance or vote) has been paid up to what the record of the key it
		// votes for NOW was when the block's transactions ran, i.e. after the previous block (nothing if it has no vote)
		var as []util.Uint160
		for a := range lb.acct {
			as = append(as, a)
		}
		sort.Slice(as, func(i, j int) bool { return as[i].Less(as[j]) })
		for _, a := range as {
			na := lb.acct[a]
			if na.height != h {
				continue
			}
			want := big.NewInt(0)
			if na.voteTo != "" && prev.cum[na.voteTo] != nil {
				want = prev.cum[na.voteTo]
			}
			// (a record can be dropped and begun again inside the block when its candidate unregisters: then it is 0)
			if na.paidTo.Cmp(want) != 0 && !(na.voteTo != "" && na.paidTo.Sign() == 0) {
				return sim.Violatef("c05-voter-reward-checkpoint", "", "%s h=%d: NEO account %s (changed in this block, votes for %q) is marked as paid up to GAS-per-vote %s, but the record of that key stood at %s when the block's transactions ran",
					n.Name, h, a.StringLE(), na.voteTo, na.paidTo, want)
			}
			r.out.Probes["voter_reward_checkpoint_checked"]++
			if na.voteTo != "" && want.Sign() > 0 {
				r.out.Probes["voter_reward_checkpoint_checked_nonzero"]++
			}
		}
	}
	n.prevBal, n.prevBalHeight = lb, h
	if h > 0 && h == bc.BlockHeight() {
		if v := r.transferLogOfBlock(n, h); v != nil {
			return v
		}
	}
	return nil
}

func checkDeltas(name string, h uint32, tok string, prev, cur, delta map[util.Uint160]*big.Int) *sim.Violation {
	keys := map[util.Uint160]bool{}
	for k := range prev {
		keys[k] = true
	}
	for k := range cur {
		keys[k] = true
	}
	for k := range delta {
		keys[k] = true
	}
	var ks []util.Uint160
	for k := range keys {
		ks = append(ks, k)
	}
	sort.Slice(ks, func(i, j int) bool { return ks[i].Less(ks[j]) })
	z := big.NewInt(0)
	get := func(m map[util.Uint160]*big.Int, k util.Uint160) *big.Int {
		if v := m[k]; v != nil {
			return v
		}
		return z
	}
	for _, k := range ks {
		want := new(big.Int).Sub(get(cur, k), get(prev, k))
		if want.Cmp(get(delta, k)) != 0 {
			return sim.Violatef("c05-delta", "c05-delta/"+tok, "%s h=%d: %s balance of %s changed by %s but Transfer events of successful executions net to %s",
				name, h, tok, k.StringLE(), want, get(delta, k))
		}
	}
	return nil
}

// transferDeltas sums the Transfer notifications of HALTed executions of block h.
func (r *run) transferDeltas(n *Node, h uint32) (map[util.Uint160]*big.Int, map[util.Uint160]*big.Int, *sim.Violation) {
	bc := n.BC
	dNeo := map[util.Uint160]*big.Int{}
	dGas := map[util.Uint160]*big.Int{}
	bh := bc.GetHeaderHash(h)
	blk, err := bc.GetBlock(bh)
	if err != nil {
		sim.Harnessf("GetBlock: %v", err)
	}
	containers := []util.Uint256{bh}
	for _, tx := range blk.Transactions {
		containers = append(containers, tx.Hash())
	}
	add := func(m map[util.Uint160]*big.Int, it stackitem.Item, amt *big.Int, sign int) *sim.Violation {
		if _, isNull := it.(stackitem.Null); isNull {
			return nil
		}
		b, err := it.TryBytes()
		if err != nil {
			return sim.Violatef("c05-event", "", "Transfer event party is not a hash: %v", err)
		}
		u, err := util.Uint160DecodeBytesBE(b)
		if err != nil {
			return sim.Violatef("c05-event", "", "Transfer event party is not a hash: %v", err)
		}
		if m[u] == nil {
			m[u] = big.NewInt(0)
		}
		if sign > 0 {
			m[u].Add(m[u], amt)
		} else {
			m[u].Sub(m[u], amt)
		}
		return nil
	}
	for _, c := range containers {
		aers, err := bc.GetAppExecResults(c, trigger.All)
		if err != nil {
			sim.Harnessf("GetAppExecResults: %v", err)
		}
		for _, a := range aers {
			if a.VMState != vmstate.Halt {
				continue
			}
			for _, e := range a.Events {
				if e.Name != "Transfer" {
					continue
				}
				var m map[util.Uint160]*big.Int
				switch e.ScriptHash {
				case nativehashes.NeoToken:
					m = dNeo
				case nativehashes.GasToken:
					m = dGas
				default:
					continue
				}
				arr := e.Item.Value().([]stackitem.Item)
				if len(arr) != 3 {
					return nil, nil, sim.Violatef("c05-event", "", "Transfer event with %d fields", len(arr))
				}
				amt, err := arr[2].TryInteger()
				if err != nil {
					return nil, nil, sim.Violatef("c05-event", "", "Transfer amount: %v", err)
				}
				if v := add(m, arr[0], amt, -1); v != nil {
					return nil, nil, v
				}
				if v := add(m, arr[1], amt, +1); v != nil {
					return nil, nil, v
				}
			}
		}
	}
	return dNeo, dGas, nil
}

// transferLogOfBlock: the node-local token transfer log (what getnep17transfers serves) holds, for every account, exactly
// the NEO and GAS Transfer events of the block's successful executions - OnPersist, the transactions in order,
// PostPersist - as that account's entries of the block: amount negative for the sender, counterparty the other side,
// the container's hash. Under the verif build tag a log batch holds 3 entries (128 in production), so batches roll
// over inside blocks all the time.
func (r *run) transferLogOfBlock(n *Node, h uint32) *sim.Violation {
	bc := n.BC
	neoID := nativeID(n, nativehashes.NeoToken)
	gasID := nativeID(n, nativehashes.GasToken)
	bh := bc.GetHeaderHash(h)
	blk, err := bc.GetBlock(bh)
	if err != nil {
		sim.Harnessf("GetBlock: %v", err)
	}
	type entry struct {
		asset int32
		amt   string
		other util.Uint160
		tx    util.Uint256
	}
	want := map[util.Uint160][]entry{}
	party := func(it stackitem.Item) (util.Uint160, bool) {
		if _, isNull := it.(stackitem.Null); isNull {
			return util.Uint160{}, false
		}
		b, err := it.TryBytes()
		if err != nil {
			return util.Uint160{}, false
		}
		u, err := util.Uint160DecodeBytesBE(b)
		return u, err == nil
	}
	collect := func(c util.Uint256, trig trigger.Type) {
		aers, err := bc.GetAppExecResults(c, trig)
		if err != nil {
			sim.Harnessf("GetAppExecResults: %v", err)
		}
		for _, a := range aers {
			if a.VMState != vmstate.Halt {
				continue
			}
			for _, e := range a.Events {
				if e.Name != "Transfer" {
					continue
				}
				var id int32
				switch e.ScriptHash {
				case nativehashes.NeoToken:
					id = neoID
				case nativehashes.GasToken:
					id = gasID
				default:
					continue
				}
				arr, ok := e.Item.Value().([]stackitem.Item)
				if !ok || len(arr) != 3 {
					continue
				}
				amt, err := arr[2].TryInteger()
				if err != nil {
					continue
				}
				from, okF := party(arr[0])
				to, okT := party(arr[1])
				if okF {
					want[from] = append(want[from], entry{id, new(big.Int).Neg(amt).String(), to, c})
				}
				if okT {
					want[to] = append(want[to], entry{id, amt.String(), from, c})
				}
			}
		}
	}
	collect(bh, trigger.OnPersist)
	for _, tx := range blk.Transactions {
		collect(tx.Hash(), trigger.Application)
	}
	collect(bh, trigger.PostPersist)
	// every account the harness knows plus every party of this block
	accts := map[util.Uint160]bool{}
	for _, a := range r.w.accounts {
		accts[a] = true
	}
	for a := range want {
		accts[a] = true
	}
	var as []util.Uint160
	for a := range accts {
		as = append(as, a)
	}
	sort.Slice(as, func(i, j int) bool { return as[i].Less(as[j]) })
	for _, a := range as {
		var got []entry
		var ferr error
		if v := sim.Recover(func() {
			ferr = bc.ForEachNEP17Transfer(a, ^uint64(0)>>1, func(t *state.NEP17Transfer) (bool, error) {
				if t.Block < h {
					return false, nil
				}
				if t.Block == h && (t.Asset == neoID || t.Asset == gasID) {
					got = append(got, entry{t.Asset, t.Amount.String(), t.Counterparty, t.Tx})
				}
				return true, nil
			})
		}); v != nil {
			v.Msg = fmt.Sprintf("%s h=%d: reading the token transfer log of %s panicked: %s", n.Name, h, a.StringLE(), v.Msg)
			return v
		}
		if ferr != nil {
			return sim.Violatef("transfer-log", "transfer-log/unreadable", "%s h=%d: the token transfer log of %s cannot be read: %v", n.Name, h, a.StringLE(), ferr)
		}
		// the log is read newest first
		for i, j := 0, len(got)-1; i < j; i, j = i+1, j-1 {
			got[i], got[j] = got[j], got[i]
		}
		w := want[a]
		same := len(got) == len(w)
		for i := 0; same && i < len(w); i++ {
			same = got[i] == w[i]
		}
		if !same {
			var all []string
			_ = bc.ForEachNEP17Transfer(a, ^uint64(0)>>1, func(t *state.NEP17Transfer) (bool, error) {
				all = append(all, fmt.Sprintf("b%d/a%d/%s", t.Block, t.Asset, t.Amount))
				return len(all) < 24, nil
			})
			if os.Getenv("VERIF_TLOG_DEBUG") != "" {
				lu, lerr := bc.GetTokenLastUpdated(a)
				var all2, all3 []string
				_ = bc.ForEachNEP17Transfer(a, ^uint64(0), func(t *state.NEP17Transfer) (bool, error) {
					all2 = append(all2, fmt.Sprintf("b%d/a%d/%s", t.Block, t.Asset, t.Amount))
					return len(all2) < 24, nil
				})
				_ = bc.ForEachNEP17Transfer(a, blk.Timestamp+1, func(t *state.NEP17Transfer) (bool, error) {
					all3 = append(all3, fmt.Sprintf("b%d/a%d/%s", t.Block, t.Asset, t.Amount))
					return len(all3) < 24, nil
				})
				fmt.Printf("TLOG-DEBUG %s h=%d acc=%s local=%+v lastUpdated=%v %v maxts=%v ts+1(%d)=%v\n", n.Name, h, a.StringLE(), n.Local, lu, lerr, all2, blk.Timestamp, all3)
			}
			return sim.Violatef("transfer-log", "transfer-log/entries", "%s h=%d: the token transfer log of %s has for this block %v; the block's successful executions emitted for it %v (the log, newest first: %v)", n.Name, h, a.StringLE(), got, w, all)
		}
		if len(w) > 0 {
			r.out.Probes["transfer_log_blocks_compared"]++
		}
		if len(w) >= 3 {
			r.out.Probes["transfer_log_batch_rolled_inside_block"]++
		}
	}
	return nil
}
