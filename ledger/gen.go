package ledger

import (
	"bytes"
	"crypto/sha256"
	"fmt"
	"github.com/nspcc-dev/neo-go/pkg/core/interop/interopnames"
	"sort"

	"github.com/nspcc-dev/neo-go/pkg/core/native"
	"github.com/nspcc-dev/neo-go/pkg/core/native/nativehashes"
	"github.com/nspcc-dev/neo-go/pkg/core/native/noderoles"
	"github.com/nspcc-dev/neo-go/pkg/core/transaction"
	"github.com/nspcc-dev/neo-go/pkg/crypto/keys"
	nio "github.com/nspcc-dev/neo-go/pkg/io"
	"github.com/nspcc-dev/neo-go/pkg/neotest"
	"github.com/nspcc-dev/neo-go/pkg/smartcontract"
	"github.com/nspcc-dev/neo-go/pkg/smartcontract/callflag"
	"github.com/nspcc-dev/neo-go/pkg/util"
	"github.com/nspcc-dev/neo-go/pkg/vm/emit"
	"github.com/nspcc-dev/neo-go/pkg/vm/opcode"
	"github.com/nspcc-dev/neo-go/pkg/wallet"
	"pgregory.net/rapid"
)

// Operation kinds of the history generator.
const (
	OpTransferGAS = iota
	OpTransferNEO
	OpVote
	OpRegister
	OpUnregister
	OpPolicy
	OpDesignate
	OpDeploy
	OpInvoke
	OpUpdate
	OpDestroy
	OpPayContract
	OpNotary
	OpClaim
	OpFromValidator
	OpAttrTx
	// (new kinds are appended here: the numbers are part of stored plans)
	OpOracleRequest
	OpOracleResponse
	OpCrypto
	OpLedgerRead
	numOps
)

var opNames = [...]string{"transferGAS", "transferNEO", "vote", "register", "unregister", "policy", "designate",
	"deploy", "invoke", "update", "destroy", "payContract", "notary", "claim", "fromValidator", "attrTx", "oracleRequest", "oracleResponse", "crypto", "ledgerRead"}

// Op is one generated transaction.
type Op struct {
	Kind int   `json:"k"`
	A    int   `json:"a"`           // acting account
	B    int   `json:"b,omitempty"` // second account / contract index
	N    int64 `json:"n,omitempty"` // amount / value
	X    int   `json:"x,omitempty"` // selector
	Y    int   `json:"y,omitempty"` // second selector
}

// BlockPlan is one generated block.
type BlockPlan struct {
	Ops     []Op `json:"ops"`
	Primary int  `json:"primary,omitempty"`
	DT      int  `json:"dt,omitempty"` // timestamp increment - 1 (ms)
	Reverse bool `json:"rev,omitempty"`
}

const numAccounts = 6
const numContracts = 3

func drawOp(rt *rapid.T, p2psig bool) Op { return drawOpMix(rt, p2psig, 0) }

// drawOpMix draws one operation; mix biases the workload of a whole run (swarm style): 0 = the general mix,
// 1 = governance parameters (Policy setters, whitelisted fees, attribute fees), 2 = contract life cycle and
// storage, 3 = candidates and votes.
func drawOpMix(rt *rapid.T, p2psig bool, mix int) Op {
	o := drawOpGeneral(rt, p2psig)
	if mix == 0 || rapid.IntRange(0, 1).Draw(rt, "mixhit") == 0 {
		return o
	}
	switch mix {
	case 1:
		o.Kind = OpPolicy
		if rapid.IntRange(0, 1).Draw(rt, "wl") == 1 {
			o.X = 6 + rapid.IntRange(0, 1).Draw(rt, "wl2")
		}
	case 2:
		o.Kind = []int{OpDeploy, OpInvoke, OpInvoke, OpInvoke, OpUpdate, OpDestroy, OpPayContract, OpOracleRequest, OpOracleResponse}[rapid.IntRange(0, 8).Draw(rt, "lc")]
	case 3:
		o.Kind = []int{OpVote, OpVote, OpRegister, OpUnregister, OpTransferNEO}[rapid.IntRange(0, 4).Draw(rt, "gv")]
	}
	return o
}

func drawOpGeneral(rt *rapid.T, p2psig bool) Op {
	o := Op{}
	// weights: storage-heavy and governance ops are the interesting ones
	w := rapid.IntRange(0, 48).Draw(rt, "opk")
	switch {
	case w < 4:
		o.Kind = OpTransferGAS
	case w < 8:
		o.Kind = OpTransferNEO
	case w < 13:
		o.Kind = OpVote
	case w < 15:
		o.Kind = OpRegister
	case w < 16:
		o.Kind = OpUnregister
	case w < 19:
		o.Kind = OpPolicy
	case w < 20:
		o.Kind = OpDesignate
	case w < 23:
		o.Kind = OpDeploy
	case w < 31:
		o.Kind = OpInvoke
	case w < 32:
		o.Kind = OpUpdate
	case w < 33:
		o.Kind = OpDestroy
	case w < 35:
		o.Kind = OpPayContract
	case w < 37:
		o.Kind = OpNotary
	case w < 38:
		o.Kind = OpClaim
	case w < 39:
		o.Kind = OpFromValidator
	case w < 40:
		o.Kind = OpAttrTx
	case w < 41:
		o.Kind = OpOracleRequest
	case w >= 45:
		o.Kind = OpCrypto
	case w >= 43:
		o.Kind = OpLedgerRead
	default:
		// (a response needs a pending request and designated nodes: drawn more often than requests, most are not applicable)
		o.Kind = OpOracleResponse
	}
	o.A = rapid.IntRange(0, numAccounts-1).Draw(rt, "a")
	o.B = rapid.IntRange(0, numAccounts-1).Draw(rt, "b")
	o.N = int64(rapid.IntRange(0, 2000).Draw(rt, "n"))
	o.X = rapid.IntRange(0, 15).Draw(rt, "x")
	o.Y = rapid.IntRange(0, 15).Draw(rt, "y")
	if o.Kind == OpNotary && !p2psig {
		o.Kind = OpInvoke
	}
	return o
}

func drawBlocks(rt *rapid.T, minB, maxB int, p2psig bool) []BlockPlan {
	nb := rapid.IntRange(minB, maxB).Draw(rt, "nblocks")
	mix := max(0, rapid.IntRange(0, 6).Draw(rt, "mix")-3)
	bl := make([]BlockPlan, 0, nb)
	for i := 0; i < nb; i++ {
		b := BlockPlan{}
		nops := rapid.IntRange(0, 5).Draw(rt, "nops")
		for j := 0; j < nops; j++ {
			b.Ops = append(b.Ops, drawOpMix(rt, p2psig, mix))
		}
		b.Primary = rapid.IntRange(0, 3).Draw(rt, "primary")
		b.DT = rapid.IntRange(0, 3).Draw(rt, "dt") * 500
		b.Reverse = rapid.IntRange(0, 4).Draw(rt, "rev") == 4
		bl = append(bl, b)
	}
	if nb >= 4 && rapid.IntRange(0, 3).Draw(rt, "cryptoseq") == 0 {
		// the two-curve key bytes used on one curve in one block and on the other curve a block or two later (the
		// 1-of-2 account gets its funds in the first of the three)
		i := rapid.IntRange(0, nb-3).Draw(rt, "cryptoat")
		first := rapid.IntRange(0, 1).Draw(rt, "cryptofirst")
		bl[i].Ops = append(bl[i].Ops, Op{Kind: OpCrypto, X: 2})
		bl[i+1].Ops = append(bl[i+1].Ops, Op{Kind: OpCrypto, X: first, A: 1})
		j := i + 2
		if rapid.Bool().Draw(rt, "cryptosameblock") {
			j = i + 1
		}
		bl[j].Ops = append(bl[j].Ops, Op{Kind: OpCrypto, X: 1 - first, A: 2})
	}
	return bl
}

// keyring holds every private key of the simulated world.
type keyring struct {
	byPub map[string]*keys.PrivateKey
	accts []*keys.PrivateKey // the generator's accounts
}

func newKeyring(validator, committee neotest.Signer) *keyring {
	kr := &keyring{byPub: map[string]*keys.PrivateKey{}}
	add := func(s neotest.Signer) {
		ms := s.(neotest.MultiSigner)
		for i := 0; ; i++ {
			var ss neotest.SingleSigner
			ok := func() (ok bool) {
				defer func() {
					if recover() != nil {
						ok = false
					}
				}()
				ss = ms.Single(i)
				return true
			}()
			if !ok {
				break
			}
			pk := ss.Account().PrivateKey()
			kr.byPub[pk.PublicKey().StringCompressed()] = pk
		}
	}
	add(validator)
	add(committee)
	for _, pk := range extraValidatorKeys() {
		kr.byPub[pk.PublicKey().StringCompressed()] = pk
	}
	for i := 0; i < numAccounts; i++ {
		h := sha256.Sum256([]byte(fmt.Sprintf("verif-ledger-account-%d", i)))
		pk, err := keys.NewPrivateKeyFromBytes(h[:])
		if err != nil {
			panic(err)
		}
		kr.accts = append(kr.accts, pk)
		kr.byPub[pk.PublicKey().StringCompressed()] = pk
	}
	return kr
}

func (kr *keyring) acct(i int) neotest.SingleSigner {
	return neotest.NewSingleSigner(wallet.NewAccountFromPrivateKey(kr.accts[i%numAccounts]))
}

func (kr *keyring) acctHash(i int) util.Uint160 { return kr.accts[i%numAccounts].GetScriptHash() }

// multiSigner builds an m-of-n signer for the given public keys from the keyring.
func (kr *keyring) multiSigner(pubs keys.PublicKeys, m int) (neotest.Signer, error) {
	pubs = pubs.Copy()
	sort.Sort(pubs)
	var accs []*wallet.Account
	for _, p := range pubs {
		pk, ok := kr.byPub[p.StringCompressed()]
		if !ok {
			return nil, fmt.Errorf("no private key for %s", p.StringCompressed())
		}
		a := wallet.NewAccountFromPrivateKey(pk)
		if err := a.ConvertMultisig(m, pubs); err != nil {
			return nil, err
		}
		accs = append(accs, a)
	}
	return neotest.NewMultiSigner(accs...), nil
}

// producer turns operations into signed transactions and blocks on node P.
type producer struct {
	dk *dualKey
	// vmStateReads: (height of the block the script was built for, index of the block whose transaction it asks about)
	vmStateReads [][2]uint32
	// txFromBlockReads: the same for Ledger.getTransactionFromBlock
	txFromBlockReads [][2]uint32
	n                *Node
	kr               *keyring
	nonce            uint32
	ks               [numContracts]*kContract // current code of each helper contract slot
	kver             [numContracts]byte
	khash            [numContracts]util.Uint160
	kowner           [numContracts]int
	kalive           [numContracts]bool
	// allowMTBChange: OpPolicy may call Policy.setMaxTraceableBlocks (state synchronisation runs)
	allowMTBChange bool
	everK          map[util.Uint160]bool
	txLog          []util.Uint256 // every transaction hash put on chain
	dropped        map[string]int
	vcache         map[[2]byte]*kContract
	ora            oraState       // pending oracle requests (oracle.go)
	probes         map[string]int // the run's probe counters (may be nil)
}

func newProducer(n *Node) *producer {
	p := &producer{n: n, kr: newKeyring(n.Exec.Validator, n.Exec.Committee), everK: map[util.Uint160]bool{}, dropped: map[string]int{}}
	for i := range p.ks {
		p.ks[i] = buildK(fmt.Sprintf("K%d", i), 0)
	}
	return p
}

func (p *producer) committeeSigner() neotest.Signer {
	pubs, err := p.n.BC.GetCommittee()
	if err != nil {
		panic(err)
	}
	s, err := p.kr.multiSigner(pubs, smartcontract.GetMajorityHonestNodeCount(len(pubs)))
	if err != nil {
		panic(err)
	}
	return s
}

func (p *producer) validatorSigner() neotest.Signer {
	pubs, err := p.n.BC.GetNextBlockValidators()
	if err != nil {
		panic(err)
	}
	s, err := p.kr.multiSigner(pubs, smartcontract.GetDefaultHonestNodeCount(len(pubs)))
	if err != nil {
		panic(err)
	}
	return s
}

func callScript(h util.Uint160, method string, args ...any) []byte {
	w := nio.NewBufBinWriter()
	emit.AppCall(w.BinWriter, h, method, callflag.All, args...)
	if w.Err != nil {
		panic(w.Err)
	}
	return w.Bytes()
}

// (selectors are taken modulo the length from 0..15: the first six keys have double weight - a stored key with deeper
// siblings below it, some smaller and some larger than its own last byte)
var kKeys = [][]byte{{0x01, 0x02}, {0x01, 0x02, 0x01}, {0x01, 0x02, 0x00, 0xff}, {0x01, 0x02, 0x03}, {0x01}, {0x02}, {0xff}, {0xff, 0xff}, {0x00}, {}, longKey}

// longKey has the maximum storage key length (64 bytes).
var longKey = append(bytes.Repeat([]byte{0x01, 0x02}, 31), 0x7f, 0x80)
var kVals = [][]byte{{0xaa}, {0xaa}, {0xbb, 0xbb}, {}, {0x01, 0x02, 0x03, 0x04, 0x05, 0x06, 0x07, 0x08}, {0xaa}}

// buildTx materialises one op. It returns nil when the op cannot be expressed in the current state.
func (p *producer) buildTx(o Op, extraAttrs []transaction.Attribute) (tx *transaction.Transaction, desc string) {
	bc := p.n.BC
	a := p.kr.acct(o.A)
	signers := []neotest.Signer{a}
	var script []byte
	ki := o.B % numContracts
	if (o.Kind == OpInvoke || o.Kind == OpUpdate || o.Kind == OpDestroy || o.Kind == OpPayContract) && !p.kalive[ki] {
		o.Kind = OpDeploy
	}
	if o.Kind == OpNotary && bc.GetContractState(nativehashes.Notary) == nil {
		// Before its activation hard fork the Notary hash is a plain address: GAS sent there is
		// not a deposit (no contract exists to record it), so the generator does not do that.
		o.Kind = OpTransferGAS
	}
	switch o.Kind {
	case OpTransferGAS, OpTransferNEO:
		tok := nativehashes.GasToken
		amount := o.N * 1000000
		if o.Kind == OpTransferNEO {
			tok = nativehashes.NeoToken
			amount = o.N * 1000
		}
		if o.X == 0 {
			amount = 0
		}
		if o.Y%8 == 6 && o.Kind == OpTransferNEO {
			// the whole balance: the account's record (and with it its vote) disappears
			if bal, _ := bc.GetGoverningTokenBalance(a.ScriptHash()); bal != nil && bal.Sign() > 0 && bal.IsInt64() {
				amount = bal.Int64()
			}
		}
		script = callScript(tok, "transfer", a.ScriptHash(), p.kr.acctHash(o.B), amount, nil)
		desc = fmt.Sprintf("%s a%d->a%d %d", opNames[o.Kind], o.A, o.B%numAccounts, amount)
		if o.Y%8 == 7 {
			// the `data` argument is a Pointer: the callee ignores it, but it cannot be serialised (nodes that record
			// invocations have to cope with that without changing the outcome)
			w := nio.NewBufBinWriter()
			emit.Instruction(w.BinWriter, opcode.PUSHA, []byte{0, 0, 0, 0})
			emit.Int(w.BinWriter, amount)
			emit.Bytes(w.BinWriter, p.kr.acctHash(o.B).BytesBE())
			emit.Bytes(w.BinWriter, a.ScriptHash().BytesBE())
			emit.Int(w.BinWriter, 4)
			emit.Opcodes(w.BinWriter, opcode.PACK)
			emit.AppCallNoArgs(w.BinWriter, tok, "transfer", callflag.All)
			if o.N%2 == 1 {
				// (one more call after the one whose arguments cannot be recorded)
				emit.Opcodes(w.BinWriter, opcode.DROP)
				emit.AppCall(w.BinWriter, tok, "balanceOf", callflag.ReadStates, a.ScriptHash())
			}
			script = w.Bytes()
			desc += " data=pointer"
		}
		if o.Y%8 == 5 && o.X != 0 {
			// after the transfer the script asks for the notifications of the execution so far and tries to overwrite the
			// amount in the token contract's Transfer event: the execution log must keep saying what happened (whether the
			// attempt faults the transaction or is ignored)
			w := nio.NewBufBinWriter()
			w.WriteBytes(script)
			emit.Opcodes(w.BinWriter, opcode.DROP)
			if o.N%2 == 0 {
				emit.Opcodes(w.BinWriter, opcode.PUSHNULL)
			} else {
				emit.Bytes(w.BinWriter, tok.BytesBE())
			}
			emit.Syscall(w.BinWriter, interopnames.SystemRuntimeGetNotifications)
			emit.Opcodes(w.BinWriter, opcode.PUSH0, opcode.PICKITEM, opcode.PUSH2, opcode.PICKITEM, opcode.PUSH2)
			emit.Int(w.BinWriter, 777)
			emit.Opcodes(w.BinWriter, opcode.SETITEM)
			script = w.Bytes()
			desc += " then overwrite the event's amount"
		}
	case OpVote:
		var to any
		switch {
		case o.X%4 == 3:
			to = nil
		case o.X%2 == 0:
			to = p.kr.accts[o.B%numAccounts].PublicKey().Bytes()
		default:
			cm, _ := bc.GetCommittee()
			sort.Sort(cm)
			to = cm[o.Y%len(cm)].Bytes()
		}
		script = callScript(nativehashes.NeoToken, "vote", a.ScriptHash(), to)
		desc = fmt.Sprintf("vote a%d x%d b%d", o.A, o.X, o.B%numAccounts)
	case OpRegister:
		script = callScript(nativehashes.NeoToken, "registerCandidate", p.kr.accts[o.A%numAccounts].PublicKey().Bytes())
		desc = fmt.Sprintf("register a%d", o.A)
		if o.Y%3 == 2 {
			// the NEP-27 route: the registration price is paid to the NEO contract with the public key as data
			script = callScript(nativehashes.GasToken, "transfer", a.ScriptHash(), nativehashes.NeoToken, int64(1000_00000000), p.kr.accts[o.A%numAccounts].PublicKey().Bytes())
			desc += " (by payment)"
		}
	case OpUnregister:
		script = callScript(nativehashes.NeoToken, "unregisterCandidate", p.kr.accts[o.A%numAccounts].PublicKey().Bytes())
		desc = fmt.Sprintf("unregister a%d", o.A)
	case OpPolicy:
		signers = append(signers, p.committeeSigner())
		switch o.X % 8 {
		case 6:
			// few distinct (contract, method) pairs, so that a pair is set again with another fee and removed
			kh := p.khash[o.B%2]
			m, argc := "put", 2
			if o.N%2 == 1 {
				m, argc = "get", 1
			}
			if o.Y%4 != 3 {
				fee := int64(o.Y%4) * 30000
				script = callScript(nativehashes.PolicyContract, "setWhitelistFeeContract", kh, m, argc, fee)
				desc = fmt.Sprintf("setWhitelistFeeContract K%d.%s %d", o.B%2, m, fee)
			} else {
				script = callScript(nativehashes.PolicyContract, "removeWhitelistFeeContract", kh, m, argc)
				desc = fmt.Sprintf("removeWhitelistFeeContract K%d.%s", o.B%2, m)
			}
		case 7:
			if o.Y%4 == 2 && p.allowMTBChange {
				// (state synchronisation runs only) the committee lowers MaxTraceableBlocks: a synchronising node has to take the
				// value from the state it synchronises to, not from its own genesis state
				cur, inc := int64(bc.GetMaxTraceableBlocks()), int64(bc.GetMaxValidUntilBlockIncrement())
				v := max(inc+1, min(cur-1, 3+o.N%6))
				script = callScript(nativehashes.PolicyContract, "setMaxTraceableBlocks", v)
				desc = fmt.Sprintf("setMaxTraceableBlocks %d (was %d)", v, cur)
			} else if o.Y%4 == 3 {
				script = callScript(nativehashes.PolicyContract, "setMillisecondsPerBlock", 1000+o.N)
				desc = fmt.Sprintf("setMillisecondsPerBlock %d", 1000+o.N)
			} else {
				at := []transaction.AttrType{transaction.HighPriority, transaction.OracleResponseT, transaction.NotValidBeforeT, transaction.ConflictsT, transaction.NotaryAssistedT}[o.N%5]
				script = callScript(nativehashes.PolicyContract, "setAttributeFee", int64(at), int64(o.Y)*100000)
				desc = fmt.Sprintf("setAttributeFee %d %d", at, int64(o.Y)*100000)
			}
		case 0:
			script = callScript(nativehashes.PolicyContract, "setFeePerByte", 500+o.N)
			desc = fmt.Sprintf("setFeePerByte %d", 500+o.N)
		case 1:
			script = callScript(nativehashes.PolicyContract, "setExecFeeFactor", 1+o.N%60)
			desc = fmt.Sprintf("setExecFeeFactor %d", 1+o.N%60)
		case 2:
			script = callScript(nativehashes.PolicyContract, "setStoragePrice", 1000+o.N*100)
			desc = fmt.Sprintf("setStoragePrice %d", 1000+o.N*100)
		case 3:
			script = callScript(nativehashes.PolicyContract, "blockAccount", p.kr.acctHash(o.B))
			desc = fmt.Sprintf("blockAccount a%d", o.B%numAccounts)
		case 4:
			script = callScript(nativehashes.PolicyContract, "unblockAccount", p.kr.acctHash(o.B))
			desc = fmt.Sprintf("unblockAccount a%d", o.B%numAccounts)
		case 5:
			if o.Y%4 == 3 {
				price := []int64{1000_0000, 7000_0000, native.DefaultOracleRequestPrice, 1}[o.N%4]
				script = callScript(nativehashes.OracleContract, "setPrice", price)
				desc = fmt.Sprintf("Oracle.setPrice %d", price)
				break
			}
			if o.Y%4 == 2 {
				if o.N%2 == 0 {
					script = callScript(nativehashes.NeoToken, "setGasPerBlock", (o.N%11)*1_0000_0000)
					desc = fmt.Sprintf("NEO.setGasPerBlock %d", o.N%11)
				} else {
					script = callScript(nativehashes.NeoToken, "setRegisterPrice", (1+o.N%1500)*1_0000_0000)
					desc = fmt.Sprintf("NEO.setRegisterPrice %d", 1+o.N%1500)
				}
				break
			}
			script = callScript(nativehashes.ContractManagement, "setMinimumDeploymentFee", (5+o.N%10)*100000000)
			desc = fmt.Sprintf("setMinimumDeploymentFee %d", 5+o.N%10)
		}
	case OpDesignate:
		signers = append(signers, p.committeeSigner())
		roles := []noderoles.Role{noderoles.StateValidator, noderoles.Oracle, noderoles.NeoFSAlphabet, noderoles.P2PNotary}
		r := roles[o.X%len(roles)]
		var pubs []any
		for i := 0; i <= o.Y%3; i++ {
			pubs = append(pubs, p.kr.accts[(o.B+i)%numAccounts].PublicKey().Bytes())
		}
		script = callScript(nativehashes.RoleManagement, "designateAsRole", int64(r), pubs)
		desc = fmt.Sprintf("designate role %d n=%d", r, len(pubs))
	case OpDeploy:
		k := p.ks[ki]
		script = callScript(nativehashes.ContractManagement, "deploy", k.NEFBytes, k.ManBytes, []byte{byte(o.X)})
		desc = fmt.Sprintf("deploy K%d by a%d", ki, o.A)
	case OpUpdate:
		nk := buildK(fmt.Sprintf("K%d", ki), p.kver[ki]+1)
		script = callScript(p.khash[ki], "update", nk.NEFBytes, nk.ManBytes)
		desc = fmt.Sprintf("update K%d", ki)
	case OpDestroy:
		script = callScript(p.khash[ki], "destroy")
		desc = fmt.Sprintf("destroy K%d", ki)
	case OpInvoke:
		h := p.khash[ki]
		h2 := p.khash[(ki+1)%numContracts]
		key := kKeys[o.X%len(kKeys)]
		val := kVals[o.Y%len(kVals)]
		key2 := kKeys[(o.X+3)%len(kKeys)]
		switch o.N % 12 {
		case 0, 1:
			script = callScript(h, "put", key, val)
			desc = fmt.Sprintf("K%d.put %x=%x", ki, key, val)
		case 2:
			script = callScript(h, "del", key)
			desc = fmt.Sprintf("K%d.del %x", ki, key)
		case 3:
			script = callScript(h, "ev", val)
			desc = fmt.Sprintf("K%d.ev", ki)
		case 4:
			script = callScript(h, "seq", []any{[]any{"put", []any{key, val}}, []any{"ev", []any{key}}, []any{"del", []any{key2}}})
			desc = fmt.Sprintf("K%d.seq put,ev,del", ki)
		case 5:
			// effects before / inside failed callee / after
			script = callScript(h, "seq", []any{
				[]any{"put", []any{key, val}},
				[]any{"tryCall", []any{h2, "putFail", []any{key2, val}}},
				[]any{"ev", []any{[]byte("after")}},
				[]any{"put", []any{key2, []byte{0x77}}}})
			desc = fmt.Sprintf("K%d.seq put,try(K.putFail),ev,put", ki)
		case 6:
			script = callScript(h, "putFail", key, val)
			desc = fmt.Sprintf("K%d.putFail (FAULT)", ki)
		case 7:
			script = callScript(h, "seq", []any{[]any{"put", []any{key, val}}, []any{"ev", []any{val}}, []any{"abort", []any{}}})
			desc = fmt.Sprintf("K%d.seq put,ev,abort (FAULT)", ki)
		case 8:
			// nested: K -> tryCall K2.seq[put, call K.evFail] : inner failure two levels down
			script = callScript(h, "tryCall", h2, "seq", []any{[]any{[]any{"put", []any{key, val}}, []any{"call", []any{h, "evFail", []any{val}}}}})
			desc = fmt.Sprintf("K%d.tryCall K.seq[put, call K.evFail]", ki)
		case 9:
			// contract moves its own GAS inside a caught failing call chain
			script = callScript(h, "seq", []any{
				[]any{"tryCall", []any{h, "seq", []any{[]any{
					[]any{"call", []any{nativehashes.GasToken, "transfer", []any{h, p.kr.acctHash(o.A), int64(1000), nil}}},
					[]any{"fail", []any{}}}}}},
				[]any{"call", []any{nativehashes.GasToken, "transfer", []any{h, p.kr.acctHash(o.B), int64(500), nil}}}})
			desc = fmt.Sprintf("K%d.seq try[gas transfer, fail], gas transfer", ki)
		case 10:
			script = callScript(h, "find", []byte{0x01})
			desc = fmt.Sprintf("K%d.find", ki)
		case 11:
			script = callScript(h, "call", nativehashes.NeoToken, "balanceOf", []any{p.kr.acctHash(o.A)})
			desc = fmt.Sprintf("K%d.call NEO.balanceOf", ki)
		}
	case OpPayContract:
		tok := nativehashes.GasToken
		amount := o.N * 10000
		if o.X%2 == 1 {
			tok = nativehashes.NeoToken
			amount = o.N % 50
		}
		var data any
		if o.Y%4 == 0 {
			data = []byte("reject")
		}
		script = callScript(tok, "transfer", a.ScriptHash(), p.khash[ki], amount, data)
		desc = fmt.Sprintf("pay K%d %d data=%v", ki, amount, data != nil)
	case OpNotary:
		if o.X%2 == 1 {
			if ntx, nd := p.notaryAssistedTx(o); ntx != nil {
				return ntx, nd
			}
			o.X = 0 // not possible yet (no notary node designated / no deposit): make a deposit instead
		}
		switch o.X % 3 {
		case 0:
			till := int64(bc.BlockHeight()) + 3 + int64(o.Y)
			amount := (20 + o.N) * 1000000
			if o.Y%4 == 3 {
				amount *= 4 // (enough for the attribute fee of a 255-key request)
			}
			script = callScript(nativehashes.GasToken, "transfer", a.ScriptHash(), nativehashes.Notary, amount, []any{nil, till})
			desc = fmt.Sprintf("notary deposit a%d till %d", o.A, till)
		case 1:
			till := int64(bc.BlockHeight()) + 2 + int64(o.Y)
			script = callScript(nativehashes.Notary, "lockDepositUntil", a.ScriptHash(), till)
			desc = fmt.Sprintf("notary lock a%d till %d", o.A, till)
		case 2:
			script = callScript(nativehashes.Notary, "withdraw", a.ScriptHash(), p.kr.acctHash(o.B))
			desc = fmt.Sprintf("notary withdraw a%d->a%d", o.A, o.B%numAccounts)
		}
	case OpClaim:
		script = callScript(nativehashes.NeoToken, "transfer", a.ScriptHash(), a.ScriptHash(), int64(0), nil)
		desc = fmt.Sprintf("claim a%d", o.A)
	case OpFromValidator:
		v := p.validatorSigner()
		signers = []neotest.Signer{v}
		script = callScript(nativehashes.GasToken, "transfer", v.ScriptHash(), p.kr.acctHash(o.B), o.N*1000000, nil)
		desc = fmt.Sprintf("validators->a%d %d GAS", o.B%numAccounts, o.N)
	case OpCrypto:
		return p.cryptoTx(o)
	case OpLedgerRead:
		script, desc = p.ledgerReadScript(o)
	case OpOracleRequest:
		script, desc = p.oracleRequestScript(o)
	case OpOracleResponse:
		return p.oracleResponseTx(o)
	case OpAttrTx:
		script = callScript(nativehashes.GasToken, "transfer", a.ScriptHash(), p.kr.acctHash(o.B), o.N, nil)
		switch o.X % 3 {
		case 0:
			if len(p.txLog) > 0 {
				extraAttrs = append(extraAttrs, transaction.Attribute{Type: transaction.ConflictsT,
					Value: &transaction.Conflicts{Hash: util.Uint256{byte(o.Y), 0xcc}}})
			}
			desc = "tx with Conflicts(not on chain)"
		case 1:
			signers = append(signers, p.committeeSigner())
			extraAttrs = append(extraAttrs, transaction.Attribute{Type: transaction.HighPriority})
			desc = "HighPriority tx"
		case 2:
			extraAttrs = append(extraAttrs, transaction.Attribute{Type: transaction.NotValidBeforeT,
				Value: &transaction.NotValidBefore{Height: bc.BlockHeight() + 1}})
			desc = "NotValidBefore tx"
		}
	}
	if script == nil {
		return nil, desc
	}
	tx = transaction.New(script, 0)
	p.nonce++
	tx.Nonce = p.nonce
	tx.ValidUntilBlock = bc.BlockHeight() + 1 + uint32(o.Y%3)
	tx.Attributes = append(tx.Attributes, extraAttrs...)
	p.finishTx(tx, signers)
	return tx, desc
}

// finishTx adds signers, fees (network fee as neotest computes it, system fee
// from a test invocation plus a margin) and witnesses.
func (p *producer) finishTx(tx *transaction.Transaction, signers []neotest.Signer) {
	bc := p.n.BC
	for _, s := range signers {
		tx.Signers = append(tx.Signers, transaction.Signer{Account: s.ScriptHash(), Scopes: transaction.Global})
	}
	neotest.AddNetworkFee(p.n.tb, bc, tx, signers...)
	v, _ := p.n.Exec.TestInvoke(tx)
	tx.SystemFee = v.GasConsumed() + v.GasConsumed()/4 + 1000000
	for _, s := range signers {
		if err := s.SignTx(bc.GetConfig().Magic, tx); err != nil {
			panic(err)
		}
	}
}

// extraValidatorKeys are the 7 deterministic keys used as standby committee / validators of 7-validator network runs.
func extraValidatorKeys() []*keys.PrivateKey {
	var r []*keys.PrivateKey
	for i := 0; i < 7; i++ {
		h := sha256.Sum256([]byte(fmt.Sprintf("verif-netsim-validator-%d", i)))
		pk, err := keys.NewPrivateKeyFromBytes(h[:])
		if err != nil {
			panic(err)
		}
		r = append(r, pk)
	}
	return r
}

// notaryAssistedTx builds a transaction sponsored by account A's notary deposit: sender = Notary contract
// (scope None, witness = signature of a designated P2PNotary node), second signer = the depositor.
func (p *producer) notaryAssistedTx(o Op) (*transaction.Transaction, string) {
	bc := p.n.BC
	if bc.GetContractState(nativehashes.Notary) == nil {
		return nil, ""
	}
	nodes, _, err := bc.GetDesignatedByRole(noderoles.P2PNotary)
	if err != nil || len(nodes) == 0 {
		return nil, ""
	}
	var nodeKey *keys.PrivateKey
	for _, nk := range nodes {
		if pk, ok := p.kr.byPub[nk.StringCompressed()]; ok {
			nodeKey = pk
			break
		}
	}
	if nodeKey == nil {
		return nil, ""
	}
	a := p.kr.acct(o.A)
	dep := bc.GetUtilityTokenBalance(nativehashes.Notary, a.ScriptHash())
	if dep.Sign() <= 0 || bc.GetNotaryDepositExpiration(a.ScriptHash()) <= bc.BlockHeight()+1 {
		return nil, ""
	}
	tx := transaction.New(callScript(nativehashes.GasToken, "transfer", a.ScriptHash(), p.kr.acctHash(o.B), int64(1+o.N), nil), 0)
	p.nonce++
	tx.Nonce = p.nonce
	tx.ValidUntilBlock = bc.BlockHeight() + 1 + uint32(o.Y%3)
	tx.Signers = []transaction.Signer{{Account: nativehashes.Notary, Scopes: transaction.None}, {Account: a.ScriptHash(), Scopes: transaction.Global}}
	// the number of keys the notary service is paid for: usually one; sometimes none, a few, or the top of the range (the
	// fee for it is (NKeys+1) times the per-key price and needs a large deposit)
	nkeys := []uint8{1, 1, 0, 3, 255, 254}[(o.Y/3)%6]
	if nkeys >= 254 && dep.Int64() < 27_00000000 {
		nkeys = 1
	}
	tx.Attributes = []transaction.Attribute{{Type: transaction.NotaryAssistedT, Value: &transaction.NotaryAssisted{NKeys: nkeys}}}
	tx.SystemFee = 3_000_000
	tx.Scripts = []transaction.Witness{{InvocationScript: make([]byte, 66), VerificationScript: []byte{}}, {InvocationScript: make([]byte, 66), VerificationScript: a.Script()}}
	tx.NetworkFee = int64(nio.GetVarSize(tx))*bc.FeePerByte() + bc.CalculateAttributesFee(tx) + 8_000_000
	if dep.Int64() < tx.SystemFee+tx.NetworkFee {
		return nil, ""
	}
	tx.Scripts = nil
	sig := nodeKey.SignHashable(uint32(bc.GetConfig().Magic), tx)
	w0 := transaction.Witness{InvocationScript: append([]byte{byte(opcode.PUSHDATA1), keys.SignatureLen}, sig...), VerificationScript: []byte{}}
	w1 := transaction.Witness{InvocationScript: a.SignHashable(uint32(bc.GetConfig().Magic), tx), VerificationScript: a.Script()}
	tx.Scripts = []transaction.Witness{w0, w1}
	return tx, fmt.Sprintf("notary-assisted tx sponsored by a%d (deposit %s, %d keys)", o.A, dep, nkeys)
}

// drawElection: number of accounts that register as candidates (and get votes) in the election blocks. A committee is
// elected only when at least as many candidates as committee seats (6) exist, so 6 is given weight: those runs hand
// the chain over to other validators at the first epoch boundary.
func drawElection(rt *rapid.T) int {
	return []int{0, 0, 0, 1, 2, 3, 6, 6, 6, 6}[rapid.IntRange(0, 9).Draw(rt, "election")]
}
