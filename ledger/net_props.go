package ledger

import (
	"bytes"
	"fmt"
	"github.com/nspcc-dev/dbft"
	"github.com/nspcc-dev/neo-go/pkg/core/interop/interopnames"
	"github.com/nspcc-dev/neo-go/pkg/crypto/keys"
	"github.com/nspcc-dev/neo-go/pkg/smartcontract/callflag"
	"github.com/nspcc-dev/neo-go/pkg/vm/emit"
	"github.com/nspcc-dev/neo-go/pkg/vm/opcode"
	"math/big"
	"sort"
	"strings"
	"time"

	"github.com/nspcc-dev/neo-go/pkg/consensus"
	"github.com/nspcc-dev/neo-go/pkg/core/block"
	"github.com/nspcc-dev/neo-go/pkg/core/mempool"
	"github.com/nspcc-dev/neo-go/pkg/core/native/nativehashes"
	"github.com/nspcc-dev/neo-go/pkg/core/native/nativeids"
	"github.com/nspcc-dev/neo-go/pkg/core/transaction"
	"github.com/nspcc-dev/neo-go/pkg/crypto/hash"
	nio "github.com/nspcc-dev/neo-go/pkg/io"
	"github.com/nspcc-dev/neo-go/pkg/neotest"
	"github.com/nspcc-dev/neo-go/pkg/network"
	"github.com/nspcc-dev/neo-go/pkg/network/payload"
	"github.com/nspcc-dev/neo-go/pkg/smartcontract"
	"github.com/nspcc-dev/neo-go/pkg/util"

	"verif/sim"
)

// Defects: a transaction invalid in exactly one respect.
const (
	defNone = iota
	defExpired
	defTooFarAhead
	defOnChain
	defBadWitness
	defFeeShort
	defHighPriorityNoCommittee
	defNotValidBeforeFuture
	defNoFunds
	defNamedByOnChainConflicts
	defBlockedCosigner
	defRepeatedConflicts
	numDefects
)

var defectNames = [...]string{"valid", "expired", "valid-until-too-far", "already-on-chain", "bad-witness", "fee-one-short",
	"highpriority-without-committee", "notvalidbefore-in-future", "sender-cannot-pay", "named-by-on-chain-conflicts", "cosigned-by-blocked-account", "conflicts-hash-named-twice"}

// simpleTransfer builds an unsigned GAS transfer from account a.
func (s *netSim) simpleTransfer(a neotest.SingleSigner, to util.Uint160, amount int64) *transaction.Transaction {
	p := s.r.prod
	bc := s.r.P.BC
	tx := transaction.New(callScript(nativehashes.GasToken, "transfer", a.ScriptHash(), to, amount, nil), 0)
	p.nonce++
	tx.Nonce = p.nonce
	tx.ValidUntilBlock = bc.BlockHeight() + 5
	tx.Signers = []transaction.Signer{{Account: a.ScriptHash(), Scopes: transaction.Global}}
	tx.SystemFee = 20_000_000
	return tx
}

func (s *netSim) sendToTargets(tx *transaction.Transaction, targets uint8) {
	raw := msgBytes(network.CMDTX, tx)
	for i := range s.nodes {
		if targets&(1<<uint(i)) != 0 {
			s.clientSend(i, raw)
		}
	}
}

// clientSend enqueues a message from the (virtual) client to node `to`.
func (s *netSim) clientSend(to int, raw []byte) {
	s.mu.Lock()
	s.clientSeq++
	s.outbox = append(s.outbox, outMsg{from: -1, seq: s.clientSeq, sentAt: s.now(), to: to, kind: "tx", raw: raw})
	s.mu.Unlock()
}

func (s *netSim) clientTx(t NetTx) {
	r := s.r
	bc := r.P.BC
	if t.Stateful {
		s.statefulWitnessTx(t)
		return
	}
	if t.Defect == defNone {
		var tx *transaction.Transaction
		var desc string
		if v := sim.Recover(func() { tx, desc = r.prod.buildTx(t.Op, nil) }); v != nil {
			if v.Class == "harness" || v.Class == "harness-panic" {
				r.log.Addf("client op not buildable: %s", opNames[t.Op.Kind])
				return
			}
			r.violate(v)
			return
		}
		if tx == nil {
			return
		}
		if r.prop == "C07" {
			s.feeThreshold(t.Op)
		}
		r.out.Probes["client_tx"]++
		r.log.Addf("t=%dms client tx %s -> targets %05b", s.now()/time.Millisecond, desc, t.Targets)
		s.sendToTargets(tx, t.Targets)
		h := tx.Hash()
		s.at(s.now()+time.Duration(s.np.MaxDelayMS+60)*time.Millisecond, func() {
			c := 0
			for i := 0; i < s.np.Validators; i++ {
				if s.nodes[i].n.BC.GetMemPool().ContainsKey(h) {
					c++
				}
			}
			if c > s.np.Validators/2 {
				if _, ok := s.goodAt[h]; !ok {
					s.goodAt[h] = s.now()
					r.out.Probes["tx_pooled_at_majority"]++
				}
			}
		})
		return
	}
	if t.Defect%numDefects == defNamedByOnChainConflicts {
		s.conflictScenario(t)
		return
	}
	if t.Defect%numDefects == defBlockedCosigner {
		s.blockedCosigner(t)
		return
	}
	// ---- a transaction invalid in exactly one respect
	a := r.prod.kr.acct(t.Op.A)
	tx := s.simpleTransfer(a, r.prod.kr.acctHash(t.Op.B), 1+t.Op.N)
	sign := func() {
		tx.Scripts = nil
		if err := a.SignTx(bc.GetConfig().Magic, tx); err != nil {
			sim.Harnessf("sign: %v", err)
		}
	}
	neotest.AddNetworkFee(r.P.tb, bc, tx, a)
	d := t.Defect % numDefects
	switch d {
	case defExpired:
		tx.ValidUntilBlock = bc.BlockHeight()
		if tx.ValidUntilBlock == 0 {
			return
		}
		sign()
	case defTooFarAhead:
		tx.ValidUntilBlock = bc.BlockHeight() + bc.GetMaxValidUntilBlockIncrement() + 20
		sign()
	case defOnChain:
		h := bc.BlockHeight()
		if h == 0 {
			return
		}
		b, err := bc.GetBlock(bc.GetHeaderHash(1 + uint32(t.Op.X)%h))
		if err != nil || len(b.Transactions) == 0 {
			return
		}
		old := b.Transactions[t.Op.Y%len(b.Transactions)]
		raw := msgBytes(network.CMDTX, old)
		// it is on chain legitimately; it must simply never be pooled again
		s.onChainResubmitted[old.Hash()] = true
		for i := range s.nodes {
			if t.Targets&(1<<uint(i)) != 0 {
				s.clientSend(i, raw)
			}
		}
		r.out.Faults["defective_tx/"+defectNames[d]]++
		return
	case defBadWitness:
		sign()
		inv := tx.Scripts[0].InvocationScript
		inv[2+t.Op.X%60] ^= 0x04
	case defFeeShort:
		tx.NetworkFee--
		sign()
		s.defectFees[tx.Hash()] = [2]int64{bc.FeePerByte(), bc.GetBaseExecFee()}
	case defHighPriorityNoCommittee:
		tx.Attributes = append(tx.Attributes, transaction.Attribute{Type: transaction.HighPriority})
		tx.NetworkFee = 0
		neotest.AddNetworkFee(r.P.tb, bc, tx, a)
		sign()
	case defNotValidBeforeFuture:
		if !r.plan.Proto.P2PSig {
			return
		}
		tx.Attributes = append(tx.Attributes, transaction.Attribute{Type: transaction.NotValidBeforeT,
			Value: &transaction.NotValidBefore{Height: bc.BlockHeight() + 1000}})
		tx.ValidUntilBlock = bc.BlockHeight() + 3
		tx.NetworkFee = 0
		neotest.AddNetworkFee(r.P.tb, bc, tx, a)
		sign()
	case defNoFunds:
		tx.SystemFee = 900_000_000_00000000
		sign()
	case defRepeatedConflicts:
		// 2-4 Conflicts attributes, one hash named twice (first and second, second and third, first and last ...)
		n := 2 + t.Op.X%3
		i1 := t.Op.Y % n
		i2 := (i1 + 1 + (t.Op.Y/4)%(n-1)) % n
		for i := 0; i < n; i++ {
			h := util.Uint256{0xc0, byte(t.Op.N), byte(i)}
			if i == i2 {
				h = util.Uint256{0xc0, byte(t.Op.N), byte(i1)}
			}
			tx.Attributes = append(tx.Attributes, transaction.Attribute{Type: transaction.ConflictsT, Value: &transaction.Conflicts{Hash: h}})
		}
		tx.NetworkFee = 0
		neotest.AddNetworkFee(r.P.tb, bc, tx, a)
		sign()
	default:
		return
	}
	s.defective[tx.Hash()] = defectNames[d]
	r.out.Faults["defective_tx/"+defectNames[d]]++
	r.log.Addf("t=%dms client sends a transaction with defect %s", s.now()/time.Millisecond, defectNames[d])
	s.sendToTargets(tx, t.Targets)
}

// isBlockedOn tells whether the Policy contract of node n has the account blocked (raw storage: prefix 15 + hash).
func isBlockedOn(n *Node, h util.Uint160) bool {
	return n.BC.GetStorageItem(nativeids.PolicyContract, append([]byte{15}, h.BytesBE()...)) != nil
}

// blockedCosigner: account 5 gets blocked by the committee (first use), later transactions co-signed by it - all
// witnesses valid, the blocked account at a tape-chosen position among 2-3 signers, never the sender - must be refused
// by every node that has the account blocked.
func (s *netSim) blockedCosigner(t NetTx) {
	r := s.r
	bc := r.P.BC
	x := r.prod.kr.acct(5)
	if !isBlockedOn(r.P, x.ScriptHash()) {
		var btx *transaction.Transaction
		payer := -1
		for i := 0; i < 4; i++ {
			if bc.GetUtilityTokenBalance(r.prod.kr.acctHash(i), util.Uint160{}).Cmp(big.NewInt(1_0000_0000)) > 0 {
				payer = i
				break
			}
		}
		retry := func() {
			if t.Op.Y < 400 && s.now()+4*blockTimeMS*time.Millisecond < time.Duration(s.np.DurationMS)*time.Millisecond {
				t2 := t
				t2.Op.Y += 100 // (at most four retries)
				s.at(s.now()+2500*time.Millisecond, func() { s.blockedCosigner(t2) })
			}
		}
		if payer < 0 {
			retry()
			return
		}
		if v := sim.Recover(func() { btx, _ = r.prod.buildTx(Op{Kind: OpPolicy, A: payer, X: 3, B: 5, Y: 2}, nil) }); v != nil || btx == nil {
			return
		}
		r.log.Addf("t=%dms the committee blocks account 5", s.now()/time.Millisecond)
		r.out.Probes["net_block_account_sent"]++
		s.sendToTargets(btx, 0xff)
		// the co-signed transaction follows once the block with it has had time to be produced
		retry()
		return
	}
	a := r.prod.kr.acct(t.Op.A % 4)
	signers := []neotest.SingleSigner{a, x}
	if t.Op.X%2 == 1 {
		signers = []neotest.SingleSigner{a, r.prod.kr.acct((t.Op.A%4 + 1) % 4), x}
		if (t.Op.Y%100)%2 == 1 {
			signers[1], signers[2] = signers[2], signers[1]
		}
	}
	tx := s.simpleTransfer(a, r.prod.kr.acctHash(t.Op.B), 1+t.Op.N)
	tx.Signers = nil
	var sgs []neotest.Signer
	for _, sg := range signers {
		tx.Signers = append(tx.Signers, transaction.Signer{Account: sg.ScriptHash(), Scopes: transaction.CalledByEntry})
		sgs = append(sgs, sg)
	}
	neotest.AddNetworkFee(r.P.tb, bc, tx, sgs...)
	for _, sg := range signers {
		if err := sg.SignTx(bc.GetConfig().Magic, tx); err != nil {
			sim.Harnessf("sign: %v", err)
		}
	}
	d := defectNames[defBlockedCosigner]
	s.defective[tx.Hash()] = d
	r.out.Faults["defective_tx/"+d]++
	r.log.Addf("t=%dms client sends a transaction with defect %s (%d signers)", s.now()/time.Millisecond, d, len(signers))
	s.sendToTargets(tx, t.Targets)
}

// feeThreshold: the calculator's network fee is exactly the acceptance threshold.
func (s *netSim) feeThreshold(o Op) {
	r := s.r
	bc := r.P.BC
	var signer neotest.Signer = r.prod.kr.acct(o.A)
	kind := "signature"
	if o.X%2 == 1 {
		signer = r.prod.validatorSigner()
		kind = "multisig"
	}
	build := func(delta int64) *transaction.Transaction {
		tx := transaction.New(callScript(nativehashes.GasToken, "transfer", signer.ScriptHash(), r.prod.kr.acctHash(o.B), int64(1), nil), 0)
		r.prod.nonce++
		tx.Nonce = r.prod.nonce
		tx.ValidUntilBlock = bc.BlockHeight() + 3
		tx.SystemFee = 20_000_000
		tx.Signers = []transaction.Signer{{Account: signer.ScriptHash(), Scopes: transaction.CalledByEntry}}
		neotest.AddNetworkFee(r.P.tb, bc, tx, signer)
		tx.NetworkFee += delta
		if err := signer.SignTx(bc.GetConfig().Magic, tx); err != nil {
			sim.Harnessf("sign: %v", err)
		}
		return tx
	}
	scratch := func() *mempool.Pool { return mempool.New(10, false, nil) }
	exact := build(0)
	// both verdicts come from the full admission pipeline against a fresh scratch pool
	if err := bc.PoolTx(exact, scratch()); err != nil {
		// not admissible for another reason (blocked account, no funds...): the threshold cannot be probed here
		r.out.Probes["fee_threshold_not_probed"]++
		return
	}
	short := build(-1)
	if err := bc.PoolTx(short, scratch()); err == nil {
		r.violate(sim.Violatef("c07-fee-threshold", "c07-fee-threshold/"+kind, "%s witness: network fee %d is accepted, but %d (one unit less than the calculator's value) is accepted as well", kind, exact.NetworkFee, short.NetworkFee))
		return
	}
	r.out.Probes["fee_threshold_checked/"+kind]++
}

// packFromPools: whatever the pools hold, a block packed from a pool in pool order under the
// block limits is accepted by every ledger at the same height after encode -> bytes -> decode.
func (s *netSim) packFromPools() {
	r := s.r
	for _, v := range s.nodes {
		if v.svc != nil {
			v.svc.Shutdown()
			v.svc = nil
		}
	}
	sim.Wait()
	// bring everybody to the same height first
	for round := 0; round < 40; round++ {
		s.syncOffer()
		s.flushOutbox()
		for len(s.heap) > 0 {
			ev := s.heap[0]
			_ = ev
			e := popEvent(&s.heap)
			e.fn()
			sim.Wait()
		}
	}
	if r.fail != nil {
		return
	}
	top := uint32(0)
	for _, v := range s.nodes {
		if !v.n.closed {
			top = max(top, v.n.BC.BlockHeight())
		}
	}
	for _, src := range s.nodes[:s.np.Validators] {
		if src.n.closed || src.n.BC.BlockHeight() != top {
			continue
		}
		bc := src.n.BC
		pooled := bc.GetMemPool().GetVerifiedTransactions()
		txs := bc.ApplyPolicyToTxSet(pooled)
		if len(txs) == 0 {
			continue
		}
		// "under the block limits": count, cumulative system fee, and (below) the size of the block
		cfg := bc.GetConfig()
		var sys int64
		for _, tx := range txs {
			sys += tx.SystemFee
		}
		if (cfg.MaxTransactionsPerBlock != 0 && len(txs) > int(cfg.MaxTransactionsPerBlock)) || sys > cfg.MaxBlockSystemFee {
			r.violate(sim.Violatef("c07-packed-over-limit", "c07-packed-over-limit/fee-or-count", "the proposal taken from validator %d's pool (%d pooled) has %d transactions with %d system fee in total; limits: %d transactions, %d system fee", src.idx, len(pooled), len(txs), sys, cfg.MaxTransactionsPerBlock, cfg.MaxBlockSystemFee))
			return
		}
		if len(txs) < len(pooled) {
			r.out.Probes["proposal_cut_by_block_limits"]++
		}
		saveP := r.P
		r.P = src.n
		b := r.newBlock(txs, BlockPlan{})
		r.P = saveP
		raw := encodeBlock(b)
		if uint32(len(raw)) > cfg.MaxBlockSize {
			r.violate(sim.Violatef("c07-packed-over-limit", "c07-packed-over-limit/size", "the block packed from validator %d's pool is %d bytes, MaxBlockSize is %d", src.idx, len(raw), cfg.MaxBlockSize))
			return
		}
		r.out.Probes["block_packed_from_pool"]++
		r.out.Probes["packed_txs"] += len(txs)
		// a backup that holds none of these transactions verifies each of them from scratch (consensus.verifyBlock:
		// a fresh pool, Blockchain.PoolTx); AddBlock below skips that for the ones a node has pooled itself
		scratch := mempool.New(len(txs), false, nil)
		for _, tx := range txs {
			if err := bc.PoolTx(tx, scratch); err != nil {
				r.violate(sim.Violatef("c07-pooled-tx-not-proposable", "c07-pooled-tx-not-proposable/"+strings.SplitN(err.Error(), ":", 2)[0], "validator %d (height %d) holds transaction %s in its pool and would propose it; verified from scratch against the same ledger it is refused: %v", src.idx, top, tx.Hash().StringLE()[:8], err))
				return
			}
		}
		r.out.Probes["packed_txs_verified_from_scratch"] += len(txs)
		for _, v := range s.nodes {
			if v.n.closed || v.n.BC.BlockHeight() != top {
				continue
			}
			if err := v.n.AddBlockBytes(raw); err != nil {
				r.violate(sim.Violatef("c07-packed-block-rejected", "", "a block of %d transactions packed from validator %d's pool in pool order is rejected by node %d after the bytes round trip: %v", len(txs), src.idx, v.idx, err))
				return
			}
			sim.Wait()
		}
		s.checkAgreement()
		return
	}
}

func popEvent(h *evHeap) *netEvent {
	o := *h
	// heap order is kept by container/heap elsewhere; here the remaining events are drained in any stable order
	best := 0
	for i := range o {
		if o[i].at < o[best].at || (o[i].at == o[best].at && o[i].seq < o[best].seq) {
			best = i
		}
	}
	e := o[best]
	*h = append(o[:best], o[best+1:]...)
	return e
}

// ---- C17: wire corruption and path independence ----

// corruptWire applies one tape-chosen corruption to an encoded network message.
func (s *netSim) corruptWire(raw []byte, kind string) []byte {
	t := s.r.tape
	c := append([]byte{}, raw...)
	if len(c) < 4 {
		return c
	}
	// positions are drawn independently of the message length: large messages are LZ4-compressed and the
	// compressed length is not guaranteed to be the same in every process
	pos := func(n int) int { return t.Choose(1<<20) % n }
	k := t.Choose(5)
	switch k {
	case 0:
		c[pos(len(c))] ^= byte(1 << uint(t.Choose(8)))
		s.r.out.Faults["wire_bitflip"]++
	case 1:
		c = c[:len(c)-1-pos(min(len(c)-1, 40))]
		s.r.out.Faults["wire_truncated"]++
	case 2:
		c = append(c, byte(t.Choose(256)), 0)
		s.r.out.Faults["wire_trailing"]++
	case 3:
		i := pos(len(c))
		j := i + 1 + pos(min(len(c)-i, 16))
		c = append(c[:j:j], append(append([]byte{}, c[i:j]...), c[j:]...)...)
		s.r.out.Faults["wire_duplicated_segment"]++
	case 4:
		if nm, ok := nonMinimalTx(c); ok && kind == "tx" {
			s.r.out.Faults["wire_nonminimal_varint"]++
			return nm
		}
		if nm, ok := nonMinimalExtensible(c); ok && kind == "consensus" {
			s.r.out.Faults["wire_nonminimal_varint_extensible"]++
			return nm
		}
		c[pos(len(c))] ^= 0x80
		s.r.out.Faults["wire_bitflip"]++
	}
	return c
}

// nonMinimalTx re-encodes the signer count of an uncompressed tx message as a 3-byte varint.
func nonMinimalTx(msg []byte) ([]byte, bool) {
	if len(msg) < 32 || msg[0] != 0 || msg[1] != byte(network.CMDTX) || msg[2] >= 0xfb {
		return nil, false
	}
	plen := int(msg[2])
	body := msg[3:]
	if len(body) != plen {
		return nil, false
	}
	const off = 1 + 4 + 8 + 8 + 4 // version nonce sysfee netfee vub
	if plen <= off || body[off] >= 0xfd {
		return nil, false
	}
	nb := append([]byte{}, body[:off]...)
	nb = append(nb, 0xfd, body[off], 0x00)
	nb = append(nb, body[off+1:]...)
	if len(nb) >= 0xfd {
		return nil, false
	}
	out := []byte{0, byte(network.CMDTX), byte(len(nb))}
	return append(out, nb...), true
}

// nonMinimalExtensible re-encodes the category length of an uncompressed extensible message as a 3-byte varint:
// the same content (and a still valid witness, the signed hash is over the content) in another wire form.
func nonMinimalExtensible(msg []byte) ([]byte, bool) {
	if len(msg) < 40 || msg[0] != 0 || msg[1] != byte(network.CMDExtensible) {
		return nil, false
	}
	var body []byte
	switch {
	case msg[2] < 0xfd:
		body = msg[3:]
		if len(body) != int(msg[2]) {
			return nil, false
		}
	case msg[2] == 0xfd:
		body = msg[5:]
		if len(body) != int(msg[3])|int(msg[4])<<8 {
			return nil, false
		}
	default:
		return nil, false
	}
	if body[0] >= 0xfd {
		return nil, false
	}
	nb := []byte{0xfd, body[0], 0x00}
	nb = append(nb, body[1:]...)
	out := []byte{0, byte(network.CMDExtensible)}
	if len(nb) < 0xfd {
		out = append(out, byte(len(nb)))
	} else {
		out = append(out, 0xfd, byte(len(nb)), byte(len(nb)>>8))
	}
	return append(out, nb...), true
}

// checkReencode: a decoded message re-encodes to bytes that decode to an equal value with the same hash and size.
func (s *netSim) checkReencode(msg *network.Message, raw []byte) {
	r := s.r
	var viol *sim.Violation
	if pv := sim.Recover(func() {
		b2, err := network.NewMessage(msg.Command, msg.Payload).Bytes()
		if err != nil {
			viol = sim.Violatef("c17-reencode", "c17-reencode/encode-fails", "a decoded %s payload cannot be re-encoded: %v", msg.Command, err)
			return
		}
		m2 := &network.Message{StateRootInHeader: r.plan.Proto.StateRootInHeader}
		if err := m2.Decode(nio.NewBinReaderFromBuf(b2)); err != nil {
			viol = sim.Violatef("c17-reencode", "c17-reencode/decode-fails", "the re-encoding of a decoded %s payload does not decode: %v", msg.Command, err)
			return
		}
		// equality is judged on the payload encodings: the wire bytes of large messages are LZ4-compressed and the
		// compressor's output for equal input is not unique (first seen as a false alarm of this oracle)
		w1 := nio.NewBufBinWriter()
		msg.Payload.EncodeBinary(w1.BinWriter)
		w2 := nio.NewBufBinWriter()
		m2.Payload.EncodeBinary(w2.BinWriter)
		if w1.Err != nil || w2.Err != nil || !bytes.Equal(w1.Bytes(), w2.Bytes()) {
			viol = sim.Violatef("c17-reencode", "c17-reencode/unstable", "a decoded %s payload re-encodes to %d bytes, and what that decodes to re-encodes to %d different bytes (%v %v)", msg.Command, len(w1.Bytes()), len(w2.Bytes()), w1.Err, w2.Err)
			return
		}
		type hashable interface{ Hash() util.Uint256 }
		if h1, ok := msg.Payload.(hashable); ok {
			if h2, ok := m2.Payload.(hashable); ok && h1.Hash() != h2.Hash() {
				viol = sim.Violatef("c17-identity", "c17-identity/"+msg.Command.String(), "%s payload: hash %s as received, %s after re-encoding the same content", msg.Command, h1.Hash().StringLE()[:10], h2.Hash().StringLE()[:10])
				return
			}
		}
		r.out.Probes["wire_reencode_checked"]++
	}); pv != nil {
		r.violate(pv)
		return
	}
	if viol != nil {
		r.violate(viol)
	}
}

// checkConsensusPayload: the dBFT message carried in the Data of a consensus-category Extensible. What an honest
// validator sent and the transport delivered unaltered must decode, and re-encoding the decoded message must give
// exactly the bytes that were signed; whatever decodes at all (altered bytes included) must re-encode to something that
// decodes to the same bytes again.
func (s *netSim) checkConsensusPayload(e *payload.Extensible, altered bool, to int) {
	if e.Category != payload.ConsensusCategory {
		return
	}
	r := s.r
	srih := r.plan.Proto.StateRootInHeader
	magic := r.P.BC.GetConfig().Magic
	enc := func(p *consensus.Payload) []byte {
		p.Data = nil // forces the message to be serialised again
		w := nio.NewBufBinWriter()
		p.EncodeBinary(w.BinWriter)
		if w.Err != nil {
			return nil
		}
		return append([]byte{}, p.Data...)
	}
	dec := func(ext *payload.Extensible) (*consensus.Payload, error) {
		w := nio.NewBufBinWriter()
		ext.EncodeBinary(w.BinWriter)
		p := consensus.NewPayload(magic, srih)
		br := nio.NewBinReaderFromBuf(w.Bytes())
		p.DecodeBinary(br)
		return p, br.Err
	}
	var viol *sim.Violation
	if pv := sim.Recover(func() {
		orig := append([]byte{}, e.Data...)
		p, err := dec(e)
		if err != nil {
			if !altered {
				viol = sim.Violatef("c17-consensus-payload", "c17-consensus-payload/decode-fails", "a consensus payload (type %#x, %d bytes) sent by a validator and delivered unaltered does not decode: %v", first(orig), len(orig), err)
			} else {
				r.out.Probes["consensus_payload_altered_rejected"]++
			}
			return
		}
		d2 := enc(p)
		if !altered && !bytes.Equal(orig, d2) {
			viol = sim.Violatef("c17-consensus-payload", "c17-consensus-payload/reencode-differs", "a consensus payload (type %#x) sent by a validator and delivered unaltered decodes, but the decoded message serialises to %d bytes that differ from the %d signed ones", first(orig), len(d2), len(orig))
			return
		}
		e2 := *e
		e2.Data = d2
		p2, err := dec(&e2)
		if err != nil {
			viol = sim.Violatef("c17-consensus-payload", "c17-consensus-payload/unstable", "the re-encoding of a decoded consensus payload (type %#x) does not decode: %v", first(orig), err)
			return
		}
		if d3 := enc(p2); !bytes.Equal(d2, d3) {
			viol = sim.Violatef("c17-consensus-payload", "c17-consensus-payload/unstable", "a decoded consensus payload (type %#x) re-encodes to %d bytes, and what that decodes to re-encodes to %d different bytes", first(orig), len(d2), len(d3))
			return
		}
		r.out.Probes[fmt.Sprintf("consensus_payload_checked/%#x", first(orig))]++
		if !altered {
			viol = s.checkRecoveredIdentity(p, e, to)
		}
	}); pv != nil {
		pv.Msg = "decoding / re-encoding a consensus payload panicked: " + pv.Msg
		r.violate(pv)
		return
	}
	if viol != nil {
		r.violate(viol)
	}
}

// checkRecoveredIdentity: the identity of a consensus payload does not depend on the path. Every payload delivered
// directly is remembered by (height, validator, type, view); the ChangeViews and the PrepareRequest a node restores
// from a RecoveryMessage must hash to exactly what their senders signed and sent directly.
func (s *netSim) checkRecoveredIdentity(p *consensus.Payload, e *payload.Extensible, to int) *sim.Violation {
	type key = [4]uint32
	if s.directPayloads == nil {
		s.directPayloads = map[key]util.Uint256{}
		s.directCVs = map[string]util.Uint256{}
	}
	// (a validator re-sends its ChangeView with a new timestamp on every timeout: ChangeViews are told apart by it)
	cvKey := func(height uint32, vi uint16, view uint32, data []byte) string {
		if len(data) < 15 {
			return ""
		}
		return fmt.Sprintf("%d/%d/%d/%x", height, vi, view, data[7:15])
	}
	if p.Type() != dbft.RecoveryMessageType {
		view := uint32(p.ViewNumber())
		if p.Type() == dbft.ChangeViewType && p.GetChangeView().Reason() != dbft.CVTimeout {
			// the compact form inside a RecoveryMessage does not carry the reason: what is restored from it is a
			// ChangeView with reason Timeout, i.e. other content (and another hash) by design of the protocol
			s.r.out.Probes["changeview_with_reason_not_comparable"]++
			return nil
		}
		if p.Type() == dbft.ChangeViewType {
			s.directCVs[cvKey(p.Height(), p.ValidatorIndex(), view, e.Data)] = e.Hash()
		}
		s.directPayloads[key{p.Height(), uint32(p.ValidatorIndex()), uint32(p.Type()), view}] = e.Hash()
		if s.directData == nil {
			s.directData = map[util.Uint256]string{}
		}
		s.directData[e.Hash()] = fmt.Sprintf("data=%x vbs=%d vbe=%d sender=%s", e.Data, e.ValidBlockStart, e.ValidBlockEnd, e.Sender.StringLE()[:8])
		return nil
	}
	bc := s.nodes[to].n.BC
	if bc.BlockHeight()+1 != p.Height() {
		return nil
	}
	vals, err := bc.GetNextBlockValidators()
	if err != nil {
		return nil
	}
	sort.Sort(keys.PublicKeys(vals))
	pubs := make([]dbft.PublicKey, len(vals))
	for i := range vals {
		pubs[i] = vals[i]
	}
	rm := p.GetRecoveryMessage()
	for _, cv := range rm.GetChangeViews(p, pubs) {
		cp, ok := cv.(*consensus.Payload)
		if !ok || cp == nil {
			continue
		}
		orig := uint32(cp.GetChangeView().NewViewNumber()) - 1
		rh := cp.Hash() // (serialises the restored message into cp.Data)
		if h, ok := s.directCVs[cvKey(cp.Height(), cp.ValidatorIndex(), orig, cp.Data)]; ok {
			_ = rh
			s.r.out.Probes["recovered_changeview_compared"]++
			if h != cp.Hash() {
				s.r.log.Addf("direct: %s; restored: data=%x vbs=%d vbe=%d sender=%s", s.directData[h], cp.Data, cp.ValidBlockStart, cp.ValidBlockEnd, cp.Sender.StringLE()[:8])
				return sim.Violatef("c17-identity", "c17-identity/recovered-changeview", "the ChangeView of validator %d for view %d at height %d has hash %s when it arrives directly and %s when it is restored from validator %d's RecoveryMessage (sent in view %d)", cp.ValidatorIndex(), orig, cp.Height(), h.StringLE()[:10], cp.Hash().StringLE()[:10], p.ValidatorIndex(), p.ViewNumber()) // details below
			}
		}
	}
	pi := (int(p.Height()) - int(p.ViewNumber())) % len(pubs)
	if pi < 0 {
		pi += len(pubs)
	}
	if pr := rm.GetPrepareRequest(p, pubs, uint16(pi)); pr != nil {
		if cp, ok := pr.(*consensus.Payload); ok && cp != nil {
			if h, ok := s.directPayloads[key{cp.Height(), uint32(cp.ValidatorIndex()), uint32(dbft.PrepareRequestType), uint32(cp.ViewNumber())}]; ok {
				s.r.out.Probes["recovered_preparerequest_compared"]++
				if h != cp.Hash() {
					return sim.Violatef("c17-identity", "c17-identity/recovered-preparerequest", "the PrepareRequest of validator %d (height %d, view %d) has hash %s when it arrives directly and %s when it is restored from a RecoveryMessage", cp.ValidatorIndex(), cp.Height(), cp.ViewNumber(), h.StringLE()[:10], cp.Hash().StringLE()[:10])
				}
			}
		}
	}
	return nil
}

func first(b []byte) byte {
	if len(b) == 0 {
		return 0xff
	}
	return b[0]
}

// checkTxPaths: hash and size of a transaction do not depend on the path by which it arrived.
func (s *netSim) checkTxPaths(tx *transaction.Transaction, raw []byte) {
	r := s.r
	canon := tx.Bytes() // re-encoding of the content
	viaBody := &transaction.Transaction{}
	br := nio.NewBinReaderFromBuf(canon)
	viaBody.DecodeBinary(br) // the path used inside block bodies and from the database
	if br.Err != nil {
		r.violate(sim.Violatef("c17-reencode", "c17-reencode/tx", "a transaction accepted by the P2P decoder does not decode from its own re-encoding: %v", br.Err))
		return
	}
	viaRPC, err := transaction.NewTransactionFromBytes(canon) // the path used by sendrawtransaction
	if err != nil {
		r.violate(sim.Violatef("c17-reencode", "c17-reencode/tx", "a transaction accepted by the P2P decoder does not decode from its own re-encoding: %v", err))
		return
	}
	if tx.Hash() != viaBody.Hash() || tx.Hash() != viaRPC.Hash() {
		r.violate(sim.Violatef("c17-identity", "c17-identity/tx-hash", "the same transaction content has hash %s when received in a P2P tx message and %s when decoded from a block body / database (%s via RPC bytes)", tx.Hash().StringLE()[:12], viaBody.Hash().StringLE()[:12], viaRPC.Hash().StringLE()[:12]))
		return
	}
	if tx.Size() != viaBody.Size() || tx.Size() != viaRPC.Size() || tx.Size() != len(canon) {
		r.violate(sim.Violatef("c17-identity", "c17-identity/tx-size", "the same transaction content has size %d when received in a P2P tx message, %d from a block body, %d via RPC bytes, encoding length %d", tx.Size(), viaBody.Size(), viaRPC.Size(), len(canon)))
		return
	}
	s.seenTx[tx.Hash()] = canon
	r.out.Probes["tx_paths_compared"]++
}

func (s *netSim) recordBlockTxs(b *block.Block) {
	r := s.r
	for _, tx := range b.Transactions {
		canon := tx.Bytes()
		p2p, err := transaction.NewTransactionFromBytes(canon)
		if err != nil || p2p.Hash() != tx.Hash() || p2p.Size() != tx.Size() {
			r.violate(sim.Violatef("c17-identity", "c17-identity/block-body", "transaction %s from a block body: hash/size %s/%d, via standalone bytes %v/%d (%v)", tx.Hash().StringLE()[:12], tx.Hash().StringLE()[:12], tx.Size(), p2p, len(canon), err))
			return
		}
		s.seenTx[tx.Hash()] = canon
	}
	bb := encodeBlock(b)
	b2, err := decodeBlock(bb, r.plan.Proto.StateRootInHeader)
	if err != nil || b2.Hash() != b.Hash() {
		r.violate(sim.Violatef("c17-identity", "c17-identity/block", "block %d: hash %s from the P2P message, %v after re-encoding (%v)", b.Index, b.Hash().StringLE()[:12], b2, err))
		return
	}
	r.out.Probes["block_paths_compared"]++
}

// checkDBPath: after a restart everything comes from the database.
func (s *netSim) checkDBPath(v *vnode) {
	r := s.r
	for h, canon := range s.seenTx {
		tx, height, err := v.n.BC.GetTransaction(h)
		if err != nil || height == ^uint32(0) {
			continue
		}
		if tx.Hash() != h || tx.Size() != len(tx.Bytes()) {
			r.violate(sim.Violatef("c17-identity", "c17-identity/database", "transaction %s read back from the database after a restart: hash %s size %d, on the wire size %d", h.StringLE()[:12], tx.Hash().StringLE()[:12], tx.Size(), len(canon)))
			return
		}
		r.out.Probes["tx_db_path_compared"]++
	}
	for x := uint32(1); x <= v.n.BC.BlockHeight(); x++ {
		want, ok := s.canon[x]
		if !ok {
			continue
		}
		b, err := v.n.BC.GetBlock(v.n.BC.GetHeaderHash(x))
		if err != nil || b.Hash() != want {
			r.violate(sim.Violatef("c17-identity", "c17-identity/database-block", "block %d read back from the database after a restart has hash %v, on the wire %s (%v)", x, b, want.StringLE()[:12], err))
			return
		}
	}
}

var _ = payload.MaxSize
var _ = hash.Sha256
var _ = smartcontract.GetDefaultHonestNodeCount

// conflictScenario: account a signs C carrying 2-3 Conflicts attributes that name valid transactions V0..Vn of the
// same signer; C goes to every node now, the victims are submitted a few seconds later. Wherever C is on chain by
// then, a victim must not be admitted.
func (s *netSim) conflictScenario(t NetTx) {
	r := s.r
	bc := r.P.BC
	a := r.prod.kr.acct(t.Op.A)
	if mtb := bc.GetMaxTraceableBlocks(); t.Op.Y%2 == 1 && mtb <= 12 {
		// not before the accounts are funded, and early enough for the traceable window to pass within the run
		start := max(s.now(), 2500*time.Millisecond)
		if start+time.Duration(mtb+4)*blockTimeMS*time.Millisecond < time.Duration(s.np.DurationMS)*time.Millisecond {
			var try func()
			try = func() {
				funded := bc.GetUtilityTokenBalance(a.ScriptHash(), util.Uint160{}).Sign() > 0 &&
					bc.GetUtilityTokenBalance(r.prod.kr.acctHash(t.Op.A+1), util.Uint160{}).Sign() > 0
				if !funded && s.now()+time.Duration(mtb+5)*blockTimeMS*time.Millisecond < time.Duration(s.np.DurationMS)*time.Millisecond {
					s.at(s.now()+blockTimeMS*time.Millisecond, try)
					return
				}
				if funded {
					s.staleConflictScenario(t, mtb)
				}
			}
			s.at(start, try)
			return
		}
	}
	nv := 2 + t.Op.X%2
	var victims []*transaction.Transaction
	c := s.simpleTransfer(a, r.prod.kr.acctHash(t.Op.B), 3)
	c.ValidUntilBlock = bc.BlockHeight() + 8
	for i := 0; i < nv; i++ {
		v := s.simpleTransfer(a, r.prod.kr.acctHash(t.Op.B+i), int64(5+i))
		v.ValidUntilBlock = bc.BlockHeight() + 12
		neotest.AddNetworkFee(r.P.tb, bc, v, a)
		if err := a.SignTx(bc.GetConfig().Magic, v); err != nil {
			sim.Harnessf("sign: %v", err)
		}
		victims = append(victims, v)
		c.Attributes = append(c.Attributes, transaction.Attribute{Type: transaction.ConflictsT, Value: &transaction.Conflicts{Hash: v.Hash()}})
	}
	neotest.AddNetworkFee(r.P.tb, bc, c, a)
	c.NetworkFee += 10_000_000
	if err := a.SignTx(bc.GetConfig().Magic, c); err != nil {
		sim.Harnessf("sign: %v", err)
	}
	r.out.Faults["defective_tx/named-by-on-chain-conflicts"]++
	r.log.Addf("t=%dms client sends a transaction with %d Conflicts attributes; the named ones follow later", s.now()/time.Millisecond, nv)
	s.sendToTargets(c, 0xff)
	ch := c.Hash()
	for i, v := range victims {
		v := v
		s.conflictVictims[v.Hash()] = append(s.conflictVictims[v.Hash()], ch)
		s.at(s.now()+time.Duration(3500+700*i)*time.Millisecond, func() { s.sendToTargets(v, t.Targets|1) })
	}
}

// staleConflictScenario: two on-chain transactions name the same victim at different heights - first one of another
// account (no common signer: harmless for the victim), a few blocks later one of the victim's own signer. The victim
// is valid only far ahead (ValidUntilBlock beyond the traceable window of the first namer) and is submitted when the
// first namer has just become untraceable while the second still is traceable: it must be refused.
func (s *netSim) staleConflictScenario(t NetTx, mtb uint32) {
	r := s.r
	bc := r.P.BC
	a := r.prod.kr.acct(t.Op.A)
	other := r.prod.kr.acct(t.Op.A + 1)
	h0 := bc.BlockHeight()
	victim := s.simpleTransfer(a, r.prod.kr.acctHash(t.Op.B), 7)
	victim.ValidUntilBlock = h0 + mtb + 4
	neotest.AddNetworkFee(r.P.tb, bc, victim, a)
	if err := a.SignTx(bc.GetConfig().Magic, victim); err != nil {
		sim.Harnessf("sign: %v", err)
	}
	mk := func(signer neotest.SingleSigner, amount int64, vub uint32) *transaction.Transaction {
		c := s.simpleTransfer(signer, r.prod.kr.acctHash(t.Op.B), amount)
		c.ValidUntilBlock = vub
		c.Attributes = append(c.Attributes, transaction.Attribute{Type: transaction.ConflictsT, Value: &transaction.Conflicts{Hash: victim.Hash()}})
		neotest.AddNetworkFee(r.P.tb, bc, c, signer)
		c.NetworkFee += 10_000_000
		if err := signer.SignTx(bc.GetConfig().Magic, c); err != nil {
			sim.Harnessf("sign: %v", err)
		}
		return c
	}
	inc := bc.GetMaxValidUntilBlockIncrement()
	n1 := mk(other, 3, h0+min(inc, 3))
	s.conflictVictims[victim.Hash()] = append(s.conflictVictims[victim.Hash()], n1.Hash())
	s.namers[n1.Hash()] = true
	r.out.Faults["defective_tx/named-by-on-chain-conflicts"]++
	r.out.Probes["stale_conflict_scenario"]++
	r.log.Addf("t=%dms client: two transactions will name one victim at different heights (MaxTraceableBlocks %d)", s.now()/time.Millisecond, mtb)
	s.sendToTargets(n1, 0xff)
	s.at(s.now()+3500*time.Millisecond, func() {
		h := r.P.BC.BlockHeight()
		n2 := mk(a, 4, h+min(inc, 3))
		s.conflictVictims[victim.Hash()] = append(s.conflictVictims[victim.Hash()], n2.Hash())
		s.namers[n2.Hash()] = true
		s.sendToTargets(n2, 0xff)
	})
	for _, d := range []uint32{mtb + 1, mtb + 2} {
		s.at(s.now()+time.Duration(d)*blockTimeMS*time.Millisecond+500*time.Millisecond, func() { s.sendToTargets(victim, t.Targets|1) })
	}
}

// rulesTx (C17): a transfer whose signer has the Rules scope with one Boolean condition; the wire form is sent
// canonically to some nodes and with the condition's `true` written as 0x02 (accepted by the decoder) to others.
func (s *netSim) rulesTx(t NetTx) {
	r := s.r
	bc := r.P.BC
	a := r.prod.kr.acct(t.Op.A)
	tx := s.simpleTransfer(a, r.prod.kr.acctHash(t.Op.B), 2)
	cond := transaction.ConditionBoolean(true)
	tx.Signers[0].Scopes = transaction.Rules
	tx.Signers[0].Rules = []transaction.WitnessRule{{Action: transaction.WitnessAllow, Condition: &cond}}
	neotest.AddNetworkFee(r.P.tb, bc, tx, a)
	if err := a.SignTx(bc.GetConfig().Magic, tx); err != nil {
		sim.Harnessf("sign: %v", err)
	}
	raw := msgBytes(network.CMDTX, tx)
	// action Allow (01), condition type Boolean (00), value true (01)
	pat := []byte{0x01, 0x00, 0x01}
	i := bytes.Index(raw, pat)
	r.out.Probes["rules_scope_tx"]++
	for n := range s.nodes {
		if t.Targets&(1<<uint(n)) == 0 {
			continue
		}
		m := raw
		if i > 0 && n%2 == 1 {
			m = append([]byte{}, raw...)
			m[i+2] = 0x02
			r.out.Faults["wire_noncanonical_bool"]++
		}
		s.clientSend(n, m)
	}
}

// statefulWitnessTx: a GAS transfer of account A co-signed (scope None) by the account of an inline verification script
// "CheckSig(key) && Ledger.currentIndex() < K" with K two blocks ahead. Nothing is wrong with it now; from height K on
// its second witness fails, and a pool that still holds it then would propose a block nobody else accepts.
func (s *netSim) statefulWitnessTx(t NetTx) {
	r := s.r
	bc := r.P.BC
	a := r.prod.kr.acct(t.Op.A)
	co := r.prod.kr.accts[(t.Op.A+1)%numAccounts]
	k := int64(bc.BlockHeight()) + 2
	w := nio.NewBufBinWriter()
	emit.Bytes(w.BinWriter, co.PublicKey().Bytes())
	emit.Syscall(w.BinWriter, interopnames.SystemCryptoCheckSig)
	emit.AppCall(w.BinWriter, nativehashes.LedgerContract, "currentIndex", callflag.ReadStates)
	emit.Int(w.BinWriter, k)
	emit.Opcodes(w.BinWriter, opcode.LT, opcode.BOOLAND)
	vscript := w.Bytes()
	tx := s.simpleTransfer(a, r.prod.kr.acctHash(t.Op.B), 1+t.Op.N)
	tx.ValidUntilBlock = bc.BlockHeight() + min(6, bc.GetMaxValidUntilBlockIncrement())
	tx.Signers = append(tx.Signers, transaction.Signer{Account: hash.Hash160(vscript), Scopes: transaction.None})
	// fee: size (two witnesses) at the current price plus a generous allowance for both verifications, still the lowest
	// fee per byte of the batch it is sent with
	tx.Scripts = []transaction.Witness{{InvocationScript: make([]byte, 66), VerificationScript: a.Script()}, {InvocationScript: make([]byte, 66), VerificationScript: vscript}}
	tx.NetworkFee = int64(nio.GetVarSize(tx))*bc.FeePerByte() + 2*bc.GetBaseExecFee()*(1<<15) + 2_000_000
	tx.Scripts = nil
	if err := a.SignTx(bc.GetConfig().Magic, tx); err != nil {
		sim.Harnessf("sign: %v", err)
	}
	sig := co.SignHashable(uint32(bc.GetConfig().Magic), tx)
	tx.Scripts = append(tx.Scripts, transaction.Witness{InvocationScript: append([]byte{byte(opcode.PUSHDATA1), keys.SignatureLen}, sig...), VerificationScript: vscript})
	r.out.Probes["stateful_witness_tx_sent"]++
	r.log.Addf("t=%dms client tx with a witness valid below height %d -> targets %05b", s.now()/time.Millisecond, k, t.Targets)
	s.sendToTargets(tx, t.Targets)
	h := tx.Hash()
	s.at(s.now()+time.Duration(s.np.MaxDelayMS+60)*time.Millisecond, func() {
		for i := 0; i < s.np.Validators; i++ {
			if s.nodes[i].n.BC.GetMemPool().ContainsKey(h) {
				r.out.Probes["stateful_witness_tx_pooled"]++
				return
			}
		}
		r.out.Probes["stateful_witness_tx_not_pooled"]++
	})
}
