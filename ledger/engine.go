// Package ledger is the ledger simulator (DESIGN.md section 2, "Shared by
// C01-C06 and C11"): a producer node turns a rapid-drawn history into signed
// blocks; replicas with independently drawn node-local settings receive them
// as bytes under plan-chosen flush schedules, restarts, crashes and corrupting
// block sources; oracles compare observations taken through the public API.
package ledger

import (
	"encoding/json"
	"errors"
	"fmt"
	"github.com/nspcc-dev/neo-go/pkg/crypto/keys"
	"os"
	"sort"
	"strings"
	"testing"
	"time"

	"github.com/nspcc-dev/neo-go/pkg/core"
	"github.com/nspcc-dev/neo-go/pkg/core/block"
	"github.com/nspcc-dev/neo-go/pkg/core/native/nativehashes"
	"github.com/nspcc-dev/neo-go/pkg/core/native/noderoles"
	"github.com/nspcc-dev/neo-go/pkg/core/transaction"
	"github.com/nspcc-dev/neo-go/pkg/crypto/hash"
	"github.com/nspcc-dev/neo-go/pkg/io"
	"github.com/nspcc-dev/neo-go/pkg/neotest"
	"github.com/nspcc-dev/neo-go/pkg/smartcontract"
	"github.com/nspcc-dev/neo-go/pkg/smartcontract/trigger"
	"github.com/nspcc-dev/neo-go/pkg/util"
	"pgregory.net/rapid"

	"verif/sim"
	"verif/simdisk"
)

// Plan is one run of the ledger simulator.
type Plan struct {
	Proto  Proto       `json:"proto"`
	Locals []Local     `json:"locals"`
	Blocks []BlockPlan `json:"blocks"`
	Tape   []uint32    `json:"tape"`
	// Ticks: after block i (index into Blocks) the fake clock advances by 1.1 s,
	// which fires the real persist timer (and GC) of every running node.
	Ticks []int `json:"ticks,omitempty"`
	// Election: that many accounts register as candidates and all accounts vote for them in block 2.
	Election int `json:"election,omitempty"`
	// property specific
	Crash   *CrashPlan  `json:"crash,omitempty"`
	Corrupt []CorruptOp `json:"corrupt,omitempty"`
	Atom    *AtomPlan   `json:"atom,omitempty"`
	Net     *NetPlan    `json:"net,omitempty"`
	Sync    *SyncPlan   `json:"sync,omitempty"`
	Srv     *SrvPlan    `json:"srv,omitempty"` // server mode (Tier B, srvnet.go): whole network.Server instances
	// C06: after the main run, a validly signed header with a wrong PrevStateRoot is recorded ahead of the blocks
	HeadersFirst bool `json:"headers_first,omitempty"`
	KnownHeader  bool `json:"known_header,omitempty"` // C06: genuine header recorded ahead of the block, block with another witness
	// C06: after the main run a block carrying a transaction named by on-chain Conflicts attributes is delivered
	ConflictAttack bool `json:"conflict_attack,omitempty"`
	// C06: a header batch whose first header (known index, other content) names the signer of the second one
	ForgedHeaders bool `json:"forged_headers,omitempty"`
	// C06: the committee blocks an account, then a block carrying a transaction signed by it is delivered
	BlockedAttack bool `json:"blocked_attack,omitempty"`
	// TailSeed seeds the decision stream that answers once the explicit tape is used up (0: every further decision is
	// the default one - no optional fault, no optional check)
	TailSeed uint64 `json:"plan_tail_seed,omitempty"`
	// OracleSetup > 0: block 4 designates Oracle nodes (1-3 keyring accounts), makes sure a helper contract exists and,
	// for some values, sets a non-default request price (see oracleSetupTxs)
	OracleSetup int `json:"oracle_setup,omitempty"`
}

// Engine implements sim.Engine.
type Engine struct{}

func (Engine) Name() string { return "ledger" }

func (Engine) Decode(raw []byte) (any, error) {
	var p Plan
	err := json.Unmarshal(raw, &p)
	return &p, err
}

func drawProto(rt *rapid.T) Proto {
	return Proto{
		StateRootInHeader: rapid.Bool().Draw(rt, "srih"),
		P2PSig:            rapid.IntRange(0, 3).Draw(rt, "p2psig") != 0,
		MTB:               []uint32{1000, 12, 8, 20}[rapid.IntRange(0, 3).Draw(rt, "mtb")],
		HF:                rapid.IntRange(0, 3).Draw(rt, "hf"),
	}
}

func drawLocal(rt *rapid.T, nblocks int) Local {
	l := Local{}
	l.Backend = rapid.IntRange(0, 5).Draw(rt, "backend")
	if l.Backend > 2 {
		l.Backend = 0 // memory is the cheap common case
	}
	m := rapid.IntRange(0, 3).Draw(rt, "statemode")
	switch m {
	case 1:
		l.KeepLatest = true
	case 2:
		l.RemoveOld = true
	case 3:
		l.KeepLatest, l.RemoveOld = true, true
	}
	l.GCPeriod = uint32(rapid.IntRange(1, 4).Draw(rt, "gcp"))
	l.VerifyTx = rapid.IntRange(0, 2).Draw(rt, "verifytx") != 0
	l.SaveBatch = rapid.IntRange(0, 3).Draw(rt, "savebatch") == 3
	l.SaveInvocs = rapid.IntRange(0, 3).Draw(rt, "saveinv") == 3
	l.Preload = rapid.IntRange(0, 2).Draw(rt, "preload")
	l.FlushMode = rapid.IntRange(0, 3).Draw(rt, "flush")
	l.FlushGC = rapid.Bool().Draw(rt, "flushgc")
	nr := rapid.IntRange(0, 2).Draw(rt, "nrestarts")
	for i := 0; i < nr; i++ {
		l.RestartPlan = append(l.RestartPlan, rapid.IntRange(1, nblocks+1).Draw(rt, "restartAt"))
	}
	sort.Ints(l.RestartPlan)
	return l
}

func drawTape(rt *rapid.T, n int) []uint32 {
	return rapid.SliceOfN(rapid.Uint32Range(0, 1<<16), 0, n).Draw(rt, "tape")
}

func (e Engine) Draw(rt *rapid.T, prop, tier string) any {
	p := e.drawPlan(rt, prop, tier).(*Plan)
	if rapid.IntRange(0, 3).Draw(rt, "tailon") != 0 {
		p.TailSeed = rapid.Uint64Range(1, 1<<40).Draw(rt, "plantail")
	}
	if rapid.IntRange(0, 4).Draw(rt, "orasetup") >= 2 {
		p.OracleSetup = rapid.IntRange(1, 72).Draw(rt, "orasetupsel")
		// such plans use the Oracle contract on purpose: after the setup block, blocks get extra request / response ops
		for i := 3; i < len(p.Blocks); i++ {
			k := rapid.IntRange(0, 11).Draw(rt, "oraop")
			if k < 5 {
				continue
			}
			o := drawOpGeneral(rt, p.Proto.P2PSig)
			o.Kind = OpOracleRequest
			if k >= 8 {
				o.Kind = OpOracleResponse
			}
			at := rapid.IntRange(0, len(p.Blocks[i].Ops)).Draw(rt, "oraat")
			ops := append([]Op{}, p.Blocks[i].Ops[:at]...)
			ops = append(ops, o)
			p.Blocks[i].Ops = append(ops, p.Blocks[i].Ops[at:]...)
		}
	}
	return p
}

func (Engine) drawPlan(rt *rapid.T, prop, tier string) any {
	p := &Plan{}
	p.Proto = drawProto(rt)
	maxB := 24
	if tier == "thorough" {
		maxB = 60
	}
	switch prop {
	case "C02":
		return drawC02(rt, p, tier)
	case "C04":
		return drawC04(rt, p, tier)
	case "C06":
		return drawC06(rt, p, tier)
	case "C19", "C07", "C17":
		if srvWanted(rt, prop) {
			return drawSrv(rt, p, prop, tier)
		}
		return drawNet(rt, p, prop, tier)
	case "C20":
		if srvWanted(rt, prop) {
			return drawSrv(rt, p, prop, tier)
		}
		return drawSync(rt, p, tier)
	}
	if prop == "C11" {
		maxB += 12
	}
	p.Blocks = drawBlocks(rt, 2, maxB, p.Proto.P2PSig)
	long := rapid.IntRange(0, 4).Draw(rt, "longchain") == 0
	if long {
		// a chain that crosses header hash pages (16 headers under the verif build tag) with a short traceable window
		for n := rapid.IntRange(14, 30).Draw(rt, "nempty"); n > 0; n-- {
			p.Blocks = append(p.Blocks, BlockPlan{})
		}
		p.Proto.MTB = []uint32{8, 12, 20}[rapid.IntRange(0, 2).Draw(rt, "mtblong")]
		if rapid.IntRange(0, 3).Draw(rt, "verylong") == 0 {
			// a traceable window of more than two header hash pages on a chain of more than four plus the window: the
			// garbage collection of header hash pages and blocks works next to pages that are still needed
			p.Proto.MTB = uint32(rapid.IntRange(34, 44).Draw(rt, "mtbverylong"))
			for n := rapid.IntRange(60, 90).Draw(rt, "nemptymore"); n > 0; n-- {
				b := BlockPlan{}
				if n%7 == 0 {
					b.Ops = []Op{{Kind: OpLedgerRead, A: n % numAccounts, B: n % numContracts, N: int64(n), X: n % 4, Y: (n / 7) % 8}}
				}
				p.Blocks = append(p.Blocks, b)
			}
		}
	}
	nrep := rapid.IntRange(1, 3).Draw(rt, "nrep")
	for i := 0; i < nrep; i++ {
		l := drawLocal(rt, len(p.Blocks))
		if long && i == 0 {
			l.RemoveOld = true
			l.FlushGC = true
		}
		p.Locals = append(p.Locals, l)
	}
	p.Election = drawElection(rt)
	nt := rapid.IntRange(0, 3).Draw(rt, "nticks")
	if prop == "C11" {
		// pruning replicas, short retention, frequent timer flushes (GC runs after timer-driven flushes only)
		p.Proto.MTB = []uint32{8, 12}[rapid.IntRange(0, 1).Draw(rt, "mtb11")]
		for i := range p.Locals {
			if !p.Locals[i].KeepLatest && !p.Locals[i].RemoveOld {
				p.Locals[i].RemoveOld = true
				p.Locals[i].KeepLatest = rapid.Bool().Draw(rt, "kl11")
			}
			p.Locals[i].GCPeriod = uint32(rapid.IntRange(1, 2).Draw(rt, "gcp11"))
		}
		nt = rapid.IntRange(2, 8).Draw(rt, "nticks11")
	}
	for i := 0; i < nt; i++ {
		p.Ticks = append(p.Ticks, rapid.IntRange(0, len(p.Blocks)-1).Draw(rt, "tick"))
	}
	p.Tape = drawTape(rt, 256)
	return p
}

// run is the state of one execution.
type run struct {
	t            *testing.T
	prop         string
	plan         *Plan
	out          *sim.Outcome
	log          *sim.Log
	tape         *sim.Tape
	P            *Node
	prod         *producer
	w            *world
	nodes        []*Node
	ref          map[uint32]*Observation // reference observation per height (taken on P)
	raw          map[uint32][]byte       // encoded block per height
	blks         map[uint32]*block.Block
	fail         *sim.Violation
	flats        map[uint32]*flatState
	soft         *sim.Violation // recorded-finding class seen in this run (reported only if nothing else fails)
	c06Delivered bool
	resetVictim  *transaction.Transaction
	c06Victim    *transaction.Transaction
	// height of the last block in which the producer executed a locally built oracle response whose Result is nil
	oraNilResultAt uint32
	// heights of the blocks holding a response to a request older than MaxTraceableBlocks
	oraStaleAt map[uint32]bool
	beforeX    []*transaction.Transaction // C04: transactions that precede everything else in the block of X / its twin
	afterX     []*transaction.Transaction // C04: halting transactions that follow X / its twin in the block
	syncPoint  uint32                     // C20 part B: the state synchronisation point of the run
}

func (r *run) violate(v *sim.Violation) {
	if r.fail == nil {
		r.fail = v
	}
}

// Run executes one plan.
func (Engine) Run(t *testing.T, prop string, planAny any) *sim.Outcome {
	plan := planAny.(*Plan)
	r := &run{t: t, prop: prop, plan: plan, out: sim.NewOutcome(), log: sim.NewLog(4000), tape: &sim.Tape{Data: plan.Tape, Tail: plan.TailSeed},
		ref: map[uint32]*Observation{}, raw: map[uint32][]byte{}, blks: map[uint32]*block.Block{}}
	start := time.Time{}
	bv := sim.Bubble(t, func() {
		start = time.Now()
		defer func() {
			for _, n := range r.nodes {
				n.Destroy()
			}
			r.out.SimTimeMS = time.Since(start).Milliseconds()
			// goleveldb's pool drainer leaves a closed DB only after a 1 s timer
			time.Sleep(3 * time.Second)
			sim.Wait()
		}()
		defer func() {
			if x := recover(); x != nil {
				if a, ok := x.(tbAbort); ok {
					r.violate(sim.Violatef("harness", "harness", "test helper aborted: %s", a.msg))
					return
				}
				panic(x)
			}
		}()
		switch {
		case plan.Srv != nil:
			r.runSrv()
			return
		}
		switch prop {
		case "C02":
			r.runC02()
		case "C04":
			r.runC04()
		case "C06":
			r.runC06()
		case "C19", "C07", "C17":
			r.runNet()
		case "C20":
			r.runSync()
		default:
			r.runReplicated()
		}
	})
	if bv != nil && r.fail == nil {
		r.fail = bv
	}
	if r.fail == nil {
		r.fail = r.soft
	}
	r.out.Violation = r.fail
	r.out.Log = r.log.Lines
	r.out.TraceHash = r.log.Hash()
	r.out.Events = r.log.Count()
	for _, n := range r.nodes {
		for k, v := range n.LogCounts() {
			r.out.Probes["log/"+k] += v
		}
	}
	r.out.Summary = map[string]any{"proto": plan.Proto, "locals": plan.Locals, "blocks": len(plan.Blocks), "ticks": plan.Ticks}
	return r.out
}

func (r *run) newNode(name string, l Local) *Node {
	n, err := NewNode(r.t, name, r.plan.Proto, l)
	if n != nil {
		r.nodes = append(r.nodes, n)
	}
	if err != nil {
		sim.Harnessf("cannot create node %s: %v", name, err)
	}
	r.out.Probes["backend_"+simdisk.BackendName(l.Backend)]++
	return n
}

func (r *run) setupProducer() {
	r.P = r.newNode("P", Local{Backend: simdisk.Memory, VerifyTx: true})
	r.prod = newProducer(r.P)
	r.prod.probes = r.out.Probes
	r.w = &world{contracts: map[util.Uint160]int32{}}
	for i := 0; i < numAccounts; i++ {
		r.w.accounts = append(r.w.accounts, r.prod.kr.acctHash(i))
	}
	r.w.accounts = append(r.w.accounts, r.P.Exec.Validator.ScriptHash(), r.P.Exec.CommitteeHash, nativehashes.Notary, nativehashes.OracleContract)
}

// bootstrap produces block 1: the validators' multisig funds every account.
func (r *run) bootstrapTxs() []*transaction.Transaction {
	var txs []*transaction.Transaction
	v := r.prod.validatorSigner() // the validators' multisig address holds the initial NEO and GAS
	for i := 0; i < numAccounts; i++ {
		for _, tok := range []util.Uint160{nativehashes.GasToken, nativehashes.NeoToken} {
			amount := int64(20000_00000000)
			if tok == nativehashes.NeoToken {
				amount = 9_000_000 + int64(i)*500_000
			}
			tx := transaction.New(callScript(tok, "transfer", v.ScriptHash(), r.prod.kr.acctHash(i), amount, nil), 0)
			r.prod.nonce++
			tx.Nonce = r.prod.nonce
			tx.ValidUntilBlock = r.P.BC.BlockHeight() + 1
			if r.plan.Net != nil {
				// (not beyond the validity window: with a small MaxTraceableBlocks the increment is small too)
				tx.ValidUntilBlock = r.P.BC.BlockHeight() + min(9, r.P.BC.GetMaxValidUntilBlockIncrement())
			}
			r.prod.finishTx(tx, []neotest.Signer{v})
			txs = append(txs, tx)
		}
	}
	return txs
}

// electionTxs: candidates register and everybody votes, so that committee and validators really change.
func (r *run) electionTxs(stage int) []*transaction.Transaction {
	var txs []*transaction.Transaction
	k := min(r.plan.Election, numAccounts)
	if k <= 0 {
		return nil
	}
	if stage == 1 {
		for i := 0; i < k; i++ {
			tx, _ := r.prod.buildTx(Op{Kind: OpRegister, A: i}, nil)
			txs = append(txs, tx)
		}
		r.out.Probes["election_block"]++
		return txs
	}
	for i := 0; i < numAccounts; i++ {
		tx, _ := r.prod.buildTx(Op{Kind: OpVote, A: i, B: i % k, X: 0}, nil)
		txs = append(txs, tx)
	}
	return txs
}

// notarySetupTxs: once the Notary contract is active a notary node is designated and two accounts make deposits,
// so that notary-assisted (sponsored) transactions become possible.
func (r *run) notarySetupTxs() []*transaction.Transaction {
	var txs []*transaction.Transaction
	if r.P.BC.GetContractState(nativehashes.Notary) == nil {
		return nil
	}
	if tx, _ := r.prod.buildTx(Op{Kind: OpDesignate, A: 2, B: 5, X: 3, Y: 0}, nil); tx != nil {
		txs = append(txs, tx)
	}
	for _, a := range []int{0, 1} {
		if tx, _ := r.prod.buildTx(Op{Kind: OpNotary, A: a, X: 0, Y: 15, N: 1980}, nil); tx != nil {
			txs = append(txs, tx)
		}
	}
	r.out.Probes["notary_setup_block"]++
	return txs
}

// oracleSetupTxs (block 4 of plans with OracleSetup > 0): the committee designates Oracle nodes, a helper contract is
// deployed if none exists and, for some selector values, the committee sets a request price other than the default.
func (r *run) oracleSetupTxs() []*transaction.Transaction {
	var txs []*transaction.Transaction
	sel := r.plan.OracleSetup - 1
	if tx, _ := r.prod.buildTx(Op{Kind: OpDesignate, A: 1, B: (sel / 3) % numAccounts, X: 1, Y: sel % 3}, nil); tx != nil {
		txs = append(txs, tx)
	}
	if _, ok := r.prod.liveK(0); !ok {
		if tx, _ := r.prod.buildTx(Op{Kind: OpDeploy, A: 3, B: 0}, nil); tx != nil {
			txs = append(txs, tx)
		}
	}
	if ps := (sel / 18) % 4; ps != 0 {
		if tx, _ := r.prod.buildTx(Op{Kind: OpPolicy, A: 4, X: 5, Y: 3, N: int64(ps - 1)}, nil); tx != nil {
			txs = append(txs, tx)
		}
	}
	r.out.Probes["oracle_setup_block"]++
	return txs
}

// produce builds, signs and adds the next block on P and records the reference observation.
func (r *run) produce(bp BlockPlan, pre []*transaction.Transaction) (*block.Block, bool) {
	P := r.P
	P.Enter()
	bc := P.BC
	if r.plan.OracleSetup > 0 && bc.BlockHeight() == 3 {
		pre = append(pre, r.oracleSetupTxs()...)
	}
	for _, tx := range pre {
		if err := bc.PoolTx(tx); err != nil {
			if bc.BlockHeight() == 0 {
				sim.Harnessf("bootstrap tx rejected: %v", err)
			}
			r.out.Probes["tx_rejected_by_pool"]++
		}
	}
	for _, o := range bp.Ops {
		var tx *transaction.Transaction
		var desc string
		if v := sim.Recover(func() { tx, desc = r.prod.buildTx(o, nil) }); v != nil {
			if v.Class == "harness" || v.Class == "harness-panic" {
				sim.Harnessf("buildTx(%s): %s", opNames[o.Kind], v.Msg)
			}
			r.violate(v)
			return nil, false
		}
		if tx == nil {
			r.log.Addf("op %s: not applicable", opNames[o.Kind])
			continue
		}
		notPending := o.Kind == OpOracleResponse && tx.Hash() == r.prod.ora.unknownTx
		if err := bc.PoolTx(tx); err != nil {
			r.out.Probes["tx_rejected_by_pool"]++
			r.log.Addf("op %s: rejected by pool: %v", desc, errClass(err))
			if notPending {
				r.out.Probes["oracle_response_unknown_id_rejected"]++
			} else if o.Kind == OpOracleResponse {
				r.out.Probes["oracle_response_rejected_by_pool"]++
			}
			continue
		}
		if notPending {
			// (C07's admission clause; raised by whichever check generated the history, like pool-block-rejected)
			r.violate(sim.Violatef("invalid-tx-pooled", "invalid-tx-pooled/oracle-response-without-request", "the pool accepted %s: that request was answered in an earlier block or never made", desc))
			return nil, false
		}
		r.out.Probes["op_"+opNames[o.Kind]]++
		r.log.Addf("op %s", desc)
		if tx.HasAttribute(transaction.NotaryAssistedT) {
			r.out.Probes["notary_assisted_tx"]++
			// a second one for the same payer in the same block
			if tx2, _ := r.prod.notaryAssistedTx(o); tx2 != nil && bc.PoolTx(tx2) == nil {
				r.out.Probes["notary_assisted_tx"]++
				r.out.Probes["two_notary_txs_same_payer_same_block"]++
			}
		}
	}
	txs := bc.GetMemPool().GetVerifiedTransactions()
	txs = bc.ApplyPolicyToTxSet(txs)
	if bp.Reverse {
		for i, j := 0, len(txs)-1; i < j; i, j = i+1, j-1 {
			txs[i], txs[j] = txs[j], txs[i]
		}
	}
	b := r.newBlock(txs, bp)
	if err := bc.AddBlock(b); err != nil {
		r.violate(sim.Violatef("pool-block-rejected", "", "producer rejected the block it packed from its own pool at height %d: %v", b.Index, err))
		return nil, false
	}
	sim.Wait()
	for _, tx := range txs {
		r.prod.txLog = append(r.prod.txLog, tx.Hash())
		if r.prod.ora.stale[tx.Hash()] {
			if r.oraStaleAt == nil {
				r.oraStaleAt = map[uint32]bool{}
			}
			r.oraStaleAt[b.Index] = true
			r.out.Probes["oracle_response_to_request_older_than_max_traceable"]++
		}
		if r.prod.ora.nilResult[tx.Hash()] {
			r.oraNilResultAt = b.Index
			r.out.Probes["oracle_response_nil_result_executed_by_its_builder"]++
		}
	}
	r.prod.afterBlock(r, b)
	r.prod.oracleSync()
	if ns, _, err := bc.GetDesignatedByRole(noderoles.Oracle); err == nil && len(ns) > 0 {
		r.out.Probes["oracle_nodes_designated"]++
	}
	w := io.NewBufBinWriter()
	b.EncodeBinary(w.BinWriter)
	r.raw[b.Index] = w.Bytes()
	r.blks[b.Index] = b
	obs, err := Observe(P, r.w)
	if err != nil {
		sim.Harnessf("observe P: %v", err)
	}
	r.ref[b.Index] = obs
	r.log.Addf("block %d txs=%d root=%s", b.Index, len(txs), obs.Sections["stateroot"])
	if os.Getenv("VERIF_GOVDEBUG") != "" {
		r.log.Addf("  gov %s", obs.Detail["governance"])
	}
	r.tallyAERs(b)
	return b, true
}

func (r *run) tallyAERs(b *block.Block) {
	for _, tx := range b.Transactions {
		aers, err := r.P.BC.GetAppExecResults(tx.Hash(), 0x40)
		if err == nil && len(aers) > 0 {
			if aers[0].VMState.HasFlag(2) { // FAULT
				r.out.Probes["tx_fault"]++
				r.log.Addf("  tx %s FAULT %s", tx.Hash().StringLE()[:8], errClass(fmt.Errorf("%s", aers[0].FaultException)))
			} else {
				r.out.Probes["tx_halt"]++
			}
		}
	}
}

func errClass(err error) string {
	s := err.Error()
	if len(s) > 200 {
		s = s[:200]
	}
	return s
}

// newBlock assembles and signs the next block the way the consensus service does.
func (r *run) newBlock(txs []*transaction.Transaction, bp BlockPlan) *block.Block {
	bc := r.P.BC
	h := bc.BlockHeight()
	prev, err := bc.GetHeader(bc.GetHeaderHash(h))
	if err != nil {
		sim.Harnessf("top header: %v", err)
	}
	signers, err := bc.GetNextBlockValidators()
	if err != nil {
		sim.Harnessf("validators: %v", err)
	}
	vs, err := smartcontract.CreateDefaultMultiSigRedeemScript(signers)
	if err != nil {
		sim.Harnessf("multisig: %v", err)
	}
	next := bc.ComputeNextBlockValidators()
	ns, err := smartcontract.CreateDefaultMultiSigRedeemScript(next)
	if err != nil {
		sim.Harnessf("multisig: %v", err)
	}
	b := &block.Block{Header: block.Header{
		PrevHash:      prev.Hash(),
		Timestamp:     prev.Timestamp + 1 + uint64(bp.DT),
		Nonce:         uint64(h)*7919 + 13,
		Index:         h + 1,
		PrimaryIndex:  byte(bp.Primary % len(signers)),
		NextConsensus: hash.Hash160(ns),
		Script:        transaction.Witness{VerificationScript: vs},
	}, Transactions: txs}
	if r.plan.Proto.StateRootInHeader {
		b.StateRootEnabled = true
		b.PrevStateRoot = bc.GetStateModule().CurrentLocalStateRoot()
	}
	b.RebuildMerkleRoot()
	ms, err := r.prod.kr.multiSigner(signers, smartcontract.GetDefaultHonestNodeCount(len(signers)))
	if err != nil {
		sim.Harnessf("block signer: %v", err)
	}
	b.Script.InvocationScript = ms.SignHashable(uint32(bc.GetConfig().Magic), b)
	if hash.Hash160(vs) != prev.NextConsensus {
		r.out.Probes["validators_differ_from_prev_nextconsensus"]++
	}
	if hash.Hash160(ns) != hash.Hash160(vs) {
		r.out.Probes["validator_set_change"]++
		r.log.Addf("block %d hands the chain over to other validators", h+1)
	}
	return b
}

// afterBlock refreshes what the producer knows about its helper contracts.
func (p *producer) afterBlock(r *run, b *block.Block) {
	bc := p.n.BC
	for i := range p.ks {
		if p.kalive[i] {
			cs := bc.GetContractState(p.khash[i])
			if cs == nil {
				p.kalive[i] = false
				r.out.Probes["contract_destroyed"]++
			} else if cs.NEF.Checksum != p.ks[i].NEF.Checksum {
				p.kver[i]++
				p.ks[i] = buildK(fmt.Sprintf("K%d", i), p.kver[i])
				r.out.Probes["contract_updated"]++
			}
		}
	}
	// discover new deployments: any account may have deployed any variant of a slot's code seen so far
	for a := 0; a < numAccounts; a++ {
		for i := range p.ks {
			for v := byte(0); v <= p.kver[i]+1; v++ {
				h := p.variant(i, v).hashFor(p.kr.acctHash(a))
				if _, known := r.w.contracts[h]; known {
					continue
				}
				if cs := bc.GetContractState(h); cs != nil {
					r.w.contracts[h] = cs.ID
					p.khash[i] = h
					p.kalive[i] = true
					p.kowner[i] = a
					r.out.Probes["contract_deployed"]++
				}
			}
		}
	}
}

// variant returns (cached) helper contract code of slot i, variant v.
func (p *producer) variant(i int, v byte) *kContract {
	if p.vcache == nil {
		p.vcache = map[[2]byte]*kContract{}
	}
	k := [2]byte{byte(i), v}
	if c, ok := p.vcache[k]; ok {
		return c
	}
	c := buildK(fmt.Sprintf("K%d", i), v)
	p.vcache[k] = c
	return c
}

// runReplicated is the C01/C03/C05/C11 scenario: P produces, replicas follow.
func (r *run) runReplicated() {
	r.setupProducer()
	// (only where the property is the one this breaks, see oraState.asOracleNode and finding F-ora-1)
	r.prod.ora.asOracleNode = r.prop == "C01"
	r.prod.ora.answerStale = r.prop == "C01" // (finding F-ora-2)
	var reps []*Node
	for i, l := range r.plan.Locals {
		reps = append(reps, r.newNode(fmt.Sprintf("R%d", i), l))
	}
	ticks := map[int]int{}
	for _, t := range r.plan.Ticks {
		ticks[t]++
	}
	blocks := append([]BlockPlan{{}}, r.plan.Blocks...)
	for bi, bp := range blocks {
		var pre []*transaction.Transaction
		if bi == 0 {
			pre = r.bootstrapTxs()
		}
		if bi == 1 || bi == 2 {
			pre = r.electionTxs(bi)
		}
		if bi == 6 && r.plan.Proto.P2PSig {
			pre = r.notarySetupTxs()
		}
		b, ok := r.produce(bp, pre)
		if !ok {
			return
		}
		r.checkBlockOracles(r.P, b.Index)
		if r.fail != nil {
			return
		}
		for _, n := range reps {
			r.feed(n, b)
			if r.fail != nil {
				return
			}
		}
		if ticks[bi-1] > 0 {
			time.Sleep(1100 * time.Millisecond)
			sim.Wait()
			r.out.Faults["timer_flush_tick"]++
			r.log.Addf("tick after block %d", b.Index)
			if r.prop == "C11" {
				for _, n := range reps {
					r.auditC11(n, "after-timer-flush-and-gc")
					if r.fail != nil {
						return
					}
				}
			}
		}
	}
	r.finalChecks(reps)
}

// feed gives block b to replica n with its preload / flush / restart policy and compares observations.
func (r *run) feed(n *Node, b *block.Block) {
	n.Enter()
	l := n.Local
	switch l.Preload {
	case 1, 2:
		for i, tx := range b.Transactions {
			if l.Preload == 2 && i%2 == 1 {
				continue
			}
			cp, err := transaction.NewTransactionFromBytes(tx.Bytes())
			if err != nil {
				sim.Harnessf("tx re-decode: %v", err)
			}
			if err := n.BC.PoolTx(cp); err == nil {
				r.out.Probes["preloaded_tx"]++
			}
		}
	}
	var err error
	if r.tape.Chance(1, 12) {
		// the node's cache of decoded public keys has evicted everything (it must be transparent)
		keys.VerifPurgeKeyCache()
		r.out.Probes["key_cache_purged"]++
	}
	if l.FlushMode == 3 && r.tape.Chance(1, 2) {
		// the flush runs concurrently with AddBlock and lands at a tape-chosen place inside storeBlock
		var ferr error
		err, ferr = r.addBlockWithConcurrentFlush(n, r.raw[b.Index], l.FlushGC)
		if r.fail != nil {
			return
		}
		if ferr != nil {
			r.violate(sim.Violatef("persist-error", "", "%s concurrent flush during block %d: %v", n.Name, b.Index, ferr))
			return
		}
		r.log.Addf("%s block %d with a concurrent flush", n.Name, b.Index)
	} else if r.tape.Chance(1, 10) {
		// the same block from two sources at once
		var err2 error
		err, err2 = r.addBlockFromTwoSources(n, r.raw[b.Index])
		if r.fail != nil {
			return
		}
		r.log.Addf("%s block %d from two sources: %v / %v", n.Name, b.Index, err, err2)
		if !(err == nil && errors.Is(err2, core.ErrAlreadyExists)) && !(err2 == nil && errors.Is(err, core.ErrAlreadyExists)) {
			r.violate(sim.Violatef("duplicate-block-not-refused", "", "%s was given valid block %d by two callers at once; they were answered %v and %v (expected: one applies it, the other is told it exists already)", n.Name, b.Index, err, err2))
			return
		}
		err = nil
	} else if v := sim.Recover(func() { err = n.AddBlockBytes(r.raw[b.Index]) }); v != nil {
		v.Msg = fmt.Sprintf("%s AddBlock(%d) panicked: %s", n.Name, b.Index, v.Msg)
		r.violate(v)
		return
	}
	sim.Wait()
	if err != nil {
		r.violate(sim.Violatef("replica-rejected-block", "", "%s (%+v) rejected valid block %d: %v", n.Name, n.Local, b.Index, err))
		return
	}
	r.compare(n, b.Index, "after-block")
	if r.fail != nil {
		return
	}
	if r.prop == "C05" {
		if v := r.transferLogOfBlock(n, b.Index); v != nil {
			r.violate(v)
			return
		}
	}
	flushed := false
	switch l.FlushMode {
	case 1:
		flushed = true
	case 2:
		flushed = r.tape.Chance(1, 3)
	}
	if flushed {
		if err := n.BC.VerifPersist(l.FlushGC); err != nil {
			r.violate(sim.Violatef("persist-error", "", "%s flush after block %d: %v", n.Name, b.Index, err))
			return
		}
		sim.Wait()
		r.out.Faults["forced_flush"]++
		r.log.Addf("%s flush@%d", n.Name, b.Index)
		if r.prop == "C11" {
			r.auditC11(n, "after-flush")
			if r.fail != nil {
				return
			}
		}
		r.compare(n, b.Index, "after-flush")
		if r.fail != nil {
			return
		}
	}
	for _, at := range l.RestartPlan {
		if uint32(at) == b.Index {
			if err := n.Restart(); err != nil {
				r.violate(sim.Violatef("restart-failed", "", "%s (%+v) failed to reopen after block %d: %v", n.Name, n.Local, b.Index, err))
				return
			}
			r.out.Faults["clean_restart"]++
			r.log.Addf("%s restart@%d", n.Name, b.Index)
			if n.BC.BlockHeight() != b.Index {
				r.violate(sim.Violatef("restart-height", "", "%s reopened at height %d, expected %d", n.Name, n.BC.BlockHeight(), b.Index))
				return
			}
			r.compare(n, b.Index, "after-restart")
			if r.fail != nil {
				return
			}
			if r.prop == "C11" {
				r.auditC11(n, "after-restart")
				if r.fail != nil {
					return
				}
			}
			r.checkBlockOracles(n, b.Index)
			break
		}
	}
}

// compare checks the C01 oracle: node n's observation for height h equals the reference.
func (r *run) compare(n *Node, h uint32, when string) {
	obs, err := Observe(n, r.w)
	if err != nil {
		r.violate(sim.Violatef("observe-failed", "observe-failed/"+when, "%s (%+v) %s height %d: %v", n.Name, n.Local, when, h, err))
		return
	}
	ref := r.ref[h]
	if d := obs.Diff(ref); len(d) > 0 {
		msg := fmt.Sprintf("%s (%+v) differs from the producer at height %d %s in %v", n.Name, n.Local, h, when, d)
		for _, s := range d {
			msg += fmt.Sprintf("\n  %s: node=%s\n  %s: ref =%s", s, clip(obs.Detail[s]), s, clip(ref.Detail[s]))
			if s == "storage" {
				msg += "\n  storage diff: " + clip(listDiff(obs.Dump, ref.Dump))
			} else if s != "stateroot" {
				msg += "\n  " + s + " diff: " + clip(listDiff(strings.Fields(obs.Detail[s]), strings.Fields(ref.Detail[s])))
			}
		}
		sig := "divergence/" + when + "/" + d[0]
		if h == r.oraNilResultAt && onlyOracleResultKeyDiffers(d, obs, ref) {
			// finding F-ora-1: the producer executed a response transaction it had built itself with Result == nil (as
			// services/oracle does); the callback's Storage.Put of that result is a deletion there and an empty value
			// on every node that decoded the transaction from bytes
			sig += "+oracle-response-nil-result-on-its-builder"
		}
		if r.oracleOriginalTxNotKept(n, h) {
			sig += "+oracle-original-tx-not-kept"
		} else if when == "after-sync-lockstep" && r.syncPoint > 0 && r.ledgerVMStateOfBlockUpTo(h, r.syncPoint) {
			// finding F-led-1 (see ledgerVMStateOfBlockUpTo)
			sig += "+ledger-vmstate-of-unexecuted-tx"
		} else if when == "after-sync-lockstep" && r.syncPoint > 0 && r.ledgerTxFromBlockUpTo(h, r.syncPoint) {
			// finding F-led-2 (see ledgerTxFromBlockUpTo)
			sig += "+ledger-transaction-from-block-of-unexecuted-block"
		}
		r.violate(sim.Violatef("divergence", sig, "%s", msg))
	}
}

// oracleOriginalTxNotKept (finding F-ora-2): block h holds a response to a request older than MaxTraceableBlocks, and
// node n - unlike the producer - fails it with "oracle request not found": Oracle.finish looks the request's
// transaction up in the node's transaction store, and n (pruning, or synchronised from a state) does not keep it.
func (r *run) oracleOriginalTxNotKept(n *Node, h uint32) bool {
	b := r.blks[h]
	if !r.oraStaleAt[h] || b == nil {
		return false
	}
	const text = "oracle request not found"
	for _, tx := range b.Transactions {
		if !r.prod.ora.stale[tx.Hash()] {
			continue
		}
		an, err := n.BC.GetAppExecResults(tx.Hash(), trigger.Application)
		if err != nil || len(an) != 1 {
			continue
		}
		ap, err := r.P.BC.GetAppExecResults(tx.Hash(), trigger.Application)
		if err != nil || len(ap) != 1 {
			continue
		}
		if strings.Contains(an[0].FaultException, text) && !strings.Contains(ap[0].FaultException, text) {
			return true
		}
	}
	return false
}

// onlyOracleResultKeyDiffers: the observations differ in nothing but the helper contracts' "ores" items (and hence
// the state root).
func onlyOracleResultKeyDiffers(d []string, obs, ref *Observation) bool {
	for _, s := range d {
		if s != "stateroot" && s != "storage" {
			return false
		}
	}
	n := 0
	for _, dumps := range [2][2][]string{{obs.Dump, ref.Dump}, {ref.Dump, obs.Dump}} {
		other := map[string]bool{}
		for _, x := range dumps[1] {
			other[x] = true
		}
		for _, x := range dumps[0] {
			if other[x] {
				continue
			}
			i := strings.Index(x, "/")
			if i < 0 || !strings.HasPrefix(x[i+1:], fmt.Sprintf("%x=", "ores")) {
				return false
			}
			n++
		}
	}
	return n > 0
}

func clip(s string) string {
	if len(s) > 600 {
		return s[:600] + "..."
	}
	return s
}

// checkBlockOracles evaluates the per-block monitors of the property under check on node n.
func (r *run) checkBlockOracles(n *Node, h uint32) {
	switch r.prop {
	case "C05":
		r.checkC05(n, h)
	case "C03":
		r.checkC03(n, h)
	case "C11":
		r.checkC11(n, h)
	}
}

func (r *run) finalChecks(reps []*Node) {
	switch r.prop {
	case "C03":
		for _, n := range append([]*Node{r.P}, reps...) {
			r.finalC03(n)
		}
	case "C11":
		for _, n := range reps {
			r.finalC11(n)
		}
	}
	st := uint64(0)
	for h := uint32(1); h <= r.P.BC.BlockHeight(); h++ {
		if o := r.ref[h]; o != nil {
			st = sim.HashString(st, o.Key())
		}
	}
	r.out.StateHash = st
}

func listDiff(a, b []string) string {
	am := map[string]bool{}
	for _, x := range a {
		am[x] = true
	}
	bm := map[string]bool{}
	for _, x := range b {
		bm[x] = true
	}
	var d []string
	for _, x := range a {
		if !bm[x] {
			d = append(d, "node-only "+x)
		}
	}
	for _, x := range b {
		if !am[x] {
			d = append(d, "ref-only "+x)
		}
	}
	return strings.Join(d, "; ")
}
