package ledger

import (
	"github.com/nspcc-dev/neo-go/pkg/util"

	"verif/mptsim"
	"verif/sim"
)

// C11 at chain level: on replicas that keep only the latest state or garbage
// collect old states, the raw DataMPT records of the database are audited by
// the hand-written walker of mptsim after real flushes and GC passes.

func (r *run) checkC11(n *Node, h uint32) {
	if n == r.P {
		// the flat storage map of every height comes from the producer
		if r.flats == nil {
			r.flats = map[uint32]*flatState{}
		}
		if _, ok := r.flats[h]; !ok && n.BC.BlockHeight() == h {
			r.flats[h] = r.takeFlat(n)
		}
	}
}

func (r *run) auditC11(n *Node, when string) {
	if n.closed || !(n.Local.KeepLatest || n.Local.RemoveOld) {
		return
	}
	h := n.BC.BlockHeight()
	ref := r.ref[h]
	fs := r.flats[h]
	if ref == nil || fs == nil {
		return
	}
	if err := n.BC.VerifPersist(n.Local.FlushGC); err != nil {
		r.violate(sim.Violatef("persist-error", "", "%s flush: %v", n.Name, err))
		return
	}
	sim.Wait()
	root, err := util.Uint256DecodeStringLE(ref.Detail["stateroot"])
	if err != nil {
		sim.Harnessf("root: %v", err)
	}
	want := map[string][]byte{}
	for _, k := range fs.keys {
		want[k] = fs.kv[k]
	}
	a, kind, msg := mptsim.AuditStore(n.Disk, true, n.Local.RemoveOld, root, h, want)
	if kind != "" {
		r.violate(sim.Violatef("c11-"+kind, "", "%s (%+v) at height %d %s: %s", n.Name, n.Local, h, when, msg))
		return
	}
	r.out.Probes["c11_audits"]++
	r.out.Probes["c11_records"] += a.Records
	r.out.Probes["c11_inactive_records"] += a.Inactive
	if n.Local.RemoveOld {
		// roots still inside the retention window must be completely present
		for _, x := range r.retained(n) {
			rf := r.ref[x]
			if rf == nil || x == h {
				continue
			}
			rt, _ := util.Uint256DecodeStringLE(rf.Detail["stateroot"])
			if _, werr := mptsim.WalkRoot(n.Disk, true, rt); werr != "" && !n.Local.KeepLatest {
				r.violate(sim.Violatef("c11-retained-root", "", "%s (%+v): the state of retained height %d (current %d) is not completely stored: %s", n.Name, n.Local, x, h, werr))
				return
			}
			r.out.Probes["c11_retained_roots_walked"]++
		}
	}
}

func (r *run) finalC11(n *Node) {
	r.auditC11(n, "at the end")
}
