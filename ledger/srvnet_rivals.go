package ledger

import (
	"crypto/sha256"
	"fmt"
	"math/big"
	"time"

	"github.com/nspcc-dev/neo-go/pkg/core/transaction"
	"github.com/nspcc-dev/neo-go/pkg/crypto/keys"
	"github.com/nspcc-dev/neo-go/pkg/neotest"
	"github.com/nspcc-dev/neo-go/pkg/network"
	"github.com/nspcc-dev/neo-go/pkg/util"
	"github.com/nspcc-dev/neo-go/pkg/wallet"

	"verif/sim"
)

// SrvRival: two transactions Ta, Tb of one fresh account, each valid on its own and each paying more than half of the
// account's GAS in fees, are handed at the same instant to two disjoint groups of validators (Ta to the validators of
// MaskA, Tb to all others). Every node pools the one it is given and refuses the other when it arrives by gossip
// ("insufficient funds"): a transaction refused once over the P2P path has to be obtainable later all the same - when
// a primary proposes it, the backups that refused it fetch it (Server.RequestTx -> getdata -> tx -> consensus callback).
type SrvRival struct {
	AtMS  int   `json:"at"`
	MaskA uint8 `json:"mask_a"`
	From  int   `json:"from"` // account that funds the fresh account, 4 block times earlier
}

type rivalPair struct {
	a, b util.Uint256
	at   time.Duration
	vub  uint32
}

func rivalSigner(k int) neotest.SingleSigner {
	h := sha256.Sum256([]byte(fmt.Sprintf("verif-ledger-rival-%d", k)))
	pk, err := keys.NewPrivateKeyFromBytes(h[:])
	if err != nil {
		panic(err)
	}
	return neotest.NewSingleSigner(wallet.NewAccountFromPrivateKey(pk))
}

func (s *srvSim) scheduleRivals() {
	ns := s.ns
	r := s.r
	for k := range s.sp.Rivals {
		k := k
		rv := s.sp.Rivals[k]
		x := rivalSigner(k)
		ns.at(time.Duration(max(rv.AtMS-4*blockTimeMS, 500))*time.Millisecond, func() {
			bc := r.P.BC
			from := -1
			for i := 0; i < numAccounts; i++ {
				c := (rv.From + i) % numAccounts
				if bc.GetUtilityTokenBalance(r.prod.kr.acctHash(c), util.Uint160{}).Cmp(big.NewInt(4_0000_0000)) > 0 {
					from = c
					break
				}
			}
			if from < 0 {
				r.out.Probes["rivals_no_funder"]++
				return
			}
			a := r.prod.kr.acct(from)
			tx := ns.simpleTransfer(a, x.ScriptHash(), 2_0000_0000)
			neotest.AddNetworkFee(r.P.tb, bc, tx, a)
			if err := a.SignTx(bc.GetConfig().Magic, tx); err != nil {
				sim.Harnessf("sign: %v", err)
			}
			r.log.Addf("t=%dms client funds the rivals' account %d from account %d", s.ms(), k, from)
			ns.sendToTargets(tx, 0xff)
		})
		ns.at(time.Duration(rv.AtMS)*time.Millisecond, func() {
			bc := r.P.BC
			bal := bc.GetUtilityTokenBalance(x.ScriptHash(), util.Uint160{})
			if bal.Cmp(big.NewInt(1_0000_0000)) < 0 {
				r.out.Probes["rivals_unfunded"]++
				return
			}
			build := func(amount int64) *transaction.Transaction {
				tx := ns.simpleTransfer(x, r.prod.kr.acctHash(0), amount)
				tx.ValidUntilBlock = bc.BlockHeight() + bc.GetMaxValidUntilBlockIncrement()
				tx.SystemFee = bal.Int64() * 55 / 100
				neotest.AddNetworkFee(r.P.tb, bc, tx, x)
				if err := x.SignTx(bc.GetConfig().Magic, tx); err != nil {
					sim.Harnessf("sign: %v", err)
				}
				return tx
			}
			ta, tb := build(1), build(2)
			rawA, rawB := msgBytes(network.CMDTX, ta), msgBytes(network.CMDTX, tb)
			na, nb := 0, 0
			for i := 0; i < s.sp.Validators; i++ {
				if rv.MaskA&(1<<uint(i)) != 0 {
					ns.clientSend(i, rawA)
					na++
				} else {
					ns.clientSend(i, rawB)
					nb++
				}
			}
			r.out.Probes["rival_pairs_submitted"]++
			r.out.Probes[fmt.Sprintf("rival_pairs_split_%d_%d", max(na, nb), min(na, nb))]++
			r.log.Addf("t=%dms client hands rival transactions %s (to %d validators) and %s (to %d validators), height %d", s.ms(), ta.Hash().StringLE()[:8], na, tb.Hash().StringLE()[:8], nb, bc.BlockHeight())
			pair := rivalPair{a: ta.Hash(), b: tb.Hash(), at: s.now(), vub: ta.ValidUntilBlock}
			// the pair counts once each of the two is in the pool of a validator it was handed to
			ns.at(s.now()+time.Millisecond, func() {
				ha, hb := 0, 0
				for i := 0; i < s.sp.Validators; i++ {
					mp := s.nodes[i].n.BC.GetMemPool()
					if mp.ContainsKey(pair.a) {
						ha++
					}
					if mp.ContainsKey(pair.b) {
						hb++
					}
				}
				if ha == 0 || hb == 0 {
					r.out.Probes["rival_pair_not_pooled_on_both_sides"]++
					return
				}
				r.out.Probes["rival_pairs_pooled_on_both_sides"]++
				s.rivals = append(s.rivals, pair)
			})
		})
	}
}

// checkRivals (fault-free configuration): one transaction of every pair - both are pending and valid until one of them
// is on chain - is on chain 10 block times after the pair was handed to the validators.
func (s *srvSim) checkRivals(endAt time.Duration) bool {
	r := s.r
	bc := s.nodes[0].n.BC
	for _, p := range s.rivals {
		if p.at+10*time.Duration(s.maxBlockTimeMS)*time.Millisecond > endAt {
			continue
		}
		_, _, ea := bc.GetTransaction(p.a)
		_, _, eb := bc.GetTransaction(p.b)
		if ea == nil || eb == nil {
			// (GetTransaction also answers for pooled transactions)
			_, inA := bc.GetMemPool().TryGetValue(p.a)
			_, inB := bc.GetMemPool().TryGetValue(p.b)
			if (ea == nil && !inA) || (eb == nil && !inB) {
				r.out.Probes["rival_pair_one_included"]++
				continue
			}
		}
		held := 0
		for i := 0; i < s.sp.Validators; i++ {
			mp := s.nodes[i].n.BC.GetMemPool()
			if mp.ContainsKey(p.a) || mp.ContainsKey(p.b) {
				held++
			}
		}
		r.violate(sim.Violatef("liveness", "liveness/rival-tx", "fault-free configuration: two valid transactions of one account (each affordable alone) were handed to disjoint groups of validators at %d ms; at %d ms (height %d, both valid until block %d) neither is on chain; %d validators still hold one of them in their pools",
			p.at/time.Millisecond, endAt/time.Millisecond, bc.BlockHeight(), p.vub, held))
		return false
	}
	return true
}
