package ledger

import (
	"fmt"
	"github.com/nspcc-dev/neo-go/pkg/core/mempool"
	"github.com/nspcc-dev/neo-go/pkg/core/native/nativehashes"
	"github.com/nspcc-dev/neo-go/pkg/neotest"
	"os"
	"sort"
	"strings"
	"time"

	"github.com/nspcc-dev/neo-go/pkg/config"
	"github.com/nspcc-dev/neo-go/pkg/core/state"
	"github.com/nspcc-dev/neo-go/pkg/core/storage"
	nio "github.com/nspcc-dev/neo-go/pkg/io"
	"github.com/nspcc-dev/neo-go/pkg/neotest/chain"
	"github.com/nspcc-dev/neo-go/pkg/smartcontract/trigger"

	"github.com/nspcc-dev/neo-go/pkg/core/block"
	"github.com/nspcc-dev/neo-go/pkg/core/transaction"
	"pgregory.net/rapid"

	"verif/sim"
	"verif/simdisk"
)

// C02: crash at every batch boundary of the victim's durable write log.

// CrashPlan parameterises the C02 scenarios.
type CrashPlan struct {
	Scenario     int   `json:"scenario"`          // 0 ordinary persistence (+GC), 1 state reset
	ResetBack    int   `json:"reset_back"`        // reset target = final height - ResetBack
	HeadersAhead []int `json:"headers,omitempty"` // at these block indices the victim first receives the headers of the next 1-3 blocks
	FailFlush    []int `json:"failflush,omitempty"`
	MaxPoints    int   `json:"maxpoints"` // crash points examined (0 = all)
	ImageKind    int   `json:"imagekind"` // backend the crash images are rebuilt on
	// ConcurrentFlush: for a third of the blocks the flush runs as a second goroutine and is placed inside storeBlock
	ConcurrentFlush bool `json:"concurrent_flush,omitempty"`
}

func drawC02(rt *rapid.T, p *Plan, tier string) *Plan {
	maxB := 16
	if tier == "thorough" {
		maxB = 40
	}
	p.Blocks = drawBlocks(rt, 2, maxB, p.Proto.P2PSig)
	long := rapid.IntRange(0, 3).Draw(rt, "longchain") == 0
	if long {
		// a chain that crosses header hash pages (16 headers under the verif build tag) with a short traceable
		// window, so that block, header and header-page removal by the GC land among the crash points
		for n := rapid.IntRange(18, 30).Draw(rt, "nempty"); n > 0; n-- {
			p.Blocks = append(p.Blocks, BlockPlan{})
		}
		p.Proto.MTB = 8
	}
	l := drawLocal(rt, len(p.Blocks))
	if long {
		l.RemoveOld = true
		l.GCPeriod = uint32(rapid.IntRange(1, 3).Draw(rt, "gcplong"))
		l.FlushGC = true
	}
	l.RestartPlan = nil
	l.FlushMode = 1 + rapid.IntRange(0, 1).Draw(rt, "vflush") // (the concurrent flush of C02 is drawn separately)
	p.Locals = []Local{l}
	cp := &CrashPlan{}
	cp.Scenario = rapid.IntRange(0, 3).Draw(rt, "scenario") / 3 // 1 in 4 runs exercises reset
	cp.ResetBack = rapid.IntRange(1, 6).Draw(rt, "resetback")
	nh := rapid.IntRange(0, 2).Draw(rt, "nheaders")
	if long {
		// (headers run ahead of blocks more often and further: the in-memory header chain completes hash pages the
		// flushed one has not reached while the garbage collection works on the pages behind)
		nh = rapid.IntRange(1, 5).Draw(rt, "nheaderslong")
	}
	for i := 0; i < nh; i++ {
		cp.HeadersAhead = append(cp.HeadersAhead, rapid.IntRange(0, len(p.Blocks)).Draw(rt, "hdrAt"))
	}
	nf := rapid.IntRange(0, 2).Draw(rt, "nfail")
	for i := 0; i < nf; i++ {
		cp.FailFlush = append(cp.FailFlush, rapid.IntRange(0, len(p.Blocks)).Draw(rt, "failAt"))
	}
	if tier == "thorough" {
		cp.MaxPoints = 0
	} else {
		cp.MaxPoints = 10
	}
	cp.ImageKind = l.Backend % 3
	cp.ConcurrentFlush = rapid.Bool().Draw(rt, "concflush")
	p.Crash = cp
	nt := rapid.IntRange(0, 2).Draw(rt, "nticks")
	for i := 0; i < nt; i++ {
		p.Ticks = append(p.Ticks, rapid.IntRange(0, len(p.Blocks)-1).Draw(rt, "tick"))
	}
	p.Election = drawElection(rt)
	p.Tape = drawTape(rt, 256)
	return p
}

type mark struct {
	batches   int
	accepted  uint32
	persisted uint32
}

func (r *run) runC02() {
	cp := r.plan.Crash
	if cp == nil || len(r.plan.Locals) == 0 {
		sim.Harnessf("C02 plan without crash section")
	}
	r.setupProducer()
	// produce the whole history first: the victim may receive headers ahead of blocks
	blocks := append([]BlockPlan{{}}, r.plan.Blocks...)
	var chain []*block.Block
	for bi, bp := range blocks {
		var pre []*transaction.Transaction
		if bi == 0 {
			pre = r.bootstrapTxs()
		}
		if bi == 1 || bi == 2 {
			pre = r.electionTxs(bi)
		}
		b, ok := r.produce(bp, pre)
		if !ok {
			return
		}
		chain = append(chain, b)
	}
	if cp.Scenario == 1 {
		// reset runs end with a block that will be dropped by the reset and carries a transaction naming (Conflicts) a
		// valid transaction of the same account that is never sent: the node reset below that block has to judge the
		// named transaction as a node does that only ever synchronised to the target
		if v := sim.Recover(func() {
			a := r.prod.kr.acct(1)
			bc := r.P.BC
			mk := func(amount int64, names *transaction.Transaction) *transaction.Transaction {
				tx := transaction.New(callScript(nativehashes.GasToken, "transfer", a.ScriptHash(), r.prod.kr.acctHash(2), amount, nil), 0)
				r.prod.nonce++
				tx.Nonce = r.prod.nonce
				tx.ValidUntilBlock = bc.BlockHeight() + 1
				if names != nil {
					tx.Attributes = []transaction.Attribute{{Type: transaction.ConflictsT, Value: &transaction.Conflicts{Hash: names.Hash()}}}
				}
				r.prod.finishTx(tx, []neotest.Signer{a})
				return tx
			}
			victim := mk(11, nil)
			namer := mk(12, victim)
			if b, ok := r.produce(BlockPlan{}, []*transaction.Transaction{namer}); ok {
				chain = append(chain, b)
				r.resetVictim = victim
				r.out.Probes["reset_drops_a_block_naming_an_unsent_transaction"]++
			}
		}); v != nil && v.Class != "harness" && v.Class != "harness-panic" {
			r.violate(v)
			return
		}
		if r.fail != nil {
			return
		}
	}
	L := uint32(len(chain))
	V := r.newNode("V", r.plan.Locals[0])
	hdrAt := map[int]bool{}
	for _, x := range cp.HeadersAhead {
		hdrAt[x] = true
	}
	failAt := map[int]int{}
	for _, x := range cp.FailFlush {
		failAt[x]++
	}
	ticks := map[int]int{}
	for _, t := range r.plan.Ticks {
		ticks[t]++
	}
	var marks []mark
	note := func() {
		marks = append(marks, mark{V.Disk.Batches(), V.BC.BlockHeight(), V.BC.VerifPersistedHeight()})
	}
	note()
	for i, b := range chain {
		if hdrAt[i] && V.BC.HeaderHeight() < b.Index {
			var hs []*block.Header
			ahead := 1 + r.tape.Choose(3)
			if len(chain) > 30 && r.tape.Chance(1, 2) {
				ahead = 1 + r.tape.Choose(18)
			}
			for j := i; j < len(chain) && j < i+ahead; j++ {
				hs = append(hs, &chain[j].Header)
			}
			if err := V.BC.AddHeaders(hs...); err != nil {
				r.violate(sim.Violatef("headers-rejected", "", "V rejected valid headers %d..%d: %v", hs[0].Index, hs[len(hs)-1].Index, err))
				return
			}
			r.out.Probes["headers_ahead_of_blocks"]++
			r.log.Addf("V headers %d..%d", hs[0].Index, hs[len(hs)-1].Index)
			if err := V.BC.VerifPersist(false); err != nil {
				r.violate(sim.Violatef("persist-error", "", "V flush after headers: %v", err))
				return
			}
			sim.Wait()
			note()
		}
		// (the block whose header completes a header hash page always gets the concurrent flush: the page bookkeeping of
		// the flush and of the garbage collection after it then sees the chain on both sides of the page boundary)
		if V.BC.BlockHeight() >= b.Index {
			// (delivered already, between the flush and the garbage collection of the previous round)
		} else if cp.ConcurrentFlush && (r.tape.Chance(1, 3) || b.Index%16 == 15) {
			// the flush runs concurrently with this AddBlock and lands at a tape-chosen place inside storeBlock
			aerr, ferr := r.addBlockWithConcurrentFlush(V, r.raw[b.Index], V.Local.FlushGC)
			if r.fail != nil {
				return
			}
			if aerr != nil {
				r.violate(sim.Violatef("replica-rejected-block", "", "V (%+v) rejected valid block %d (with a concurrent flush): %v", V.Local, b.Index, aerr))
				return
			}
			if ferr != nil {
				r.violate(sim.Violatef("persist-error", "", "V concurrent flush during block %d: %v", b.Index, ferr))
				return
			}
			r.log.Addf("V block %d with a concurrent flush, batches=%d", b.Index, V.Disk.Batches())
		} else if err := V.AddBlockBytes(r.raw[b.Index]); err != nil {
			r.violate(sim.Violatef("replica-rejected-block", "", "V (%+v) rejected valid block %d: %v", V.Local, b.Index, err))
			return
		}
		sim.Wait()
		note()
		flush := V.Local.FlushMode == 1 || r.tape.Chance(1, 2)
		if failAt[i] > 0 {
			V.Disk.FailBatch(1)
			err := V.BC.VerifPersist(false)
			sim.Wait()
			V.Disk.Disarm() // if there was nothing to write the failure must not hit a later, unrelated flush
			if err == nil {
				// nothing to write is fine; otherwise the injected error must surface
				r.out.Probes["failflush_nothing_to_write"]++
			} else {
				r.out.Faults["disk_full_on_flush"]++
				r.log.Addf("V flush@%d failed: injected", b.Index)
			}
			note()
			r.compare(V, b.Index, "after-failed-flush")
			if r.fail != nil {
				return
			}
			flush = true
		}
		if flush {
			// one flush in four (always before a block whose header completes a hash page) has the next block accepted
			// between the flush and the garbage collection of the same round, as the Run loop allows
			var between func()
			var berr error
			if V.Local.FlushGC && i+1 < len(chain) && (r.tape.Chance(1, 4) || chain[i+1].Index%16 == 15) {
				nb := chain[i+1]
				between = func() {
					berr = V.AddBlockBytes(r.raw[nb.Index])
					r.out.Probes["block_accepted_between_flush_and_gc"]++
				}
			}
			if err := V.BC.VerifPersistWith(V.Local.FlushGC, between); err != nil {
				r.violate(sim.Violatef("persist-error", "", "V flush after block %d: %v", b.Index, err))
				return
			}
			if berr != nil {
				r.violate(sim.Violatef("replica-rejected-block", "", "V (%+v) rejected valid block %d (between flush and garbage collection): %v", V.Local, b.Index+1, berr))
				return
			}
			sim.Wait()
			r.out.Faults["forced_flush"]++
			r.log.Addf("V flush@%d batches=%d", b.Index, V.Disk.Batches())
			note()
		}
		if ticks[i] > 0 {
			sleepTick()
			r.out.Faults["timer_flush_tick"]++
			note()
		}
	}
	r.compare(V, L, "victim-final")
	if r.fail != nil {
		return
	}
	if cp.Scenario == 1 && !V.Local.KeepLatest {
		r.resetScenario(V, chain, cp)
		return
	}
	// clean stop flushes the rest: the log is complete now
	V.Stop()
	r.crashSweep(V, chain, marks, cp, L)
}

func sleepTick() {
	sleepMS(1100)
	sim.Wait()
}

// crashSweep examines the crash points of the victim's write log.
func (r *run) crashSweep(V *Node, chain []*block.Block, marks []mark, cp *CrashPlan, L uint32) {
	B := V.Disk.Batches()
	kinds := V.Disk.BatchKinds()
	for _, k := range kinds {
		if len(k) > 2 && k[:2] == "gc" {
			r.out.Probes["gc_batches"]++
		}
	}
	r.out.Probes["batches"] += B
	points := make([]int, 0, B+1)
	for k := 0; k <= B; k++ {
		points = append(points, k)
	}
	if cp.MaxPoints > 0 && len(points) > cp.MaxPoints {
		// tape-chosen subset, always including the first and last
		sel := map[int]bool{0: true, B: true}
		// (the states right after a garbage collection batch are rare among all batch boundaries and special: up to six
		// of them, tape-chosen, are always among the crash points)
		var gcs []int
		for k := 1; k <= B && k <= len(kinds); k++ {
			if len(kinds[k-1]) > 2 && kinds[k-1][:2] == "gc" {
				gcs = append(gcs, k)
			}
		}
		for n := 0; n < 6 && len(gcs) > 0; n++ {
			i := r.tape.Choose(len(gcs))
			sel[gcs[i]] = true
			gcs = append(gcs[:i], gcs[i+1:]...)
		}
		for len(sel) < cp.MaxPoints+6 {
			sel[r.tape.Choose(B+1)] = true
			if r.tape.Used > 4000 {
				break
			}
		}
		points = points[:0]
		for k := 0; k <= B; k++ {
			if sel[k] {
				points = append(points, k)
			}
		}
	} else {
		r.out.Probes["all_crash_points_enumerated"]++
	}
	for _, k := range points {
		lower := uint32(0)
		for _, m := range marks {
			if m.batches <= k && m.persisted > lower {
				lower = m.persisted
			}
		}
		r.crashPoint(V, k, lower, L)
		if r.fail != nil {
			return
		}
	}
}

func (r *run) imageDir(kind int) string {
	if kind%3 == simdisk.Memory {
		return ""
	}
	d, err := os.MkdirTemp("", "verif-image-*")
	if err != nil {
		sim.Harnessf("mkdtemp: %v", err)
	}
	return d
}

// crashPoint reopens the database as a power loss after batch k leaves it.
func (r *run) crashPoint(V *Node, k int, lower, L uint32) {
	kind := r.plan.Crash.ImageKind
	dir := r.imageDir(kind)
	img, err := V.Disk.Image(k, kind, dir)
	if err != nil {
		sim.Harnessf("image: %v", err)
	}
	r.out.Faults["crash_at_batch_boundary"]++
	var n *Node
	var oerr error
	if v := sim.Recover(func() { n, oerr = NewNodeOnDisk(r.t, fmt.Sprintf("V@%d", k), r.plan.Proto, V.Local, img) }); v != nil {
		if n != nil {
			r.nodes = append(r.nodes, n)
		}
		v.Msg = fmt.Sprintf("reopening after a crash at batch %d/%d panicked: %s", k, V.Disk.Batches(), v.Msg)
		r.violate(v)
		return
	}
	r.nodes = append(r.nodes, n)
	defer func() {
		n.Destroy()
		r.nodes = r.nodes[:len(r.nodes)-1]
	}()
	if oerr != nil {
		r.violate(sim.Violatef("crash-reopen-failed", "", "database after a crash at batch %d/%d (kinds %v) cannot be opened: %v", k, V.Disk.Batches(), tailS(V.Disk.BatchKinds(), k), oerr))
		return
	}
	h := n.BC.BlockHeight()
	r.log.Addf("crash@%d -> height %d (>= %d)", k, h, lower)
	if h > L || h < lower {
		r.violate(sim.Violatef("crash-height", "", "after a crash at batch %d the node is at height %d; durable flushes had reached %d, last accepted block is %d", k, h, lower, L))
		return
	}
	if h < L {
		r.out.Probes["crash_lost_unflushed_blocks"]++
	}
	if h > 0 {
		r.compare(n, h, fmt.Sprintf("after-crash"))
		if r.fail != nil {
			r.fail.Msg = fmt.Sprintf("crash at batch %d/%d: %s", k, V.Disk.Batches(), r.fail.Msg)
			return
		}
	}
	for x := h + 1; x <= L; x++ {
		if err := n.AddBlockBytes(r.raw[x]); err != nil {
			r.violate(sim.Violatef("crash-resume-rejected", "", "node recovered at height %d after a crash at batch %d rejects block %d: %v", h, k, x, err))
			return
		}
		sim.Wait()
		sr, err := n.BC.GetStateRoot(x)
		if err != nil || sr.Root.StringLE() != r.ref[x].Detail["stateroot"] {
			r.violate(sim.Violatef("crash-resume-root", "", "node recovered at height %d after a crash at batch %d has state root %v at height %d, expected %s (%v)", h, k, sr, x, r.ref[x].Detail["stateroot"], err))
			return
		}
	}
	if h < L {
		r.compare(n, L, "after-crash-resume")
		if r.fail != nil {
			r.fail.Msg = fmt.Sprintf("crash at batch %d/%d, recovered at %d: %s", k, V.Disk.Batches(), h, r.fail.Msg)
			return
		}
		// what the recovered node wrote while it caught up must itself be a database a node starts from: one run in
		// two ends with a clean stop and another start (whatever the first start derived from the half-written
		// state - header hash pages, caches, GC bookkeeping - has been carried through the blocks since)
		if r.tape.Chance(1, 2) {
			var rerr error
			if v := sim.Recover(func() { rerr = n.Restart() }); v != nil {
				v.Msg = fmt.Sprintf("crash at batch %d/%d, recovered at %d, resumed to %d: the next clean restart panicked: %s", k, V.Disk.Batches(), h, L, v.Msg)
				r.violate(v)
				return
			}
			if rerr != nil {
				r.violate(sim.Violatef("crash-resume-restart-failed", "", "crash at batch %d/%d, recovered at height %d, resumed to %d, stopped cleanly: the database cannot be opened again: %v", k, V.Disk.Batches(), h, L, rerr))
				return
			}
			r.out.Probes["crash_resume_then_clean_restart"]++
			if n.BC.BlockHeight() != L {
				r.violate(sim.Violatef("crash-height", "", "crash at batch %d, recovered at %d, resumed to %d: after a clean restart the node is at height %d", k, h, L, n.BC.BlockHeight()))
				return
			}
			r.compare(n, L, "after-crash-resume-restart")
			if r.fail != nil {
				r.fail.Msg = fmt.Sprintf("crash at batch %d/%d, recovered at %d, resumed and restarted: %s", k, V.Disk.Batches(), h, r.fail.Msg)
			}
		}
	}
}

func tailS(s []string, k int) []string {
	if k > len(s) {
		k = len(s)
	}
	lo := max(0, k-4)
	return s[lo:k]
}

func sleepMS(ms int) { time.Sleep(time.Duration(ms) * time.Millisecond) }

// openNoRun opens a Blockchain on disk d without starting Run (needed by Reset).
func (r *run) openNoRun(name string, l Local, d *simdisk.Disk) (*Node, error) {
	n := &Node{Name: name, Local: l, Proto: r.plan.Proto, logs: &logCore{counts: map[string]int{}}, tb: &tbShim{TB: r.t}, Disk: d}
	if d.Dir != "" {
		n.dirs = append(n.dirs, d.Dir)
	}
	bc, _, _, err := chain.NewMultiWithOptionsNoCheck(n.tb, &chain.Options{
		Logger: newLogger(n.logs),
		Store:  d,
		BlockchainConfigHook: func(c *config.Blockchain) {
			n.Proto.apply(c)
			n.Local.apply(c)
		},
		SkipRun: true,
	})
	if err != nil {
		return n, err
	}
	n.BC = bc
	n.closed = true // nothing to stop: Run was never started
	return n, nil
}

// transferView is the node-local token bookkeeping the reset statement covers.
func transferView(n *Node, w *world) string {
	var sb strings.Builder
	for i, a := range w.accounts {
		cnt := 0
		_ = n.BC.ForEachNEP17Transfer(a, ^uint64(0)>>1, func(t *state.NEP17Transfer) (bool, error) {
			fmt.Fprintf(&sb, "a%d:%d:%s:%s:%d|", i, t.Asset, t.Counterparty.StringLE()[:6], t.Amount, t.Block)
			cnt++
			return cnt < 64, nil
		})
		lu, err := n.BC.GetTokenLastUpdated(a)
		if err == nil {
			var ks []int
			for k := range lu {
				ks = append(ks, int(k))
			}
			sort.Ints(ks)
			for _, k := range ks {
				fmt.Fprintf(&sb, "lu%d:%d=%d|", i, k, lu[int32(k)])
			}
		}
	}
	return sb.String()
}

// resetScenario: Blockchain.Reset(h) on the stopped victim, crash after every batch of the reset.
func (r *run) resetScenario(V *Node, chainBlocks []*block.Block, cp *CrashPlan) {
	L := uint32(len(chainBlocks))
	target := uint32(1)
	if int(L)-cp.ResetBack > 1 {
		target = L - uint32(cp.ResetBack)
	}
	// one reset in three of a chain that has stored header hash pages (16 headers under the verif build tag) goes back to
	// the last height of a page or the first of the next one: the page arithmetic of the reset sits on its boundaries
	if L > 17 && r.tape.Chance(1, 3) {
		edge := (L-1)/16*16 - 1 + uint32(r.tape.Choose(2))
		if edge >= 1 && edge < L {
			target = edge
			r.out.Probes["reset_to_header_page_edge"]++
		}
	}
	V.Stop()
	B := V.Disk.Batches()
	kind := cp.ImageKind
	// --- uninterrupted twin
	twinDisk, err := V.Disk.Image(B, kind, r.imageDir(kind))
	if err != nil {
		sim.Harnessf("image: %v", err)
	}
	twin, err := r.openNoRun("twin", V.Local, twinDisk)
	r.nodes = append(r.nodes, twin)
	if err != nil {
		r.violate(sim.Violatef("reset-open-failed", "", "cannot open the stopped victim's database: %v", err))
		return
	}
	var rerr error
	if v := sim.Recover(func() { rerr = twin.BC.Reset(target) }); v != nil {
		v.Msg = fmt.Sprintf("Reset(%d) from %d panicked: %s", target, L, v.Msg)
		r.violate(v)
		return
	}
	sim.Wait()
	if rerr != nil {
		// refusing is legal (pruned data); nothing more to check in this run
		r.out.Probes["reset_refused"]++
		r.log.Addf("reset to %d refused: %s", target, errClass(rerr))
		return
	}
	r.out.Faults["state_reset"]++
	if err := twinDisk.Reopen(); err != nil {
		sim.Harnessf("reopen twin: %v", err)
	}
	refDump := twinDisk.Dump()
	if len(refDump) == 0 {
		sim.Harnessf("empty reference dump")
	}
	r.log.Addf("reset %d -> %d: %d batches, dump %d pairs", L, target, twinDisk.Batches()-1, len(refDump))
	_ = twinDisk.Close()
	// the completed reset, reopened normally, must look like a node that only ever synchronised to `target`
	if err := twinDisk.Reopen(); err != nil {
		sim.Harnessf("reopen: %v", err)
	}
	done, err := NewNodeOnDisk(r.t, "reset-done", r.plan.Proto, V.Local, twinDisk)
	r.nodes = append(r.nodes, done)
	if err != nil {
		r.violate(sim.Violatef("reset-reopen-failed", "", "database after a completed reset to %d cannot be opened: %v", target, err))
		return
	}
	fresh := r.newNode("fresh", V.Local)
	for x := uint32(1); x <= target; x++ {
		if err := fresh.AddBlockBytes(r.raw[x]); err != nil {
			sim.Harnessf("fresh node rejected block %d: %v", x, err)
		}
	}
	sim.Wait()
	r.resetEquivalence(done, fresh, target, L)
	if r.fail != nil {
		return
	}
	// --- crash after every batch of the reset
	R := twinDisk.Batches() // includes the synthetic image batch at index 0
	for j := 1; j <= R; j++ {
		img, err := twinDisk.Image(j, kind, r.imageDir(kind))
		if err != nil {
			sim.Harnessf("image: %v", err)
		}
		r.out.Faults["crash_during_reset"]++
		var n *Node
		var oerr error
		if v := sim.Recover(func() { n, oerr = NewNodeOnDisk(r.t, fmt.Sprintf("reset@%d", j), r.plan.Proto, V.Local, img) }); v != nil {
			if n != nil {
				r.nodes = append(r.nodes, n)
			}
			v.Msg = fmt.Sprintf("reopening after a crash at reset batch %d/%d panicked: %s", j, R, v.Msg)
			r.violate(v)
			return
		}
		r.nodes = append(r.nodes, n)
		if oerr != nil {
			r.violate(sim.Violatef("reset-resume-failed", "", "database after a crash at reset batch %d/%d cannot be opened: %v", j, R, oerr))
			return
		}
		h := n.BC.BlockHeight()
		r.log.Addf("reset crash@%d/%d -> height %d", j, R, h)
		switch h {
		case L:
			r.out.Probes["reset_crash_before_marker"]++
			r.compare(n, L, "after-reset-crash")
		case target:
			r.out.Probes["reset_resumed"]++
			r.compare(n, target, "after-reset-resume")
			if r.fail == nil && j%2 == 0 {
				// the resumed node goes on in the same process: the next blocks must be accepted with the reference roots
				// (done for every second crash point; the other half keeps the database as resumed for the dump comparison)
				for x := target + 1; x <= L; x++ {
					var aerr error
					if pv := sim.Recover(func() { aerr = n.AddBlockBytes(r.raw[x]) }); pv != nil {
						pv.Msg = fmt.Sprintf("AddBlock(%d) on a node that resumed an interrupted reset (crash at batch %d/%d) panicked: %s", x, j, R, pv.Msg)
						r.violate(pv)
						break
					}
					sim.Wait()
					if aerr != nil {
						r.violate(sim.Violatef("reset-resume-continue", "", "node that resumed an interrupted reset (crash at batch %d/%d) rejects block %d: %v", j, R, x, aerr))
						break
					}
				}
				if r.fail == nil && L > target {
					r.compare(n, L, "after-reset-resume-continue")
				}
				r.out.Probes["reset_resumed_then_continued"]++
			} else if r.fail == nil {
				n.Stop()
				if err := img.Reopen(); err != nil {
					sim.Harnessf("reopen image: %v", err)
				}
				got := img.Dump()
				if d := dumpDiff(got, refDump); d != "" {
					r.violate(sim.Violatef("reset-resume-dump", "", "reset interrupted after batch %d/%d and resumed on restart ends in a different database than an uninterrupted reset: %s", j, R, d))
				}
			}
		default:
			r.violate(sim.Violatef("reset-resume-height", "", "after a crash at reset batch %d/%d the node is at height %d (reset %d -> %d)", j, R, h, L, target))
		}
		n.Destroy()
		r.nodes = r.nodes[:len(r.nodes)-1]
		if r.fail != nil {
			r.fail.Msg = fmt.Sprintf("reset %d->%d: %s", L, target, r.fail.Msg)
			return
		}
	}
}

// canonValue removes encoding freedom that carries no content: TokenTransferInfo
// records serialise a Go map in iteration order (state/tokens.go EncodeBinary).
func canonValue(k, v string) string {
	if len(k) == 0 || k[0] != byte(storage.STTokenTransferInfo) {
		return v
	}
	var ti state.TokenTransferInfo
	r := nio.NewBinReaderFromBuf([]byte(v))
	ti.DecodeBinary(r)
	if r.Err != nil {
		return v
	}
	var ks []int
	for id := range ti.LastUpdated {
		ks = append(ks, int(id))
	}
	sort.Ints(ks)
	out := fmt.Sprintf("tti:%d:%d:%d:%d:%v:%v", ti.NextNEP11Batch, ti.NextNEP17Batch, ti.NextNEP11NewestTimestamp, ti.NextNEP17NewestTimestamp, ti.NewNEP11Batch, ti.NewNEP17Batch)
	for _, id := range ks {
		out += fmt.Sprintf(":%d=%d", id, ti.LastUpdated[int32(id)])
	}
	return out
}

func dumpDiff(a, b []simdisk.KV) string {
	am := map[string]string{}
	for _, kv := range a {
		am[kv.K] = canonValue(kv.K, kv.V)
	}
	bm := map[string]string{}
	for _, kv := range b {
		bm[kv.K] = canonValue(kv.K, kv.V)
	}
	var d []string
	for k, v := range am {
		if bv, ok := bm[k]; !ok {
			d = append(d, fmt.Sprintf("extra key %x", k))
		} else if bv != v {
			d = append(d, fmt.Sprintf("key %x differs: %x vs %x", k, v, bv))
		}
	}
	for k := range bm {
		if _, ok := am[k]; !ok {
			d = append(d, fmt.Sprintf("missing key %x", k))
		}
	}
	sort.Strings(d)
	if len(d) == 0 {
		return ""
	}
	if len(d) > 6 {
		d = append(d[:6], fmt.Sprintf("... %d differences", len(d)))
	}
	return strings.Join(d, "; ")
}

// resetEquivalence: a node reset to `target` is observationally a node that only ever synchronised to it.
func (r *run) resetEquivalence(done, fresh *Node, target, L uint32) {
	if done.BC.BlockHeight() != target || done.BC.HeaderHeight() != target {
		r.violate(sim.Violatef("reset-height", "", "after Reset(%d) the node is at block %d / header %d", target, done.BC.BlockHeight(), done.BC.HeaderHeight()))
		return
	}
	if done.BC.CurrentBlockHash() != fresh.BC.CurrentBlockHash() {
		r.violate(sim.Violatef("reset-height", "reset-tip-hash", "after Reset(%d) the current block hash differs from a fresh node's", target))
		return
	}
	r.compare(done, target, "after-reset")
	if r.fail != nil {
		return
	}
	for x := uint32(1); x <= L; x++ {
		hh := r.blks[x].Hash()
		_, errD := done.BC.GetBlock(hh)
		_, errF := fresh.BC.GetBlock(hh)
		if (errD == nil) != (errF == nil) {
			r.violate(sim.Violatef("reset-blocks", "", "after Reset(%d): GetBlock(height %d) err=%v on the reset node, err=%v on a fresh node", target, x, errD, errF))
			return
		}
		for _, tx := range r.blks[x].Transactions {
			_, _, e1 := done.BC.GetTransaction(tx.Hash())
			_, _, e2 := fresh.BC.GetTransaction(tx.Hash())
			if (e1 == nil) != (e2 == nil) {
				r.violate(sim.Violatef("reset-blocks", "reset-transactions", "after Reset(%d): transaction of block %d retrievable=%v on the reset node, %v on a fresh node", target, x, e1 == nil, e2 == nil))
				return
			}
			a1, e1 := done.BC.GetAppExecResults(tx.Hash(), trigger.All)
			a2, e2 := fresh.BC.GetAppExecResults(tx.Hash(), trigger.All)
			if (e1 == nil) != (e2 == nil) || len(a1) != len(a2) {
				r.violate(sim.Violatef("reset-blocks", "reset-aers", "after Reset(%d): execution results of a transaction of block %d: %d (%v) on the reset node, %d (%v) on a fresh node", target, x, len(a1), e1, len(a2), e2))
				return
			}
		}
	}
	if tv1, tv2 := transferView(done, r.w), transferView(fresh, r.w); tv1 != tv2 {
		r.violate(sim.Violatef("reset-transfers", "", "after Reset(%d) transfer logs / last-updated differ from a fresh node's:\n reset: %s\n fresh: %s", target, clip(tv1), clip(tv2)))
		return
	}
	if tv := r.resetVictim; tv != nil {
		// the transaction a dropped block named: both nodes know nothing of that block any more
		e1 := done.BC.PoolTx(tv, mempool.New(1, false, nil))
		e2 := fresh.BC.PoolTx(tv, mempool.New(1, false, nil))
		if (e1 == nil) != (e2 == nil) {
			r.violate(sim.Violatef("reset-conflicts", "", "after Reset(%d): a transaction that only a dropped block (height %d) named in a Conflicts attribute is judged %v by the reset node and %v by a node that only synchronised to %d", target, L, e1, e2, target))
			return
		}
		r.out.Probes["reset_named_transaction_judged"]++
		if e1 == nil {
			r.out.Probes["reset_named_transaction_admitted_by_both"]++
		}
	}
	for x := target + 1; x <= L; x++ {
		e1 := done.AddBlockBytes(r.raw[x])
		e2 := fresh.AddBlockBytes(r.raw[x])
		sim.Wait()
		if e1 != nil || e2 != nil {
			r.violate(sim.Violatef("reset-continue", "", "block %d after Reset(%d): reset node err=%v, fresh node err=%v", x, target, e1, e2))
			return
		}
	}
	if L > target {
		r.compare(done, L, "after-reset-continue")
	}
	r.out.Probes["reset_equivalence_checked"]++
}
