package ledger

import (
	"fmt"
	"github.com/nspcc-dev/neo-go/pkg/core/interop/interopnames"
	"sort"

	"github.com/nspcc-dev/neo-go/pkg/core/block"
	"github.com/nspcc-dev/neo-go/pkg/core/native/nativehashes"
	"github.com/nspcc-dev/neo-go/pkg/core/state"
	"github.com/nspcc-dev/neo-go/pkg/core/transaction"
	"github.com/nspcc-dev/neo-go/pkg/crypto/hash"
	nio "github.com/nspcc-dev/neo-go/pkg/io"
	"github.com/nspcc-dev/neo-go/pkg/neotest"
	"github.com/nspcc-dev/neo-go/pkg/smartcontract"
	"github.com/nspcc-dev/neo-go/pkg/smartcontract/callflag"
	"github.com/nspcc-dev/neo-go/pkg/smartcontract/trigger"
	"github.com/nspcc-dev/neo-go/pkg/util"
	"github.com/nspcc-dev/neo-go/pkg/vm/emit"
	"github.com/nspcc-dev/neo-go/pkg/vm/opcode"
	"github.com/nspcc-dev/neo-go/pkg/vm/vmstate"
	"pgregory.net/rapid"

	"verif/sim"
	"verif/simdisk"
)

// C04: the fault is the point at which an execution stops. Oracle = twin
// execution on a forked ledger: fork A gets the faulting transaction X, fork
// B a twin Y with the same signers, fees and validity window whose script is
// a bare ABORT (or, for caught exceptions, whose callee throws at once).
// Because the whole fee is burnt/paid in OnPersist whatever is consumed, the
// two forks must end in the same state.

// Piece is one effect of a generated script.
type Piece struct {
	Kind int `json:"k"` // see pieceNames
	A    int `json:"a,omitempty"`
	B    int `json:"b,omitempty"`
	X    int `json:"x,omitempty"`
	Y    int `json:"y,omitempty"`
}

var pieceNames = [...]string{"K.put", "K.ev", "GAS.transfer", "NEO.transfer", "NEO.vote", "K.del", "K.call(K2.put)", "Mgmt.deploy", "K.seq[put,ev]", "GAS.transfer->K(onPayment)"}

// AtomPlan is one C04 experiment.
type AtomPlan struct {
	Mode    int     `json:"mode"`    // 0 fault at position k, 1 gas cut, 2 caught exception at depth d
	Pieces  []Piece `json:"pieces"`  // effects
	FaultAt int     `json:"faultat"` // position of the fault among the pieces (mode 0)
	Fault   int     `json:"fault"`   // kind of fault (mode 0)
	GasCut  int     `json:"gascut"`  // per-mille of the full cost (mode 1); thorough also enumerates
	Cuts    int     `json:"cuts"`    // number of extra gas cut points enumerated from the dry run (mode 1)
	Depth   int     `json:"depth"`   // nesting depth of the failing callee (mode 2)
	Signer  int     `json:"signer"`
	ForkAt  int     `json:"forkat"`          // the experiment runs after this many history blocks
	Extra   []Op    `json:"extra,omitempty"` // ordinary transactions sharing the block with X / Y
	// Committee: X and its twin also carry the committee's witness, and pieces of kind >= 10 are native contract
	// settings (Policy setters incl. whitelisted and attribute fees, blocked accounts, role designation)
	Committee bool `json:"committee,omitempty"`
}

var faultNames = [...]string{"ABORT", "THROW", "K.fail", "K.abort", "call-missing-method", "call-missing-contract", "ASSERT-false", "K.putFail",
	"try{GAS.transfer->K.onPayment throws}", "try{K.fail}finally{ABORT}", "try{K.fail}finally{K.abort}"}

// pendingFault: the fault kinds that end the execution while an exception is still being unwound
func pendingFault(kind int) bool { return kind%len(faultNames) >= 8 }

func drawC04(rt *rapid.T, p *Plan, tier string) *Plan {
	p.Blocks = drawBlocks(rt, 3, 10, p.Proto.P2PSig)
	// make sure helper contracts exist early
	p.Blocks[0].Ops = append([]Op{{Kind: OpDeploy, A: 0, B: 0}, {Kind: OpDeploy, A: 1, B: 1}, {Kind: OpDeploy, A: 2, B: 2}}, p.Blocks[0].Ops...)
	ap := &AtomPlan{}
	ap.Mode = rapid.IntRange(0, 2).Draw(rt, "amode")
	ap.Committee = rapid.Bool().Draw(rt, "committee")
	maxKind := len(pieceNames) - 1
	if ap.Committee {
		maxKind = len(pieceNames) + numSettings*2 - 1 // settings get half of the weight
		// the history whitelists some helper contract methods (once Faun is active), so that X can set them again
		for i := 3; i < len(p.Blocks); i++ {
			p.Blocks[i].Ops = append([]Op{{Kind: OpPolicy, X: 6, B: i % 2, N: int64(i % 2), Y: i % 3}}, p.Blocks[i].Ops...)
		}
	}
	np := rapid.IntRange(1, 7).Draw(rt, "npieces")
	for i := 0; i < np; i++ {
		pk := rapid.IntRange(0, maxKind+1).Draw(rt, "pk")
		if pk == maxKind+1 {
			pk = pieceOracleRequest
		}
		ap.Pieces = append(ap.Pieces, Piece{
			Kind: pk,
			A:    rapid.IntRange(0, numAccounts-1).Draw(rt, "pa"),
			B:    rapid.IntRange(0, numAccounts-1).Draw(rt, "pb"),
			X:    rapid.IntRange(0, 15).Draw(rt, "px"),
			Y:    rapid.IntRange(0, 15).Draw(rt, "py"),
		})
	}
	ap.FaultAt = rapid.IntRange(0, np).Draw(rt, "faultat")
	ap.Fault = rapid.IntRange(0, len(faultNames)-1).Draw(rt, "fault")
	ap.GasCut = rapid.IntRange(0, 1000).Draw(rt, "gascut")
	if tier == "thorough" {
		ap.Cuts = rapid.IntRange(0, 48).Draw(rt, "cuts")
	} else {
		ap.Cuts = rapid.IntRange(0, 4).Draw(rt, "cuts")
	}
	ap.Depth = rapid.IntRange(1, 3).Draw(rt, "depth")
	ap.Signer = rapid.IntRange(0, numAccounts-1).Draw(rt, "signer")
	ap.ForkAt = rapid.IntRange(1, len(p.Blocks)).Draw(rt, "forkat")
	ne := rapid.IntRange(0, 2).Draw(rt, "nextra")
	for i := 0; i < ne; i++ {
		ap.Extra = append(ap.Extra, drawOp(rt, p.Proto.P2PSig))
	}
	p.Atom = ap
	p.Tape = drawTape(rt, 64)
	return p
}

const numSettings = 7

// pieceOracleRequest: a helper contract makes an oracle request (id counter, stored request, id list of the url, GAS
// minted to the Oracle contract, notification). The number lies behind the settings so that stored plans keep their meaning.
const pieceOracleRequest = len(pieceNames) + 2*numSettings

func oracleRequestPieceArgs(pc Piece) []any {
	return oracleRequestArgs(Op{X: pc.X, Y: pc.Y, N: int64(pc.A)})
}

var settingNames = [...]string{"Policy.setFeePerByte", "Policy.setExecFeeFactor", "Policy.setStoragePrice", "Policy.blockAccount",
	"Policy.setWhitelistFeeContract", "Policy.setAttributeFee", "RoleManagement.designateAsRole"}

// nativeSetting is the committee-only native call of a piece of kind >= len(pieceNames).
func (r *run) nativeSetting(pc Piece) (util.Uint160, string, []any) {
	p := r.prod
	switch (pc.Kind - len(pieceNames)) % numSettings {
	case 0:
		return nativehashes.PolicyContract, "setFeePerByte", []any{int64(500 + pc.X*10)}
	case 1:
		return nativehashes.PolicyContract, "setExecFeeFactor", []any{int64(1 + pc.Y*3)}
	case 2:
		return nativehashes.PolicyContract, "setStoragePrice", []any{int64(1000 + pc.X*100)}
	case 3:
		return nativehashes.PolicyContract, "blockAccount", []any{p.kr.acctHash(pc.A)}
	case 4:
		m, argc := "put", 2
		if pc.X%2 == 1 {
			m, argc = "get", 1
		}
		return nativehashes.PolicyContract, "setWhitelistFeeContract", []any{p.khash[pc.B%2], m, argc, int64(pc.Y%4)*30000 + 1000}
	case 5:
		at := []transaction.AttrType{transaction.HighPriority, transaction.OracleResponseT, transaction.NotValidBeforeT, transaction.ConflictsT, transaction.NotaryAssistedT}[pc.X%5]
		return nativehashes.PolicyContract, "setAttributeFee", []any{int64(at), int64(pc.Y) * 1000}
	default:
		return nativehashes.RoleManagement, "designateAsRole", []any{int64(4 + 4*(pc.X%3)), []any{p.kr.accts[pc.A%numAccounts].PublicKey().Bytes()}}
	}
}

func appCallDrop(w *nio.BinWriter, h util.Uint160, method string, args ...any) {
	emit.AppCall(w, h, method, callflag.All, args...)
	emit.Opcodes(w, opcode.DROP)
}

// emitPiece writes one effect into the script; signer is the transaction's sender.
func (r *run) emitPiece(w *nio.BinWriter, pc Piece, signer util.Uint160) string {
	p := r.prod
	k := p.khash[pc.B%numContracts]
	k2 := p.khash[(pc.B+1)%numContracts]
	key := kKeys[pc.X%len(kKeys)]
	val := kVals[pc.Y%len(kVals)]
	if pc.Kind == pieceOracleRequest {
		appCallDrop(w, k, "call", nativehashes.OracleContract, "request", oracleRequestPieceArgs(pc))
		r.out.Probes["atom_oracle_request_piece"]++
		return "K.call(Oracle.request)"
	}
	if pc.Kind >= len(pieceNames) && r.plan.Atom.Committee {
		h, m, args := r.nativeSetting(pc)
		appCallDrop(w, h, m, args...)
		r.out.Probes["atom_native_setting_piece"]++
		return settingNames[(pc.Kind-len(pieceNames))%numSettings]
	}
	switch pc.Kind % len(pieceNames) {
	case 0:
		appCallDrop(w, k, "put", key, val)
	case 1:
		appCallDrop(w, k, "ev", val)
	case 2:
		appCallDrop(w, nativehashes.GasToken, "transfer", signer, p.kr.acctHash(pc.A), int64(1000+pc.X), nil)
	case 3:
		appCallDrop(w, nativehashes.NeoToken, "transfer", signer, p.kr.acctHash(pc.A), int64(1+pc.X), nil)
	case 4:
		var to any
		if pc.X%3 != 0 {
			to = p.kr.accts[pc.A%numAccounts].PublicKey().Bytes()
		}
		appCallDrop(w, nativehashes.NeoToken, "vote", signer, to)
	case 5:
		appCallDrop(w, k, "del", key)
	case 6:
		appCallDrop(w, k, "call", k2, "put", []any{key, val})
	case 7:
		nk := buildK(fmt.Sprintf("T%d", pc.X), byte(pc.Y))
		appCallDrop(w, nativehashes.ContractManagement, "deploy", nk.NEFBytes, nk.ManBytes, nil)
	case 8:
		appCallDrop(w, k, "seq", []any{[]any{"put", []any{key, val}}, []any{"ev", []any{key}}})
	case 9:
		appCallDrop(w, nativehashes.GasToken, "transfer", signer, k, int64(500+pc.Y), nil)
	}
	return pieceNames[pc.Kind%len(pieceNames)]
}

func (r *run) emitFault(w *nio.BinWriter, kind int) string {
	k := r.prod.khash[0]
	switch kind % len(faultNames) {
	case 0:
		emit.Opcodes(w, opcode.ABORT)
	case 1:
		emit.String(w, "boom")
		emit.Opcodes(w, opcode.THROW)
	case 2:
		appCallDrop(w, k, "fail")
	case 3:
		appCallDrop(w, k, "abort")
	case 4:
		appCallDrop(w, k, "nosuchmethod")
	case 5:
		appCallDrop(w, util.Uint160{0xde, 0xad}, "x")
	case 6:
		emit.Opcodes(w, opcode.PUSHF, opcode.ASSERT)
	case 7:
		appCallDrop(w, k, "putFail", kKeys[1], kVals[2])
	case 8:
		// try { GAS.transfer(signer, K, 1, "throw") } catch { }: the payment callback made by the native contract throws
		body := nio.NewBufBinWriter()
		emit.AppCall(body.BinWriter, nativehashes.GasToken, "transfer", callflag.All, r.prod.kr.acctHash(r.plan.Atom.Signer), k, int64(1), "throw")
		emit.Opcodes(body.BinWriter, opcode.DROP)
		emitTry(w, body.Bytes(), []byte{byte(opcode.DROP)}, nil)
	case 9, 10:
		// try { K.fail() } finally { ABORT / K.abort() }: the execution dies inside a finally block that runs for a
		// pending exception
		body := nio.NewBufBinWriter()
		appCallDrop(body.BinWriter, k, "fail")
		fin := nio.NewBufBinWriter()
		if kind%len(faultNames) == 9 {
			emit.Opcodes(fin.BinWriter, opcode.ABORT)
		} else {
			appCallDrop(fin.BinWriter, k, "abort")
		}
		emitTry(w, body.Bytes(), nil, fin.Bytes())
	}
	return faultNames[kind%len(faultNames)]
}

// emitTry emits try { body } catch { catch } finally { finally } with one-byte offsets (catch / finally may be nil).
func emitTry(w *nio.BinWriter, body, catch, finally []byte) {
	const tryLen, endTryLen = 3, 2
	var catchOff, finOff, afterCatch int
	pos := tryLen + len(body) + endTryLen
	if catch != nil {
		catchOff = pos
		pos += len(catch) + endTryLen
	}
	afterCatch = pos
	if finally != nil {
		finOff = pos
		pos += len(finally) + 1 // ENDFINALLY
	}
	end := pos
	if end > 120 {
		sim.Harnessf("try block too long for one-byte offsets: %d", end)
	}
	emit.Instruction(w, opcode.TRY, []byte{byte(catchOff), byte(finOff)})
	w.WriteBytes(body)
	// ENDTRY jumps to the end of the whole construct (the finally block, if any, runs first)
	endTarget := end
	emit.Instruction(w, opcode.ENDTRY, []byte{byte(endTarget - (tryLen + len(body)))})
	if catch != nil {
		w.WriteBytes(catch)
		emit.Instruction(w, opcode.ENDTRY, []byte{byte(endTarget - (afterCatch - endTryLen))})
	}
	if finally != nil {
		w.WriteBytes(finally)
		emit.Opcodes(w, opcode.ENDFINALLY)
	}
}

// rawTx builds a signed transaction with explicit fees.
func (r *run) rawTx(n *Node, script []byte, signer neotest.Signer, sysFee, netFee int64, nonce uint32) *transaction.Transaction {
	tx := transaction.New(script, sysFee)
	tx.Nonce = nonce
	tx.ValidUntilBlock = n.BC.BlockHeight() + 2
	tx.NetworkFee = netFee
	tx.Signers = []transaction.Signer{{Account: signer.ScriptHash(), Scopes: transaction.Global}}
	if r.plan.Atom != nil && r.plan.Atom.Committee {
		cm := r.prod.committeeSigner()
		tx.Signers = append(tx.Signers, transaction.Signer{Account: cm.ScriptHash(), Scopes: transaction.Global})
		if err := signer.SignTx(n.BC.GetConfig().Magic, tx); err != nil {
			sim.Harnessf("sign: %v", err)
		}
		if err := cm.SignTx(n.BC.GetConfig().Magic, tx); err != nil {
			sim.Harnessf("committee sign: %v", err)
		}
		return tx
	}
	if err := signer.SignTx(n.BC.GetConfig().Magic, tx); err != nil {
		sim.Harnessf("sign: %v", err)
	}
	return tx
}

// blockOn assembles, signs and adds a block with the given transactions on node n.
func (r *run) blockOn(n *Node, txs []*transaction.Transaction) (*block.Block, error) {
	bc := n.BC
	h := bc.BlockHeight()
	prev, err := bc.GetHeader(bc.GetHeaderHash(h))
	if err != nil {
		sim.Harnessf("top header: %v", err)
	}
	signers, _ := bc.GetNextBlockValidators()
	vs, _ := smartcontract.CreateDefaultMultiSigRedeemScript(signers)
	ns, _ := smartcontract.CreateDefaultMultiSigRedeemScript(bc.ComputeNextBlockValidators())
	b := &block.Block{Header: block.Header{
		PrevHash: prev.Hash(), Timestamp: prev.Timestamp + 1, Nonce: uint64(h) + 99, Index: h + 1,
		NextConsensus: hash.Hash160(ns), Script: transaction.Witness{VerificationScript: vs},
	}, Transactions: txs}
	if r.plan.Proto.StateRootInHeader {
		b.StateRootEnabled = true
		b.PrevStateRoot = bc.GetStateModule().CurrentLocalStateRoot()
	}
	b.RebuildMerkleRoot()
	ms, err := r.prod.kr.multiSigner(signers, smartcontract.GetDefaultHonestNodeCount(len(signers)))
	if err != nil {
		sim.Harnessf("block signer: %v", err)
	}
	b.Script.InvocationScript = ms.SignHashable(uint32(bc.GetConfig().Magic), b)
	err = bc.AddBlock(b)
	sim.Wait()
	return b, err
}

func (r *run) runC04() {
	ap := r.plan.Atom
	if ap == nil {
		sim.Harnessf("C04 plan without atom section")
	}
	r.setupProducer()
	blocks := append([]BlockPlan{{}}, r.plan.Blocks...)
	forkAt := min(ap.ForkAt, len(blocks)-1)
	for bi, bp := range blocks[:forkAt+1] {
		var pre []*transaction.Transaction
		if bi == 0 {
			pre = r.bootstrapTxs()
		}
		if _, ok := r.produce(bp, pre); !ok {
			return
		}
	}
	// fork: the twin ledger receives the same blocks
	T := r.newNode("T", Local{Backend: simdisk.Memory, VerifyTx: true})
	for h := uint32(1); h <= r.P.BC.BlockHeight(); h++ {
		if err := T.AddBlockBytes(r.raw[h]); err != nil {
			sim.Harnessf("twin rejected block %d: %v", h, err)
		}
	}
	sim.Wait()
	signer := r.prod.kr.acct(ap.Signer)
	// common extra transactions
	var extra []*transaction.Transaction
	for _, o := range ap.Extra {
		if o.A%numAccounts == ap.Signer%numAccounts {
			o.A = (o.A + 1) % numAccounts
		}
		if o.Kind == OpDeploy || o.Kind == OpUpdate || o.Kind == OpDestroy {
			continue // keep the helper contracts stable during the experiment
		}
		tx, _ := r.prod.buildTx(o, nil)
		if tx != nil && r.P.BC.VerifyTx(tx) == nil {
			extra = append(extra, tx)
		}
	}
	switch ap.Mode % 3 {
	case 0:
		r.atomFault(T, signer, extra)
	case 1:
		r.atomGas(T, signer, extra)
	case 2:
		r.atomCaught(T, signer, extra)
	}
}

func (r *run) buildScript(ap *AtomPlan, signer util.Uint160, withFault bool) ([]byte, string) {
	w := nio.NewBufBinWriter()
	desc := ""
	for i, pc := range ap.Pieces {
		if withFault && i == ap.FaultAt {
			desc += "!" + r.emitFault(w.BinWriter, ap.Fault) + " "
		}
		desc += r.emitPiece(w.BinWriter, pc, signer) + " "
	}
	if withFault && ap.FaultAt >= len(ap.Pieces) {
		desc += "!" + r.emitFault(w.BinWriter, ap.Fault)
	}
	emit.Opcodes(w.BinWriter, opcode.RET)
	if w.Err != nil {
		sim.Harnessf("script: %v", w.Err)
	}
	return w.Bytes(), desc
}

const atomNetFee = 50_000_000

// twinBlocks adds [pre..., X, post...] on P and [pre..., Y, post...] on T and compares the forks.
func (r *run) twinBlocks(T *Node, x, y *transaction.Transaction, extra []*transaction.Transaction, what string, wantFault bool) (*state.AppExecResult, *state.AppExecResult, bool) {
	split := r.tape.Choose(len(extra) + 1)
	mk := func(mid *transaction.Transaction) []*transaction.Transaction {
		txs := append([]*transaction.Transaction{}, r.beforeX...)
		for _, e := range extra[:split] {
			txs = append(txs, e)
		}
		txs = append(txs, mid)
		for _, e := range extra[split:] {
			txs = append(txs, e)
		}
		txs = append(txs, r.afterX...)
		return txs
	}
	if err := r.P.BC.VerifyTx(x); err != nil {
		r.out.Probes["atom_tx_not_admissible"]++
		r.log.Addf("X not admissible: %s", errClass(err))
		return nil, nil, false
	}
	if err := T.BC.VerifyTx(y); err != nil {
		sim.Harnessf("twin transaction not admissible: %v", err)
	}
	_, errA := r.blockOn(r.P, mk(x))
	_, errB := r.blockOn(T, mk(y))
	if errA != nil || errB != nil {
		// both forks must agree about the block's validity (e.g. an extra transaction made invalid by fees)
		if (errA == nil) != (errB == nil) {
			r.violate(sim.Violatef("atom-block-validity", "", "%s: block with X: %v; block with the ABORT twin: %v", what, errA, errB))
		}
		r.out.Probes["atom_block_rejected"]++
		return nil, nil, false
	}
	ax, err := r.P.BC.GetAppExecResults(x.Hash(), trigger.Application)
	if err != nil || len(ax) != 1 {
		sim.Harnessf("no AER for X: %v", err)
	}
	ay, err := T.BC.GetAppExecResults(y.Hash(), trigger.Application)
	if err != nil || len(ay) != 1 {
		sim.Harnessf("no AER for Y: %v", err)
	}
	r.log.Addf("%s: X=%s Y=%s", what, ax[0].VMState, ay[0].VMState)
	if wantFault && ax[0].VMState != vmstate.Fault {
		r.out.Probes["atom_x_did_not_fault"]++
		return &ax[0], &ay[0], false
	}
	if !wantFault && (ax[0].VMState != vmstate.Halt || ay[0].VMState != vmstate.Halt) {
		// the failure was not catchable (or something else failed): not the caught-exception case
		r.out.Probes["atom_caught_not_halting"]++
		return &ax[0], &ay[0], false
	}
	oa, err := Observe(r.P, r.w)
	if err != nil {
		sim.Harnessf("observe: %v", err)
	}
	ob, err := Observe(T, r.w)
	if err != nil {
		sim.Harnessf("observe: %v", err)
	}
	var d []string
	for _, s := range oa.Diff(ob) {
		if s != "aer" {
			d = append(d, s)
		}
	}
	if len(d) > 0 {
		msg := fmt.Sprintf("%s: the fork with X (%s, gas %d) and the fork with its twin (%s) differ in %v", what, ax[0].VMState, ax[0].GasConsumed, ay[0].VMState, d)
		for _, s := range d {
			msg += fmt.Sprintf("\n  %s: X-fork=%s\n  %s: twin  =%s", s, clip(oa.Detail[s]), s, clip(ob.Detail[s]))
			if s == "storage" {
				msg += "\n  storage diff (X-fork vs twin): " + clip(listDiff(oa.Dump, ob.Dump))
			}
		}
		r.violate(sim.Violatef("atom-trace", "atom-trace/"+d[0], "%s", msg))
		return &ax[0], &ay[0], false
	}
	r.out.Probes["atom_forks_compared"]++
	return &ax[0], &ay[0], true
}

func abortScript() []byte { return []byte{byte(opcode.ABORT)} }

// witnessTxs: halting transactions of an account other than the experiment's signer.
func (r *run) witnessTxs(signer neotest.SingleSigner) []*transaction.Transaction {
	p := r.prod
	other := p.kr.acct(r.plan.Atom.Signer + 1)
	k0, k1 := p.khash[0], p.khash[1]
	var scripts [][]byte
	// K0.tryCall(K1.put): a successful call made from a try block
	scripts = append(scripts, callScript(k0, "tryCall", k1, "put", []any{kKeys[2], kVals[1]}))
	// entry script: try { K0.put } finally { K1.ev }
	body := nio.NewBufBinWriter()
	appCallDrop(body.BinWriter, k0, "put", kKeys[3], kVals[2])
	fin := nio.NewBufBinWriter()
	appCallDrop(fin.BinWriter, k1, "ev", kVals[3])
	w := nio.NewBufBinWriter()
	emitTry(w.BinWriter, body.Bytes(), nil, fin.Bytes())
	emit.Opcodes(w.BinWriter, opcode.RET)
	scripts = append(scripts, w.Bytes())
	// a payment to a contract: the native token calls back
	scripts = append(scripts, callScript(nativehashes.GasToken, "transfer", other.ScriptHash(), k1, int64(3), nil))
	var txs []*transaction.Transaction
	for _, sc := range scripts {
		p.nonce++
		tx := transaction.New(sc, 5_00000000)
		tx.Nonce = p.nonce
		tx.ValidUntilBlock = r.P.BC.BlockHeight() + 2
		tx.NetworkFee = atomNetFee
		tx.Signers = []transaction.Signer{{Account: other.ScriptHash(), Scopes: transaction.Global}}
		if err := other.SignTx(r.P.BC.GetConfig().Magic, tx); err != nil {
			sim.Harnessf("sign: %v", err)
		}
		if r.P.BC.VerifyTx(tx) == nil {
			txs = append(txs, tx)
		}
	}
	r.out.Probes["atom_witness_txs_after_x"] += len(txs)
	return txs
}

// atomFault: ABORT/THROW/failing call at position k of a generated script.
func (r *run) atomFault(T *Node, signer neotest.SingleSigner, extra []*transaction.Transaction) {
	ap := r.plan.Atom
	script, desc := r.buildScript(ap, signer.ScriptHash(), true)
	sys := int64(30_00000000)
	r.prod.nonce++
	x := r.rawTx(r.P, script, signer, sys, atomNetFee, r.prod.nonce)
	y := r.rawTx(T, abortScript(), signer, sys, atomNetFee, r.prod.nonce)
	r.out.Faults["fault_at_position"]++
	r.out.Faults["fault/"+faultNames[ap.Fault%len(faultNames)]]++
	if pendingFault(ap.Fault) {
		// the block goes on with transactions of another account whose SUCCESSFUL effects sit behind try blocks,
		// finally blocks and native callbacks: nothing of the failed neighbour may reach them
		r.afterX = r.witnessTxs(signer)
	}
	r.twinBlocks(T, x, y, extra, "fault@"+fmt.Sprint(ap.FaultAt)+" "+desc, true)
	r.afterX = nil
}

// atomGas: the same halting script re-run with its system fee cut at arbitrary charge points.
func (r *run) atomGas(T *Node, signer neotest.SingleSigner, extra []*transaction.Transaction) {
	ap := r.plan.Atom
	script, desc := r.buildScript(ap, signer.ScriptHash(), false)
	// dry run on P: full cost and the cumulative gas after every instruction
	probe := transaction.New(script, 0)
	probe.Signers = []transaction.Signer{{Account: signer.ScriptHash(), Scopes: transaction.Global}}
	probe.ValidUntilBlock = r.P.BC.BlockHeight() + 2
	ic, err := r.P.BC.GetTestVM(trigger.Application, probe, nil)
	if err != nil {
		sim.Harnessf("test vm: %v", err)
	}
	levels := map[int64]bool{}
	ic.VM.SetOnExecHook(func(util.Uint160, int, opcode.Opcode) { levels[ic.VM.GasConsumed()] = true })
	ic.VM.SetGasLimit(100_00000000)
	ic.VM.LoadWithFlags(script, callflag.All)
	rerr := ic.VM.Run()
	full := ic.VM.GasConsumed()
	ic.Finalize()
	if rerr != nil {
		r.out.Probes["atom_dry_run_faults"]++
	}
	var ls []int64
	for l := range levels {
		ls = append(ls, l)
	}
	sort.Slice(ls, func(i, j int) bool { return ls[i] < ls[j] })
	cuts := []int64{full * int64(ap.GasCut) / 1000}
	for i := 0; i < ap.Cuts && len(ls) > 0; i++ {
		// spread over the distinct charge points, one unit below each level (the charge that exceeds it faults)
		cuts = append(cuts, max(0, ls[(i*len(ls))/max(1, ap.Cuts)]-1+int64(i%2)))
	}
	r.out.Probes["gas_levels_seen"] += len(ls)
	for ci, c := range cuts {
		if c >= full && rerr == nil {
			c = full - 1
		}
		if c < 0 {
			c = 0
		}
		// every cut needs its own fork pair: re-fork from the common state by using fresh nonces on the same
		// pair is not possible (state diverges only if a violation exists), so the pair is reused while equal
		r.prod.nonce++
		x := r.rawTx(r.P, script, signer, c, atomNetFee, r.prod.nonce)
		y := r.rawTx(T, abortScript(), signer, c, atomNetFee, r.prod.nonce)
		r.out.Faults["gas_cut"]++
		var ex []*transaction.Transaction
		if ci == 0 {
			ex = extra
		}
		_, _, ok := r.twinBlocks(T, x, y, ex, fmt.Sprintf("gascut %d/%d of %s", c, full, desc), true)
		if r.fail != nil || !ok {
			return
		}
	}
}

// atomCaught: an exception raised at depth d of a call tree and caught by the caller.
func (r *run) atomCaught(T *Node, signer neotest.SingleSigner, extra []*transaction.Transaction) {
	ap := r.plan.Atom
	p := r.prod
	k0, k1, k2 := p.khash[0], p.khash[1], p.khash[2]
	key := kKeys[ap.Pieces[0].X%len(kKeys)]
	val := kVals[ap.Pieces[0].Y%len(kVals)]
	// callee body: effects, then a throw at the deepest level
	var effects []any
	for _, pc := range ap.Pieces {
		kk := kKeys[pc.X%len(kKeys)]
		vv := kVals[pc.Y%len(kVals)]
		if pc.Kind == pieceOracleRequest {
			effects = append(effects, []any{"call", []any{nativehashes.OracleContract, "request", oracleRequestPieceArgs(pc)}})
			r.out.Probes["atom_oracle_request_piece"]++
			continue
		}
		if pc.Kind >= len(pieceNames) && ap.Committee {
			h, m, args := r.nativeSetting(pc)
			effects = append(effects, []any{"call", []any{h, m, args}})
			r.out.Probes["atom_native_setting_piece"]++
			continue
		}
		switch pc.Kind % 5 {
		case 0:
			effects = append(effects, []any{"put", []any{kk, vv}})
		case 1:
			effects = append(effects, []any{"ev", []any{vv}})
		case 2:
			effects = append(effects, []any{"del", []any{kk}})
		case 3:
			effects = append(effects, []any{"call", []any{k2, "put", []any{kk, vv}}})
		case 4:
			effects = append(effects, []any{"call", []any{nativehashes.GasToken, "transfer", []any{k1, p.kr.acctHash(pc.A), int64(7), nil}}})
		}
	}
	failing := append(append([]any{}, effects...), []any{"fail", []any{}})
	// nest: k1.seq(failing) wrapped depth-1 times in k2.call / k1.call
	calleeHash, calleeMethod, calleeArgs := k1, "seq", []any{failing}
	for d := 1; d < ap.Depth; d++ {
		outer := k2
		if d%2 == 0 {
			outer = k1
		}
		calleeArgs = []any{calleeHash, calleeMethod, calleeArgs}
		calleeHash, calleeMethod = outer, "call"
	}
	nested := ap.Fault%2 == 1
	if nested {
		r.out.Faults["caught_exception/from-inner-catch-block"]++
	}
	// the call flags the caller grants to the failing callee: all, or a restricted set (then the callee only notifies
	// and throws: what it notified has to vanish just the same)
	fl := []int64{15, 15, 13, 9, 8}[ap.Pieces[0].B%5]
	if nested {
		fl = 15
	}
	if fl != 15 {
		if fl&4 != 0 {
			evs := []any{[]any{"ev", []any{val}}}
			for _, e := range effects {
				if e.([]any)[0] == "ev" {
					evs = append(evs, e)
				}
			}
			calleeHash, calleeMethod, calleeArgs = k1, "seq", []any{append(evs, []any{"fail", []any{}})}
		} else {
			calleeHash, calleeMethod, calleeArgs = k1, "evFail", []any{val}
		}
		r.out.Faults[fmt.Sprintf("caught_exception/callflags-%d", fl)]++
	}
	mkScript := func(h util.Uint160, m string, a []any) []byte {
		// caller k0: effect before, tryCall(callee), effect after
		call := []any{"tryCall", []any{h, m, a}}
		if fl != 15 {
			call = []any{"tryCallF", []any{h, m, a, fl}}
		}
		if nested {
			// the failing callee is called from inside the catch block of an inner try; an outer try of the same frame catches
			call = []any{"nestTry", []any{k1, "fail", []any{}, h, m, a}}
		}
		return callScript(k0, "seq", []any{
			[]any{"put", []any{key, val}},
			[]any{"ev", []any{[]byte("before")}},
			call,
			[]any{"ev", []any{[]byte("after")}},
			[]any{"put", []any{kKeys[(ap.Pieces[0].X+1)%len(kKeys)], []byte{0x55}}}})
	}
	xs := mkScript(calleeHash, calleeMethod, calleeArgs)
	ys := mkScript(k1, "fail", []any{})
	if !nested && ap.Pieces[0].A%6 == 5 {
		// the failing callee is a dynamically loaded script (System.Runtime.LoadScript under a try block of the entry
		// script): it calls a contract - one that notifies, or one that only reads - and throws; the twin's throws at once.
		// A loaded script gets at most read-only flags, so whatever it managed to do leaves nothing behind once caught.
		dyn := func(call int) []byte {
			w := nio.NewBufBinWriter()
			switch call {
			case 1:
				emit.AppCall(w.BinWriter, k1, "ev", callflag.All, val)
			case 2:
				emit.AppCall(w.BinWriter, k1, "get", callflag.All, key)
				emit.Opcodes(w.BinWriter, opcode.DROP)
			}
			emit.String(w.BinWriter, "boom")
			emit.Opcodes(w.BinWriter, opcode.THROW)
			return w.Bytes()
		}
		entry := func(s []byte) []byte {
			w := nio.NewBufBinWriter()
			emit.AppCall(w.BinWriter, k0, "ev", callflag.All, []byte("before"))
			// (the script to load is pushed before the try block - its one-byte offsets are short - and rotated to the top)
			emit.Bytes(w.BinWriter, s)
			body := nio.NewBufBinWriter()
			emit.Opcodes(body.BinWriter, opcode.NEWARRAY0)
			emit.Int(body.BinWriter, []int64{15, 15, 5, 4}[ap.Pieces[0].B%4])
			emit.Opcodes(body.BinWriter, opcode.ROT)
			emit.Syscall(body.BinWriter, interopnames.SystemRuntimeLoadScript)
			emitTry(w.BinWriter, body.Bytes(), []byte{byte(opcode.DROP)}, nil)
			emit.AppCall(w.BinWriter, k0, "ev", callflag.All, []byte("after"))
			return w.Bytes()
		}
		xs, ys = entry(dyn(1+ap.Pieces[0].Y%2)), entry(dyn(0))
		r.out.Faults["caught_exception/in-dynamic-script"]++
	}
	viaToken := !nested && ap.Pieces[0].A%6 == 3
	if viaToken {
		// the failing callee is reached through a method token (CALLT, a statically linked call) under a try block of a
		// contract deployed earlier in the same block: k1.seq(effects..., fail) against k1.seq(fail). What the callee wrote
		// and notified before it threw has to vanish exactly as after a dynamic call.
		tk := buildTok(fmt.Sprintf("TK%d", ap.Pieces[0].X), k1)
		tkh := tk.hashFor(signer.ScriptHash())
		r.prod.nonce++
		dtx := r.rawTx(r.P, callScript(nativehashes.ContractManagement, "deploy", tk.NEFBytes, tk.ManBytes, nil), signer, 25_00000000, atomNetFee, r.prod.nonce)
		r.beforeX = []*transaction.Transaction{dtx}
		defer func() { r.beforeX = nil }()
		tok := func(list []any) []byte {
			return callScript(k0, "seq", []any{
				[]any{"put", []any{key, val}},
				[]any{"ev", []any{[]byte("before")}},
				[]any{"call", []any{tkh, "tryTok", []any{list}}},
				[]any{"ev", []any{[]byte("after")}},
				[]any{"put", []any{kKeys[(ap.Pieces[0].X+1)%len(kKeys)], []byte{0x55}}}})
		}
		xs, ys = tok(failing), tok([]any{[]any{"fail", []any{}}})
		r.out.Faults["caught_exception/via-method-token"]++
	}
	manyCaught := !nested && ap.Pieces[0].A%6 == 4
	if manyCaught {
		// hundreds of exceptions thrown one CALL frame deep (a function with nine arguments) and caught by the caller in
		// a loop, then a notification; the twin does the same once. Whatever the VM keeps per frame has to be given back
		// when a frame is unwound: both halt with the same events
		loopScript := func(n int) []byte {
			w := nio.NewBufBinWriter()
			emit.Instruction(w.BinWriter, opcode.INITSLOT, []byte{1, 0})
			emit.Opcodes(w.BinWriter, opcode.PUSH0, opcode.STLOC0)
			tail := nio.NewBufBinWriter()
			emit.AppCall(tail.BinWriter, k0, "ev", callflag.All, []byte("after"))
			emit.Opcodes(tail.BinWriter, opcode.RET)
			// 5: TRY  8: PUSH1 x9  17: CALL f  19: ENDTRY->24  21: DROP  22: ENDTRY->24  24: LDLOC0 INC STLOC0 LDLOC0  28: PUSHINT16 n
			// 31: LT  32: JMPIF 5  34: tail  f (nine arguments)
			fpos := 34 + tail.Len()
			emit.Instruction(w.BinWriter, opcode.TRY, []byte{16, 0})
			for i := 0; i < 9; i++ {
				emit.Opcodes(w.BinWriter, opcode.PUSH1)
			}
			emit.Instruction(w.BinWriter, opcode.CALL, []byte{byte(fpos - 17)})
			emit.Instruction(w.BinWriter, opcode.ENDTRY, []byte{5})
			emit.Opcodes(w.BinWriter, opcode.DROP)
			emit.Instruction(w.BinWriter, opcode.ENDTRY, []byte{2})
			emit.Opcodes(w.BinWriter, opcode.LDLOC0, opcode.INC, opcode.STLOC0, opcode.LDLOC0)
			emit.Instruction(w.BinWriter, opcode.PUSHINT16, []byte{byte(n), byte(n >> 8)})
			emit.Opcodes(w.BinWriter, opcode.LT)
			emit.Instruction(w.BinWriter, opcode.JMPIF, []byte{byte(0x100 - 27)})
			w.WriteBytes(tail.Bytes())
			emit.Instruction(w.BinWriter, opcode.INITSLOT, []byte{2, 9})
			emit.Opcodes(w.BinWriter, opcode.PUSH1, opcode.THROW)
			if fpos-17 > 120 {
				sim.Harnessf("loop script too long")
			}
			return w.Bytes()
		}
		xs, ys = loopScript(250+ap.Pieces[0].X*7), loopScript(1)
		r.out.Faults["caught_exception/hundreds-in-a-loop"]++
	}
	sys := int64(30_00000000)
	r.prod.nonce++
	x := r.rawTx(r.P, xs, signer, sys, atomNetFee, r.prod.nonce)
	y := r.rawTx(T, ys, signer, sys, atomNetFee, r.prod.nonce)
	r.out.Faults["caught_exception"]++
	r.out.Faults[fmt.Sprintf("caught_exception/depth%d", ap.Depth)]++
	ax, ay, ok := r.twinBlocks(T, x, y, extra, fmt.Sprintf("caught@depth%d effects=%d", ap.Depth, len(effects)), false)
	if r.fail != nil {
		return
	}
	if viaToken && ax != nil && ay != nil {
		r.out.Probes["token_script_x_"+ax.VMState.String()]++
		r.out.Probes["token_script_twin_"+ay.VMState.String()]++
		if ok {
			r.out.Probes["token_forks_compared"]++
		}
	}
	if manyCaught && ax != nil && ay != nil {
		r.out.Probes["loop_script_x_"+ax.VMState.String()]++
		r.out.Probes["loop_script_twin_"+ay.VMState.String()]++
		if ay.VMState == vmstate.Halt && ax.VMState != vmstate.Halt {
			r.violate(sim.Violatef("atom-caught-fault", "", "a script that catches %d exceptions thrown by a called function in a loop ends as %s (%s); the same script with one round halts", 250+ap.Pieces[0].X*7, ax.VMState, ax.FaultException))
			return
		}
	}
	if !ok {
		return
	}
	if ax.VMState != vmstate.Halt || ay.VMState != vmstate.Halt {
		r.out.Probes["atom_caught_not_halting"]++
		return
	}
	// both HALT: the event lists must be equal (callee's notifications rolled back, caller's kept)
	ea, eb := eventList(ax), eventList(ay)
	if fmt.Sprint(ea) != fmt.Sprint(eb) {
		r.violate(sim.Violatef("atom-events", "", "caught exception at depth %d: events of X %v differ from events of the throw-at-once twin %v", ap.Depth, ea, eb))
		return
	}
	r.out.Probes["atom_caught_events_compared"]++
}

func eventList(a *state.AppExecResult) []string {
	var r []string
	for _, e := range a.Events {
		r = append(r, fmt.Sprintf("%s:%s:%x", e.ScriptHash.StringLE()[:6], e.Name, itemBytes(e.Item)))
	}
	return r
}
