package ledger

import (
	"bytes"
	"fmt"
	"io"
	"net"
	"runtime"
	"sync"
	"syscall"
	"time"

	"github.com/nspcc-dev/neo-go/pkg/network"
)

// Tier B transport: the only simulated thing between two real network.Server
// instances is the byte stream between their real TCPPeer objects (and the
// address book the real discovery dials from).
//
//	simConn      net.Conn: Write never blocks (one Write = one packet = one or more complete encoded messages, appended
//	             to the driver's outbox); Read blocks durably until the driver delivers bytes or ends the connection
//	simTransport network.Transporter: Dial creates both ends and starts both TCPPeers exactly as TCPTransport does
//
// Nothing here draws from the tape: every decision about a packet is taken by the driver when it drains the outbox.

const srvPort = 20333

// linkID names a connection independently of the order in which concurrent dials happened to run.
type linkID struct {
	a, b int // dialling node, accepting node
	n    int // n-th connection of that ordered pair
}

func (l linkID) String() string { return fmt.Sprintf("%d>%d#%d", l.a, l.b, l.n) }

func (l linkID) less(o linkID) bool {
	if l.a != o.a {
		return l.a < o.a
	}
	if l.b != o.b {
		return l.b < o.b
	}
	return l.n < o.n
}

// simLink is one connection; ends[0] belongs to the dialler.
type simLink struct {
	id   linkID
	ends [2]*simConn
	// driver-owned
	lastAt    [2]time.Duration // delivery time of the last packet scheduled in that direction (in-order delivery)
	dead      bool             // reset by the driver: packets still in flight are discarded
	acceptGen int              // instance of the accepting node the connection was made to
	accepted  bool
	rxq       [2][]rxItem // received, not yet handed to the reader (one message per driver event)
	pumping   [2]bool
	expect    [2]uint64 // last sequence number delivered, per direction (tcp-faithful configuration)
	early     [2]map[uint64]*simPkt
	outSeq    [2]uint64            // packets handed to the network so far, per direction
	occ       [2]map[uint64]uint64 // how often a content key was sent, per direction
}

// simPkt is one Write (or the end of the stream of one direction).
type simPkt struct {
	link   *simLink
	dir    int // 0: dialler -> acceptor
	seq    uint64
	sentAt time.Duration
	data   []byte
	fin    bool
	// set by the driver
	key  uint64 // content key
	rank int    // version, verack, everything else, end of stream
	occ  uint64
}

// HarnessSpin is panicked when the simulated nodes never become quiescent.
type HarnessSpin struct{ Msg string }

func (h HarnessSpin) Error() string { return h.Msg }

var errConnReset = &net.OpError{Op: "read", Net: "tcp", Err: syscall.ECONNRESET}
var errBrokenPipe = &net.OpError{Op: "write", Net: "tcp", Err: syscall.EPIPE}

type simConn struct {
	sim    *srvSim
	link   *simLink
	owner  *snode
	side   int
	local  *net.TCPAddr
	remote *net.TCPAddr

	// guarded by sim.mu
	wseq    uint64
	lclosed bool
	wfail   bool

	mu   sync.Mutex
	rq   [][]byte
	rbuf []byte
	rerr error
	wake chan struct{}
}

func (c *simConn) Read(p []byte) (int, error) {
	for {
		c.mu.Lock()
		if len(c.rbuf) > 0 {
			n := copy(p, c.rbuf)
			c.rbuf = c.rbuf[n:]
			c.mu.Unlock()
			return n, nil
		}
		if len(c.rq) > 0 {
			c.rbuf = c.rq[0]
			c.rq = c.rq[1:]
			c.mu.Unlock()
			continue
		}
		if c.rerr != nil {
			err := c.rerr
			c.mu.Unlock()
			return 0, err
		}
		c.mu.Unlock()
		<-c.wake // a channel made inside the bubble: a durable block
	}
}

func (c *simConn) poke() {
	select {
	case c.wake <- struct{}{}:
	default:
	}
}

// push is the driver's delivery.
func (c *simConn) push(b []byte) {
	c.mu.Lock()
	if c.rerr == nil {
		c.rq = append(c.rq, b)
	}
	c.mu.Unlock()
	c.poke()
}

// endRead makes Read return err once everything delivered so far has been read.
func (c *simConn) endRead(err error, discard bool) {
	c.mu.Lock()
	if c.rerr == nil || discard {
		c.rerr = err
	}
	if discard {
		c.rq, c.rbuf = nil, nil
	}
	c.mu.Unlock()
	c.poke()
}

func (c *simConn) Write(b []byte) (int, error) {
	s := c.sim
	s.mu.Lock()
	if c.lclosed {
		s.mu.Unlock()
		return 0, net.ErrClosed
	}
	if c.wfail {
		s.mu.Unlock()
		return 0, errBrokenPipe
	}
	if c.owner.stopping {
		// Server.Shutdown is running: whether one more getaddr of its peer management loop gets into a connection
		// before that connection is closed is a race inside the stopping process; here it never does
		s.mu.Unlock()
		return len(b), nil
	}
	c.wseq++
	s.outbox = append(s.outbox, &simPkt{link: c.link, dir: c.side, seq: c.wseq, sentAt: s.now(), data: bytes.Clone(b)})
	if len(s.outbox) > 300000 {
		// the nodes never come to rest: the driver cannot do anything about it but say what is being written
		hist := map[string]int{}
		for _, p := range s.outbox {
			cmds, _, _ := pktCommands(p.data)
			hist[fmt.Sprintf("%s/%d %v", p.link.id, p.dir, cmds)]++
		}
		panic(HarnessSpin{fmt.Sprintf("harness: %d packets written at one simulated instant (%d ms) without the nodes coming to rest: %v", len(s.outbox), s.now()/time.Millisecond, hist)})
	}
	s.mu.Unlock()
	return len(b), nil
}

// Close ends the local side: the other side reads EOF after everything written before.
func (c *simConn) Close() error {
	s := c.sim
	s.mu.Lock()
	if c.lclosed {
		s.mu.Unlock()
		return nil
	}
	c.lclosed = true
	c.wseq++
	s.outbox = append(s.outbox, &simPkt{link: c.link, dir: c.side, seq: c.wseq, sentAt: s.now(), fin: true})
	s.mu.Unlock()
	c.endRead(net.ErrClosed, true)
	return nil
}

func (c *simConn) LocalAddr() net.Addr                { return c.local }
func (c *simConn) RemoteAddr() net.Addr               { return c.remote }
func (c *simConn) SetDeadline(time.Time) error        { return nil }
func (c *simConn) SetReadDeadline(time.Time) error    { return nil }
func (c *simConn) SetWriteDeadline(t time.Time) error { return nil }

// reset is the driver's connection kill: both directions fail at once (as after an RST).
func (l *simLink) reset() {
	l.dead = true
	for _, c := range l.ends {
		c.sim.mu.Lock()
		c.wfail = true
		c.sim.mu.Unlock()
		c.endRead(errConnReset, true)
	}
}

func nodeIP(i int) net.IP { return net.IPv4(10, 0, byte(i/250), byte(i%250+1)) }

func nodeAddr(i int) string { return fmt.Sprintf("%s:%d", nodeIP(i), srvPort) }

// simTransport implements network.Transporter for one Server instance.
type simTransport struct {
	sim    *srvSim
	node   *snode
	srv    *network.Server
	closed chan struct{}
	once   sync.Once
	gen    int // instance counter of the node (a restarted node has a new Server and a new transport)
}

var errRefused = &net.OpError{Op: "dial", Net: "tcp", Err: syscall.ECONNREFUSED}

type timeoutErr struct{}

func (timeoutErr) Error() string   { return "i/o timeout" }
func (timeoutErr) Timeout() bool   { return true }
func (timeoutErr) Temporary() bool { return true }

var errDialTimeout = &net.OpError{Op: "dial", Net: "tcp", Err: timeoutErr{}}

// Dial implements network.Transporter the way TCPTransport does: connect, wrap the connection in a TCPPeer, start its
// connection loop; the accepting side does the same with its end (what TCPTransport.Accept does per connection).
func (t *simTransport) Dial(addr string, timeout time.Duration) (network.AddressablePeer, error) {
	s := t.sim
	s.mu.Lock()
	if t.node.gen != t.gen || !t.node.up {
		// the Server this transport belongs to has been shut down; its discovery has no stop of its own and would
		// go on dialling for ever: the process would have exited, so does this goroutine
		s.mu.Unlock()
		runtime.Goexit()
	}
	a := t.node.idx
	target, ok := s.byAddr[addr]
	if !ok {
		s.mu.Unlock()
		return nil, errRefused
	}
	b := target.idx
	s.dials[[2]int{a, b}]++
	if s.dials[[2]int{a, b}] > 1 {
		s.redials++
	}
	if s.blockedLocked(a, b) {
		// the SYN is lost: the dial times out
		s.dialTimeouts++
		s.mu.Unlock()
		time.Sleep(timeout)
		return nil, errDialTimeout
	}
	if !target.up || target.srv == nil {
		s.dialRefused++
		s.mu.Unlock()
		return nil, errRefused
	}
	if a == b {
		s.selfDials++ // (its own address came back in an addr message: the Server finds out by the identical id)
	}
	if len(s.links) > 20000 {
		panic(HarnessSpin{fmt.Sprintf("harness: more than %d connections in one run (%d ms): the nodes connect and disconnect without end", len(s.links), s.now()/time.Millisecond)})
	}
	n := s.linkCount[[2]int{a, b}]
	s.linkCount[[2]int{a, b}]++
	l := &simLink{id: linkID{a: a, b: b, n: n}}
	eph := 30000 + 100*b + n%100
	la := &net.TCPAddr{IP: nodeIP(a), Port: eph}
	lb := &net.TCPAddr{IP: nodeIP(b), Port: srvPort}
	l.ends[0] = &simConn{sim: s, link: l, owner: t.node, side: 0, local: la, remote: lb, wake: make(chan struct{}, 1)}
	l.ends[1] = &simConn{sim: s, link: l, owner: target, side: 1, local: lb, remote: la, wake: make(chan struct{}, 1)}
	l.acceptGen = target.gen
	s.links[l.id] = l
	s.newLinks = append(s.newLinks, l)
	s.mu.Unlock()

	// the dialler has its connection now; the accepting Server gets its end when the driver says so (one accepted
	// connection per driver event: the order in which the peers of concurrent dials reach Server.run's register
	// channel decides, through its loop counter, when the Server asks for more peers)
	pa := network.NewTCPPeer(l.ends[0], addr, t.srv)
	go pa.VerifHandleConn()
	return pa, nil
}

// accept is the driver event that hands the accepting end to the accepting Server (TCPTransport.Accept's loop body).
func (s *srvSim) accept(l *simLink) {
	if l.dead {
		return
	}
	target := s.nodes[l.id.b]
	s.mu.Lock()
	ok := target != nil && target.up && target.srv != nil && target.gen == l.acceptGen
	var tsrv *network.Server
	if ok {
		tsrv = target.srv
	}
	s.mu.Unlock()
	if !ok {
		l.reset() // the listener is gone
		s.r.out.Probes["connection_to_vanished_listener"]++
		return
	}
	l.accepted = true
	pb := network.NewTCPPeer(l.ends[1], "", tsrv)
	go pb.VerifHandleConn()
}

// Accept blocks until Close: connections are handed to the accepting Server by the dialler's Dial.
func (t *simTransport) Accept() { <-t.closed }

func (t *simTransport) Proto() string { return "tcp" }

func (t *simTransport) HostPort() (string, string) {
	return nodeIP(t.node.idx).String(), fmt.Sprint(srvPort)
}

func (t *simTransport) Close() { t.once.Do(func() { close(t.closed) }) }

var _ net.Conn = (*simConn)(nil)
var _ network.Transporter = (*simTransport)(nil)
var _ = io.EOF

// pktCommands lists the commands of the messages in one packet without decoding payloads
// ([flags][command][var-length payload]...); ok is false when the framing is broken.
func pktCommands(data []byte) (cmds []network.CommandType, firstPayloadByte []int, ok bool) {
	for len(data) > 0 {
		if len(data) < 3 {
			return cmds, firstPayloadByte, false
		}
		flags := data[0]
		cmd := network.CommandType(data[1])
		l, n := readVarUint(data[2:])
		if n == 0 || uint64(len(data)-2-n) < l {
			return cmds, firstPayloadByte, false
		}
		body := data[2+n : 2+n+int(l)]
		fb := -1
		if flags&byte(network.Compressed) == 0 && len(body) > 0 {
			fb = int(body[0])
		}
		cmds = append(cmds, cmd)
		firstPayloadByte = append(firstPayloadByte, fb)
		data = data[2+n+int(l):]
	}
	return cmds, firstPayloadByte, true
}

func readVarUint(b []byte) (uint64, int) {
	if len(b) == 0 {
		return 0, 0
	}
	switch b[0] {
	case 0xfd:
		if len(b) < 3 {
			return 0, 0
		}
		return uint64(b[1]) | uint64(b[2])<<8, 3
	case 0xfe:
		if len(b) < 5 {
			return 0, 0
		}
		return uint64(b[1]) | uint64(b[2])<<8 | uint64(b[3])<<16 | uint64(b[4])<<24, 5
	case 0xff:
		if len(b) < 9 {
			return 0, 0
		}
		var v uint64
		for i := 0; i < 8; i++ {
			v |= uint64(b[1+i]) << (8 * i)
		}
		return v, 9
	}
	return uint64(b[0]), 1
}
