package ledger

import (
	"crypto/ecdsa"
	"crypto/sha256"
	"fmt"
	"math/big"

	"github.com/decred/dcrd/dcrec/secp256k1/v4"
	"github.com/nspcc-dev/neo-go/pkg/core/native"
	"github.com/nspcc-dev/neo-go/pkg/core/native/nativehashes"
	"github.com/nspcc-dev/neo-go/pkg/core/transaction"
	"github.com/nspcc-dev/neo-go/pkg/crypto/hash"
	"github.com/nspcc-dev/neo-go/pkg/crypto/keys"
	nio "github.com/nspcc-dev/neo-go/pkg/io"
	"github.com/nspcc-dev/neo-go/pkg/neotest"
	"github.com/nspcc-dev/neo-go/pkg/smartcontract"
	"github.com/nspcc-dev/neo-go/pkg/util"
	"github.com/nspcc-dev/neo-go/pkg/vm/emit"
	"github.com/nspcc-dev/neo-go/pkg/vm/opcode"
)

// Workload additions that touch node-local / process-wide state the other operations never reach:
//
//   OpCrypto     one byte string used as a public key on two curves: as a secp256k1 key in a CryptoLib.verifyWithECDsa
//                call and as a secp256r1 key in the verification script of a 1-of-2 multisignature account (the
//                process-wide cache of decoded keys is keyed by the bytes)
//   OpLedgerRead scripts whose outcome depends on what the native Ledger contract answers about blocks and
//                transactions around the edge of the traceable window (nodes keep different amounts of history)
//   NEO setters  setGasPerBlock / setRegisterPrice (OpPolicy selector 5, Y%4 == 2)

// dualKey is a secp256k1 key pair whose compressed public key bytes also decode as a secp256r1 point.
type dualKey struct {
	k1     *keys.PrivateKey
	pub    []byte
	msig   []byte // 1-of-2 verification script over {pub taken as a secp256r1 key, account 0's key}
	msigH  util.Uint160
	funded bool
}

func (p *producer) dual() *dualKey {
	if p.dk != nil {
		return p.dk
	}
	curve := secp256k1.S256() //nolint:staticcheck
	for i := 0; ; i++ {
		d := sha256.Sum256([]byte(fmt.Sprintf("verif-dual-curve-key-%d", i)))
		ep := ecdsa.PrivateKey{D: new(big.Int).SetBytes(d[:])}
		ep.PublicKey.Curve = curve
		ep.PublicKey.X, ep.PublicKey.Y = curve.ScalarBaseMult(d[:])
		priv := &keys.PrivateKey{PrivateKey: ep}
		pub := priv.PublicKey().Bytes()
		asR1 := new(keys.PublicKey)
		if asR1.DecodeBytes(pub) != nil {
			continue
		}
		// with one signature the multisignature check tries the keys from the end of the sorted list: the two-curve
		// key has to be the one tried (and decoded) before account 0's key fits
		if asR1.Cmp(p.kr.accts[0].PublicKey()) <= 0 {
			continue
		}
		script, err := smartcontract.CreateMultiSigRedeemScript(1, keys.PublicKeys{asR1, p.kr.accts[0].PublicKey()})
		if err != nil {
			panic(err)
		}
		p.dk = &dualKey{k1: priv, pub: pub, msig: script, msigH: hash.Hash160(script)}
		return p.dk
	}
}

func (p *producer) cryptoTx(o Op) (*transaction.Transaction, string) {
	bc := p.n.BC
	dk := p.dual()
	a := p.kr.acct(o.A)
	mk := func(script []byte, signer neotest.Signer) *transaction.Transaction {
		tx := transaction.New(script, 0)
		p.nonce++
		tx.Nonce = p.nonce
		tx.ValidUntilBlock = bc.BlockHeight() + 1 + uint32(o.Y%3)
		p.finishTx(tx, []neotest.Signer{signer})
		return tx
	}
	sel := o.X % 2
	if !dk.funded || bc.GetUtilityTokenBalance(dk.msigH, util.Uint160{}).Sign() <= 0 {
		sel = 2 // the 1-of-2 account needs funds first
	}
	switch sel {
	case 0:
		// the bytes as a secp256k1 key: a valid signature must verify (ASSERT: the transaction HALTs or FAULTs with it)
		msg := []byte(fmt.Sprintf("verif message %d", o.N))
		sig := dk.k1.SignHash(hash.Sha256(msg))
		w := nio.NewBufBinWriter()
		emit.AppCall(w.BinWriter, nativehashes.CryptoLib, "verifyWithECDsa", 0x0f, msg, dk.pub, sig, int64(native.Secp256k1Sha256))
		emit.Opcodes(w.BinWriter, opcode.ASSERT)
		return mk(w.Bytes(), a), "CryptoLib.verifyWithECDsa(secp256k1) of the two-curve key bytes"
	case 2:
		dk.funded = true
		return mk(callScript(nativehashes.GasToken, "transfer", a.ScriptHash(), dk.msigH, int64(3_0000_0000), nil), a), "fund the 1-of-2 account holding the two-curve key bytes"
	default:
		// a transaction of the 1-of-2 account, signed by account 0: the witness check decodes both keys as secp256r1
		tx := transaction.New(callScript(nativehashes.GasToken, "transfer", dk.msigH, p.kr.acctHash(o.B), int64(1000), nil), 2000_0000)
		p.nonce++
		tx.Nonce = p.nonce
		tx.ValidUntilBlock = bc.BlockHeight() + 1 + uint32(o.Y%3)
		tx.Signers = []transaction.Signer{{Account: dk.msigH, Scopes: transaction.CalledByEntry}}
		tx.NetworkFee = 1000_0000
		w := nio.NewBufBinWriter()
		emit.Bytes(w.BinWriter, p.kr.accts[0].SignHashable(uint32(bc.GetConfig().Magic), tx))
		tx.Scripts = []transaction.Witness{{InvocationScript: w.Bytes(), VerificationScript: dk.msig}}
		return tx, "transfer from the 1-of-2 account holding the two-curve key bytes"
	}
}

// ledgerReadScript: what the native Ledger contract says about an old block / transaction decides what gets stored.
func (p *producer) ledgerReadScript(o Op) ([]byte, string) {
	bc := p.n.BC
	haveK := p.kalive[o.B%numContracts]
	k := p.khash[o.B%numContracts]
	h := bc.BlockHeight()
	mtb := bc.GetMaxTraceableBlocks()
	// an index around the edge of the traceable window (or any old one)
	idx := uint32(0)
	switch o.X % 4 {
	case 0:
		if h+1 >= mtb {
			idx = h + 1 - mtb // the oldest traceable block when the script runs in block h+1
		}
	case 1:
		if h >= mtb {
			idx = h - mtb // just outside
		}
	case 2:
		if h+2 >= mtb {
			idx = h + 2 - mtb
		}
	default:
		idx = uint32(o.N) % (h + 1)
	}
	w := nio.NewBufBinWriter()
	var what string
	txOf := func() util.Uint256 {
		if b, err := bc.GetBlock(bc.GetHeaderHash(idx)); err == nil && len(b.Transactions) > 0 {
			return b.Transactions[int(o.N)%len(b.Transactions)].Hash()
		}
		return util.Uint256{}
	}
	// every variant leaves "the ledger does not know it" as a boolean on the stack
	ntx := 0
	if b, err := bc.GetBlock(bc.GetHeaderHash(idx)); err == nil {
		ntx = len(b.Transactions)
	}
	// (an index inside the block, or one or two past its end: the latter faults for a traceable block and must answer
	// "unknown" for an untraceable one, whether or not the node still stores the block)
	ti := int64(o.N) % int64(ntx+2)
	switch o.Y % 8 {
	case 4:
		emit.AppCall(w.BinWriter, nativehashes.LedgerContract, "getTransactionFromBlock", 0x0f, int64(idx), ti)
		emit.Opcodes(w.BinWriter, opcode.ISNULL)
		what = fmt.Sprintf("getTransactionFromBlock(%d, %d of %d)", idx, ti, ntx)
		p.txFromBlockReads = append(p.txFromBlockReads, [2]uint32{h + 1, idx})
	case 5:
		emit.AppCall(w.BinWriter, nativehashes.LedgerContract, "getTransactionFromBlock", 0x0f, bc.GetHeaderHash(idx), ti)
		emit.Opcodes(w.BinWriter, opcode.ISNULL)
		what = fmt.Sprintf("getTransactionFromBlock(hash of %d, %d of %d)", idx, ti, ntx)
		p.txFromBlockReads = append(p.txFromBlockReads, [2]uint32{h + 1, idx})
	case 6:
		emit.AppCall(w.BinWriter, nativehashes.LedgerContract, "getTransactionSigners", 0x0f, txOf())
		emit.Opcodes(w.BinWriter, opcode.ISNULL)
		what = fmt.Sprintf("getTransactionSigners(of block %d)", idx)
	case 7:
		emit.AppCall(w.BinWriter, nativehashes.LedgerContract, "getBlock", 0x0f, bc.GetHeaderHash(idx))
		emit.Opcodes(w.BinWriter, opcode.ISNULL)
		what = fmt.Sprintf("getBlock(hash of %d)", idx)
	case 0:
		emit.AppCall(w.BinWriter, nativehashes.LedgerContract, "getBlock", 0x0f, int64(idx))
		emit.Opcodes(w.BinWriter, opcode.ISNULL)
		what = fmt.Sprintf("getBlock(%d)", idx)
	case 1:
		emit.AppCall(w.BinWriter, nativehashes.LedgerContract, "getTransactionHeight", 0x0f, txOf())
		emit.Opcodes(w.BinWriter, opcode.PUSHM1, opcode.NUMEQUAL)
		what = fmt.Sprintf("getTransactionHeight(of block %d)", idx)
	case 2:
		emit.AppCall(w.BinWriter, nativehashes.LedgerContract, "getTransaction", 0x0f, txOf())
		emit.Opcodes(w.BinWriter, opcode.ISNULL)
		what = fmt.Sprintf("getTransaction(of block %d)", idx)
	default:
		emit.AppCall(w.BinWriter, nativehashes.LedgerContract, "getTransactionVMState", 0x0f, txOf())
		p.vmStateReads = append(p.vmStateReads, [2]uint32{h + 1, idx})
		emit.Opcodes(w.BinWriter, opcode.PUSH0, opcode.NUMEQUAL)
		what = fmt.Sprintf("getTransactionVMState(of block %d)", idx)
	}
	if !haveK {
		// no helper contract to store the answer in: the transaction HALTs or FAULTs with it
		emit.Opcodes(w.BinWriter, opcode.ASSERT)
		if w.Err != nil {
			panic(w.Err)
		}
		return w.Bytes(), fmt.Sprintf("ASSERT(Ledger.%s is absent) at height %d (MaxTraceableBlocks %d)", what, h, mtb)
	}
	// bool -> 1 : 2
	emit.Instruction(w.BinWriter, opcode.JMPIFNOT, []byte{5})
	emit.Opcodes(w.BinWriter, opcode.PUSH1)
	emit.Instruction(w.BinWriter, opcode.JMP, []byte{3})
	emit.Opcodes(w.BinWriter, opcode.PUSH2)
	// K.put(key, value): value is on the stack, the key goes on top of it
	emit.Bytes(w.BinWriter, kKeys[o.X%len(kKeys)])
	emit.Opcodes(w.BinWriter, opcode.PUSH2, opcode.PACK)
	emit.AppCallNoArgs(w.BinWriter, k, "put", 0x0f)
	emit.Opcodes(w.BinWriter, opcode.DROP)
	if w.Err != nil {
		panic(w.Err)
	}
	return w.Bytes(), fmt.Sprintf("K%d.put(key, Ledger.%s is absent ? 1 : 2) at height %d (MaxTraceableBlocks %d)", o.B%numContracts, what, h, mtb)
}

// ledgerVMStateOfBlockUpTo tells whether the block the producer made at height x holds a script that asks the native
// Ledger contract for the VM state of a transaction of a block with index <= upTo (recorded finding: a
// state-synchronised node has the blocks of the traceable window before its sync point, but never executed them and
// has no execution results for their transactions).
func (r *run) ledgerVMStateOfBlockUpTo(x, upTo uint32) bool {
	for _, rd := range r.prod.vmStateReads {
		if rd[0] == x && rd[1] <= upTo {
			return true
		}
	}
	return false
}

// ledgerTxFromBlockUpTo tells whether the block the producer made at height x holds a script that asks the native Ledger
// contract for a transaction of a block with index <= upTo by block and position (recorded finding F-led-2: a
// state-synchronised node holds the blocks of the traceable window before its sync point without the transactions'
// contents; getTransactionFromBlock faults there - "transaction does not have signers" - where other nodes answer).
func (r *run) ledgerTxFromBlockUpTo(x, upTo uint32) bool {
	for _, rd := range r.prod.txFromBlockReads {
		if rd[0] == x && rd[1] <= upTo {
			return true
		}
	}
	return false
}
