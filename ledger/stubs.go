package ledger
