package ledger

func (r *run) checkC11(n *Node, h uint32) {}
func (r *run) finalC11(n *Node)           {}
