package ledger

import "pgregory.net/rapid"

type CorruptOp struct{}
type AtomPlan struct{}

func drawC04(rt *rapid.T, p *Plan, tier string) *Plan { return p }
func drawC06(rt *rapid.T, p *Plan, tier string) *Plan { return p }
func (r *run) runC04()                               {}
func (r *run) runC06()                               {}
func (r *run) checkC11(n *Node, h uint32)            {}
func (r *run) finalC11(n *Node)                      {}
