package ledger

import (
	"testing"

	"verif/sim"
)

func TestEngine(t *testing.T) { sim.Main(t, Engine{}) }
