package ledger

import (
	"crypto/sha256"
	"encoding/hex"
	"fmt"
	"sort"
	"strings"

	"github.com/nspcc-dev/neo-go/pkg/core/native/nativehashes"
	"github.com/nspcc-dev/neo-go/pkg/core/native/noderoles"
	"github.com/nspcc-dev/neo-go/pkg/core/state"
	"github.com/nspcc-dev/neo-go/pkg/core/transaction"
	"github.com/nspcc-dev/neo-go/pkg/io"
	"github.com/nspcc-dev/neo-go/pkg/smartcontract/callflag"
	"github.com/nspcc-dev/neo-go/pkg/smartcontract/trigger"
	"github.com/nspcc-dev/neo-go/pkg/util"
	"github.com/nspcc-dev/neo-go/pkg/vm/stackitem"

	"verif/sim"
)

// Observation is everything the C01 statement lists, taken from one node for
// one height through its public API. Sections are kept separately so that a
// mismatch names what differs.
type Observation struct {
	Height   uint32
	Sections map[string]string // section -> hex digest
	Detail   map[string]string // section -> human readable excerpt (bounded)
	Dump     []string          // full sorted storage dump
}

func itemBytes(it stackitem.Item) []byte {
	b, err := stackitem.Serialize(it)
	if err != nil {
		return []byte("unserializable:" + it.Type().String())
	}
	return b
}

func aerBytes(a *state.AppExecResult) []byte {
	w := io.NewBufBinWriter()
	w.WriteBytes(a.Container[:])
	w.WriteB(byte(a.Trigger))
	w.WriteB(byte(a.VMState))
	w.WriteU64LE(uint64(a.GasConsumed))
	w.WriteVarUint(uint64(len(a.Stack)))
	for _, it := range a.Stack {
		w.WriteVarBytes(itemBytes(it))
	}
	w.WriteVarUint(uint64(len(a.Events)))
	for _, e := range a.Events {
		w.WriteBytes(e.ScriptHash[:])
		w.WriteString(e.Name)
		w.WriteVarBytes(itemBytes(e.Item))
	}
	return w.Bytes()
}

// world is what the harness knows about the run and needs in order to ask questions.
type world struct {
	accounts  []util.Uint160
	contracts map[util.Uint160]int32 // every helper contract ever deployed -> id
}

func sum(parts ...[]byte) string {
	h := sha256.New()
	for _, p := range parts {
		h.Write(p)
		h.Write([]byte{0xfe})
	}
	return hex.EncodeToString(h.Sum(nil))[:24]
}

// StorageDump returns the complete contract storage of the node, sorted.
func StorageDump(n *Node, w *world) []string {
	var ids []int32
	for _, c := range n.BC.GetNatives() {
		ids = append(ids, c.ID)
	}
	for _, id := range w.contracts {
		ids = append(ids, id)
	}
	sort.Slice(ids, func(i, j int) bool { return ids[i] < ids[j] })
	var res []string
	for i, id := range ids {
		if i > 0 && ids[i-1] == id {
			continue
		}
		var kvs []string
		n.BC.SeekStorage(id, nil, func(k, v []byte) bool {
			kvs = append(kvs, fmt.Sprintf("%d/%x=%x", id, k, v))
			return true
		})
		sort.Strings(kvs)
		res = append(res, kvs...)
	}
	return res
}

// Observe takes the observation of node n for its current height h (= the block just added).
func Observe(n *Node, w *world) (*Observation, error) {
	n.Enter()
	bc := n.BC
	h := bc.BlockHeight()
	o := &Observation{Height: h, Sections: map[string]string{}, Detail: map[string]string{}}

	sr, err := bc.GetStateRoot(h)
	if err != nil {
		return nil, fmt.Errorf("GetStateRoot(%d): %w", h, err)
	}
	o.Sections["stateroot"] = sr.Root.StringLE()[:24]
	o.Detail["stateroot"] = sr.Root.StringLE()

	bh := bc.GetHeaderHash(h)
	blk, err := bc.GetBlock(bh)
	if err != nil {
		return nil, fmt.Errorf("GetBlock(%d): %w", h, err)
	}
	var aerParts [][]byte
	var aerDesc []string
	addAER := func(hh util.Uint256) error {
		aers, err := bc.GetAppExecResults(hh, trigger.All)
		if err != nil {
			return fmt.Errorf("GetAppExecResults(%s): %w", hh.StringLE()[:8], err)
		}
		for i := range aers {
			aerParts = append(aerParts, aerBytes(&aers[i]))
			aerDesc = append(aerDesc, fmt.Sprintf("%s:%s:%s:gas=%d:ev=%d:st=%d", hh.StringLE()[:6], aers[i].Trigger, aers[i].VMState, aers[i].GasConsumed, len(aers[i].Events), len(aers[i].Stack)))
		}
		return nil
	}
	if err := addAER(bh); err != nil {
		return nil, err
	}
	for _, tx := range blk.Transactions {
		if err := addAER(tx.Hash()); err != nil {
			return nil, err
		}
	}
	o.Sections["aer"] = sum(aerParts...)
	o.Detail["aer"] = strings.Join(aerDesc, " ")

	dump := StorageDump(n, w)
	o.Sections["storage"] = sum([]byte(strings.Join(dump, "\n")))
	o.Detail["storage"] = fmt.Sprintf("%d items", len(dump))
	o.Dump = dump

	var gov []string
	cm, err := bc.GetCommittee()
	if err != nil {
		return nil, fmt.Errorf("GetCommittee: %w", err)
	}
	for _, k := range cm {
		gov = append(gov, "c:"+k.StringCompressed())
	}
	nv, err := bc.GetNextBlockValidators()
	if err != nil {
		return nil, fmt.Errorf("GetNextBlockValidators: %w", err)
	}
	for _, k := range nv {
		gov = append(gov, "v:"+k.StringCompressed())
	}
	for _, k := range bc.ComputeNextBlockValidators() {
		gov = append(gov, "n:"+k.StringCompressed())
	}
	en, err := bc.GetEnrollments()
	if err != nil {
		return nil, fmt.Errorf("GetEnrollments: %w", err)
	}
	var ens []string
	for _, e := range en {
		ens = append(ens, "e:"+e.Key.StringCompressed()+"="+e.Votes.String())
	}
	sort.Strings(ens)
	gov = append(gov, ens...)
	o.Sections["governance"] = sum([]byte(strings.Join(gov, "\n")))
	o.Detail["governance"] = strings.Join(gov, " ")

	pol := fmt.Sprintf("fpb=%d exec=%d sp=%d mtb=%d", bc.FeePerByte(), bc.GetBaseExecFee(), bc.GetStoragePrice(), bc.GetMaxTraceableBlocks())
	pol += fmt.Sprintf(" vub=%d ms=%d attr=", bc.GetMaxValidUntilBlockIncrement(), bc.GetMillisecondsPerBlock())
	for _, at := range []transaction.AttrType{transaction.HighPriority, transaction.OracleResponseT, transaction.NotValidBeforeT, transaction.ConflictsT, transaction.NotaryAssistedT} {
		pol += fmt.Sprintf("%d,", bc.CalculateAttributesFee(&transaction.Transaction{Attributes: []transaction.Attribute{{Type: at, Value: &transaction.NotaryAssisted{NKeys: 1}}}}))
	}
	o.Sections["policy"] = pol
	o.Detail["policy"] = pol

	var cs []string
	for _, c := range bc.GetNatives() {
		cs = append(cs, fmt.Sprintf("native:%d:%s:%d", c.ID, c.Hash.StringLE()[:8], c.UpdateCounter))
	}
	var hs []util.Uint160
	for hh := range w.contracts {
		hs = append(hs, hh)
	}
	sort.Slice(hs, func(i, j int) bool { return hs[i].Less(hs[j]) })
	for _, hh := range hs {
		c := bc.GetContractState(hh)
		if c != nil {
			// the price of a read-only call as the node would charge it now (execution fee factor, whitelisted fees)
			// the manifest as the node holds it, in its canonical (stack item) form: the JSON form distinguishes a nil
			// parameter list from an empty one, which differs between a manifest parsed at deployment and one read
			// back from storage and means nothing
			var mj []byte
			if it, err := c.Manifest.ToStackItem(); err == nil {
				mj, _ = stackitem.Serialize(it)
			}
			cs = append(cs, fmt.Sprintf("k:%s:id=%d:upd=%d:nef=%d:man=%s:get=%s:put=%s", hh.StringLE()[:8], c.ID, c.UpdateCounter, c.NEF.Checksum, sum(mj)[:12],
				invokePrice(n, callScript(hh, "get", []byte{1})), invokePrice(n, callScript(hh, "put", []byte{1}, []byte{2}))))
		}
	}
	o.Sections["contracts"] = sum([]byte(strings.Join(cs, "\n")))
	o.Detail["contracts"] = strings.Join(cs, " ")

	var roles []string
	for _, role := range []noderoles.Role{noderoles.StateValidator, noderoles.Oracle, noderoles.NeoFSAlphabet, noderoles.P2PNotary} {
		ks, since, err := bc.GetDesignatedByRole(role)
		if err != nil {
			roles = append(roles, fmt.Sprintf("role%d:err", role))
			continue
		}
		var kk []string
		for _, k := range ks {
			kk = append(kk, k.StringCompressed()[:10])
		}
		roles = append(roles, fmt.Sprintf("role%d@%d:%s", role, since, strings.Join(kk, ",")))
	}
	o.Sections["roles"] = sum([]byte(strings.Join(roles, "\n")))
	o.Detail["roles"] = strings.Join(roles, " ")

	// native Oracle contract: the request price as the node answers it now (kept in a native cache that a restart rebuilds
	// from storage) and the number of stored requests / id lists (their content is part of the storage section; the
	// designated Oracle nodes are part of the roles section)
	ora := "price=" + runScript(n, callScript(nativehashes.OracleContract, "getPrice"), 0)
	if ocs := bc.GetContractState(nativehashes.OracleContract); ocs != nil {
		nreq, nlist := 0, 0
		bc.SeekStorage(ocs.ID, []byte{oraPfxRequest}, func(k, v []byte) bool { nreq++; return true })
		bc.SeekStorage(ocs.ID, []byte{oraPfxIDList}, func(k, v []byte) bool { nlist++; return true })
		ora += fmt.Sprintf(" requests=%d urls=%d", nreq, nlist)
	} else {
		ora += " no-contract-state"
	}
	o.Sections["oracle"] = ora
	o.Detail["oracle"] = ora

	var bal []string
	for i, a := range w.accounts {
		neo, lh := bc.GetGoverningTokenBalance(a)
		gas := bc.GetUtilityTokenBalance(a, util.Uint160{})
		cl, err := bc.CalculateClaimable(a, h+1)
		cls := "err"
		if err == nil {
			cls = cl.String()
		}
		bal = append(bal, fmt.Sprintf("a%d neo=%s@%d gas=%s claim=%s", i, neo, lh, gas, cls))
	}
	o.Sections["balances"] = sum([]byte(strings.Join(bal, "\n")))
	o.Detail["balances"] = strings.Join(bal, " | ")
	return o, nil
}

// Diff returns the names of sections that differ.
func (o *Observation) Diff(p *Observation) []string {
	var d []string
	for k, v := range o.Sections {
		if p.Sections[k] != v {
			d = append(d, k)
		}
	}
	sort.Strings(d)
	return d
}

// Key is the total digest.
func (o *Observation) Key() string {
	var ks []string
	for k := range o.Sections {
		ks = append(ks, k)
	}
	sort.Strings(ks)
	var sb strings.Builder
	for _, k := range ks {
		sb.WriteString(k + "=" + o.Sections[k] + ";")
	}
	return sb.String()
}

// invokePrice runs script in the node's test VM and returns the final state and the GAS it consumed.
func invokePrice(n *Node, script []byte) string {
	tx := transaction.New(script, 0)
	tx.Signers = []transaction.Signer{{Account: util.Uint160{1}, Scopes: transaction.None}}
	res := "?"
	if v := sim.Recover(func() {
		ic, err := n.BC.GetTestVM(trigger.Application, tx, nil)
		if err != nil {
			res = "ERR-VM"
			return
		}
		defer ic.Finalize()
		ic.VM.SetGasLimit(20_00000000)
		ic.VM.LoadWithFlags(script, callflag.All)
		_ = ic.VM.Run()
		res = fmt.Sprintf("%s/%d", ic.VM.State().String(), ic.VM.GasConsumed())
	}); v != nil {
		return "PANIC:" + v.Sig
	}
	return res
}
