package ledger

import (
	"bytes"
	"context"
	"encoding/base64"
	"encoding/binary"
	"encoding/json"
	"fmt"
	"strings"

	"github.com/nspcc-dev/neo-go/pkg/config"
	"github.com/nspcc-dev/neo-go/pkg/core/mpt"
	"github.com/nspcc-dev/neo-go/pkg/neorpc"
	"github.com/nspcc-dev/neo-go/pkg/neorpc/result"
	"github.com/nspcc-dev/neo-go/pkg/services/rpcsrv"
	"github.com/nspcc-dev/neo-go/pkg/util"

	"verif/sim"
)

// C03 at the level a user reads state at: the RPC server's handlers of getstoragehistoric, findstoragehistoric,
// getstate, findstates, getproof and verifyproof (parameter parsing, contract lookup in the historic Management
// storage, paging, "absent" answers), called in process through Server.RegisterLocal - no HTTP, no sockets.

type rpcFront struct {
	call   func(*neorpc.Request) (*neorpc.Response, error)
	cancel context.CancelFunc
	bc     any
	// page sizes the server was configured with
	findStates, findStorage int
	id                      uint64
}

func (r *run) rpcOf(n *Node) *rpcFront {
	if n.rpc != nil && n.rpc.bc == any(n.BC) {
		return n.rpc
	}
	if n.rpc != nil {
		n.rpc.cancel()
	}
	f := &rpcFront{bc: n.BC, findStates: 1 + r.tape.Choose(3), findStorage: 1 + r.tape.Choose(3)}
	srv := rpcsrv.New(n.BC, config.RPC{
		BasicService:              config.BasicService{Enabled: true},
		MaxFindResultItems:        f.findStates,
		MaxFindStorageResultItems: f.findStorage,
	}, nil, nil, newLogger(n.logs), make(chan error, 8))
	ctx, cancel := context.WithCancel(context.Background())
	f.cancel = cancel
	f.call = srv.RegisterLocal(ctx, make(chan neorpc.Notification, 8))
	n.rpc = f
	return f
}

func (f *rpcFront) do(method string, ps ...any) (json.RawMessage, *neorpc.Error) {
	f.id++
	var resp *neorpc.Response
	var err error
	if v := sim.Recover(func() {
		resp, err = f.call(&neorpc.Request{JSONRPC: neorpc.JSONRPCVersion, Method: method, Params: ps, ID: f.id})
	}); v != nil {
		return nil, &neorpc.Error{Code: -1, Message: "PANIC: " + v.Msg}
	}
	if err != nil {
		return nil, &neorpc.Error{Code: -2, Message: err.Error()}
	}
	if resp.Error != nil {
		return nil, resp.Error
	}
	return resp.Result, nil
}

func b64(b []byte) string { return base64.StdEncoding.EncodeToString(b) }

func unb64(raw json.RawMessage) ([]byte, error) {
	var s string
	if err := json.Unmarshal(raw, &s); err != nil {
		return nil, err
	}
	return base64.StdEncoding.DecodeString(s)
}

// contractHashOf finds the hash under which contract id is registered on n (natives and the harness's contracts).
func (r *run) contractHashOf(n *Node, id int32) (util.Uint160, bool) {
	for _, c := range n.BC.GetNatives() {
		if c.ID == id {
			return c.Hash, true
		}
	}
	for h, i := range r.w.contracts {
		if i == id {
			return h, true
		}
	}
	return util.Uint160{}, false
}

func (r *run) verifyRootRPC(n *Node, h uint32, root util.Uint256, fs *flatState) {
	if n.Local.KeepLatest {
		return // (the state-based methods answer for the latest state only; nothing historic to ask)
	}
	f := r.rpcOf(n)
	// a contract that had items at that height
	var ids []int32
	for _, id := range fs.ids {
		var idb [4]byte
		binary.LittleEndian.PutUint32(idb[:], uint32(id))
		for _, k := range fs.keys {
			if k[:4] == string(idb[:]) {
				ids = append(ids, id)
				break
			}
		}
	}
	if len(ids) == 0 {
		return
	}
	id := ids[r.tape.Choose(len(ids))]
	hash, ok := r.contractHashOf(n, id)
	if !ok {
		return
	}
	var idb [4]byte
	binary.LittleEndian.PutUint32(idb[:], uint32(id))
	var want []string // storage keys of the contract (without the id), in trie order
	for _, k := range fs.keys {
		if k[:4] == string(idb[:]) {
			want = append(want, k[4:])
		}
	}
	val := func(k string) []byte { return fs.kv[string(idb[:])+k] }
	rootS := root.StringLE()
	hashS := hash.StringLE()
	fail := func(class, sig, format string, a ...any) {
		r.violate(sim.Violatef(class, sig, "%s, RPC front, state root of height %d, contract %d: %s", n.Name, h, id, fmt.Sprintf(format, a...)))
	}
	// the contract is named by hash, or (where the method takes it) by id
	byID := func() any {
		if r.tape.Chance(1, 3) {
			return int(id)
		}
		return hashS
	}
	// (1) point reads: present keys (an empty value is a value), an absent neighbour
	for s := 0; s < 3; s++ {
		k := want[r.tape.Choose(len(want))]
		raw, e := f.do("getstoragehistoric", rootS, byID(), b64([]byte(k)))
		if e != nil {
			fail("c03-rpc-get", "c03-rpc-get/getstoragehistoric", "getstoragehistoric(%x) answers %d %s %s; the item was stored with value %x", k, e.Code, e.Message, e.Data, val(k))
			return
		}
		if v, err := unb64(raw); err != nil || !bytes.Equal(v, val(k)) {
			fail("c03-rpc-get", "c03-rpc-get/getstoragehistoric-value", "getstoragehistoric(%x) = %s (%v), stored %x", k, raw, err, val(k))
			return
		}
		if len(val(k)) == 0 {
			r.out.Probes["c03_rpc_empty_value_read"]++
		}
		raw, e = f.do("getstate", rootS, hashS, b64([]byte(k)))
		if e != nil {
			fail("c03-rpc-get", "c03-rpc-get/getstate", "getstate(%x) answers %d %s %s; the item was stored with value %x", k, e.Code, e.Message, e.Data, val(k))
			return
		}
		if v, err := unb64(raw); err != nil || !bytes.Equal(v, val(k)) {
			fail("c03-rpc-get", "c03-rpc-get/getstate-value", "getstate(%x) = %s (%v), stored %x", k, raw, err, val(k))
			return
		}
		// proof round trip
		raw, e = f.do("getproof", rootS, hashS, b64([]byte(k)))
		if e != nil {
			fail("c03-rpc-proof", "c03-rpc-proof/getproof", "getproof(%x) answers %d %s %s for a stored item", k, e.Code, e.Message, e.Data)
			return
		}
		var proofS string
		if err := json.Unmarshal(raw, &proofS); err != nil {
			fail("c03-rpc-proof", "c03-rpc-proof/format", "getproof(%x) result %s: %v", k, raw, err)
			return
		}
		raw, e = f.do("verifyproof", rootS, proofS)
		if e != nil {
			fail("c03-rpc-proof", "c03-rpc-proof/verifyproof", "verifyproof of getproof(%x) answers %d %s %s", k, e.Code, e.Message, e.Data)
			return
		}
		if v, err := unb64(raw); err != nil || !bytes.Equal(v, val(k)) {
			fail("c03-rpc-proof", "c03-rpc-proof/value", "verifyproof of getproof(%x) = %s (%v), stored %x", k, raw, err, val(k))
			return
		}
		r.out.Probes["c03_rpc_point_reads"]++
		ak := "\x7f"
		if len(k) > 0 {
			ak = k[:len(k)-1] + string([]byte{k[len(k)-1] ^ 0x01})
		}
		if _, present := fs.kv[string(idb[:])+ak]; !present {
			if raw, e := f.do("getstoragehistoric", rootS, byID(), b64([]byte(ak))); e == nil {
				fail("c03-rpc-get", "c03-rpc-get/absent", "getstoragehistoric(absent %x) = %s", ak, raw)
				return
			}
			if raw, e := f.do("getstate", rootS, hashS, b64([]byte(ak))); e == nil {
				fail("c03-rpc-get", "c03-rpc-get/absent", "getstate(absent %x) = %s", ak, raw)
				return
			}
			if raw, e := f.do("getproof", rootS, hashS, b64([]byte(ak))); e == nil {
				var ps string
				_ = json.Unmarshal(raw, &ps)
				if raw2, e2 := f.do("verifyproof", rootS, ps); e2 == nil && string(raw2) != `"invalid"` {
					fail("c03-rpc-proof", "c03-rpc-proof/absent", "a proof served for absent key %x verifies to %s", ak, raw2)
					return
				}
			}
			r.out.Probes["c03_rpc_absent_reads"]++
		}
	}
	// (2) range reads, page by page, for the whole contract or a prefix shared by two keys
	prefix := ""
	if r.tape.Chance(1, 2) {
		k := want[r.tape.Choose(len(want))]
		if len(k) > 0 {
			prefix = k[:1+r.tape.Choose(len(k))]
		}
	}
	var wantP []string
	for _, k := range want {
		if strings.HasPrefix(k, prefix) {
			wantP = append(wantP, k)
		}
	}
	// findstoragehistoric: keys come back with the prefix, `next` is the number of items to skip
	var got []string
	next := 0
	for guard := 0; guard < len(wantP)+3; guard++ {
		raw, e := f.do("findstoragehistoric", rootS, byID(), b64([]byte(prefix)), next)
		if e != nil {
			fail("c03-rpc-find", "c03-rpc-find/findstoragehistoric", "findstoragehistoric(prefix %x, start %d) answers %d %s %s", prefix, next, e.Code, e.Message, e.Data)
			return
		}
		var res result.FindStorage
		if err := json.Unmarshal(raw, &res); err != nil {
			fail("c03-rpc-find", "c03-rpc-find/format", "findstoragehistoric result %s: %v", raw, err)
			return
		}
		if len(res.Results) > f.findStorage {
			fail("c03-rpc-find", "c03-rpc-find/page", "findstoragehistoric returned %d items, the configured page is %d", len(res.Results), f.findStorage)
			return
		}
		for _, kv := range res.Results {
			got = append(got, string(kv.Key))
			if !bytes.Equal(kv.Value, val(string(kv.Key))) {
				fail("c03-rpc-find", "c03-rpc-find/value", "findstoragehistoric(prefix %x) returned %x=%x, stored %x", prefix, kv.Key, kv.Value, val(string(kv.Key)))
				return
			}
		}
		next = res.Next
		if !res.Truncated {
			break
		}
	}
	if !sameStrings(got, wantP) {
		fail("c03-rpc-find", "c03-rpc-find/sequence", "findstoragehistoric(prefix %x) page by page (page %d) gives %x, stored %x", prefix, f.findStorage, got, wantP)
		return
	}
	r.out.Probes["c03_rpc_findstorage_sequences"]++
	// findstates: keys come back without the contract id; the next page starts after the last key; first/last proofs
	got = got[:0]
	from := ""
	haveFrom := false
	for guard := 0; guard < len(wantP)+3; guard++ {
		ps := []any{rootS, hashS, b64([]byte(prefix))}
		if haveFrom {
			ps = append(ps, b64([]byte(from)))
		}
		raw, e := f.do("findstates", ps...)
		if e != nil {
			fail("c03-rpc-find", "c03-rpc-find/findstates", "findstates(prefix %x, from %x) answers %d %s %s", prefix, from, e.Code, e.Message, e.Data)
			return
		}
		var res result.FindStates
		if err := json.Unmarshal(raw, &res); err != nil {
			fail("c03-rpc-find", "c03-rpc-find/format", "findstates result %s: %v", raw, err)
			return
		}
		if len(res.Results) > f.findStates {
			fail("c03-rpc-find", "c03-rpc-find/page", "findstates returned %d items, the configured page is %d", len(res.Results), f.findStates)
			return
		}
		for _, kv := range res.Results {
			got = append(got, string(kv.Key))
			if !bytes.Equal(kv.Value, val(string(kv.Key))) {
				fail("c03-rpc-find", "c03-rpc-find/value", "findstates(prefix %x) returned %x=%x, stored %x", prefix, kv.Key, kv.Value, val(string(kv.Key)))
				return
			}
		}
		for i, p := range []*result.ProofWithKey{res.FirstProof, res.LastProof} {
			if p == nil {
				continue
			}
			idx := 0
			if i == 1 {
				idx = len(res.Results) - 1
			}
			if idx < 0 || idx >= len(res.Results) {
				fail("c03-rpc-proof", "c03-rpc-proof/findstates", "findstates carries a proof but %d results", len(res.Results))
				return
			}
			pv, ok := mpt.VerifyProof(root, p.Key, p.Proof)
			if !ok || !bytes.Equal(pv, res.Results[idx].Value) || string(p.Key) != string(idb[:])+string(res.Results[idx].Key) {
				fail("c03-rpc-proof", "c03-rpc-proof/findstates", "the proof findstates gives for result %d (key %x) verifies to %x, %v; the result says %x=%x", idx, p.Key, pv, ok, res.Results[idx].Key, res.Results[idx].Value)
				return
			}
			r.out.Probes["c03_rpc_findstates_proofs"]++
		}
		if !res.Truncated || len(res.Results) == 0 {
			break
		}
		from, haveFrom = string(res.Results[len(res.Results)-1].Key), true
		if from == prefix {
			// the method cannot express "after the item whose key is the prefix itself" (an empty remainder means "from
			// the beginning"): with a page of one item a client cannot get past that item; nothing to compare then
			r.out.Probes["c03_rpc_findstates_page_ends_on_the_prefix_item"]++
			return
		}
	}
	if !sameStrings(got, wantP) {
		fail("c03-rpc-find", "c03-rpc-find/sequence", "findstates(prefix %x) page by page (page %d) gives %x, stored %x", prefix, f.findStates, got, wantP)
		return
	}
	r.out.Probes["c03_rpc_findstates_sequences"]++
}

func sameStrings(a, b []string) bool {
	if len(a) != len(b) {
		return false
	}
	for i := range a {
		if a[i] != b[i] {
			return false
		}
	}
	return true
}
