package ledger

import (
	"container/heap"
	crand "crypto/rand"
	"fmt"
	"io"
	"os"
	"sort"
	"sync"
	"sync/atomic"
	"time"

	"github.com/nspcc-dev/dbft"
	"github.com/nspcc-dev/neo-go/pkg/core/transaction"
	"github.com/nspcc-dev/neo-go/pkg/crypto/keys"
	nio "github.com/nspcc-dev/neo-go/pkg/io"
	"github.com/nspcc-dev/neo-go/pkg/network"
	"github.com/nspcc-dev/neo-go/pkg/network/payload"
	"github.com/nspcc-dev/neo-go/pkg/util"
	"pgregory.net/rapid"

	"verif/sim"
	"verif/simdisk"
)

// Tier B ("server mode") of the network simulation: every node is a real core.Blockchain (+Run), a real
// network.Server built through the verif hook VerifNewServer and started with Start(), for validators a real
// consensus.Service wired as cli/server/server.go does, and real TCPPeer objects for every connection. The only
// simulated things are the byte transport between the TCPPeers (srvnet_conn.go) and the set of addresses the real
// discovery can dial. Tier A (net.go) replaces everything server.go does by a stub; here block relay, inv/getdata
// gossip, RequestTx, the extensible pool, block/header/MPT synchronisation requests are the code under test.

// SrvJoiner is a node that is created and started after the chain has grown.
type SrvJoiner struct {
	Kind       int  `json:"kind"`              // 0: full node (block synchronisation), 1: state synchronisation
	AtMS       int  `json:"at"`                // start time
	RestartMS  int  `json:"restart,omitempty"` // >0: stopped and reopened that long after its start
	KeepLatest bool `json:"keeplatest,omitempty"`
}

// SrvLateTx is submitted to validator Node BeforeMS before a proposal is due.
type SrvLateTx struct {
	Op       Op  `json:"op"`
	Node     int `json:"node"`
	BeforeMS int `json:"before_ms"`
	Height   int `json:"height"` // after this block
}

// SrvPart isolates the nodes of Mask from all others for an interval.
type SrvPart struct {
	Mask   uint16 `json:"mask"`
	FromMS int    `json:"from"`
	ToMS   int    `json:"to"`
}

// SrvPlan is one server-mode run.
type SrvPlan struct {
	Validators int  `json:"validators"`
	Observers  int  `json:"observers"`
	Sync       bool `json:"sync"`  // fault-free: no loss, no silence, no partition, no kill; liveness is asserted
	Lossy      bool `json:"lossy"` // false: tcp-faithful (in order, exactly once, loss only by losing the connection)
	DropPM     int  `json:"drop_pm,omitempty"`
	DupPM      int  `json:"dup_pm,omitempty"`
	ReorderPM  int  `json:"reorder_pm,omitempty"`
	MaxDelayMS int  `json:"max_delay_ms"`
	DurationMS int  `json:"duration_ms"`
	// faults
	Spans []Span    `json:"spans,omitempty"` // silent nodes (all their traffic blackholed), at most f validators at a time
	Parts []SrvPart `json:"parts,omitempty"`
	Kills []int     `json:"kills,omitempty"` // times at which one tape-chosen live connection is reset
	// nodes
	Joiners []SrvJoiner `json:"joiners,omitempty"`
	Restart []Span      `json:"restart,omitempty"` // observer restarts (node index, at FromMS)
	// chain-wide state exchange settings (needed by a state-synchronising joiner)
	StateSync bool `json:"statesync,omitempty"`
	Interval  int  `json:"interval,omitempty"`
	// server settings
	ProtoTickMS   int `json:"proto_tick_ms"`
	PingMS        int `json:"ping_ms"`
	PingTimeoutMS int `json:"ping_timeout_ms"`
	DialTimeoutMS int `json:"dial_timeout_ms"`
	// workload
	Txs     []NetTx `json:"txs,omitempty"`
	MaxTxPB int     `json:"max_tx_per_block,omitempty"`
	// Late: transactions that reach exactly one validator a few milliseconds before the next proposal is due, so that the
	// other validators have to fetch them when they get the proposal (Server.RequestTx, getdata, the consensus callback)
	Late []SrvLateTx `json:"late,omitempty"`
	// Rivals: see SrvRival
	Rivals []SrvRival `json:"rivals,omitempty"`
	// NoCompress: node (index+1) that runs with P2P.DisableCompression; Direct: nodes whose RPC server relays a
	// submitted transaction directly (RPC.DirectRelay: the transaction itself is broadcast, not its hash)
	NoCompress int    `json:"no_compress,omitempty"`
	Direct     uint8  `json:"direct,omitempty"`
	TailSeed   uint64 `json:"tail_seed"`
}

// srvFraction: which share of the C19/C20/C07 plans are server-mode plans (VERIF_SRV=1: all, VERIF_SRV=0: none).
func srvWanted(rt *rapid.T, prop string) bool {
	switch os.Getenv("VERIF_SRV") {
	case "1":
		return true
	case "0":
		return false
	}
	switch prop {
	case "C19", "C20":
		return rapid.IntRange(0, 2).Draw(rt, "srvmode") == 2
	case "C07":
		return rapid.IntRange(0, 4).Draw(rt, "srvmode") == 4
	}
	return false
}

func drawSrv(rt *rapid.T, p *Plan, prop, tier string) *Plan {
	sp := &SrvPlan{Validators: 4}
	if rapid.IntRange(0, 7).Draw(rt, "srv_seven") == 7 {
		sp.Validators = 7
	}
	sp.Observers = rapid.IntRange(0, 1).Draw(rt, "srv_observers")
	sp.Sync = rapid.IntRange(0, 2).Draw(rt, "srv_faulty") == 0
	if prop == "C07" {
		sp.Observers = 1
		sp.Sync = rapid.IntRange(0, 3).Draw(rt, "srv_faulty7") != 3
	}
	// VERIF_SRV_CFG=sync|faithful|lossy (measuring aid): only that configuration
	cfgOnly := os.Getenv("VERIF_SRV_CFG")
	if cfgOnly != "" {
		sp.Sync = cfgOnly == "sync"
	}
	// (intervals that are not multiples of one another: two timers of one node that expire at the same simulated
	// instant are served in an order no plan controls)
	sp.ProtoTickMS = []int{1013, 509, 1987}[rapid.IntRange(0, 2).Draw(rt, "srv_tick")]
	sp.PingMS = []int{2029, 1511, 3067}[rapid.IntRange(0, 2).Draw(rt, "srv_ping")]
	sp.PingTimeoutMS = sp.PingMS + []int{1973, 1009, 4093}[rapid.IntRange(0, 2).Draw(rt, "srv_pingto")]
	sp.DialTimeoutMS = []int{967, 523}[rapid.IntRange(0, 1).Draw(rt, "srv_dialto")]
	total0 := sp.Validators + sp.Observers
	f := (sp.Validators - 1) / 3
	if sp.Sync {
		sp.MaxDelayMS = rapid.IntRange(1, 80).Draw(rt, "srv_delay")
		sp.DurationMS = 21000
	} else {
		sp.Lossy = rapid.IntRange(0, 2).Draw(rt, "srv_lossy") == 2
		if cfgOnly != "" {
			sp.Lossy = cfgOnly == "lossy"
		}
		sp.MaxDelayMS = []int{20, 100, 400, 1200}[rapid.IntRange(0, 3).Draw(rt, "srv_delayc")]
		sp.DurationMS = rapid.IntRange(8, 24).Draw(rt, "srv_dur") * 1000
		if sp.Lossy {
			sp.DropPM = rapid.IntRange(0, 4).Draw(rt, "srv_drop") * 15
			sp.DupPM = rapid.IntRange(0, 3).Draw(rt, "srv_dup") * 40
			sp.ReorderPM = rapid.IntRange(0, 3).Draw(rt, "srv_reorder") * 60
		}
		// at most f validators silent at any time: f independent tracks of consecutive spans
		for track := 0; track < f; track++ {
			t := 0
			ns := rapid.IntRange(0, 3).Draw(rt, "srv_nspans")
			for i := 0; i < ns && t < sp.DurationMS; i++ {
				from := t + rapid.IntRange(0, 5000).Draw(rt, "srv_gap")
				to := from + rapid.IntRange(200, 7000).Draw(rt, "srv_len")
				sp.Spans = append(sp.Spans, Span{Node: rapid.IntRange(0, sp.Validators-1).Draw(rt, "srv_snode"), FromMS: from, ToMS: to, Track: track})
				t = to
			}
		}
		np := rapid.IntRange(0, 2).Draw(rt, "srv_nparts")
		t := 0
		for i := 0; i < np && t < sp.DurationMS; i++ {
			from := t + rapid.IntRange(500, 8000).Draw(rt, "srv_pgap")
			to := from + rapid.IntRange(300, 6000).Draw(rt, "srv_plen")
			sp.Parts = append(sp.Parts, SrvPart{Mask: uint16(rapid.IntRange(1, 1<<uint(total0)-2).Draw(rt, "srv_pmask")), FromMS: from, ToMS: to})
			t = to
		}
		nk := rapid.IntRange(0, 3).Draw(rt, "srv_nkills")
		for i := 0; i < nk; i++ {
			sp.Kills = append(sp.Kills, rapid.IntRange(500, sp.DurationMS-500).Draw(rt, "srv_killat"))
		}
		sort.Ints(sp.Kills)
	}
	// late joiners
	nj := []int{0, 0, 1, 1, 2}[rapid.IntRange(0, 4).Draw(rt, "srv_njoin")]
	if prop == "C20" {
		nj = rapid.IntRange(1, 2).Draw(rt, "srv_njoin20")
	}
	if prop == "C07" {
		nj = 0
	}
	last := 0
	far := false
	for i := 0; i < nj; i++ {
		j := SrvJoiner{Kind: rapid.IntRange(0, 1).Draw(rt, "srv_jkind")}
		if prop == "C20" && i == 0 && rapid.IntRange(0, 2).Draw(rt, "srv_jkind20") != 0 {
			j.Kind = 1
		}
		if os.Getenv("VERIF_SRV_STATESYNC") == "0" {
			j.Kind = 0 // (measuring aid: no state-synchronising joiner)
		}
		j.AtMS = rapid.IntRange(4, 14).Draw(rt, "srv_jat")*1000 + 137
		if rapid.IntRange(0, 2).Draw(rt, "srv_jrestart") == 2 {
			j.RestartMS = rapid.IntRange(1, 40).Draw(rt, "srv_jrestart_ms")*100 + 29
		}
		if j.Kind == 1 {
			j.KeepLatest = rapid.Bool().Draw(rt, "srv_jkl")
			sp.StateSync = true
		}
		// one joiner in six starts further behind than the block queue reaches (bqueue.DefaultCacheSize is 32 and a
		// block request window payload.MaxHashesCount = 8 under the build tag): the windowed, partly random block
		// requests of Server.requestBlocks and the queue's refusal of blocks beyond its capacity get work to do
		if i == 0 && rapid.IntRange(0, 5).Draw(rt, "srv_jfar") == 0 {
			j.AtMS = rapid.IntRange(46, 60).Draw(rt, "srv_jfarat")*1000 + 137
			far = true
		}
		sp.Joiners = append(sp.Joiners, j)
		last = max(last, j.AtMS+j.RestartMS)
	}
	if sp.StateSync {
		sp.Interval = rapid.IntRange(2, 4).Draw(rt, "srv_interval")
		p.Proto.StateRootInHeader = true
		p.Proto.MTB = []uint32{1000, 12, 6, 20}[rapid.IntRange(0, 3).Draw(rt, "srv_mtb")]
		// a sync point exists once the chain is 2 intervals long: the state-synchronising joiner comes after that
		for i := range sp.Joiners {
			if sp.Joiners[i].Kind == 1 {
				sp.Joiners[i].AtMS = max(sp.Joiners[i].AtMS, (2*sp.Interval+3)*1000)
				last = max(last, sp.Joiners[i].AtMS+sp.Joiners[i].RestartMS)
			}
		}
	}
	// a joiner gets its full catch-up window inside the run
	if nj > 0 {
		sp.DurationMS = max(sp.DurationMS, last+16000)
		if far {
			// (its catch-up bound grows with the gap: up to 11 more block times for a gap of 64 blocks)
			sp.DurationMS += 11000
		}
	}
	if sp.Observers > 0 && rapid.IntRange(0, 3).Draw(rt, "srv_obsrestart") == 3 {
		sp.Restart = append(sp.Restart, Span{Node: sp.Validators, FromMS: rapid.IntRange(2000, sp.DurationMS-2000).Draw(rt, "srv_restartat")})
	}
	ntx := rapid.IntRange(0, 10).Draw(rt, "srv_ntx")
	if prop == "C07" {
		ntx = rapid.IntRange(4, 16).Draw(rt, "srv_ntx7")
		sp.MaxTxPB = rapid.IntRange(0, 3).Draw(rt, "srv_maxtxpb")
	}
	for i := 0; i < ntx; i++ {
		t := NetTx{AtMS: rapid.IntRange(0, sp.DurationMS-1000).Draw(rt, "srv_txat"), Op: drawOp(rt, p.Proto.P2PSig),
			Targets: uint8(rapid.IntRange(1, 31).Draw(rt, "srv_targets"))}
		if prop == "C07" && rapid.IntRange(0, 2).Draw(rt, "srv_defective") == 0 {
			t.Defect = rapid.IntRange(1, numDefects-1).Draw(rt, "srv_defect")
		}
		sp.Txs = append(sp.Txs, t)
	}
	nl := rapid.IntRange(0, 6).Draw(rt, "srv_nlate")
	for i := 0; i < nl; i++ {
		sp.Late = append(sp.Late, SrvLateTx{Op: Op{Kind: OpTransferGAS, A: rapid.IntRange(0, numAccounts-1).Draw(rt, "srv_la"), B: rapid.IntRange(0, numAccounts-1).Draw(rt, "srv_lb"), N: int64(1 + i), X: 1},
			Node: rapid.IntRange(0, sp.Validators-1).Draw(rt, "srv_lnode"), BeforeMS: rapid.IntRange(1, 150).Draw(rt, "srv_lbefore"), Height: rapid.IntRange(2, 16).Draw(rt, "srv_lheight")})
	}
	if prop != "C20" && sp.DurationMS >= 17000 && rapid.IntRange(0, 2).Draw(rt, "srv_rivals") == 0 {
		nr := rapid.IntRange(1, 2).Draw(rt, "srv_nrivals")
		for i := 0; i < nr; i++ {
			sp.Rivals = append(sp.Rivals, SrvRival{AtMS: rapid.IntRange(4500, sp.DurationMS-11500).Draw(rt, "srv_rivalat"),
				MaskA: uint8(rapid.IntRange(1, 1<<uint(sp.Validators)-2).Draw(rt, "srv_rivalmask")), From: rapid.IntRange(0, numAccounts-1).Draw(rt, "srv_rivalfrom")})
		}
	}
	if rapid.IntRange(0, 3).Draw(rt, "srv_wirecfg") == 3 {
		sp.NoCompress = rapid.IntRange(0, total0).Draw(rt, "srv_nocompress")
		sp.Direct = uint8(rapid.IntRange(1, 31).Draw(rt, "srv_direct"))
		// a transaction whose encoding is longer than the compression threshold (a deployment), through a direct relay
		nd := rapid.IntRange(1, 2).Draw(rt, "srv_ndeploy")
		for i := 0; i < nd; i++ {
			sp.Txs = append(sp.Txs, NetTx{AtMS: rapid.IntRange(3000, sp.DurationMS-2000).Draw(rt, "srv_deployat"), Op: Op{Kind: OpDeploy, A: i, B: i, X: i}, Targets: sp.Direct})
		}
	}
	sort.SliceStable(sp.Txs, func(i, j int) bool { return sp.Txs[i].AtMS < sp.Txs[j].AtMS })
	sp.TailSeed = rapid.Uint64Range(0, 1<<40).Draw(rt, "srv_tailseed")
	p.Srv = sp
	p.Tape = drawTape(rt, 200)
	return p
}

type srvSim struct {
	r  *run
	sp *SrvPlan
	ns *netSim // net.go's machinery that is reused as it is: event heap, client transaction generator, C07 bookkeeping

	nodes    []*snode
	minPeers int
	// maxBlockTimeMS: the largest block time (policy value) the chain has had so far
	maxBlockTimeMS int
	tmp            string
	start          time.Time

	mu           sync.Mutex
	outbox       []*simPkt
	links        map[linkID]*simLink
	newLinks     []*simLink
	linkCount    map[[2]int]int
	dials        map[[2]int]int
	byAddr       map[string]*snode
	redials      int
	dialRefused  int
	dialTimeouts int
	selfDials    int
	dbg          []string // debug lines collected by goroutines of the nodes (VERIF_NETDEBUG)

	settling  bool // after the planned duration: no injected faults, no new blocks
	canon     map[uint32]util.Uint256
	croot     map[uint32]string
	wireHash  uint64
	wirePkts  int
	wireBytes int
	topAt     map[uint32]time.Duration
	rivals    []rivalPair
}

func (s *srvSim) now() time.Duration { return time.Since(s.start) }

func (s *srvSim) ms() int64 { return int64(s.now() / time.Millisecond) }

// silentAt / partedAt: the plan's blackholes.
func (s *srvSim) silentAt(node int, t time.Duration) (bool, time.Duration) {
	ms := int(t / time.Millisecond)
	for _, sp := range s.sp.Spans {
		if sp.Node == node && ms >= sp.FromMS && ms < sp.ToMS {
			return true, time.Duration(sp.ToMS) * time.Millisecond
		}
	}
	return false, 0
}

func (s *srvSim) blockedAt(a, b int, t time.Duration) (bool, time.Duration) {
	if s.settling || s.sp.Sync {
		return false, 0
	}
	if x, until := s.silentAt(a, t); x {
		return true, until
	}
	if x, until := s.silentAt(b, t); x {
		return true, until
	}
	ms := int(t / time.Millisecond)
	for _, p := range s.sp.Parts {
		if ms >= p.FromMS && ms < p.ToMS && (p.Mask>>uint(a))&1 != (p.Mask>>uint(b))&1 {
			return true, time.Duration(p.ToMS) * time.Millisecond
		}
	}
	return false, 0
}

// blockedLocked is used by Dial (s.mu held; reads only the plan and the clock).
func (s *srvSim) blockedLocked(a, b int) bool {
	x, _ := s.blockedAt(a, b, s.now())
	return x
}

func linkEnds(l *simLink, dir int) (from, to int) {
	if dir == 0 {
		return l.id.a, l.id.b
	}
	return l.id.b, l.id.a
}

// srvWriteOrder (VERIF_SRV_WRITEORDER=1, measuring aid): packets written to one connection at one simulated instant keep
// the order of the Write calls instead of the canonical order.
var srvTrace = os.Getenv("VERIF_SRVTRACE") != ""

var srvWriteOrder = os.Getenv("VERIF_SRV_WRITEORDER") != ""

// flush drains the outbox and decides the fate of every packet.
//
// Order: never the order in which goroutines of different peers happened to run. Packets are sorted by (connection,
// direction, simulated send time); packets written to one connection at one simulated instant are ordered by their
// content, not by the order of the Write calls: which of several goroutines of a node (Server.run, the consensus
// service, one goroutine per peer spawned by iteratePeersWithSendMsg over a Go map, handleQueues' select over three
// queues) gets its packet into the connection first is decided by the Go scheduler and the runtime's random numbers,
// not by the plan. Every such order is one the real code produces; the protocol does not depend on it.
//
// Decisions (delay, and in the lossy configuration drop / duplicate / reorder) are a pure function of the plan's
// seed and of (connection, direction, content, how often that content was sent there before): a packet keeps its
// fate when packets around it come and go.
func (s *srvSim) flush() {
	s.mu.Lock()
	ob := s.outbox
	s.outbox = nil
	nl := s.newLinks
	s.newLinks = nil
	dbg := s.dbg
	s.dbg = nil
	s.mu.Unlock()
	sort.Strings(dbg)
	for _, ln := range dbg {
		s.r.log.Addf("  t=%dms %s", s.ms(), ln)
	}
	sort.Slice(nl, func(i, j int) bool { return nl[i].id.less(nl[j].id) })
	for _, l := range nl {
		l := l
		s.r.out.Probes["connections"]++
		// the accepting side: one network delay later, and before anything the dialler has written
		d := time.Duration(1+int(splitmix(s.sp.TailSeed^uint64(l.id.a)<<40^uint64(l.id.b)<<24^uint64(l.id.n)<<8)%uint64(max(1, s.sp.MaxDelayMS)))) * time.Millisecond
		if s.sp.TailSeed == 0 {
			d = time.Millisecond
		}
		at := s.now() + d
		l.lastAt[0] = at
		s.ns.at(at, func() { s.accept(l) })
		if netDebug {
			s.r.log.Addf("  t=%dms link %s dialled, accepted at %dms", s.ms(), l.id, at/time.Millisecond)
		}
	}
	for _, p := range ob {
		s.pktKey(p)
	}
	sort.SliceStable(ob, func(i, j int) bool {
		if ob[i].link != ob[j].link {
			return ob[i].link.id.less(ob[j].link.id)
		}
		if ob[i].dir != ob[j].dir {
			return ob[i].dir < ob[j].dir
		}
		if srvWriteOrder {
			return ob[i].seq < ob[j].seq
		}
		if ob[i].sentAt != ob[j].sentAt {
			return ob[i].sentAt < ob[j].sentAt
		}
		if ob[i].rank != ob[j].rank {
			return ob[i].rank < ob[j].rank
		}
		if ob[i].key != ob[j].key {
			return ob[i].key < ob[j].key
		}
		return ob[i].seq < ob[j].seq
	})
	for _, p := range ob {
		l := p.link
		l.outSeq[p.dir]++
		p.seq = l.outSeq[p.dir]
		if l.occ[p.dir] == nil {
			l.occ[p.dir] = map[uint64]uint64{}
		}
		l.occ[p.dir][p.key]++
		p.occ = l.occ[p.dir][p.key]
		s.route(p)
	}
	s.clientFlush()
}

// pktKey computes the content key of a packet: commands and payloads. A compressed payload is taken decompressed (the
// compressor's output for equal input is not the same in every process). Where the code under test fills a message by
// iterating a Go map (the address list of addr, hash lists taken from the extensible pool or the pool of unknown MPT
// nodes, the replies that follow such a list) the key does not depend on the order of the elements, nor on the order
// of the messages inside one packet.
func (s *srvSim) pktKey(p *simPkt) {
	if p.fin {
		p.rank, p.key = 9, 0
		return
	}
	var frames []uint64
	data := p.data
	first := true
	for len(data) >= 3 {
		flags := data[0]
		cmd := network.CommandType(data[1])
		l, n := readVarUint(data[2:])
		if n == 0 || uint64(len(data)-2-n) < l {
			break
		}
		end := 2 + n + int(l)
		if first {
			first = false
			switch cmd {
			case network.CMDVersion:
				p.rank = 0
			case network.CMDVerack:
				p.rank = 1
			default:
				p.rank = 2
			}
		}
		body := data[2+n : end]
		if flags&byte(network.Compressed) != 0 || cmd == network.CMDAddr {
			m := &network.Message{StateRootInHeader: s.r.plan.Proto.StateRootInHeader}
			if err := m.Decode(nio.NewBinReaderFromBuf(data[:end])); err == nil && m.Payload != nil {
				if al, ok := m.Payload.(*payload.AddressList); ok {
					var es []uint64
					for _, a := range al.Addrs {
						w := nio.NewBufBinWriter()
						a.EncodeBinary(w.BinWriter)
						es = append(es, sim.HashBytes(0, w.Bytes()[4:])) // (without the timestamp)
					}
					frames = append(frames, foldSorted(uint64(cmd), es))
					data = data[end:]
					continue
				}
				w := nio.NewBufBinWriter()
				m.Payload.EncodeBinary(w.BinWriter)
				body = w.Bytes()
			}
		}
		frames = append(frames, frameKey(cmd, body))
		data = data[end:]
	}
	p.key = foldSorted(uint64(len(frames)), frames)
}

func foldSorted(h uint64, es []uint64) uint64 {
	sort.Slice(es, func(i, j int) bool { return es[i] < es[j] })
	for _, e := range es {
		h = splitmix(h ^ e)
	}
	return h
}

// frameKey: the key of one message; lists of hashes / nodes count as sets.
func frameKey(cmd network.CommandType, body []byte) uint64 {
	h := uint64(cmd) + 1
	switch cmd {
	case network.CMDInv, network.CMDGetData, network.CMDNotFound, network.CMDGetMPTData:
		b := body
		if cmd != network.CMDGetMPTData && len(b) > 0 {
			h = splitmix(h ^ uint64(b[0]))
			b = b[1:]
		}
		cnt, n := readVarUint(b)
		if n > 0 && uint64(len(b)-n) == cnt*32 {
			var es []uint64
			for i := n; i+32 <= len(b); i += 32 {
				es = append(es, sim.HashBytes(0, b[i:i+32]))
			}
			return foldSorted(h, es)
		}
	case network.CMDMPTData:
		cnt, n := readVarUint(body)
		if n > 0 {
			var es []uint64
			b := body[n:]
			for i := uint64(0); i < cnt; i++ {
				l, m := readVarUint(b)
				if m == 0 || uint64(len(b)-m) < l {
					return sim.HashBytes(h, body)
				}
				es = append(es, sim.HashBytes(0, b[m:m+int(l)]))
				b = b[m+int(l):]
			}
			return foldSorted(h, es)
		}
	}
	return sim.HashBytes(h, body)
}

func splitmix(x uint64) uint64 {
	x += 0x9e3779b97f4a7c15
	x = (x ^ (x >> 30)) * 0xbf58476d1ce4e5b9
	x = (x ^ (x >> 27)) * 0x94d049bb133111eb
	return x ^ (x >> 31)
}

// dice: a value in [0,n) for decision `salt` about packet p. Seed 0 (the shrunk plan): always 0, the simplest choice.
func (s *srvSim) dice(p *simPkt, salt uint64, n int) int {
	if n <= 1 || s.sp.TailSeed == 0 {
		return 0
	}
	x := splitmix(s.sp.TailSeed ^ salt*0x9e3779b97f4a7c15)
	x = splitmix(x ^ p.key)
	x = splitmix(x ^ uint64(p.link.id.a)<<40 ^ uint64(p.link.id.b)<<24 ^ uint64(p.link.id.n)<<8 ^ uint64(p.dir))
	x = splitmix(x ^ p.occ)
	return int(x % uint64(n))
}

func (s *srvSim) chance(p *simPkt, salt uint64, num, den int) bool {
	return num > 0 && s.dice(p, salt, den) >= den-num
}

func isHandshake(data []byte) bool {
	return len(data) >= 2 && (network.CommandType(data[1]) == network.CMDVersion || network.CommandType(data[1]) == network.CMDVerack)
}

func (s *srvSim) route(p *simPkt) {
	r := s.r
	l := p.link
	if l.dead {
		r.out.Probes["pkt_on_reset_connection"]++
		return
	}
	lossy := s.sp.Lossy && !s.settling && !p.fin && !isHandshake(p.data)
	from, to := linkEnds(l, p.dir)
	delay := time.Duration(1+s.dice(p, 1, max(1, s.sp.MaxDelayMS))) * time.Millisecond
	at := max(s.now(), p.sentAt+delay)
	if blocked, until := s.blockedAt(from, to, p.sentAt); blocked {
		if lossy || (s.sp.Lossy && p.fin) {
			r.out.Faults["pkt_dropped_by_blackhole"]++
			return
		}
		// tcp-faithful: the segment is retransmitted until the path works again
		r.out.Faults["pkt_held_by_blackhole"]++
		at = max(at, until+delay)
	}
	if lossy {
		if s.chance(p, 2, s.sp.DropPM, 1000) {
			r.out.Faults["pkt_dropped"]++
			return
		}
		if s.chance(p, 3, s.sp.ReorderPM, 1000) {
			if at < l.lastAt[p.dir] {
				r.out.Faults["pkt_reordered"]++
			}
		} else {
			at = max(at, l.lastAt[p.dir])
		}
		if s.chance(p, 4, s.sp.DupPM, 1000) {
			d2 := at + time.Duration(1+s.dice(p, 5, max(1, s.sp.MaxDelayMS)))*time.Millisecond
			s.ns.at(d2, func() { s.arrive(p, true) })
			r.out.Faults["pkt_duplicated"]++
		}
	} else {
		at = max(at, l.lastAt[p.dir])
	}
	l.lastAt[p.dir] = max(l.lastAt[p.dir], at)
	if netDebug {
		cmds, _, _ := pktCommands(p.data)
		r.log.Addf("  t=%dms send %s dir %d seq %d %v %016x fin=%v written at %dms -> at %dms", s.ms(), l.id, p.dir, p.seq, cmds, p.key, p.fin, p.sentAt/time.Millisecond, at/time.Millisecond)
	}
	s.ns.at(at, func() { s.arrive(p, false) })
}

// arrive is a packet reaching the receiving host.
func (s *srvSim) arrive(p *simPkt, dup bool) {
	r := s.r
	l := p.link
	if l.dead {
		return
	}
	from, to := linkEnds(l, p.dir)
	if blocked, until := s.blockedAt(from, to, s.now()); blocked {
		if s.sp.Lossy {
			r.out.Faults["pkt_dropped_by_blackhole"]++
			return
		}
		// in order behind everything that is retransmitted on this connection
		r.out.Faults["pkt_held_by_blackhole"]++
		delay := time.Duration(1+s.dice(p, 6, max(1, s.sp.MaxDelayMS))) * time.Millisecond
		at := max(until+delay, l.lastAt[p.dir])
		l.lastAt[p.dir] = at
		s.ns.at(at, func() { s.arrive(p, dup) })
		return
	}
	if !s.sp.Lossy {
		// tcp-faithful: strictly in sequence (a segment that was held back by a blackhole holds back what follows it)
		if p.seq != l.expect[p.dir]+1 {
			if l.early[p.dir] == nil {
				l.early[p.dir] = map[uint64]*simPkt{}
			}
			l.early[p.dir][p.seq] = p
			r.out.Probes["pkt_waited_for_its_predecessor"]++
			return
		}
		l.expect[p.dir] = p.seq
		defer func() {
			if nx, ok := l.early[p.dir][p.seq+1]; ok {
				delete(l.early[p.dir], p.seq+1)
				s.arrive(nx, false)
			}
		}()
	}
	if p.fin {
		r.out.Probes["connection_closed_by_peer"]++
		if netDebug {
			r.log.Addf("  t=%dms fin  %s dir %d", s.ms(), l.id, p.dir)
		}
		s.receive(l, p.dir, rxItem{fin: true})
		return
	}
	cmds, fb, ok := pktCommands(p.data)
	if !ok {
		sim.Harnessf("a packet written by a TCPPeer does not consist of complete messages (%d bytes on %s)", len(p.data), l.id)
	}
	s.wirePkts++
	s.wireBytes += len(p.data)
	s.wireHash = splitmix(s.wireHash ^ p.key ^ uint64(l.id.a)<<40 ^ uint64(l.id.b)<<24 ^ uint64(l.id.n)<<8 ^ uint64(p.dir) ^ p.seq<<48)
	for i, cmd := range cmds {
		r.out.Probes["wire/"+cmd.String()]++
		switch cmd {
		case network.CMDBlock:
			r.out.Probes["block_sent"]++
		case network.CMDGetBlockByIndex:
			r.out.Probes["getblockbyindex_served"]++
		case network.CMDMPTData:
			r.out.Probes["mptdata_served"]++
		case network.CMDHeaders:
			r.out.Probes["headers_served"]++
		case network.CMDGetData:
			if fb[i] == int(payload.TXType) {
				r.out.Probes["inv_getdata_tx"]++
			}
		}
	}
	if dup {
		r.out.Probes["duplicate_delivered"]++
	}
	if netDebug {
		r.log.Addf("  t=%dms recv %s dir %d seq %d %v %016x (node %d -> node %d)", s.ms(), l.id, p.dir, p.seq, cmds, p.key, from, to)
	}
	// the receiving host hands the stream to the reader message by message (segment boundaries are not the sender's
	// to choose): handleIncoming sees the next message of a packet only when the node has come to rest after the
	// previous one. Otherwise the reader races with the goroutines the previous message woke up (block queue, state
	// jump), and which of them is first is the Go scheduler's decision.
	var items []rxItem
	data := p.data
	unordered := true
	for len(data) > 0 {
		ln, n := readVarUint(data[2:])
		end := 2 + n + int(ln)
		items = append(items, rxItem{data: data[:end:end]})
		switch network.CommandType(data[1]) {
		case network.CMDExtensible, network.CMDTX, network.CMDNotFound, network.CMDP2PNotaryRequest:
		default:
			unordered = false
		}
		data = data[end:]
	}
	if unordered && len(items) > 1 && !srvWriteOrder {
		// a reply to getdata: its messages follow the order of the hashes in the request, which follows the order of the
		// inv, which is the iteration order of a Go map in the announcing node (extensible pool): no order at all
		sort.SliceStable(items, func(i, j int) bool {
			return sim.HashBytes(0, items[i].data) < sim.HashBytes(0, items[j].data)
		})
	}
	s.receive(l, p.dir, items...)
}

type rxItem struct {
	data []byte
	fin  bool
}

// receive appends to the in-order receive queue of one direction of a connection; pump hands over one item per event.
func (s *srvSim) receive(l *simLink, dir int, items ...rxItem) {
	l.rxq[dir] = append(l.rxq[dir], items...)
	if !l.pumping[dir] {
		l.pumping[dir] = true
		s.pump(l, dir)
	}
}

func (s *srvSim) pump(l *simLink, dir int) {
	if l.dead || len(l.rxq[dir]) == 0 {
		l.rxq[dir], l.pumping[dir] = nil, false
		return
	}
	it := l.rxq[dir][0]
	l.rxq[dir] = l.rxq[dir][1:]
	c := l.ends[1-dir]
	if it.fin {
		c.endRead(io.EOF, false)
	} else {
		c.push(it.data)
	}
	if len(l.rxq[dir]) == 0 {
		l.pumping[dir] = false
		return
	}
	s.ns.at(s.now(), func() { s.pump(l, dir) })
}

// clientFlush hands the client transactions queued by net.go's generator to the target Servers the way the RPC
// server does (Server.RelayTxn), with the C07 bookkeeping of net.go around it.
func (s *srvSim) clientFlush() {
	ns := s.ns
	ns.mu.Lock()
	ob := ns.outbox
	ns.outbox = nil
	ns.mu.Unlock()
	for _, m := range ob {
		if m.from != -1 || m.kind != "tx" || m.to < 0 || m.to >= len(s.nodes) {
			continue
		}
		v := s.nodes[m.to]
		if v == nil || !v.up || v.srv == nil {
			continue
		}
		msg := &network.Message{StateRootInHeader: s.r.plan.Proto.StateRootInHeader}
		if err := msg.Decode(nio.NewBinReaderFromBuf(m.raw)); err != nil {
			sim.Harnessf("client message does not decode: %v", err)
		}
		tx, ok := msg.Payload.(*transaction.Transaction)
		if !ok {
			continue
		}
		ns.submitTx(ns.nodes[m.to], tx)
		if s.r.fail != nil {
			return
		}
		sim.Wait()
	}
}

// killOne resets one tape-chosen live connection (both ends see a reset; the real code re-dials through discovery).
func (s *srvSim) killOne() {
	s.mu.Lock()
	var live []*simLink
	for _, l := range s.links {
		if !l.dead && !l.ends[0].lclosed && !l.ends[1].lclosed {
			live = append(live, l)
		}
	}
	s.mu.Unlock()
	if len(live) == 0 {
		return
	}
	sort.Slice(live, func(i, j int) bool { return live[i].id.less(live[j].id) })
	l := live[s.r.tape.Choose(len(live))]
	l.reset()
	s.r.out.Faults["conn_killed"]++
	s.r.log.Addf("t=%dms connection %s reset", s.ms(), l.id)
}

func (r *run) runSrv() {
	sp := r.plan.Srv
	if sp == nil {
		sim.Harnessf("server-mode plan missing")
	}
	// net.go's helpers read the network plan: give them a shadow of this one (the plan itself stays untouched)
	shadow := *r.plan
	shadow.Net = &NetPlan{Validators: sp.Validators, Observers: sp.Observers, Sync: sp.Sync, MaxDelayMS: sp.MaxDelayMS + 150,
		DurationMS: sp.DurationMS, Txs: sp.Txs, MaxTxPB: sp.MaxTxPB, TailSeed: sp.TailSeed}
	r.plan = &shadow
	ns := &netSim{r: r, np: shadow.Net, canon: map[uint32]util.Uint256{}, croot: map[uint32]string{}, defective: map[util.Uint256]string{}, defectFees: map[util.Uint256][2]int64{},
		goodAt: map[util.Uint256]time.Duration{}, seenTx: map[util.Uint256][]byte{}, onChainResubmitted: map[util.Uint256]bool{}, conflictVictims: map[util.Uint256][]util.Uint256{}, namers: map[util.Uint256]bool{}}
	s := &srvSim{r: r, sp: sp, ns: ns, links: map[linkID]*simLink{}, linkCount: map[[2]int]int{}, dials: map[[2]int]int{}, byAddr: map[string]*snode{},
		canon: ns.canon, croot: ns.croot, topAt: map[uint32]time.Duration{}}
	ns.poolFn = func(v *vnode, tx *transaction.Transaction) error {
		sn := s.nodes[v.idx]
		if !sn.up || sn.srv == nil {
			return fmt.Errorf("node is down")
		}
		if sp.Direct&(1<<uint(v.idx)) != 0 {
			r.out.Probes["tx_relayed_directly"]++
			if tx.Size() > network.CompressionMinSize {
				r.out.Probes["tx_relayed_directly_above_compression_threshold"]++
			}
			return sn.srv.RelayTxnDirectly(tx)
		}
		return sn.srv.RelayTxn(tx)
	}
	// entropy (server ids, dBFT block nonces)
	old := crand.Reader
	dr := &detRand{}
	copy(dr.key[:], "verif-srvsim-entropy-0123456789abcdef")
	crand.Reader = dr
	defer func() { crand.Reader = old }()
	tmp, err := os.MkdirTemp("", "verif-srv-*")
	if err != nil {
		sim.Harnessf("mkdtemp: %v", err)
	}
	s.tmp = tmp
	defer os.RemoveAll(tmp)
	s.start = time.Now()
	ns.start = s.start
	r.tape.Tail = sp.TailSeed
	dbft.VerifCacheOrder = func(keys []uint16) {
		// (several validators can reach a new height inside one quiescence window: no tape use here, a fixed order)
		sort.Slice(keys, func(i, j int) bool { return keys[i] < keys[j] })
	}
	defer func() { dbft.VerifCacheOrder = nil }()
	// the random choice among the block request windows (a node far behind): a fixed function of the plan and of how
	// many choices have been made so far in this run
	var nChoices atomic.Uint64
	network.VerifIntN = func(n int) int {
		return int(splitmix(sp.TailSeed^0x77696e646f77^nChoices.Add(1)<<20) % uint64(n))
	}
	defer func() {
		network.VerifIntN = nil
		r.out.Probes["block_request_window_chosen_at_random"] += int(nChoices.Load())
	}()
	if netDebug {
		r.log = sim.NewLog(3000000)
		var dbgAt int64
		var dbgN int
		debugNodeLogs = func(m string) {
			if ms := s.ms(); ms != dbgAt {
				dbgAt, dbgN = ms, 0
			}
			if dbgN++; dbgN > 100000 {
				panic(HarnessSpin{fmt.Sprintf("harness: %d log entries at one simulated instant (%d ms); the last ones: %v", dbgN, dbgAt, r.log.Tail(25))})
			}
			r.log.Addf("    t=%dms LOG %s", s.ms(), m)
		}
		defer func() { debugNodeLogs = nil }()
	}

	f := (sp.Validators - 1) / 3
	s.minPeers = sp.Validators - f - 1
	r.out.Probes[fmt.Sprintf("srv_validators_%d", sp.Validators)]++
	r.out.Probes["srv_runs"]++
	if sp.Sync {
		r.out.Probes["srv_runs_sync"]++
	} else if sp.Lossy {
		r.out.Probes["srv_runs_lossy"]++
	} else {
		r.out.Probes["srv_runs_tcp_faithful_faulty"]++
	}
	total0 := sp.Validators + sp.Observers
	for i := 0; i < total0; i++ {
		kind := srvValidator
		l := Local{Backend: simdisk.Memory, VerifyTx: true}
		if i >= sp.Validators {
			kind = srvObserver
		}
		v := s.newSrvNode(i, kind, l)
		v.fromStart = true
		s.addNode(v)
	}
	for i := 0; i < total0; i++ {
		for j := 0; j < total0; j++ {
			if i != j {
				s.nodes[i].seeds = append(s.nodes[i].seeds, nodeAddr(j))
			}
		}
	}
	// keyring / producer on node 0 (client transactions are built against its ledger)
	r.P = s.nodes[0].n
	r.prod = newProducer(r.P)
	r.w = &world{contracts: map[util.Uint160]int32{}}
	for i := 0; i < numAccounts; i++ {
		r.w.accounts = append(r.w.accounts, r.prod.kr.acctHash(i))
	}
	vals, _ := r.P.BC.GetNextBlockValidators()
	sort.Sort(keys.PublicKeys(vals))
	for i := 0; i < sp.Validators; i++ {
		s.nodes[i].wpath = s.makeWallet(i, r.prod.kr.byPub[vals[i].StringCompressed()])
	}
	r.log.Addf("server mode: %d validators, %d observers, %d joiners, sync=%v lossy=%v maxdelay=%dms statesync=%v/%d mtb=%d minpeers=%d tick=%d ping=%d/%d",
		sp.Validators, sp.Observers, len(sp.Joiners), sp.Sync, sp.Lossy, sp.MaxDelayMS, sp.StateSync, sp.Interval, r.plan.Proto.MTB, s.minPeers, sp.ProtoTickMS, sp.PingMS, sp.PingTimeoutMS)
	defer s.shutdownAll()
	for _, v := range s.nodes {
		s.startServer(v)
	}
	s.flush()

	// planned events
	ns.at(10*time.Millisecond, func() {
		for _, tx := range r.bootstrapTxs() {
			ns.sendToTargets(tx, 0xff)
		}
	})
	for i := range sp.Txs {
		t := sp.Txs[i]
		ns.at(time.Duration(t.AtMS)*time.Millisecond, func() { ns.clientTx(t) })
	}
	s.scheduleRivals()
	for ji := range sp.Joiners {
		j := sp.Joiners[ji]
		idx := total0 + ji
		ns.at(time.Duration(j.AtMS)*time.Millisecond, func() { s.join(idx, j) })
	}
	for _, rs := range sp.Restart {
		rs := rs
		ns.at(time.Duration(rs.FromMS)*time.Millisecond, func() {
			if rs.Node < len(s.nodes) && s.nodes[rs.Node].kind != srvValidator && s.nodes[rs.Node].up {
				s.restartNode(s.nodes[rs.Node])
			}
		})
	}
	if !sp.Sync {
		for _, k := range sp.Kills {
			ns.at(time.Duration(k)*time.Millisecond, s.killOne)
		}
		for _, x := range sp.Spans {
			x := x
			ns.at(time.Duration(x.FromMS)*time.Millisecond, func() {
				r.out.Faults["silence_span"]++
				r.log.Addf("t=%dms node %d silent until %dms", s.ms(), x.Node, x.ToMS)
			})
		}
		for _, x := range sp.Parts {
			x := x
			ns.at(time.Duration(x.FromMS)*time.Millisecond, func() {
				r.out.Faults["partition"]++
				r.log.Addf("t=%dms partition %b until %dms", s.ms(), x.Mask, x.ToMS)
			})
		}
	}
	ns.at(20*blockTimeMS*time.Millisecond, func() {
		for _, v := range s.nodes {
			if v != nil && v.up {
				v.h20, v.has20 = v.n.BC.BlockHeight(), true
			}
		}
	})
	end := time.Duration(sp.DurationMS) * time.Millisecond
	s.loop(end)
	if r.fail != nil {
		return
	}
	s.finalSrv()
}

func (s *srvSim) addNode(v *snode) {
	s.mu.Lock()
	for len(s.nodes) <= v.idx {
		s.nodes = append(s.nodes, nil)
	}
	s.nodes[v.idx] = v
	s.byAddr[nodeAddr(v.idx)] = v
	s.mu.Unlock()
	for len(s.ns.nodes) <= v.idx {
		s.ns.nodes = append(s.ns.nodes, nil)
	}
	s.ns.nodes[v.idx] = &vnode{idx: v.idx, n: v.n, validator: v.validator(), pending: map[uint32][]byte{}}
}

// loop is the event-at-a-time driver (the same shape as net.go's).
func (s *srvSim) loop(end time.Duration) {
	r := s.r
	ns := s.ns
	const quantum = 25 * time.Millisecond
	for s.now() < end && r.fail == nil {
		next := min(s.now()+quantum, end)
		if len(ns.heap) > 0 && ns.heap[0].at < next {
			next = ns.heap[0].at
		}
		if d := next - s.now(); d > 0 {
			time.Sleep(d)
		}
		sim.Wait()
		if srvTrace {
			fmt.Fprintf(os.Stderr, "SRVTRACE t=%dms heap=%d log=%d links=%d\n", s.ms(), len(ns.heap), r.log.Count(), len(s.links))
		}
		spin := 0
		for len(ns.heap) > 0 && ns.heap[0].at <= s.now() && r.fail == nil {
			ev := heap.Pop(&ns.heap).(*netEvent)
			ev.fn()
			sim.Wait()
			s.flush()
			s.check()
			if spin++; spin > 200000 {
				sim.Harnessf("more than %d driver events at one simulated instant (%d ms): %v", spin, s.ms(), r.log.Tail(30))
			}
		}
		s.flush()
		s.check()
	}
}

// join creates and starts a late joiner.
func (s *srvSim) join(idx int, j SrvJoiner) {
	r := s.r
	kind := srvJoinFull
	if j.Kind == 1 {
		kind = srvJoinState
	}
	v := s.newSrvNode(idx, kind, joinerLocal(j))
	for i := 0; i < s.sp.Validators+s.sp.Observers; i++ {
		v.seeds = append(v.seeds, nodeAddr(i))
	}
	s.addNode(v)
	v.bornAt = s.now()
	top := s.top()
	r.out.Probes["joiner_started/"+srvKindNames[kind]]++
	r.log.Addf("t=%dms %s joins (top height %d)", s.ms(), v.name(), top)
	s.startServer(v)
	if j.RestartMS > 0 {
		s.ns.at(s.now()+time.Duration(j.RestartMS)*time.Millisecond, func() {
			if !v.up {
				return
			}
			if !s.restartSafe(v) {
				r.out.Probes["joiner_restart_skipped_resync_would_be_refused"]++
				return
			}
			if v.kind == srvJoinState && !v.jumped && v.mod != nil && v.mod.IsInitialized() && v.mod.IsActive() {
				r.out.Probes["joiner_restart_in_the_middle_of_state_sync"]++
			}
			s.restartNode(v)
		})
	}
}

// restartSafe: a state-exchanging, pruning node that is restarted re-initialises its state synchronisation from the
// heights its peers report. When its own data is too old for that (interrupted synchronisation whose sync point is more
// than one interval behind the new one; a synchronised node more than two intervals behind) statesync.Module.Init
// refuses with "drop the database manually" and the Server ends the process with log.Fatal. That is documented
// behaviour, not what a restart in this simulation is after: such a restart is not performed.
func (s *srvSim) restartSafe(v *snode) bool {
	if v.kind != srvJoinState || s.sp.Interval <= 0 {
		return true
	}
	iv := uint32(s.sp.Interval)
	h := v.n.BC.BlockHeight()
	for _, top := range []uint32{s.top(), s.top() + 1} {
		p := top / iv * iv
		if p < 2*iv || h > p-2*iv {
			continue
		}
		if v.mod != nil && v.mod.IsInitialized() && v.mod.IsActive() {
			if v.mod.GetStateSyncPoint()+iv >= p {
				continue
			}
			return false
		}
		if h != 0 {
			return false
		}
	}
	return true
}

// top is the highest block any running node has.
func (s *srvSim) top() uint32 {
	top := uint32(0)
	for _, v := range s.nodes {
		if v != nil && v.up {
			top = max(top, v.n.BC.BlockHeight())
		}
	}
	return top
}

// shutdownAll: Server.Shutdown for every node (services stop with it); ledgers are closed by Run's deferred Destroy.
func (s *srvSim) shutdownAll() {
	for _, v := range s.nodes {
		if v != nil {
			s.stopServer(v)
		}
	}
	// whatever is still in the outbox belongs to closed connections
	s.mu.Lock()
	s.outbox = nil
	s.mu.Unlock()
	// ping timers and dial pauses of the stopped servers run out
	time.Sleep(time.Duration(s.sp.PingTimeoutMS+s.sp.DialTimeoutMS+1000) * time.Millisecond)
	sim.Wait()
}
