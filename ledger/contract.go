package ledger

import (
	"encoding/json"
	"fmt"

	"github.com/nspcc-dev/neo-go/pkg/core/interop/interopnames"
	"github.com/nspcc-dev/neo-go/pkg/core/native/nativehashes"
	"github.com/nspcc-dev/neo-go/pkg/core/state"
	"github.com/nspcc-dev/neo-go/pkg/io"
	"github.com/nspcc-dev/neo-go/pkg/smartcontract"
	"github.com/nspcc-dev/neo-go/pkg/smartcontract/callflag"
	"github.com/nspcc-dev/neo-go/pkg/smartcontract/manifest"
	"github.com/nspcc-dev/neo-go/pkg/smartcontract/nef"
	"github.com/nspcc-dev/neo-go/pkg/util"
	"github.com/nspcc-dev/neo-go/pkg/vm/emit"
	"github.com/nspcc-dev/neo-go/pkg/vm/opcode"
)

// Helper contract ("K"): hand-assembled NeoVM code, so that generated
// histories can write storage, emit notifications, nest calls, throw, catch
// and move tokens from inside contracts, deterministically and without the Go
// compiler in the loop.
//
//	put(k,v) del(k) get(k) find(prefix) ev(x)
//	putFail(k,v)  evFail(x)  fail()  abort()
//	call(h,m,args)      -> System.Contract.Call(h,m,All,args)
//	tryCall(h,m,args)   -> try{call} catch{}; then notify "ok"/"caught"
//	tryCallF(h,m,args,f)-> the same with call flags f
//	seq(list)           -> for [m,args] in list: Contract.Call(self,m,All,args)
//	onNEP17Payment(from,amount,data) -> abort when data=="reject", throw when data=="throw", else put("paid",amount)+notify
//	oracleCb(url,userData,code,result) -> put("ores",result) put("ocode",code) notify(url); throw when userData=="fail"
//	                       (callback of the native Oracle contract; a request is call(Oracle,"request",[url,filter,"oracleCb",userData,gas]))
//	_deploy(data,isUpdate) -> put("dep",isUpdate)
//	update(nef,manifest) destroy()
type kContract struct {
	Name     string
	NEF      *nef.File
	Manifest *manifest.Manifest
	NEFBytes []byte
	ManBytes []byte
}

type kMethod struct {
	name   string
	params int
	ret    smartcontract.ParamType
	body   func(b *io.BufBinWriter)
}

func sys(w *io.BinWriter, name string) { emit.Syscall(w, name) }

func notifyTop(w *io.BinWriter) {
	// stack: x -> Runtime.Notify("E", [x])
	emit.Opcodes(w, opcode.PUSH1, opcode.PACK)
	emit.String(w, "E")
	sys(w, interopnames.SystemRuntimeNotify)
}

func buildK(name string, variant byte) *kContract {
	methods := []kMethod{
		{"put", 2, smartcontract.VoidType, func(b *io.BufBinWriter) {
			w := b.BinWriter
			emit.InitSlot(w, 0, 2)
			emit.Opcodes(w, opcode.LDARG1, opcode.LDARG0)
			sys(w, interopnames.SystemStorageGetContext)
			sys(w, interopnames.SystemStoragePut)
			emit.Opcodes(w, opcode.RET)
		}},
		{"del", 1, smartcontract.VoidType, func(b *io.BufBinWriter) {
			w := b.BinWriter
			emit.InitSlot(w, 0, 1)
			emit.Opcodes(w, opcode.LDARG0)
			sys(w, interopnames.SystemStorageGetContext)
			sys(w, interopnames.SystemStorageDelete)
			emit.Opcodes(w, opcode.RET)
		}},
		{"get", 1, smartcontract.AnyType, func(b *io.BufBinWriter) {
			w := b.BinWriter
			emit.InitSlot(w, 0, 1)
			emit.Opcodes(w, opcode.LDARG0)
			sys(w, interopnames.SystemStorageGetReadOnlyContext)
			sys(w, interopnames.SystemStorageGet)
			emit.Opcodes(w, opcode.RET)
		}},
		{"find", 1, smartcontract.IntegerType, func(b *io.BufBinWriter) {
			w := b.BinWriter
			emit.InitSlot(w, 2, 1)
			emit.Opcodes(w, opcode.PUSH0, opcode.STLOC0)
			emit.Opcodes(w, opcode.PUSH0, opcode.LDARG0)
			sys(w, interopnames.SystemStorageGetReadOnlyContext)
			sys(w, interopnames.SystemStorageFind)
			emit.Opcodes(w, opcode.STLOC1)
			loop := b.Len()
			emit.Opcodes(w, opcode.LDLOC1)
			sys(w, interopnames.SystemIteratorNext)
			// JMPIFNOT end (2 bytes) ; body 3 opcodes ; JMP loop (2 bytes)
			emit.Instruction(w, opcode.JMPIFNOT, []byte{2 + 3 + 2})
			emit.Opcodes(w, opcode.LDLOC0, opcode.INC, opcode.STLOC0)
			back := loop - b.Len()
			emit.Instruction(w, opcode.JMP, []byte{byte(int8(back))})
			emit.Opcodes(w, opcode.LDLOC0, opcode.RET)
		}},
		{"findLast", 1, smartcontract.AnyType, func(b *io.BufBinWriter) {
			// the first key of a backwards search (Backwards|KeysOnly), Null when there is none
			w := b.BinWriter
			emit.InitSlot(w, 1, 1)
			emit.Int(w, 0x81)
			emit.Opcodes(w, opcode.LDARG0)
			sys(w, interopnames.SystemStorageGetReadOnlyContext)
			sys(w, interopnames.SystemStorageFind)
			emit.Opcodes(w, opcode.STLOC0)
			emit.Opcodes(w, opcode.LDLOC0)
			sys(w, interopnames.SystemIteratorNext)
			// JMPIFNOT (2 bytes) over LDLOC0 (1) SYSCALL (5) RET (1)
			emit.Instruction(w, opcode.JMPIFNOT, []byte{2 + 1 + 5 + 1})
			emit.Opcodes(w, opcode.LDLOC0)
			sys(w, interopnames.SystemIteratorValue)
			emit.Opcodes(w, opcode.RET)
			emit.Opcodes(w, opcode.PUSHNULL, opcode.RET)
		}},
		{"ev", 1, smartcontract.VoidType, func(b *io.BufBinWriter) {
			w := b.BinWriter
			emit.InitSlot(w, 0, 1)
			emit.Opcodes(w, opcode.LDARG0)
			notifyTop(w)
			emit.Opcodes(w, opcode.RET)
		}},
		{"putFail", 2, smartcontract.VoidType, func(b *io.BufBinWriter) {
			w := b.BinWriter
			emit.InitSlot(w, 0, 2)
			emit.Opcodes(w, opcode.LDARG1, opcode.LDARG0)
			sys(w, interopnames.SystemStorageGetContext)
			sys(w, interopnames.SystemStoragePut)
			emit.String(w, "putFail")
			emit.Opcodes(w, opcode.THROW)
		}},
		{"evFail", 1, smartcontract.VoidType, func(b *io.BufBinWriter) {
			w := b.BinWriter
			emit.InitSlot(w, 0, 1)
			emit.Opcodes(w, opcode.LDARG0)
			notifyTop(w)
			emit.String(w, "evFail")
			emit.Opcodes(w, opcode.THROW)
		}},
		{"fail", 0, smartcontract.VoidType, func(b *io.BufBinWriter) {
			w := b.BinWriter
			emit.String(w, "fail")
			emit.Opcodes(w, opcode.THROW)
		}},
		{"abort", 0, smartcontract.VoidType, func(b *io.BufBinWriter) {
			w := b.BinWriter
			emit.Opcodes(w, opcode.ABORT)
		}},
		{"call", 3, smartcontract.AnyType, func(b *io.BufBinWriter) {
			w := b.BinWriter
			emit.InitSlot(w, 0, 3)
			emit.Opcodes(w, opcode.LDARG2, opcode.PUSH15, opcode.LDARG1, opcode.LDARG0)
			sys(w, interopnames.SystemContractCall)
			emit.Opcodes(w, opcode.RET)
		}},
		{"tryCall", 3, smartcontract.VoidType, func(b *io.BufBinWriter) {
			w := b.BinWriter
			emit.InitSlot(w, 1, 3)
			// TRY catch=+? finally=0
			tryPos := b.Len()
			emit.Instruction(w, opcode.TRY, []byte{0, 0})
			emit.Opcodes(w, opcode.LDARG2, opcode.PUSH15, opcode.LDARG1, opcode.LDARG0)
			sys(w, interopnames.SystemContractCall)
			emit.Opcodes(w, opcode.DROP)
			emit.String(w, "ok")
			emit.Opcodes(w, opcode.STLOC0)
			endtry1 := b.Len()
			emit.Instruction(w, opcode.ENDTRY, []byte{0})
			catchPos := b.Len()
			emit.Opcodes(w, opcode.DROP)
			emit.String(w, "caught")
			emit.Opcodes(w, opcode.STLOC0)
			endtry2 := b.Len()
			emit.Instruction(w, opcode.ENDTRY, []byte{0})
			endPos := b.Len()
			emit.Opcodes(w, opcode.LDLOC0)
			notifyTop(w)
			emit.Opcodes(w, opcode.RET)
			patches = append(patches,
				patch{tryPos + 1, byte(catchPos - tryPos)},
				patch{endtry1 + 1, byte(endPos - endtry1)},
				patch{endtry2 + 1, byte(endPos - endtry2)})
		}},
		{"tryCallF", 4, smartcontract.VoidType, func(b *io.BufBinWriter) {
			// tryCall with the call flags given by the caller (a3)
			w := b.BinWriter
			emit.InitSlot(w, 1, 4)
			tryPos := b.Len()
			emit.Instruction(w, opcode.TRY, []byte{0, 0})
			emit.Opcodes(w, opcode.LDARG2, opcode.LDARG3, opcode.LDARG1, opcode.LDARG0)
			sys(w, interopnames.SystemContractCall)
			emit.Opcodes(w, opcode.DROP)
			emit.String(w, "ok")
			emit.Opcodes(w, opcode.STLOC0)
			endtry1 := b.Len()
			emit.Instruction(w, opcode.ENDTRY, []byte{0})
			catchPos := b.Len()
			emit.Opcodes(w, opcode.DROP)
			emit.String(w, "caught")
			emit.Opcodes(w, opcode.STLOC0)
			endtry2 := b.Len()
			emit.Instruction(w, opcode.ENDTRY, []byte{0})
			endPos := b.Len()
			emit.Opcodes(w, opcode.LDLOC0)
			notifyTop(w)
			emit.Opcodes(w, opcode.RET)
			patches = append(patches,
				patch{tryPos + 1, byte(catchPos - tryPos)},
				patch{endtry1 + 1, byte(endPos - endtry1)},
				patch{endtry2 + 1, byte(endPos - endtry2)})
		}},
		{"nestTry", 6, smartcontract.VoidType, func(b *io.BufBinWriter) {
			// try { try { call(a0,a1,a2) } catch { call(a3,a4,a5) } } catch { }  -- two handlers in one frame,
			// the second call is made from inside the inner catch block
			w := b.BinWriter
			emit.InitSlot(w, 1, 6)
			outerTry := b.Len()
			emit.Instruction(w, opcode.TRY, []byte{0, 0})
			innerTry := b.Len()
			emit.Instruction(w, opcode.TRY, []byte{0, 0})
			emit.Opcodes(w, opcode.LDARG2, opcode.PUSH15, opcode.LDARG1, opcode.LDARG0)
			sys(w, interopnames.SystemContractCall)
			emit.Opcodes(w, opcode.DROP)
			emit.String(w, "inner-ok")
			emit.Opcodes(w, opcode.STLOC0)
			innerEnd1 := b.Len()
			emit.Instruction(w, opcode.ENDTRY, []byte{0})
			innerCatch := b.Len()
			emit.Opcodes(w, opcode.DROP)
			emit.Opcodes(w, opcode.LDARG5, opcode.PUSH15, opcode.LDARG4, opcode.LDARG3)
			sys(w, interopnames.SystemContractCall)
			emit.Opcodes(w, opcode.DROP)
			emit.String(w, "inner-caught")
			emit.Opcodes(w, opcode.STLOC0)
			innerEnd2 := b.Len()
			emit.Instruction(w, opcode.ENDTRY, []byte{0})
			afterInner := b.Len()
			outerEnd1 := b.Len()
			emit.Instruction(w, opcode.ENDTRY, []byte{0})
			outerCatch := b.Len()
			emit.Opcodes(w, opcode.DROP)
			emit.String(w, "outer-caught")
			emit.Opcodes(w, opcode.STLOC0)
			outerEnd2 := b.Len()
			emit.Instruction(w, opcode.ENDTRY, []byte{0})
			endPos := b.Len()
			emit.Opcodes(w, opcode.LDLOC0)
			notifyTop(w)
			emit.Opcodes(w, opcode.RET)
			patches = append(patches,
				patch{outerTry + 1, byte(outerCatch - outerTry)},
				patch{innerTry + 1, byte(innerCatch - innerTry)},
				patch{innerEnd1 + 1, byte(afterInner - innerEnd1)},
				patch{innerEnd2 + 1, byte(afterInner - innerEnd2)},
				patch{outerEnd1 + 1, byte(endPos - outerEnd1)},
				patch{outerEnd2 + 1, byte(endPos - outerEnd2)})
		}},
		{"seq", 1, smartcontract.VoidType, func(b *io.BufBinWriter) {
			w := b.BinWriter
			emit.InitSlot(w, 2, 1)
			emit.Opcodes(w, opcode.PUSH0, opcode.STLOC0)
			loop := b.Len()
			emit.Opcodes(w, opcode.LDLOC0, opcode.LDARG0, opcode.SIZE, opcode.LT)
			jmpPos := b.Len()
			emit.Instruction(w, opcode.JMPIFNOT, []byte{0})
			emit.Opcodes(w, opcode.LDARG0, opcode.LDLOC0, opcode.PICKITEM, opcode.STLOC1)
			emit.Opcodes(w, opcode.LDLOC1, opcode.PUSH1, opcode.PICKITEM) // args
			emit.Opcodes(w, opcode.PUSH15)
			emit.Opcodes(w, opcode.LDLOC1, opcode.PUSH0, opcode.PICKITEM) // method
			sys(w, interopnames.SystemRuntimeGetExecutingScriptHash)
			sys(w, interopnames.SystemContractCall)
			emit.Opcodes(w, opcode.DROP)
			emit.Opcodes(w, opcode.LDLOC0, opcode.INC, opcode.STLOC0)
			back := loop - b.Len()
			emit.Instruction(w, opcode.JMP, []byte{byte(int8(back))})
			endPos := b.Len()
			emit.Opcodes(w, opcode.RET)
			patches = append(patches, patch{jmpPos + 1, byte(endPos - jmpPos)})
		}},
		{"onNEP17Payment", 3, smartcontract.VoidType, func(b *io.BufBinWriter) {
			w := b.BinWriter
			emit.InitSlot(w, 0, 3)
			emit.Opcodes(w, opcode.LDARG2)
			emit.String(w, "reject")
			emit.Opcodes(w, opcode.EQUAL)
			emit.Instruction(w, opcode.JMPIFNOT, []byte{3})
			emit.Opcodes(w, opcode.ABORT)
			// data == "throw": a catchable exception raised inside a callback made by a native contract
			emit.Opcodes(w, opcode.LDARG2)
			emit.String(w, "throw")
			emit.Opcodes(w, opcode.EQUAL)
			emit.Instruction(w, opcode.JMPIFNOT, []byte{2 + 7 + 1}) // over PUSHDATA1 "nopay" (7 bytes) and THROW
			emit.String(w, "nopay")
			emit.Opcodes(w, opcode.THROW)
			emit.Opcodes(w, opcode.LDARG1)
			emit.String(w, "paid")
			sys(w, interopnames.SystemStorageGetContext)
			sys(w, interopnames.SystemStoragePut)
			emit.Opcodes(w, opcode.LDARG1)
			notifyTop(w)
			emit.Opcodes(w, opcode.RET)
		}},
		{"oracleCb", 4, smartcontract.VoidType, func(b *io.BufBinWriter) {
			// callback of the native Oracle contract: (url, userData, code, result)
			w := b.BinWriter
			emit.InitSlot(w, 0, 4)
			emit.Opcodes(w, opcode.LDARG3)
			emit.String(w, "ores")
			sys(w, interopnames.SystemStorageGetContext)
			sys(w, interopnames.SystemStoragePut)
			emit.Opcodes(w, opcode.LDARG2)
			emit.String(w, "ocode")
			sys(w, interopnames.SystemStorageGetContext)
			sys(w, interopnames.SystemStoragePut)
			emit.Opcodes(w, opcode.LDARG0)
			notifyTop(w)
			emit.Opcodes(w, opcode.LDARG1)
			emit.String(w, "fail")
			emit.Opcodes(w, opcode.EQUAL)
			// JMPIFNOT (2 bytes) over PUSHDATA1 "oracleCb" (2+8 bytes) and THROW (1 byte)
			emit.Instruction(w, opcode.JMPIFNOT, []byte{2 + 10 + 1})
			emit.String(w, "oracleCb")
			emit.Opcodes(w, opcode.THROW)
			emit.Opcodes(w, opcode.RET)
		}},
		{"_deploy", 2, smartcontract.VoidType, func(b *io.BufBinWriter) {
			w := b.BinWriter
			emit.InitSlot(w, 0, 2)
			emit.Opcodes(w, opcode.LDARG1)
			emit.String(w, "dep")
			sys(w, interopnames.SystemStorageGetContext)
			sys(w, interopnames.SystemStoragePut)
			emit.Opcodes(w, opcode.RET)
		}},
		{"update", 2, smartcontract.VoidType, func(b *io.BufBinWriter) {
			w := b.BinWriter
			emit.InitSlot(w, 0, 2)
			emit.Opcodes(w, opcode.PUSHNULL, opcode.LDARG1, opcode.LDARG0, opcode.PUSH3, opcode.PACK, opcode.PUSH15)
			emit.String(w, "update")
			emit.Bytes(w, nativehashes.ContractManagement.BytesBE())
			sys(w, interopnames.SystemContractCall)
			emit.Opcodes(w, opcode.DROP, opcode.RET)
		}},
		{"destroy", 0, smartcontract.VoidType, func(b *io.BufBinWriter) {
			w := b.BinWriter
			emit.Opcodes(w, opcode.NEWARRAY0, opcode.PUSH15)
			emit.String(w, "destroy")
			emit.Bytes(w, nativehashes.ContractManagement.BytesBE())
			sys(w, interopnames.SystemContractCall)
			emit.Opcodes(w, opcode.DROP, opcode.RET)
		}},
	}

	patches = nil
	w := io.NewBufBinWriter()
	m := manifest.NewManifest(name)
	for _, km := range methods {
		off := w.Len()
		km.body(w)
		mm := manifest.Method{Name: km.name, Offset: off, ReturnType: km.ret}
		for i := 0; i < km.params; i++ {
			mm.Parameters = append(mm.Parameters, manifest.NewParameter(fmt.Sprintf("a%d", i), smartcontract.AnyType))
		}
		if km.name == "get" || km.name == "find" || km.name == "findLast" {
			mm.Safe = true
		}
		m.ABI.Methods = append(m.ABI.Methods, mm)
	}
	// variant byte: dead code after the last RET, changes the NEF checksum
	emit.Opcodes(w.BinWriter, opcode.NOP)
	for i := byte(0); i < variant; i++ {
		emit.Opcodes(w.BinWriter, opcode.NOP)
	}
	if w.Err != nil {
		panic(w.Err)
	}
	script := w.Bytes()
	for _, p := range patches {
		script[p.pos] = p.val
	}
	m.ABI.Events = []manifest.Event{{Name: "E", Parameters: []manifest.Parameter{manifest.NewParameter("x", smartcontract.AnyType)}}}
	m.Permissions = []manifest.Permission{*manifest.NewPermission(manifest.PermissionWildcard)}
	// manifests differ in how they express their permissions (what is stored, and what a restarted node parses back)
	switch (int(variant) + int(name[len(name)-1])) % 3 {
	case 1:
		// nothing of the GAS contract may be called (explicitly empty method list), anything else by method name
		noGas := manifest.NewPermission(manifest.PermissionHash, nativehashes.GasToken)
		noGas.Methods.Value = []string{}
		byName := manifest.NewPermission(manifest.PermissionWildcard)
		for _, km := range methods {
			byName.Methods.Add(km.name)
		}
		for _, n := range []string{"balanceOf", "request", "deploy", "vote", "getPrice", "totalSupply"} {
			byName.Methods.Add(n)
		}
		m.Permissions = []manifest.Permission{*noGas, *byName}
	case 2:
		// the native token contracts by hash with all methods, everything else by wildcard
		gas := manifest.NewPermission(manifest.PermissionHash, nativehashes.GasToken)
		neo := manifest.NewPermission(manifest.PermissionHash, nativehashes.NeoToken)
		neo.Methods.Add("balanceOf")
		neo.Methods.Add("transfer")
		m.Permissions = []manifest.Permission{*gas, *neo, *manifest.NewPermission(manifest.PermissionWildcard)}
		m.SupportedStandards = []string{"NEP-27"}
	}
	ne, err := nef.NewFile(script)
	if err != nil {
		panic(err)
	}
	nb, err := ne.Bytes()
	if err != nil {
		panic(err)
	}
	mb, err := json.Marshal(m)
	if err != nil {
		panic(err)
	}
	return &kContract{Name: name, NEF: ne, Manifest: m, NEFBytes: nb, ManBytes: mb}
}

type patch struct {
	pos int
	val byte
}

var patches []patch

// hashFor returns the hash the contract gets when deployed by sender.
func (k *kContract) hashFor(sender util.Uint160) util.Uint160 {
	return state.CreateContractHash(sender, k.NEF.Checksum, k.Manifest.Name)
}

// buildTok assembles the token-holding helper contract: its one method reaches target.seq(list) through a method
// token (CALLT) - a statically linked call - from inside a try block, and says what came of it.
//
//	tryTok(list) -> try{ CALLT target.seq(list) } catch{}; then notify "ok"/"caught"
func buildTok(name string, target util.Uint160) *kContract {
	b := io.NewBufBinWriter()
	w := b.BinWriter
	emit.InitSlot(w, 1, 1)
	tryPos := b.Len()
	emit.Instruction(w, opcode.TRY, []byte{0, 0})
	emit.Opcodes(w, opcode.LDARG0)
	emit.Instruction(w, opcode.CALLT, []byte{0, 0})
	emit.String(w, "ok")
	emit.Opcodes(w, opcode.STLOC0)
	endtry1 := b.Len()
	emit.Instruction(w, opcode.ENDTRY, []byte{0})
	catchPos := b.Len()
	emit.Opcodes(w, opcode.DROP)
	emit.String(w, "caught")
	emit.Opcodes(w, opcode.STLOC0)
	endtry2 := b.Len()
	emit.Instruction(w, opcode.ENDTRY, []byte{0})
	endPos := b.Len()
	emit.Opcodes(w, opcode.LDLOC0)
	notifyTop(w)
	emit.Opcodes(w, opcode.RET)
	if b.Err != nil {
		panic(b.Err)
	}
	script := b.Bytes()
	script[tryPos+1] = byte(catchPos - tryPos)
	script[endtry1+1] = byte(endPos - endtry1)
	script[endtry2+1] = byte(endPos - endtry2)
	m := manifest.NewManifest(name)
	m.ABI.Methods = []manifest.Method{{Name: "tryTok", Offset: 0, ReturnType: smartcontract.VoidType,
		Parameters: []manifest.Parameter{manifest.NewParameter("a0", smartcontract.AnyType)}}}
	m.ABI.Events = []manifest.Event{{Name: "E", Parameters: []manifest.Parameter{manifest.NewParameter("x", smartcontract.AnyType)}}}
	m.Permissions = []manifest.Permission{*manifest.NewPermission(manifest.PermissionWildcard)}
	ne, err := nef.NewFile(script)
	if err != nil {
		panic(err)
	}
	ne.Tokens = []nef.MethodToken{{Hash: target, Method: "seq", ParamCount: 1, HasReturn: false, CallFlag: callflag.All}}
	ne.Checksum = ne.CalculateChecksum()
	nb, err := ne.Bytes()
	if err != nil {
		panic(err)
	}
	mb, err := json.Marshal(m)
	if err != nil {
		panic(err)
	}
	return &kContract{Name: name, NEF: ne, Manifest: m, NEFBytes: nb, ManBytes: mb}
}
