package ledger

import (
	"fmt"
	"github.com/nspcc-dev/neo-go/pkg/crypto/keys"
	"os"
	"strings"
	"sync"
	"testing"

	"github.com/nspcc-dev/neo-go/pkg/config"
	"github.com/nspcc-dev/neo-go/pkg/core"
	"github.com/nspcc-dev/neo-go/pkg/core/block"
	"github.com/nspcc-dev/neo-go/pkg/io"
	"github.com/nspcc-dev/neo-go/pkg/neotest"
	"github.com/nspcc-dev/neo-go/pkg/neotest/chain"
	"go.uber.org/zap"
	"go.uber.org/zap/zapcore"

	"verif/sim"
	"verif/simdisk"
)

// Proto are the protocol-level settings of a run, shared by all nodes.
type Proto struct {
	StateRootInHeader bool   `json:"srih"`
	P2PSig            bool   `json:"p2psig"`
	MTB               uint32 `json:"mtb"` // MaxTraceableBlocks
	// HF selects the hard fork schedule: 0 = the test chain's default (Aspidochelone..Echidna at heights 1..5, later
	// ones never), 1 = Faun at 6 and Gorgon at 8 in addition, 2 = Faun and Gorgon at 5 together with Echidna,
	// 3 = every hard fork from genesis.
	HF int `json:"hf,omitempty"`
}

// Local are node-local settings.
type Local struct {
	Backend     int    `json:"backend"` // simdisk kind
	KeepLatest  bool   `json:"keeplatest"`
	RemoveOld   bool   `json:"removeold"`
	GCPeriod    uint32 `json:"gcperiod"`
	VerifyTx    bool   `json:"verifytx"`
	SaveBatch   bool   `json:"savebatch"`
	SaveInvocs  bool   `json:"saveinv"`
	Preload     int    `json:"preload"`  // 0 none, 1 the block's own transactions, 2 half of them
	FlushMode   int    `json:"flush"`    // 0 only timer ticks / close, 1 every block, 2 tape-chosen boundaries, 3 concurrently with AddBlock (placed inside storeBlock)
	FlushGC     bool   `json:"flushgc"`  // run the GC step after harness-driven flushes
	RestartPlan []int  `json:"restarts"` // heights after which the node is stopped and reopened
}

// tbShim lets neotest/require helpers abort only the current run.
type tbShim struct {
	testing.TB
	mu   sync.Mutex
	msgs []string
}

type tbAbort struct{ msg string }

func (s *tbShim) Helper() {}
func (s *tbShim) Errorf(f string, a ...any) {
	s.mu.Lock()
	s.msgs = append(s.msgs, fmt.Sprintf(f, a...))
	s.mu.Unlock()
}
func (s *tbShim) Error(a ...any)            { s.Errorf("%s", fmt.Sprint(a...)) }
func (s *tbShim) Fatalf(f string, a ...any) { s.Errorf(f, a...); s.FailNow() }
func (s *tbShim) Fatal(a ...any)            { s.Error(a...); s.FailNow() }
func (s *tbShim) Fail()                     {}
func (s *tbShim) FailNow() {
	s.mu.Lock()
	m := ""
	if len(s.msgs) > 0 {
		m = s.msgs[len(s.msgs)-1]
	}
	s.mu.Unlock()
	panic(tbAbort{m})
}
func (s *tbShim) Logf(string, ...any) {}
func (s *tbShim) Log(...any)          {}
func (s *tbShim) Cleanup(func())      {}

// debugNodeLogs (debugging aid, set by the network simulation under VERIF_NETDEBUG) receives every log entry of every node.
var debugNodeLogs func(string)

// logCore counts warn/error log entries (and the consensus view-change / recovery entries of info level) by message
// (probes) and lets Fatal panic.
type logCore struct {
	mu     sync.Mutex
	counts map[string]int
	// skipNC: the number of committed validators dBFT last reported when it refused to ask for a view change
	// ("skip change view", nc), -1 before the first such entry
	skipNC int64
	skipN  int
}

func (c *logCore) Enabled(l zapcore.Level) bool {
	return l >= zapcore.InfoLevel || debugNodeLogs != nil
}
func (c *logCore) With([]zapcore.Field) zapcore.Core { return c }
func (c *logCore) Check(e zapcore.Entry, ce *zapcore.CheckedEntry) *zapcore.CheckedEntry {
	if c.Enabled(e.Level) {
		return ce.AddCore(e, c)
	}
	return ce
}
func (c *logCore) Write(e zapcore.Entry, fs []zapcore.Field) error {
	if debugNodeLogs != nil {
		enc := zapcore.NewMapObjectEncoder()
		for _, f := range fs {
			f.AddTo(enc)
		}
		debugNodeLogs(fmt.Sprintf("%s %s %v", e.Level, e.Message, enc.Fields))
	}
	if e.Level < zapcore.InfoLevel {
		return nil
	}
	if lm := strings.ToLower(e.Message); e.Level == zapcore.InfoLevel && !strings.Contains(lm, "view") && !strings.Contains(lm, "recover") {
		return nil // only the consensus view-change / recovery messages are interesting at info level
	}
	c.mu.Lock()
	c.counts[e.Level.String()+": "+e.Message]++
	if e.Message == "skip change view" {
		for _, f := range fs {
			if f.Key == "nc" {
				c.skipNC = f.Integer
				c.skipN++
			}
		}
	}
	c.mu.Unlock()
	return nil
}
func (c *logCore) Sync() error { return nil }

// Node is one real Blockchain on a simulated disk.
type Node struct {
	Name   string
	Local  Local
	Proto  Proto
	Disk   *simdisk.Disk
	BC     *core.Blockchain
	Exec   *neotest.Executor
	logs   *logCore
	tb     *tbShim
	closed bool
	dirs   []string

	// kc is this node's cache of decoded public keys (process-wide state in a real node): installed by Enter
	kc *keys.VerifKeyCache

	hook          func(*config.Blockchain)
	rpc           *rpcFront
	prevBal       *ledgerBalances
	prevBalHeight uint32
}

func newLogger(lc *logCore) *zap.Logger {
	return zap.New(lc, zap.WithFatalHook(zapcore.WriteThenPanic))
}

func (p Proto) apply(c *config.Blockchain) {
	switch p.HF {
	case 1:
		c.Hardforks[config.HFFaun.String()] = 6
		c.Hardforks[config.HFGorgon.String()] = 8
	case 2:
		c.Hardforks[config.HFFaun.String()] = 5
		c.Hardforks[config.HFGorgon.String()] = 5
	case 3:
		for _, hf := range config.StableHardforks {
			c.Hardforks[hf.String()] = 0
		}
	}
	c.StateRootInHeader = p.StateRootInHeader
	c.P2PSigExtensions = p.P2PSig
	if p.MTB != 0 {
		c.MaxTraceableBlocks = p.MTB
		c.Genesis.MaxTraceableBlocks = p.MTB
		if c.MaxValidUntilBlockIncrement == 0 || c.MaxValidUntilBlockIncrement > p.MTB {
			c.MaxValidUntilBlockIncrement = max(p.MTB/2, 1)
		}
	}
}

func (l Local) apply(c *config.Blockchain) {
	c.KeepOnlyLatestState = l.KeepLatest
	c.RemoveUntraceableBlocks = l.RemoveOld
	if l.RemoveOld {
		c.GarbageCollectionPeriod = max(l.GCPeriod, 1)
	}
	c.VerifyTransactions = l.VerifyTx
	c.SaveStorageBatch = l.SaveBatch
	c.SaveInvocations = l.SaveInvocs
}

// NewNode creates a node on a fresh disk (must be called inside the bubble).
func NewNode(t *testing.T, name string, proto Proto, local Local) (*Node, error) {
	return newNodeWithHook(t, name, proto, local, nil)
}

func newNodeWithHook(t *testing.T, name string, proto Proto, local Local, hook func(*config.Blockchain)) (*Node, error) {
	n := &Node{Name: name, Local: local, Proto: proto, logs: &logCore{counts: map[string]int{}}, tb: &tbShim{TB: t}, hook: hook}
	dir := ""
	if local.Backend%3 != simdisk.Memory {
		var err error
		dir, err = os.MkdirTemp("", "verif-ledger-*")
		if err != nil {
			sim.Harnessf("mkdtemp: %v", err)
		}
		n.dirs = append(n.dirs, dir)
	}
	d, err := simdisk.New(local.Backend, dir)
	if err != nil {
		sim.Harnessf("simdisk: %v", err)
	}
	n.Disk = d
	if err := n.open(); err != nil {
		return n, err
	}
	return n, nil
}

// NewNodeOnDisk opens a node on an existing disk (crash image).
func NewNodeOnDisk(t *testing.T, name string, proto Proto, local Local, d *simdisk.Disk) (*Node, error) {
	n := &Node{Name: name, Local: local, Proto: proto, logs: &logCore{counts: map[string]int{}}, tb: &tbShim{TB: t}, Disk: d}
	if d.Dir != "" {
		n.dirs = append(n.dirs, d.Dir)
	}
	err := n.open()
	return n, err
}

func (n *Node) open() (err error) {
	defer func() {
		if r := recover(); r != nil {
			if a, ok := r.(tbAbort); ok {
				err = fmt.Errorf("open aborted: %s", a.msg)
				return
			}
			panic(r)
		}
	}()
	bc, validator, committee, e := chain.NewMultiWithOptionsNoCheck(n.tb, &chain.Options{
		Logger: newLogger(n.logs),
		Store:  n.Disk,
		BlockchainConfigHook: func(c *config.Blockchain) {
			n.Proto.apply(c)
			n.Local.apply(c)
			if n.hook != nil {
				n.hook(c)
			}
		},
		SkipRun: true,
	})
	if e != nil {
		return e
	}
	n.BC = bc
	n.Exec = neotest.NewExecutor(n.tb, bc, validator, committee)
	n.closed = false
	// a freshly started process has decoded no public key yet
	n.kc = keys.VerifNewKeyCache()
	n.Enter()
	go bc.Run()
	sim.Wait()
	return nil
}

// Restart stops the node cleanly and reopens it on the same disk.
func (n *Node) Restart() error {
	n.Stop()
	if err := n.Disk.Reopen(); err != nil {
		sim.Harnessf("reopen: %v", err)
	}
	return n.open()
}

// Stop closes the node (flushes, closes the store).
func (n *Node) Stop() {
	if n.rpc != nil {
		n.rpc.cancel()
		n.rpc = nil
	}
	if n.closed || n.BC == nil {
		return
	}
	n.BC.Close()
	n.closed = true
	sim.Wait()
}

// Crash fences the disk (only what is already durable survives), stops the
// zombie instance so that its goroutines leave the bubble.
func (n *Node) Crash() {
	n.Disk.Fence()
	n.Stop()
}

// Destroy stops the node and removes its files.
func (n *Node) Destroy() {
	n.Stop()
	n.Disk.Destroy()
	for _, d := range n.dirs {
		_ = os.RemoveAll(d)
	}
}

// AddBlockBytes feeds a block to the node the way a peer would: decoded from bytes.
func (n *Node) AddBlockBytes(raw []byte) error {
	n.Enter()
	b := block.New(n.Proto.StateRootInHeader)
	r := io.NewBinReaderFromBuf(raw)
	b.DecodeBinary(r)
	if r.Err != nil {
		return fmt.Errorf("decode: %w", r.Err)
	}
	return n.BC.AddBlock(b)
}

// LogCounts returns the warn/error log message counters.
func (n *Node) LogCounts() map[string]int {
	n.logs.mu.Lock()
	defer n.logs.mu.Unlock()
	r := map[string]int{}
	for k, v := range n.logs.counts {
		r[k] = v
	}
	return r
}

// Enter makes the process-wide state of the simulated process of node n current: all simulated nodes live in one
// process, the driver calls into one node at a time and installs that node's own cache of decoded public keys first.
func (n *Node) Enter() {
	if n.kc == nil {
		n.kc = keys.VerifNewKeyCache()
	}
	keys.VerifSetKeyCache(n.kc)
}
