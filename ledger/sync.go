package ledger

import (
	"bytes"
	"errors"
	"fmt"
	"github.com/nspcc-dev/neo-go/pkg/core"
	"github.com/nspcc-dev/neo-go/pkg/smartcontract/trigger"
	"sort"

	"github.com/nspcc-dev/neo-go/pkg/config"
	"github.com/nspcc-dev/neo-go/pkg/core/block"
	"github.com/nspcc-dev/neo-go/pkg/core/mpt"
	"github.com/nspcc-dev/neo-go/pkg/core/native/nativehashes"
	"github.com/nspcc-dev/neo-go/pkg/core/state"
	"github.com/nspcc-dev/neo-go/pkg/core/statesync"
	"github.com/nspcc-dev/neo-go/pkg/core/storage"
	"github.com/nspcc-dev/neo-go/pkg/core/transaction"
	nio "github.com/nspcc-dev/neo-go/pkg/io"
	"github.com/nspcc-dev/neo-go/pkg/util"
	"pgregory.net/rapid"

	"verif/sim"
	"verif/simdisk"
)

// C20 part B: a node bootstrapping by state synchronisation. Source S is a
// fully synchronised archival node; target T is a real Blockchain with state
// exchange on, fed by a simulated peer set through the statesync.Module API
// (which is what server.go calls): headers, MPT nodes in any order / batching
// / duplication with wrong data injected, blocks, with restarts in between.

// SyncPlan parameterises one state-sync run.
type SyncPlan struct {
	Interval  int    `json:"interval"`   // StateSyncInterval 2..4
	TargetGC  bool   `json:"target_gc"`  // T: RemoveUntraceableBlocks (+KeepOnlyLatestState)
	TargetKL  bool   `json:"target_kl"`  // T: KeepOnlyLatestState (only together with TargetGC)
	Backend   int    `json:"backend"`    // T's backend
	HdrBatch  int    `json:"hdr_batch"`  // headers per delivery (1..)
	NodeBatch int    `json:"node_batch"` // MPT nodes per delivery (1..)
	ReqLimit  int    `json:"req_limit"`  // GetUnknownMPTNodesBatch limit
	DupPM     int    `json:"dup_pm"`
	BadPM     int    `json:"bad_pm"`     // wrong data injected
	Restarts  []int  `json:"restarts"`   // restart T after this many deliveries (any kind)
	CrashJump bool   `json:"crash_jump"` // enumerate crash points of the final jump
	TailSeed  uint64 `json:"tail_seed"`  // seeds the decision stream once the explicit tape is used up
	// Raw: contract-storage-based mode (NeoFSStateSyncExtensions): the storage items of the sync point arrive as an ordered
	// stream of key/value batches (what the NeoFS state fetcher feeds) instead of MPT nodes
	Raw bool `json:"raw,omitempty"`
}

func drawSync(rt *rapid.T, p *Plan, tier string) *Plan {
	p.Proto.StateRootInHeader = true
	p.Proto.MTB = []uint32{4, 6, 1000}[rapid.IntRange(0, 2).Draw(rt, "smtb")]
	sp := &SyncPlan{}
	sp.Interval = rapid.IntRange(2, 4).Draw(rt, "interval")
	minB := 2*sp.Interval + 1
	p.Blocks = drawBlocks(rt, minB, minB+10, p.Proto.P2PSig)
	if rapid.IntRange(0, 3).Draw(rt, "longsource") == 0 {
		// a source chain that crosses header hash pages (16 headers under the verif build tag): the sync point, the
		// headers received ahead of the state and the target's restarts land on both sides of page boundaries
		for n := rapid.IntRange(10, 32).Draw(rt, "nempty"); n > 0; n-- {
			p.Blocks = append(p.Blocks, BlockPlan{})
		}
	}
	sp.TargetGC = rapid.IntRange(0, 2).Draw(rt, "tgc") != 0
	sp.TargetKL = sp.TargetGC && rapid.Bool().Draw(rt, "tkl")
	sp.Backend = rapid.IntRange(0, 4).Draw(rt, "sbackend")
	if sp.Backend > 2 {
		sp.Backend = 0
	}
	sp.HdrBatch = rapid.IntRange(1, 5).Draw(rt, "hdrbatch")
	sp.NodeBatch = rapid.IntRange(1, 8).Draw(rt, "nodebatch")
	sp.ReqLimit = rapid.IntRange(1, 16).Draw(rt, "reqlimit")
	sp.DupPM = rapid.IntRange(0, 3).Draw(rt, "sdup") * 100
	sp.BadPM = rapid.IntRange(0, 3).Draw(rt, "sbad") * 80
	nr := rapid.IntRange(0, 3).Draw(rt, "nrestarts")
	for i := 0; i < nr; i++ {
		sp.Restarts = append(sp.Restarts, rapid.IntRange(1, 60).Draw(rt, "restartAfter"))
	}
	sort.Ints(sp.Restarts)
	sp.CrashJump = rapid.IntRange(0, 2).Draw(rt, "crashjump") == 0
	sp.TailSeed = rapid.Uint64Range(0, 1<<40).Draw(rt, "tailseed")
	sp.Raw = rapid.IntRange(0, 2).Draw(rt, "raw") == 0
	if sp.Raw {
		sp.TargetGC = true // the storage-based mode is refused on archival nodes
		p.Proto.StateRootInHeader = rapid.Bool().Draw(rt, "rawsrih")
	}
	p.Sync = sp
	p.Election = drawElection(rt)
	p.Tape = drawTape(rt, 300)
	return p
}

type syncRun struct {
	r          *run
	sp         *SyncPlan
	S, T       *Node
	L, P       uint32
	mtbAt      []uint32 // the source's MaxTraceableBlocks by height
	deliveries int
	restarts   map[int]bool
	tlocal     Local
	mod        *statesync.Module // one module per target instance (GetStateSyncModule creates a new one each call)
	rawInit    bool              // InitContractStorageSync done on this module
	rawStream  []storage.KeyValue
}

func (r *run) syncHook(interval int) func(*config.Blockchain) {
	return func(c *config.Blockchain) {
		c.P2PStateExchangeExtensions = c.StateRootInHeader // (the source of a storage-based run may have no roots in headers)
		c.StateSyncInterval = interval
	}
}

// targetHook: the target of a storage-based synchronisation runs with NeoFSStateSyncExtensions (the fetcher services
// themselves belong to the network server and are the harness here; the ledger only checks that they are configured).
func (r *run) targetHook(sp *SyncPlan) func(*config.Blockchain) {
	if !sp.Raw {
		return r.syncHook(sp.Interval)
	}
	return func(c *config.Blockchain) {
		c.NeoFSStateSyncExtensions = true
		c.NeoFSBlockFetcher.Enabled = true
		c.NeoFSStateFetcher.Enabled = true
		c.StateSyncInterval = sp.Interval
	}
}

func (r *run) runSync() {
	sp := r.plan.Sync
	if sp == nil {
		sim.Harnessf("sync plan missing")
	}
	r.tape.Tail = sp.TailSeed
	// source S = the producer, archival, with state exchange on
	S, err := newNodeWithHook(r.t, "S", r.plan.Proto, Local{Backend: simdisk.Memory, VerifyTx: true}, r.syncHook(sp.Interval))
	if S != nil {
		r.nodes = append(r.nodes, S)
	}
	if err != nil {
		sim.Harnessf("source node: %v", err)
	}
	r.P = S
	r.prod = newProducer(S)
	r.prod.allowMTBChange = true
	r.prod.probes = r.out.Probes
	r.prod.ora.answerStale = true // (finding F-ora-2: a state-synchronised node does not have old transactions)
	r.w = &world{contracts: map[util.Uint160]int32{}}
	for i := 0; i < numAccounts; i++ {
		r.w.accounts = append(r.w.accounts, r.prod.kr.acctHash(i))
	}
	r.w.accounts = append(r.w.accounts, S.Exec.Validator.ScriptHash(), S.Exec.CommitteeHash, nativehashes.OracleContract)
	blocks := append([]BlockPlan{{}}, r.plan.Blocks...)
	mtbAt := []uint32{S.BC.GetMaxTraceableBlocks()} // MaxTraceableBlocks of the source after each of its blocks
	for bi, bp := range blocks {
		var pre []*transaction.Transaction
		if bi == 0 {
			pre = r.bootstrapTxs()
		}
		if bi == 1 || bi == 2 {
			pre = r.electionTxs(bi)
		}
		if _, ok := r.produce(bp, pre); !ok {
			return
		}
		// (a step that added several blocks and changed the value: the heights in between stay unknown)
		for h, top, was := uint32(len(mtbAt)), S.BC.BlockHeight(), mtbAt[len(mtbAt)-1]; h <= top; h++ {
			if v := S.BC.GetMaxTraceableBlocks(); h == top || v == was {
				mtbAt = append(mtbAt, v)
			} else {
				mtbAt = append(mtbAt, 0)
			}
		}
	}
	if err := S.BC.VerifPersist(false); err != nil {
		sim.Harnessf("flush S: %v", err)
	}
	sim.Wait()
	sr := &syncRun{r: r, sp: sp, S: S, L: S.BC.BlockHeight(), restarts: map[int]bool{}, mtbAt: mtbAt}
	for _, x := range sp.Restarts {
		sr.restarts[x] = true
	}
	sr.tlocal = Local{Backend: sp.Backend, RemoveOld: sp.TargetGC, KeepLatest: sp.TargetKL, GCPeriod: 2, VerifyTx: true}
	T, err := newNodeWithHook(r.t, "T", r.plan.Proto, sr.tlocal, r.targetHook(sp))
	if T != nil {
		r.nodes = append(r.nodes, T)
	}
	if err != nil {
		sim.Harnessf("target node: %v", err)
	}
	sr.T = T
	sr.run()
}

// delivered counts a delivery and restarts T when the plan says so. Returns false when the run must stop.
func (sr *syncRun) delivered() bool {
	sr.deliveries++
	if !sr.restarts[sr.deliveries] {
		return true
	}
	r := sr.r
	crash := r.tape.Chance(1, 2)
	if crash {
		sr.T.Disk.Fence()
		r.out.Faults["sync_target_crash"]++
		// a crash keeps only what is durable: reopen on an image of the durable log
		sr.T.Stop()
		img, err := sr.T.Disk.Image(sr.T.Disk.Batches(), sr.sp.Backend, r.imageDir(sr.sp.Backend))
		if err != nil {
			sim.Harnessf("image: %v", err)
		}
		n := &Node{Name: "T'", Local: sr.tlocal, Proto: r.plan.Proto, logs: &logCore{counts: map[string]int{}}, tb: &tbShim{TB: r.t}, Disk: img, hook: r.targetHook(sr.sp)}
		if img.Dir != "" {
			n.dirs = append(n.dirs, img.Dir)
		}
		r.nodes = append(r.nodes, n)
		if err := n.open(); err != nil {
			r.violate(sim.Violatef("sync-reopen-failed", "", "target cannot be reopened after a crash during state sync (after %d deliveries): %v", sr.deliveries, err))
			return false
		}
		sr.T = n
	} else {
		r.out.Faults["sync_target_restart"]++
		if err := sr.T.Restart(); err != nil {
			r.violate(sim.Violatef("sync-reopen-failed", "", "target cannot be reopened after a clean stop during state sync (after %d deliveries): %v", sr.deliveries, err))
			return false
		}
	}
	r.log.Addf("T restarted (crash=%v) after %d deliveries, height %d headers %d", crash, sr.deliveries, sr.T.BC.BlockHeight(), sr.T.BC.HeaderHeight())
	return sr.initModule()
}

func (sr *syncRun) initModule() bool {
	m := sr.T.BC.GetStateSyncModule()
	sr.mod = m
	sr.rawInit = false
	if m.IsInitialized() {
		return true
	}
	if err := m.Init(sr.remoteHeight()); err != nil {
		sr.r.violate(sim.Violatef("sync-init-failed", "", "statesync.Module.Init(%d) on the (re)started target at height %d: %v", sr.remoteHeight(), sr.T.BC.BlockHeight(), err))
		return false
	}
	return true
}

func (sr *syncRun) module() *statesync.Module { return sr.mod }

// remoteHeight is the peers' height shown to Init: header P+1 must exist on the source.
func (sr *syncRun) remoteHeight() uint32 {
	if sr.L%uint32(sr.sp.Interval) == 0 {
		return sr.L - 1
	}
	return sr.L
}

func (sr *syncRun) run() {
	r := sr.r
	sp := sr.sp
	if !sr.initModule() {
		return
	}
	m := sr.module()
	if !m.IsActive() {
		// the chain is too short for a state sync point: ordinary synchronisation
		r.out.Probes["sync_inactive_short_chain"]++
		sr.ordinary(1)
		return
	}
	sr.P = m.GetStateSyncPoint()
	r.syncPoint = sr.P
	r.log.Addf("state sync: L=%d P=%d interval=%d mtb=%d", sr.L, sr.P, sp.Interval, r.plan.Proto.MTB)
	r.out.Probes["sync_started"]++
	guard := 0
	for {
		guard++
		if guard > 5000 {
			sim.Harnessf("state sync does not make progress (L=%d P=%d)", sr.L, sr.P)
		}
		if r.fail != nil {
			return
		}
		m = sr.module()
		switch {
		case m.NeedHeaders():
			if !sr.feedHeaders() {
				return
			}
		case m.NeedStorageData():
			if sp.Raw {
				if !sr.feedRaw() {
					return
				}
			} else if !sr.feedNodes() {
				return
			}
		case m.NeedBlocks():
			if !sr.feedBlocks() {
				return
			}
		default:
			if m.IsActive() {
				sim.Harnessf("module active but needs nothing: initialized=%v deliveries=%d height=%d headers=%d P=%d L=%d", m.IsInitialized(), sr.deliveries, sr.T.BC.BlockHeight(), sr.T.BC.HeaderHeight(), sr.P, sr.L)
			}
			goto done
		}
	}
done:
	// the jump has happened
	T := sr.T
	if T.BC.BlockHeight() != sr.P {
		r.violate(sim.Violatef("sync-height", "", "after state synchronisation the node is at height %d, the sync point is %d", T.BC.BlockHeight(), sr.P))
		return
	}
	r.out.Probes["sync_jump_completed"]++
	sr.checkState(T, "after-jump")
	if r.fail != nil {
		return
	}
	if sp.CrashJump {
		sr.crashJump()
		if r.fail != nil {
			return
		}
	}
	sr.ordinary(sr.P + 1)
}

// checkState: state root and complete contract storage equal the source's at the sync point; no temporary item left.
func (sr *syncRun) checkState(n *Node, when string) {
	r := sr.r
	h := n.BC.BlockHeight()
	ref := r.ref[h]
	got, err := n.BC.GetStateRoot(h)
	if err != nil || got.Root.StringLE() != ref.Detail["stateroot"] {
		r.violate(sim.Violatef("sync-stateroot", "sync-stateroot/"+when, "%s: state root at height %d is %v (%v), the fully synchronised node has %s", when, h, got, err, ref.Detail["stateroot"]))
		return
	}
	dump := StorageDump(n, r.w)
	if d := listDiff(dump, ref.Dump); d != "" {
		r.violate(sim.Violatef("sync-storage", "sync-storage/"+when, "%s: contract storage at height %d differs from the fully synchronised node: %s", when, h, clip(d)))
		return
	}
	// temporary prefix must be empty once the jump is complete
	if err := n.BC.VerifPersist(false); err != nil {
		sim.Harnessf("flush: %v", err)
	}
	sim.Wait()
	cur := byte(storage.STStorage)
	tmpCount := 0
	curCount := 0
	for _, kv := range n.Disk.Dump() {
		if kv.K[0] == byte(storage.STStorage) || kv.K[0] == byte(storage.STTempStorage) {
			if kv.K[0] == cur {
				curCount++
			} else {
				tmpCount++
			}
		}
	}
	// which of the two prefixes is current is node-local: exactly one of them may hold items
	if tmpCount != 0 && curCount != 0 {
		r.violate(sim.Violatef("sync-temp-items-left", "", "%s: both storage prefixes hold items after the jump (%d and %d)", when, curCount, tmpCount))
		return
	}
	r.out.Probes["sync_state_checked"]++
}

// ordinary: from height `from` on the node follows the source in lockstep.
func (sr *syncRun) ordinary(from uint32) {
	r := sr.r
	for x := from; x <= sr.L; x++ {
		if r.tape.Chance(1, 6) {
			// the block arrives from two peers at once (two block queues feed a synchronising node: the state
			// synchronisation module's and the ledger's)
			e1, e2 := r.addBlockFromTwoSources(sr.T, r.raw[x])
			if r.fail != nil {
				return
			}
			if !(e1 == nil && errors.Is(e2, core.ErrAlreadyExists)) && !(e2 == nil && errors.Is(e1, core.ErrAlreadyExists)) {
				r.violate(sim.Violatef("duplicate-block-not-refused", "", "after state synchronisation at %d the node was given block %d by two callers at once; they were answered %v and %v (expected: one applies it, the other is told it exists already)", sr.P, x, e1, e2))
				return
			}
		} else if err := sr.T.AddBlockBytes(r.raw[x]); err != nil {
			r.violate(sim.Violatef("sync-lockstep-rejected", "", "after state synchronisation at %d the node rejects block %d: %v", sr.P, x, err))
			return
		}
		sim.Wait()
		got, err := sr.T.BC.GetStateRoot(x)
		if err != nil || got.Root.StringLE() != r.ref[x].Detail["stateroot"] {
			sig := "sync-lockstep-root"
			if r.oracleOriginalTxNotKept(sr.T, x) {
				sig += "+oracle-original-tx-not-kept"
			} else if r.ledgerVMStateOfBlockUpTo(x, sr.P) {
				sig += "+ledger-vmstate-of-unexecuted-tx"
			} else if r.ledgerTxFromBlockUpTo(x, sr.P) {
				sig += "+ledger-transaction-from-block-of-unexecuted-block"
			}
			// what the transactions of that block did on the two nodes
			var det []string
			if blk, berr := sr.T.BC.GetBlock(sr.T.BC.GetHeaderHash(x)); berr == nil {
				for _, tx := range blk.Transactions {
					at, _ := sr.T.BC.GetAppExecResults(tx.Hash(), trigger.Application)
					as, _ := r.P.BC.GetAppExecResults(tx.Hash(), trigger.Application)
					if len(at) == 1 && len(as) == 1 && (at[0].VMState != as[0].VMState || at[0].GasConsumed != as[0].GasConsumed) {
						det = append(det, fmt.Sprintf("tx %s: synchronised node %s gas %d %s / source %s gas %d %s", tx.Hash().StringLE()[:8], at[0].VMState, at[0].GasConsumed, at[0].FaultException, as[0].VMState, as[0].GasConsumed, as[0].FaultException))
					}
				}
			}
			r.violate(sim.Violatef("sync-lockstep-root", sig, "after state synchronisation at %d: state root at height %d is %v (%v), expected %s %v", sr.P, x, got, err, r.ref[x].Detail["stateroot"], det))
			return
		}
	}
	if sr.L >= from {
		r.compare(sr.T, sr.L, "after-sync-lockstep")
		r.out.Probes["sync_lockstep_blocks"] += int(sr.L - from + 1)
	}
}

func (sr *syncRun) feedHeaders() bool {
	r := sr.r
	m := sr.module()
	hh := sr.T.BC.HeaderHeight()
	// partial, repeated, overlapping batches
	start := hh + 1
	if r.tape.Chance(1, 5) && start > 1 {
		start -= uint32(1 + r.tape.Choose(int(min(start-1, 3))))
		r.out.Faults["headers_overlapping"]++
	}
	var hs []*block.Header
	for x := start; x <= sr.P+1 && len(hs) < sr.sp.HdrBatch; x++ {
		h := r.blks[x].Header
		hs = append(hs, &h)
	}
	if len(hs) == 0 {
		sim.Harnessf("no headers to feed (hh=%d P=%d)", hh, sr.P)
	}
	if sr.sp.BadPM > 0 && r.tape.Chance(sr.sp.BadPM, 1000) {
		bad := *hs[len(hs)-1]
		bad.Timestamp += 7 // breaks the signature
		// through the wire form: a header that arrives from a peer has its hash computed from its content
		bw := nio.NewBufBinWriter()
		bad.EncodeBinary(bw.BinWriter)
		fresh := block.Header{StateRootEnabled: bad.StateRootEnabled}
		fresh.DecodeBinary(nio.NewBinReaderFromBuf(bw.Bytes()))
		bad = fresh
		err := m.AddHeaders(&bad)
		r.out.Faults["bad_header"]++
		if err == nil && sr.T.BC.HeaderHeight() >= bad.Index && sr.T.BC.GetHeaderHash(bad.Index) != r.blks[bad.Index].Hash() {
			r.violate(sim.Violatef("sync-bad-data-accepted", "sync-bad-data-accepted/header", "a header with a broken signature was accepted at height %d", bad.Index))
			return false
		}
	}
	if sr.sp.BadPM > 0 && r.tape.Chance(sr.sp.BadPM, 1000) {
		// a batch that overlaps what the node knows with forged content and continues it with a header signed by the
		// key the forged one names
		if base, gerr := sr.T.BC.GetHeader(sr.T.BC.GetHeaderHash(hh)); gerr == nil {
			x, n := r.forgedHeaders(base)
			err := m.AddHeaders(x, n)
			r.out.Faults["forged_header_batch"]++
			if sr.T.BC.HeaderHeight() >= n.Index && sr.T.BC.GetHeaderHash(n.Index) == n.Hash() {
				r.violate(sim.Violatef("sync-bad-data-accepted", "sync-bad-data-accepted/forged-header-batch", "header %d signed by a key that only the preceding header of the same batch (index %d, known with other content) names as next consensus was accepted (err=%v)", n.Index, x.Index, err))
				return false
			}
		}
	}
	err := m.AddHeaders(hs...)
	if err != nil && start == hh+1 {
		r.violate(sim.Violatef("sync-headers-rejected", "", "valid headers %d..%d rejected: %v", hs[0].Index, hs[len(hs)-1].Index, err))
		return false
	}
	r.out.Probes["sync_header_batches"]++
	return sr.delivered()
}

// feedRaw: storage-based mode. The stream is what `util upload-state` writes for the sync point: every pair of the
// state in SeekStates order. The fetcher resumes after the module's last stored key; batch sizes are the tape's.
func (sr *syncRun) feedRaw() bool {
	r := sr.r
	m := sr.module()
	rootP, err := util.Uint256DecodeStringLE(r.ref[sr.P].Detail["stateroot"])
	if err != nil {
		sim.Harnessf("root: %v", err)
	}
	if sr.rawStream == nil {
		sr.S.BC.GetStateModule().SeekStates(rootP, []byte{}, func(k, v []byte) bool {
			sr.rawStream = append(sr.rawStream, storage.KeyValue{Key: bytes.Clone(k), Value: bytes.Clone(v)})
			return true
		})
		if len(sr.rawStream) == 0 {
			sim.Harnessf("the source has no state at the sync point %d", sr.P)
		}
	}
	if !sr.rawInit {
		var ierr error
		if pv := sim.Recover(func() { ierr = m.InitContractStorageSync(state.MPTRoot{Index: sr.P, Root: rootP}) }); pv != nil {
			pv.Msg = "InitContractStorageSync panicked: " + pv.Msg
			r.violate(pv)
			return false
		}
		if ierr != nil {
			r.violate(sim.Violatef("sync-init-failed", "sync-init-failed/storage", "InitContractStorageSync(%d, %s) refused on the (re)started target: %v", sr.P, rootP.StringLE()[:12], ierr))
			return false
		}
		sr.rawInit = true
	}
	idx := 0
	if last := m.GetLastStoredKey(); len(last) > 0 {
		idx = -1
		for i := range sr.rawStream {
			if bytes.Equal(sr.rawStream[i].Key, last) {
				idx = i + 1
				break
			}
		}
		if idx < 0 {
			r.violate(sim.Violatef("sync-raw-lastkey", "", "the module's last stored key %x is not a key of the sync point's state", last))
			return false
		}
		r.out.Probes["raw_resumed_after_key"]++
	}
	if idx >= len(sr.rawStream) {
		r.violate(sim.Violatef("sync-raw-incomplete", "", "all %d storage items of sync point %d were delivered, the module still asks for storage data", len(sr.rawStream), sr.P))
		return false
	}
	n := min(1+r.tape.Choose(max(1, sr.sp.NodeBatch*3)), len(sr.rawStream)-idx)
	batch := make([]storage.KeyValue, 0, n)
	for _, kv := range sr.rawStream[idx : idx+n] {
		batch = append(batch, storage.KeyValue{Key: bytes.Clone(kv.Key), Value: bytes.Clone(kv.Value)})
	}
	var aerr error
	if pv := sim.Recover(func() { aerr = m.AddContractStorageItems(batch) }); pv != nil {
		pv.Msg = fmt.Sprintf("AddContractStorageItems(%d items from #%d) panicked: %s", n, idx, pv.Msg)
		r.violate(pv)
		return false
	}
	sim.Wait()
	if aerr != nil {
		r.violate(sim.Violatef("sync-raw-rejected", "", "valid storage items #%d..#%d of sync point %d rejected: %v", idx, idx+n-1, sr.P, aerr))
		return false
	}
	r.out.Probes["sync_raw_batches"]++
	r.out.Probes["sync_raw_items"] += n
	return sr.delivered()
}

// nodeBytes asks the source for an MPT node the way handleGetMPTDataCmd does.
func (sr *syncRun) nodeBytes(h util.Uint256) []byte {
	var res []byte
	_ = sr.S.BC.GetStateSyncModule().Traverse(h, func(_ mpt.Node, nb []byte) bool {
		res = append([]byte{}, nb...)
		return true
	})
	return res
}

func (sr *syncRun) feedNodes() bool {
	r := sr.r
	m := sr.module()
	// the pool hands out the first ReqLimit entries of a Go map, an arbitrary subset: the harness asks for all of
	// them and lets the tape choose the subset and its order, so that the run is a function of the plan
	unk := m.GetUnknownMPTNodesBatch(1 << 20)
	if len(unk) == 0 {
		sim.Harnessf("storage data needed but nothing unknown")
	}
	sort.Slice(unk, func(i, j int) bool { return unk[i].Compare(unk[j]) < 0 })
	// tape order
	for i := len(unk) - 1; i > 0; i-- {
		j := r.tape.Choose(i + 1)
		unk[i], unk[j] = unk[j], unk[i]
	}
	if len(unk) > sr.sp.ReqLimit {
		unk = unk[:sr.sp.ReqLimit]
	}
	if len(unk) > sr.sp.NodeBatch {
		unk = unk[:sr.sp.NodeBatch]
	}
	var batch [][]byte
	for _, h := range unk {
		nb := sr.nodeBytes(h)
		if nb == nil {
			r.violate(sim.Violatef("sync-source-missing-node", "", "the fully synchronised node cannot serve MPT node %s of the sync point state", h.StringLE()[:12]))
			return false
		}
		batch = append(batch, nb)
		if sr.sp.DupPM > 0 && r.tape.Chance(sr.sp.DupPM, 1000) {
			batch = append(batch, nb)
			r.out.Faults["mpt_node_duplicated"]++
		}
	}
	if sr.sp.BadPM > 0 && r.tape.Chance(sr.sp.BadPM, 1000) {
		// wrong data first: a corrupted node, an unsolicited valid node of another height, garbage
		var bad [][]byte
		switch r.tape.Choose(4) {
		case 3:
			// a serialised hash node that names one of the requested hashes: it "is" the requested node by hash,
			// but restores nothing; the request must stay open for the real node
			h := unk[r.tape.Choose(len(unk))]
			bad = [][]byte{append([]byte{0x03}, h.BytesBE()...)}
			r.out.Faults["mpt_node_hashnode_of_requested"]++
		case 0:
			c := append([]byte{}, batch[0]...)
			c[r.tape.Choose(len(c))] ^= 0x20
			bad = [][]byte{c}
			r.out.Faults["mpt_node_corrupted"]++
		case 1:
			if rt, err := sr.S.BC.GetStateRoot(1); err == nil {
				if nb := sr.nodeBytes(rt.Root); nb != nil {
					bad = [][]byte{nb}
					r.out.Faults["mpt_node_unsolicited"]++
				}
			}
		case 2:
			bad = [][]byte{{0xff, 0x01, 0x02}}
			r.out.Faults["mpt_node_garbage"]++
		}
		if bad != nil {
			if pv := sim.Recover(func() { _ = m.AddMPTNodes(bad) }); pv != nil {
				pv.Msg = "AddMPTNodes with wrong data panicked: " + pv.Msg
				r.violate(pv)
				return false
			}
		}
	}
	var err error
	if pv := sim.Recover(func() { err = m.AddMPTNodes(batch) }); pv != nil {
		r.violate(pv)
		return false
	}
	if err != nil {
		r.violate(sim.Violatef("sync-nodes-rejected", "", "%d valid MPT nodes of the sync point state rejected: %v", len(batch), err))
		return false
	}
	r.out.Probes["sync_mpt_batches"]++
	r.out.Probes["sync_mpt_nodes"] += len(batch)
	return sr.delivered()
}

func (sr *syncRun) feedBlocks() bool {
	r := sr.r
	m := sr.module()
	next := m.BlockHeight() + 1
	if int(sr.P) < len(sr.mtbAt) {
		// the blocks stage may only need blocks that are traceable at the sync point: those are what a peer that removes
		// untraceable blocks still has when it stands at P. A module that starts further back cannot complete from such peers.
		if mtb := sr.mtbAt[sr.P]; mtb != 0 && next+mtb <= sr.P {
			r.violate(sim.Violatef("sync-untraceable-block-needed", "", "the blocks stage asks for block %d, which is not traceable at the sync point %d (MaxTraceableBlocks there is %d, genesis %d): peers that drop untraceable blocks cannot serve it", next, sr.P, mtb, sr.mtbAt[0]))
			return false
		}
		if sr.mtbAt[sr.P] != sr.mtbAt[0] && sr.mtbAt[sr.P] != 0 {
			r.out.Probes["sync_blocks_stage_after_mtb_change"]++
		}
	}
	if sr.sp.BadPM > 0 && r.tape.Chance(sr.sp.BadPM, 1000) && next+1 <= sr.P {
		// out of order / wrong block: must be refused without damage
		err := m.AddBlock(r.blks[next+1])
		r.out.Faults["block_out_of_order"]++
		if err == nil && m.BlockHeight() != next-1 {
			r.violate(sim.Violatef("sync-bad-data-accepted", "sync-bad-data-accepted/block", "block %d accepted by the state sync module while %d was expected", next+1, next))
			return false
		}
	}
	b, err := decodeBlock(r.raw[next], r.plan.Proto.StateRootInHeader)
	if err != nil {
		sim.Harnessf("decode block: %v", err)
	}
	var aerr error
	if pv := sim.Recover(func() { aerr = m.AddBlock(b) }); pv != nil {
		pv.Msg = fmt.Sprintf("statesync AddBlock(%d) panicked: %s", next, pv.Msg)
		r.violate(pv)
		return false
	}
	sim.Wait()
	if aerr != nil {
		r.violate(sim.Violatef("sync-block-rejected", "", "state sync module rejected valid block %d (sync point %d): %v", next, sr.P, aerr))
		return false
	}
	r.out.Probes["sync_blocks_fed"]++
	if next == sr.P {
		return true // the jump has just happened inside AddBlock; restarts during the jump are crashJump's business
	}
	return sr.delivered()
}

// crashJump: C02 scenario (c) - a crash after every batch the jump wrote; reopen with the same configuration.
func (sr *syncRun) crashJump() {
	r := sr.r
	T := sr.T
	if err := T.BC.VerifPersist(false); err != nil {
		sim.Harnessf("flush: %v", err)
	}
	sim.Wait()
	B := T.Disk.Batches()
	kinds := T.Disk.BatchKinds()
	// the jump's batches are the trailing ones: examine the last 12 boundaries
	lo := max(1, B-12)
	for k := lo; k <= B; k++ {
		img, err := T.Disk.Image(k, sr.sp.Backend, r.imageDir(sr.sp.Backend))
		if err != nil {
			sim.Harnessf("image: %v", err)
		}
		r.out.Faults["crash_during_jump"]++
		n := &Node{Name: fmt.Sprintf("T@%d", k), Local: sr.tlocal, Proto: r.plan.Proto, logs: &logCore{counts: map[string]int{}}, tb: &tbShim{TB: r.t}, Disk: img, hook: r.targetHook(sr.sp)}
		if img.Dir != "" {
			n.dirs = append(n.dirs, img.Dir)
		}
		r.nodes = append(r.nodes, n)
		var oerr error
		if pv := sim.Recover(func() { oerr = n.open() }); pv != nil {
			pv.Msg = fmt.Sprintf("reopening after a crash at batch %d/%d (%v) of a state jump panicked: %s", k, B, tailS(kinds, k), pv.Msg)
			r.violate(pv)
			return
		}
		if oerr != nil {
			r.violate(sim.Violatef("jump-resume-failed", "", "database after a crash at batch %d/%d (%v) around the state jump cannot be opened: %v", k, B, tailS(kinds, k), oerr))
			return
		}
		h := n.BC.BlockHeight()
		r.log.Addf("jump crash@%d/%d -> height %d", k, B, h)
		if h == sr.P {
			r.out.Probes["jump_resumed_or_complete"]++
			sr.checkState(n, "after-jump-crash")
			if r.fail == nil {
				// it continues in lockstep
				for x := sr.P + 1; x <= min(sr.L, sr.P+2); x++ {
					if err := n.AddBlockBytes(r.raw[x]); err != nil {
						sig := "jump-resume-rejected"
						for y := sr.P + 1; y < x; y++ {
							if r.oracleOriginalTxNotKept(n, y) {
								sig += "+oracle-original-tx-not-kept"
								break
							}
							if r.ledgerVMStateOfBlockUpTo(y, sr.P) {
								sig += "+ledger-vmstate-of-unexecuted-tx"
								break
							}
							if r.ledgerTxFromBlockUpTo(y, sr.P) {
								sig += "+ledger-transaction-from-block-of-unexecuted-block"
								break
							}
						}
						r.violate(sim.Violatef("jump-resume-rejected", sig, "node recovered from a crash at batch %d/%d of the state jump rejects block %d: %v", k, B, x, err))
						break
					}
					sim.Wait()
				}
			}
		} else {
			// the jump had not started durably: the node is still collecting data; it must be able to go on
			r.out.Probes["jump_crash_before_marker"]++
			m := n.BC.GetStateSyncModule()
			if err := m.Init(sr.remoteHeight()); err != nil {
				r.violate(sim.Violatef("sync-init-failed", "sync-init-failed/after-jump-crash", "statesync.Module.Init after a crash at batch %d/%d: %v", k, B, err))
			}
		}
		n.Destroy()
		r.nodes = r.nodes[:len(r.nodes)-1]
		if r.fail != nil {
			r.fail.Msg = fmt.Sprintf("crash at batch %d/%d around the state jump to %d: %s", k, B, sr.P, r.fail.Msg)
			return
		}
	}
}
