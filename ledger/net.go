package ledger

import (
	"bytes"
	"container/heap"
	crand "crypto/rand"
	"crypto/sha256"
	"encoding/binary"
	"fmt"
	"io"
	"os"
	"path/filepath"
	"sort"
	"strings"
	"sync"
	"time"

	"github.com/nspcc-dev/dbft"
	"github.com/nspcc-dev/neo-go/pkg/config"
	"github.com/nspcc-dev/neo-go/pkg/consensus"
	"github.com/nspcc-dev/neo-go/pkg/core/block"
	"github.com/nspcc-dev/neo-go/pkg/core/transaction"
	"github.com/nspcc-dev/neo-go/pkg/crypto/keys"
	nio "github.com/nspcc-dev/neo-go/pkg/io"
	"github.com/nspcc-dev/neo-go/pkg/network"
	"github.com/nspcc-dev/neo-go/pkg/network/extpool"
	"github.com/nspcc-dev/neo-go/pkg/network/payload"
	"github.com/nspcc-dev/neo-go/pkg/util"
	"github.com/nspcc-dev/neo-go/pkg/wallet"
	"pgregory.net/rapid"

	"verif/sim"
	"verif/simdisk"
)

// netsim: N validators (real Blockchain + real consensus.Service + real
// extensible pool) and observers on a simulated transport. Everything that
// crosses the transport is bytes of a network.Message. The stub is what
// server.go would provide: relay of committed blocks, answering RequestTx from
// other nodes' pools, offering missing blocks to a node that is behind.

// Span is an interval during which a node is silent or late.
type Span struct {
	Node    int `json:"node"`
	FromMS  int `json:"from"`
	ToMS    int `json:"to"`
	DelayMS int `json:"delay,omitempty"` // 0 = silent, >0 = all its traffic delayed by that much
	Track   int `json:"track,omitempty"` // 7-validator runs have two independent tracks of faulty spans (f=2)
}

// NetTx is a client transaction.
type NetTx struct {
	AtMS    int   `json:"at"`
	Op      Op    `json:"op"`
	Targets uint8 `json:"targets"` // bitmask of nodes that receive it directly
	Defect  int   `json:"defect,omitempty"`
	// Stateful: a valid transfer co-signed by an inline verification script that checks a signature and that the chain
	// is still below a height two blocks ahead: valid now, invalid once that height is reached
	Stateful bool `json:"stateful,omitempty"`
}

// NetPlan is one network run.
type NetPlan struct {
	Validators int     `json:"validators"`
	Observers  int     `json:"observers"`
	Sync       bool    `json:"sync"`
	DropPM     int     `json:"drop_pm"`
	DupPM      int     `json:"dup_pm"`
	MaxDelayMS int     `json:"max_delay_ms"`
	CorruptPM  int     `json:"corrupt_pm"`
	Relay      bool    `json:"relay"`
	Spans      []Span  `json:"spans,omitempty"`
	Txs        []NetTx `json:"txs,omitempty"`
	DurationMS int     `json:"duration_ms"`
	MaxTxPB    int     `json:"max_tx_per_block,omitempty"`
	// MaxSysFee / MaxBlkSize: MaxBlockSystemFee (in units of 0.1 GAS) and MaxBlockSize (bytes) of the run; 0 = default
	MaxSysFee  int    `json:"max_block_sysfee,omitempty"`
	MaxBlkSize int    `json:"max_block_size,omitempty"`
	Restart    []Span `json:"restart,omitempty"` // observer restarts (node index, at FromMS)
	TailSeed   uint64 `json:"tail_seed"`         // seeds the decision stream once the explicit tape is used up
	// Election: all six accounts register as candidates and everybody votes (at about 3 s and 5.5 s), so that committee
	// and validators change at an epoch boundary; validator i's wallet also holds account 2+i, which wins a seat
	Election bool `json:"election,omitempty"`
	// HealMS: after DurationMS of a faulty run every fault stops (no loss, no silence, no lateness, delays <= 240 ms;
	// duplicates and reordering stay) for at most that long: the run ends as soon as every validator has gained two blocks
	HealMS int `json:"heal_ms,omitempty"`
}

const blockTimeMS = 1000

// healWindowMS bounds the fault-free phase that follows a faulty run (see NetPlan.HealMS and finalNet)
const healWindowMS = 300_000

func drawNet(rt *rapid.T, p *Plan, prop, tier string) *Plan {
	np := &NetPlan{Validators: 4}
	if rapid.IntRange(0, 4).Draw(rt, "seven") == 4 {
		np.Validators = 7
	}
	np.Observers = rapid.IntRange(0, 1).Draw(rt, "observers")
	np.Sync = rapid.IntRange(0, 2).Draw(rt, "sync") == 0
	if prop == "C07" || prop == "C17" {
		np.Sync = rapid.IntRange(0, 3).Draw(rt, "sync7") != 0
		np.Observers = 1
	}
	if prop == "C17" && rapid.Bool().Draw(rt, "faulty17") {
		np.Sync = false // view changes and recovery messages only exist in faulty runs
	}
	np.DupPM = rapid.IntRange(0, 3).Draw(rt, "dup") * 50
	np.Relay = rapid.Bool().Draw(rt, "relay")
	if np.Sync {
		np.MaxDelayMS = rapid.IntRange(1, 240).Draw(rt, "delay")
		np.DurationMS = 21000
	} else {
		np.DropPM = rapid.IntRange(0, 4).Draw(rt, "drop") * 40
		np.MaxDelayMS = []int{20, 200, 900, 2500}[rapid.IntRange(0, 3).Draw(rt, "delayc")]
		np.DurationMS = rapid.IntRange(6, 24).Draw(rt, "dur") * 1000
		// at most f=1 validators silent or late at any time; the faulty one changes over time
		t := 0
		ns := rapid.IntRange(0, 4).Draw(rt, "nspans")
		for i := 0; i < ns && t < np.DurationMS; i++ {
			from := t + rapid.IntRange(0, 4000).Draw(rt, "gap")
			to := from + rapid.IntRange(200, 6000).Draw(rt, "len")
			s := Span{Node: rapid.IntRange(0, np.Validators-1).Draw(rt, "snode"), FromMS: from, ToMS: to}
			if rapid.Bool().Draw(rt, "late") {
				s.DelayMS = rapid.IntRange(300, 4000).Draw(rt, "late_ms")
			}
			np.Spans = append(np.Spans, s)
			t = to
		}
		if np.Validators == 7 {
			// f=2: a second, independent track of faulty spans on other validators
			t = 0
			ns2 := rapid.IntRange(0, 3).Draw(rt, "nspans2")
			for i := 0; i < ns2 && t < np.DurationMS; i++ {
				from := t + rapid.IntRange(0, 4000).Draw(rt, "gap2")
				to := from + rapid.IntRange(200, 6000).Draw(rt, "len2")
				s := Span{Node: rapid.IntRange(0, np.Validators-1).Draw(rt, "snode2"), FromMS: from, ToMS: to, Track: 1}
				if rapid.Bool().Draw(rt, "late2") {
					s.DelayMS = rapid.IntRange(300, 4000).Draw(rt, "late_ms2")
				}
				np.Spans = append(np.Spans, s)
				t = to
			}
		}
	}
	if prop == "C17" {
		np.CorruptPM = rapid.IntRange(1, 6).Draw(rt, "corrupt") * 30
	}
	ntx := rapid.IntRange(0, 10).Draw(rt, "ntx")
	if prop == "C07" {
		ntx = rapid.IntRange(4, 16).Draw(rt, "ntx7")
		np.MaxTxPB = rapid.IntRange(0, 3).Draw(rt, "maxtxpb")
		np.MaxSysFee = []int{0, 0, 5, 9, 21}[rapid.IntRange(0, 4).Draw(rt, "maxsysfee")]
		np.MaxBlkSize = []int{0, 0, 1500, 2600}[rapid.IntRange(0, 3).Draw(rt, "maxblksize")]
	}
	if prop == "C19" && rapid.IntRange(0, 3).Draw(rt, "limits19") == 0 {
		// small block limits: the primary's packing and the backups' verification of a proposal have to agree on them
		ntx = rapid.IntRange(4, 14).Draw(rt, "ntx19")
		np.MaxTxPB = rapid.IntRange(0, 3).Draw(rt, "maxtxpb19")
		np.MaxSysFee = []int{0, 5, 9, 21}[rapid.IntRange(0, 3).Draw(rt, "maxsysfee19")]
		np.MaxBlkSize = []int{0, 0, 1500, 2600}[rapid.IntRange(0, 3).Draw(rt, "maxblksize19")]
	}
	for i := 0; i < ntx; i++ {
		t := NetTx{AtMS: rapid.IntRange(0, np.DurationMS-1000).Draw(rt, "txat"), Op: drawOp(rt, p.Proto.P2PSig),
			Targets: uint8(rapid.IntRange(1, 31).Draw(rt, "targets"))}
		if prop == "C07" && rapid.IntRange(0, 2).Draw(rt, "defective") == 0 {
			t.Defect = rapid.IntRange(1, numDefects-1).Draw(rt, "defect")
		}
		np.Txs = append(np.Txs, t)
	}
	if prop == "C07" && rapid.IntRange(0, 2).Draw(rt, "latefee") == 0 {
		// a fee setting is raised while plain transactions that pay exactly the calculator's fee wait in the pools: with
		// at most two transactions per block the committee's transaction (better paid per byte) goes first and the
		// others are still pooled when the new setting takes effect
		if np.MaxTxPB == 0 || np.MaxTxPB > 2 {
			np.MaxTxPB = 2
		}
		at := max(0, np.DurationMS-rapid.IntRange(3500, 6500).Draw(rt, "latefeeat"))
		o := Op{Kind: OpPolicy, X: 0, N: int64(rapid.IntRange(700, 2000).Draw(rt, "latefeeperbyte"))}
		if rapid.IntRange(0, 3).Draw(rt, "latefeekind") == 3 {
			o = Op{Kind: OpPolicy, X: 1, N: int64(rapid.IntRange(30, 59).Draw(rt, "lateexecfee"))}
		}
		np.Txs = append(np.Txs, NetTx{AtMS: at, Op: o, Targets: 31})
		for i := 0; i < 5; i++ {
			np.Txs = append(np.Txs, NetTx{AtMS: at + 1, Op: Op{Kind: OpTransferGAS, A: i, B: (i + 1) % numAccounts, N: int64(1 + i), X: 1}, Targets: 31})
		}
		// and one whose witness is valid for two more blocks only (it pays least per byte, so it waits longest)
		np.Txs = append(np.Txs, NetTx{AtMS: at + 2, Op: Op{Kind: OpTransferGAS, A: 5, B: 0, N: 9, X: 1}, Targets: 31, Stateful: true})
	}
	sort.SliceStable(np.Txs, func(i, j int) bool { return np.Txs[i].AtMS < np.Txs[j].AtMS })
	if np.Observers > 0 && rapid.IntRange(0, 2).Draw(rt, "obsrestart") == 0 {
		np.Restart = append(np.Restart, Span{Node: np.Validators, FromMS: rapid.IntRange(2000, np.DurationMS-1000).Draw(rt, "restartat")})
	}
	np.TailSeed = rapid.Uint64Range(0, 1<<40).Draw(rt, "tailseed")
	if prop == "C19" && np.Validators == 4 && np.DurationMS >= 16000 && rapid.IntRange(0, 2).Draw(rt, "election") == 0 {
		np.Election = true
	}
	if !np.Sync && np.CorruptPM == 0 && rapid.IntRange(0, 1).Draw(rt, "heal") == 1 {
		np.HealMS = healWindowMS
	}
	p.Net = np
	p.Tape = drawTape(rt, 200)
	return p
}

// ---- deterministic entropy (dBFT block nonce) ----

type detRand struct {
	mu  sync.Mutex
	ctr uint64
	key [32]byte
}

func (d *detRand) Read(p []byte) (int, error) {
	d.mu.Lock()
	defer d.mu.Unlock()
	n := 0
	for n < len(p) {
		var b [40]byte
		copy(b[:], d.key[:])
		binary.LittleEndian.PutUint64(b[32:], d.ctr)
		d.ctr++
		h := sha256.Sum256(b[:])
		n += copy(p[n:], h[:])
	}
	return len(p), nil
}

// ---- events ----

type netEvent struct {
	at  time.Duration
	seq uint64
	fn  func()
}
type evHeap []*netEvent

func (h evHeap) Len() int { return len(h) }
func (h evHeap) Less(i, j int) bool {
	if h[i].at != h[j].at {
		return h[i].at < h[j].at
	}
	return h[i].seq < h[j].seq
}
func (h evHeap) Swap(i, j int) { h[i], h[j] = h[j], h[i] }
func (h *evHeap) Push(x any)   { *h = append(*h, x.(*netEvent)) }
func (h *evHeap) Pop() any {
	o := *h
	x := o[len(o)-1]
	*h = o[:len(o)-1]
	return x
}

type outMsg struct {
	from   int
	seq    uint64
	sentAt time.Duration
	to     int // -1 = everybody else
	kind   string
	raw    []byte
	want   []util.Uint256 // tx request
}

type vnode struct {
	idx       int
	n         *Node
	svc       consensus.Service
	ext       *extpool.Pool
	validator bool
	pending   map[uint32][]byte
	checked   uint32
	outSeq    uint64
}

type netSim struct {
	r      *run
	np     *NetPlan
	nodes  []*vnode
	heap   evHeap
	seq    uint64
	mu     sync.Mutex
	outbox []outMsg
	start  time.Time
	canon  map[uint32]util.Uint256
	croot  map[uint32]string
	puts   int
	tmp    string
	// C07 / C17 bookkeeping
	defective          map[util.Uint256]string   // tx hash -> defect name (must not be pooled by a node for which the defect holds)
	defectFees         map[util.Uint256][2]int64 // fee-one-short: fee per byte and base execution fee the fee was computed with
	goodAt             map[util.Uint256]time.Duration
	seenTx             map[util.Uint256][]byte // canonical bytes of every transaction seen
	firstBlockAt       time.Duration
	clientSeq          uint64
	onChainResubmitted map[util.Uint256]bool
	conflictVictims    map[util.Uint256][]util.Uint256 // tx named by Conflicts attributes -> the naming transactions
	namers             map[util.Uint256]bool
	directPayloads     map[[4]uint32]util.Uint256 // hash of every consensus payload delivered directly, by (height, validator, type, view)
	directData         map[util.Uint256]string
	directCVs          map[string]util.Uint256 // ChangeViews delivered directly, by height/validator/view/timestamp
	standby            string                  // the standby validators (sorted), as printed
	standbyKeys        []string                // standby validator key of node i
	uncovered          bool                    // the validators rotated to a set that the running nodes do not hold the keys of
	lastBlockAt        time.Duration           // when the latest height was first seen on any node
	maxGap             time.Duration           // longest time between two consecutive heights
	rotatedAt          time.Duration           // when the next block's validators first differed from the standby ones
	healed             bool                    // the fault-free phase after a faulty run has begun
	healAt             time.Duration           // when it began
	healHeights        []uint32                // validators' heights at that moment
	healedIn           time.Duration           // how long it took every validator to gain two blocks (0: not yet)
	// poolFn, when set, is how a client transaction enters a node (server mode: Server.RelayTxn); default Blockchain.PoolTx
	poolFn func(*vnode, *transaction.Transaction) error
}

func (s *netSim) now() time.Duration { return time.Since(s.start) }

func (s *netSim) at(t time.Duration, fn func()) {
	s.seq++
	heap.Push(&s.heap, &netEvent{at: t, seq: s.seq, fn: fn})
}

// enqueue is called from any goroutine (service callbacks): no tape use here.
func (s *netSim) enqueue(from, to int, kind string, raw []byte, want []util.Uint256) {
	s.mu.Lock()
	n := s.nodes[from]
	n.outSeq++
	s.outbox = append(s.outbox, outMsg{from: from, seq: n.outSeq, sentAt: s.now(), to: to, kind: kind, raw: raw, want: want})
	s.mu.Unlock()
}

// gapAssert: the "blocks keep being produced" oracle of synchronous runs raises (VERIF_GAP_ASSERT=0 only measures)
var gapAssert = os.Getenv("VERIF_GAP_ASSERT") != "0"

// healAssert: the bounded-liveness-after-faults oracle raises (VERIF_HEAL_ASSERT=0 only measures)
var healAssert = os.Getenv("VERIF_HEAL_ASSERT") != "0"

// netDebug (VERIF_NETDEBUG=1) adds every outbox entry and delivery to the event log; debugging aid only.
var netDebug = os.Getenv("VERIF_NETDEBUG") != ""

func msgBytes(cmd network.CommandType, p payload.Payload) []byte {
	m := network.NewMessage(cmd, p)
	b, err := m.Bytes()
	if err != nil {
		sim.Harnessf("encode message: %v", err)
	}
	return b
}

type bqAdapter struct {
	s *netSim
	v *vnode
}

// Put is what the consensus service calls with a block it has committed.
func (a *bqAdapter) Put(b *block.Block) error {
	a.s.mu.Lock()
	a.s.puts++
	a.s.mu.Unlock()
	raw := msgBytes(network.CMDBlock, b)
	err := a.v.n.BC.AddBlock(b)
	if err != nil {
		// the block may have arrived from the network meanwhile; anything else is recorded
		if _, gerr := a.v.n.BC.GetBlock(b.Hash()); gerr != nil {
			a.s.mu.Lock()
			a.s.r.violate(sim.Violatef("own-block-rejected", "", "validator %d committed block %d but its own ledger rejects it: %v", a.v.idx, b.Index, err))
			a.s.mu.Unlock()
		}
		return err
	}
	a.s.enqueue(a.v.idx, -1, "block", raw, nil)
	return nil
}

func (s *netSim) spanAt(node int, t time.Duration) (silent bool, delay time.Duration) {
	if s.healed {
		return false, 0
	}
	ms := int(t / time.Millisecond)
	for _, sp := range s.np.Spans {
		if sp.Node == node && ms >= sp.FromMS && ms < sp.ToMS {
			if sp.DelayMS == 0 {
				return true, 0
			}
			return false, time.Duration(sp.DelayMS) * time.Millisecond
		}
	}
	return false, 0
}

// flushOutbox turns queued sends into delivery events; all fault decisions are taken here, from the tape.
func (s *netSim) flushOutbox() {
	s.mu.Lock()
	ob := s.outbox
	s.outbox = nil
	s.mu.Unlock()
	sort.SliceStable(ob, func(i, j int) bool {
		if ob[i].from != ob[j].from {
			return ob[i].from < ob[j].from
		}
		return ob[i].seq < ob[j].seq
	})
	tape := s.r.tape
	for _, m := range ob {
		if netDebug {
			extra := ""
			if m.kind == "consensus" {
				mm := &network.Message{}
				if mm.Decode(nio.NewBinReaderFromBuf(m.raw)) == nil {
					if e, ok := mm.Payload.(*payload.Extensible); ok && len(e.Data) >= 7 {
						extra = fmt.Sprintf(" type=%#x height=%d vi=%d view=%d", e.Data[0], binary.LittleEndian.Uint32(e.Data[1:5]), e.Data[5], e.Data[6])
					}
				}
			}
			s.r.log.Addf("  t=%dms outbox from %d seq %d %s %016x want=%d%s", s.now()/time.Millisecond, m.from, m.seq, m.kind, sim.HashBytes(0, m.raw), len(m.want), extra)
		}
		if m.kind == "gettx" {
			s.answerTxRequest(m)
			continue
		}
		for to := range s.nodes {
			if to == m.from || (m.to >= 0 && to != m.to) {
				continue
			}
			sil1, late1 := s.spanAt(m.from, m.sentAt)
			sil2, late2 := s.spanAt(to, m.sentAt)
			if sil1 || sil2 {
				s.r.out.Faults["dropped_by_silence"]++
				continue
			}
			if s.np.DropPM > 0 && !s.healed && m.kind != "sync" && tape.Chance(s.np.DropPM, 1000) {
				s.r.out.Faults["msg_dropped"]++
				continue
			}
			maxDelay := s.np.MaxDelayMS
			if s.healed {
				maxDelay = min(maxDelay, 240)
			}
			delay := time.Duration(1+tape.Choose(max(1, maxDelay))) * time.Millisecond
			delay += late1 + late2
			if late1+late2 > 0 {
				s.r.out.Faults["msg_late"]++
			}
			raw := m.raw
			if s.np.CorruptPM > 0 && tape.Chance(s.np.CorruptPM, 1000) {
				raw = s.corruptWire(raw, m.kind)
			}
			to := to
			kind := m.kind
			if !bytes.Equal(raw, m.raw) {
				kind += "*" // altered on the wire
			}
			s.at(max(s.now(), m.sentAt+delay), func() { s.deliver(to, kind, raw) })
			s.r.out.Probes["msg_scheduled"]++
			if s.np.DupPM > 0 && tape.Chance(s.np.DupPM, 1000) {
				d2 := delay + time.Duration(1+tape.Choose(max(1, maxDelay)))*time.Millisecond
				s.at(max(s.now(), m.sentAt+d2), func() { s.deliver(to, kind, raw) })
				s.r.out.Faults["msg_duplicated"]++
			}
		}
	}
}

// answerTxRequest stands for getdata: another node that has the transaction sends it.
func (s *netSim) answerTxRequest(m outMsg) {
	for _, h := range m.want {
		for i, o := range s.nodes {
			if i == m.from {
				continue
			}
			if tx, ok := o.n.BC.GetMemPool().TryGetValue(h); ok {
				raw := msgBytes(network.CMDTX, tx)
				s.r.out.Probes["tx_request_answered"]++
				s.enqueueDirect(i, m.from, "tx", raw)
				break
			}
		}
	}
}

func (s *netSim) enqueueDirect(from, to int, kind string, raw []byte) {
	s.mu.Lock()
	n := s.nodes[from]
	n.outSeq++
	s.outbox = append(s.outbox, outMsg{from: from, seq: n.outSeq, sentAt: s.now(), to: to, kind: kind, raw: raw})
	s.mu.Unlock()
}

// deliver hands bytes to node `to` the way a peer connection would.
func (s *netSim) deliver(to int, kind string, raw []byte) {
	v := s.nodes[to]
	if v.n.closed {
		return
	}
	if sil, _ := s.spanAt(to, s.now()); sil {
		s.r.out.Faults["dropped_by_silence"]++
		return
	}
	msg := &network.Message{StateRootInHeader: s.r.plan.Proto.StateRootInHeader}
	var derr error
	var allocated uint64
	if pv := sim.Recover(func() {
		if strings.HasSuffix(kind, "*") {
			derr, allocated = decodeMeasured(msg, raw)
		} else {
			derr = msg.Decode(nio.NewBinReaderFromBuf(raw))
		}
	}); pv != nil {
		pv.Msg = fmt.Sprintf("decoding a %s message of %d bytes panicked: %s", kind, len(raw), pv.Msg)
		s.r.violate(pv)
		return
	}
	if allocated > maxDecodeAlloc {
		s.r.violate(allocViolation(kind, len(raw), allocated))
		return
	}
	if derr != nil {
		if strings.HasPrefix(kind, "p2p/") && !strings.HasSuffix(kind, "*") {
			// built by the real encoder from a real value and delivered unaltered
			s.r.violate(sim.Violatef("c17-honest-message-undecodable", "c17-honest-message-undecodable/"+kind, "a %s message of %d bytes produced by Message.BytesCompressed and delivered unaltered does not decode: %v", kind, len(raw), derr))
			return
		}
		s.r.out.Probes["wire_decode_rejected"]++
		return
	}
	s.r.out.Probes["msg_delivered"]++
	if netDebug {
		s.r.log.Addf("  t=%dms deliver to %d %s %016x", s.now()/time.Millisecond, to, kind, sim.HashBytes(0, raw))
	}
	switch msg.Command {
	case network.CMDExtensible:
		e := msg.Payload.(*payload.Extensible)
		if s.r.prop == "C17" {
			s.checkReencode(msg, raw)
			s.checkConsensusPayload(e, strings.HasSuffix(kind, "*"), to)
		}
		ok, err := v.ext.Add(e)
		if err != nil || !ok {
			s.r.out.Probes["extensible_not_new_or_invalid"]++
			return
		}
		if v.svc != nil {
			if pv := sim.Recover(func() { _ = v.svc.OnPayload(e) }); pv != nil {
				s.r.violate(pv)
				return
			}
		}
		if s.np.Relay {
			s.enqueue(to, -1, "consensus", raw, nil)
		}
	case network.CMDBlock:
		b := msg.Payload.(*block.Block)
		if s.r.prop == "C17" {
			s.checkReencode(msg, raw)
			s.recordBlockTxs(b)
		}
		s.offerBlock(v, b, raw)
	case network.CMDTX:
		tx := msg.Payload.(*transaction.Transaction)
		if s.r.prop == "C17" {
			s.checkTxPaths(tx, raw)
		}
		s.submitTx(v, tx)
	default:
		s.r.out.Probes["wire_other_command"]++
		if s.r.prop == "C17" {
			s.checkReencode(msg, raw)
		}
	}
}

func (s *netSim) submitTx(v *vnode, tx *transaction.Transaction) {
	var err error
	// "already on chain" is relative to the receiving node's own chain (it may be behind)
	onOwnChain := false
	if _, hgt, gerr := v.n.BC.GetTransaction(tx.Hash()); gerr == nil && hgt != ^uint32(0) {
		onOwnChain = true
	}
	// a namer counts when it is on this node's chain, still well inside the traceable window, and shares a signer
	namerOnOwnChain := false
	staleNamer := false
	for _, namer := range s.conflictVictims[tx.Hash()] {
		ntx, hgt, gerr := v.n.BC.GetTransaction(namer)
		if gerr == nil && hgt != ^uint32(0) && hgt+v.n.BC.GetMaxTraceableBlocks() <= v.n.BC.BlockHeight() {
			staleNamer = true
		}
		if gerr != nil || hgt == ^uint32(0) || hgt+v.n.BC.GetMaxTraceableBlocks() <= v.n.BC.BlockHeight()+1 {
			continue
		}
		for _, sg := range ntx.Signers {
			if tx.HasSigner(sg.Account) {
				namerOnOwnChain = true
			}
		}
	}
	pool := func() { err = v.n.BC.PoolTx(tx) }
	if s.poolFn != nil {
		pool = func() { err = s.poolFn(v, tx) }
	}
	if pv := sim.Recover(pool); pv != nil {
		s.r.violate(pv)
		return
	}
	// a primary waiting for the first transaction is woken by the pool (poolEvents); let its event loop take that
	// before the transaction itself is handed to the service: with both channels ready the loop's select would
	// choose by the runtime's random number, which no plan controls
	sim.Wait()
	if err != nil && s.namers[tx.Hash()] {
		s.r.log.Addf("t=%dms node %d (height %d) refuses a naming transaction (sender balance %s, fees %d+%d): %s", s.now()/time.Millisecond, v.idx, v.n.BC.BlockHeight(), v.n.BC.GetUtilityTokenBalance(tx.Sender(), util.Uint160{}), tx.SystemFee, tx.NetworkFee, errClass(err))
	}
	if len(s.conflictVictims[tx.Hash()]) > 1 {
		var hs []string
		for _, namer := range s.conflictVictims[tx.Hash()] {
			_, hgt, gerr := v.n.BC.GetTransaction(namer)
			hs = append(hs, fmt.Sprintf("%d/%v", int32(hgt), gerr == nil))
		}
		s.r.log.Addf("t=%dms node %d (height %d, MTB %d) gets the doubly named victim (VUB %d); namers at %v -> pooled=%v", s.now()/time.Millisecond, v.idx, v.n.BC.BlockHeight(), v.n.BC.GetMaxTraceableBlocks(), tx.ValidUntilBlock, hs, err == nil)
	}
	if namerOnOwnChain && staleNamer {
		s.r.out.Probes["conflict_victim_with_untraceable_and_traceable_namer"]++
	}
	if namerOnOwnChain {
		s.r.out.Probes["conflict_victim_submitted_after_namer_on_chain"]++
		if err == nil {
			s.r.violate(sim.Violatef("c07-invalid-tx-pooled", "c07-invalid-tx-pooled/named-by-on-chain-conflicts", "node %d pooled a transaction that is named by a Conflicts attribute of an on-chain transaction of the same signer", v.idx))
			return
		}
	}
	if s.onChainResubmitted[tx.Hash()] && onOwnChain && err == nil {
		s.r.violate(sim.Violatef("c07-invalid-tx-pooled", "c07-invalid-tx-pooled/already-on-chain", "node %d pooled a transaction that is already on chain", v.idx))
		return
	}
	if d, bad := s.defective[tx.Hash()]; bad && err == nil && !s.defectHolds(v, tx, d) {
		// the defect was built against the client's view of the chain; this node is at another height (or has
		// other fee settings), where the transaction is simply valid
		s.r.out.Probes["defective_tx_valid_for_lagging_node"]++
	} else if bad && err == nil {
		s.r.violate(sim.Violatef("c07-invalid-tx-pooled", "c07-invalid-tx-pooled/"+d, "node %d pooled a transaction the generator made invalid (%s)", v.idx, d))
		return
	}
	if err == nil {
		s.r.out.Probes["tx_pooled"]++
		if v.svc != nil {
			v.svc.OnTransaction(tx)
		}
	} else {
		s.r.out.Probes["tx_not_pooled"]++
		if netDebug {
			s.r.log.Addf("  t=%dms node %d does not pool %s: %v", s.now()/time.Millisecond, v.idx, tx.Hash().StringLE()[:8], err)
		}
	}
}

// defectHolds tells whether the one defect the generator gave tx is a defect in the eyes of node v now.
func (s *netSim) defectHolds(v *vnode, tx *transaction.Transaction, d string) bool {
	bc := v.n.BC
	switch d {
	case defectNames[defExpired]:
		return tx.ValidUntilBlock <= bc.BlockHeight()
	case defectNames[defTooFarAhead]:
		return tx.ValidUntilBlock > bc.BlockHeight()+bc.GetMaxValidUntilBlockIncrement()
	case defectNames[defFeeShort]:
		c, ok := s.defectFees[tx.Hash()]
		return ok && c == [2]int64{bc.FeePerByte(), bc.GetBaseExecFee()}
	case defectNames[defBlockedCosigner]:
		for _, sg := range tx.Signers {
			if isBlockedOn(v.n, sg.Account) {
				return true
			}
		}
		return false
	}
	return true
}

// offerBlock: a block received from the network.
func (s *netSim) offerBlock(v *vnode, b *block.Block, raw []byte) {
	bc := v.n.BC
	h := bc.BlockHeight()
	switch {
	case b.Index <= h:
		if have := bc.GetHeaderHash(b.Index); have != b.Hash() {
			if s.np.CorruptPM == 0 {
				s.r.violate(sim.Violatef("fork", "fork/received", "node %d has block %s at height %d and receives a committed block %s for the same height", v.idx, have.StringLE()[:8], b.Index, b.Hash().StringLE()[:8]))
			}
		}
		return
	case b.Index > h+1:
		if len(v.pending) < 64 {
			v.pending[b.Index] = raw
		}
		return
	}
	var err error
	if pv := sim.Recover(func() { err = bc.AddBlock(b) }); pv != nil {
		s.r.violate(pv)
		return
	}
	sim.Wait()
	if err != nil {
		if s.np.CorruptPM > 0 {
			s.r.out.Probes["corrupted_block_rejected"]++
			return
		}
		if bc.BlockHeight() >= b.Index && bc.GetHeaderHash(b.Index) == b.Hash() {
			return // added concurrently by the own consensus service
		}
		s.r.violate(sim.Violatef("committed-block-rejected", "", "node %d (height %d) rejects block %d committed by a validator (after the bytes round trip): %v", v.idx, h, b.Index, err))
		return
	}
	s.r.out.Probes["block_accepted_from_network"]++
	for {
		nx, ok := v.pending[bc.BlockHeight()+1]
		if !ok {
			break
		}
		delete(v.pending, bc.BlockHeight()+1)
		nb, derr := decodeMsgBlock(nx, s.r.plan.Proto.StateRootInHeader)
		if derr != nil {
			break
		}
		if err := bc.AddBlock(nb); err != nil {
			break
		}
		// (no second block without letting the node settle: this simulation's block queue is a synchronous adapter, the
		// consensus service adds its own blocks through it, and a second AddBlock of the driver while the service is inside
		// one would make the three wait for each other - the real queue is asynchronous; back-to-back additions are left
		// to server mode, which runs the real queue)
		sim.Wait()
	}
}

func decodeMsgBlock(raw []byte, srih bool) (*block.Block, error) {
	msg := &network.Message{StateRootInHeader: srih}
	if err := msg.Decode(nio.NewBinReaderFromBuf(raw)); err != nil {
		return nil, err
	}
	b, ok := msg.Payload.(*block.Block)
	if !ok {
		return nil, fmt.Errorf("not a block")
	}
	return b, nil
}

// checkAgreement: the safety oracle, evaluated after every driver event.
func (s *netSim) checkAgreement() {
	if s.np.Election && s.rotatedAt == 0 && s.standby != "" {
		if v, err := s.nodes[0].n.BC.GetNextBlockValidators(); err == nil {
			vv := keys.PublicKeys(v).Copy()
			sort.Sort(vv)
			if fmt.Sprint(vv) != s.standby {
				s.rotatedAt = s.now()
				s.r.out.Probes["net_validators_rotated"]++
				// every validator key must be held by a running node (node i holds standby key i and account 2+i)
				// for the liveness clauses to apply from here on
				var who []string
				nodesUsed := map[int]bool{}
				for _, pk := range vv {
					w := "?"
					for i := 0; i < s.np.Validators; i++ {
						if s.standbyKeys[i] == pk.StringCompressed() {
							w = fmt.Sprintf("standby%d@n%d", i, i)
							if nodesUsed[i] {
								w += "(dup)"
								s.uncovered = true
							}
							nodesUsed[i] = true
						}
					}
					for a := 0; a < numAccounts; a++ {
						if s.r.prod.kr.accts[a].PublicKey().StringCompressed() == pk.StringCompressed() {
							w = fmt.Sprintf("a%d", a)
							if a >= 2 && a-2 < s.np.Validators && !nodesUsed[a-2] {
								w += fmt.Sprintf("@n%d", a-2)
								nodesUsed[a-2] = true
							} else {
								s.uncovered = true
							}
						}
					}
					if w == "?" {
						s.uncovered = true
					}
					who = append(who, w)
				}
				if s.uncovered {
					s.r.out.Probes["net_rotation_to_keys_nobody_runs"]++
					if enr, err := s.nodes[0].n.BC.GetEnrollments(); err == nil {
						for _, e := range enr {
							for a := 0; a < numAccounts; a++ {
								if s.r.prod.kr.accts[a].PublicKey().StringCompressed() == e.Key.StringCompressed() {
									s.r.log.Addf("  candidate a%d votes %s", a, e.Votes)
								}
							}
						}
					}
				}
				s.r.log.Addf("t=%dms the validators of the next block are no longer the standby ones: %v (all run by nodes: %v)", s.now()/time.Millisecond, who, !s.uncovered)
			}
		}
	}
	for _, v := range s.nodes {
		if v.n.closed {
			continue
		}
		h := v.n.BC.BlockHeight()
		for x := v.checked + 1; x <= h; x++ {
			hh := v.n.BC.GetHeaderHash(x)
			if c, ok := s.canon[x]; ok {
				if c != hh {
					s.r.violate(sim.Violatef("fork", "fork/height", "two ledgers accepted different blocks at height %d: %s (node %d) vs %s", x, hh.StringLE()[:8], v.idx, c.StringLE()[:8]))
					return
				}
			} else {
				s.canon[x] = hh
				if s.firstBlockAt == 0 {
					s.firstBlockAt = s.now()
				}
				if s.lastBlockAt > 0 {
					s.maxGap = max(s.maxGap, s.now()-s.lastBlockAt)
				}
				s.lastBlockAt = s.now()
				s.r.log.Addf("t=%dms height %d = %s (first on node %d)", s.now()/time.Millisecond, x, hh.StringLE()[:8], v.idx)
			}
			sr, err := v.n.BC.GetStateRoot(x)
			if err != nil {
				s.r.violate(sim.Violatef("net-stateroot", "", "node %d has no state root for its height %d: %v", v.idx, x, err))
				return
			}
			if c, ok := s.croot[x]; ok {
				if c != sr.Root.StringLE() {
					s.r.violate(sim.Violatef("net-divergence", "", "same block, different state roots at height %d: node %d has %s, another node %s", x, v.idx, sr.Root.StringLE()[:12], c[:12]))
					return
				}
			} else {
				s.croot[x] = sr.Root.StringLE()
			}
		}
		v.checked = h
	}
}

func (r *run) runNet() {
	np := r.plan.Net
	if np == nil {
		sim.Harnessf("network plan missing")
	}
	s := &netSim{r: r, np: np, canon: map[uint32]util.Uint256{}, croot: map[uint32]string{}, defective: map[util.Uint256]string{}, defectFees: map[util.Uint256][2]int64{},
		goodAt: map[util.Uint256]time.Duration{}, seenTx: map[util.Uint256][]byte{}, onChainResubmitted: map[util.Uint256]bool{}, conflictVictims: map[util.Uint256][]util.Uint256{}, namers: map[util.Uint256]bool{}}
	// entropy
	old := crand.Reader
	dr := &detRand{}
	copy(dr.key[:], "verif-netsim-entropy-0123456789abcdef")
	crand.Reader = dr
	defer func() { crand.Reader = old }()
	tmp, err := os.MkdirTemp("", "verif-net-*")
	if err != nil {
		sim.Harnessf("mkdtemp: %v", err)
	}
	s.tmp = tmp
	defer os.RemoveAll(tmp)
	s.start = time.Now()

	r.out.Probes[fmt.Sprintf("validators_%d", np.Validators)]++
	total := np.Validators + np.Observers
	for i := 0; i < total; i++ {
		l := Local{Backend: simdisk.Memory, VerifyTx: true}
		if i >= np.Validators {
			l = Local{Backend: simdisk.Memory, VerifyTx: i%2 == 0, KeepLatest: false}
		}
		n := r.newNetNode(fmt.Sprintf("N%d", i), l)
		v := &vnode{idx: i, n: n, validator: i < np.Validators, pending: map[uint32][]byte{}}
		v.ext = extpool.New(n.BC, 100, nil)
		s.nodes = append(s.nodes, v)
	}
	// keyring / producer on node 0 (client transactions are built against its ledger)
	r.P = s.nodes[0].n
	r.prod = newProducer(r.P)
	r.prod.probes = r.out.Probes
	r.w = &world{contracts: map[util.Uint160]int32{}}
	for i := 0; i < numAccounts; i++ {
		r.w.accounts = append(r.w.accounts, r.prod.kr.acctHash(i))
	}
	// consensus services
	vals, _ := r.P.BC.GetNextBlockValidators()
	sort.Sort(keys.PublicKeys(vals))
	s.standby = fmt.Sprint(keys.PublicKeys(vals))
	for i := 0; i < np.Validators; i++ {
		s.standbyKeys = append(s.standbyKeys, vals[i].StringCompressed())
	}
	for i := 0; i < np.Validators; i++ {
		v := s.nodes[i]
		pk := r.prod.kr.byPub[vals[i].StringCompressed()]
		wpath := filepath.Join(tmp, fmt.Sprintf("w%d.json", i))
		w, err := wallet.NewWallet(wpath)
		if err != nil {
			sim.Harnessf("wallet: %v", err)
		}
		w.Scrypt = keys.ScryptParams{N: 2, R: 1, P: 1}
		pkCopy, err := keys.NewPrivateKeyFromBytes(pk.Bytes()) // Wallet.Close wipes the key: never hand out the keyring's object
		if err != nil {
			sim.Harnessf("key copy: %v", err)
		}
		acc := wallet.NewAccountFromPrivateKey(pkCopy)
		if err := acc.Encrypt("pass", w.Scrypt); err != nil {
			sim.Harnessf("wallet encrypt: %v", err)
		}
		w.AddAccount(acc)
		if np.Election {
			ck, err := keys.NewPrivateKeyFromBytes(r.prod.kr.accts[2+i].Bytes())
			if err != nil {
				sim.Harnessf("key copy: %v", err)
			}
			acc2 := wallet.NewAccountFromPrivateKey(ck)
			if err := acc2.Encrypt("pass", w.Scrypt); err != nil {
				sim.Harnessf("wallet encrypt: %v", err)
			}
			w.AddAccount(acc2)
		}
		if err := w.Save(); err != nil {
			sim.Harnessf("wallet save: %v", err)
		}
		w.Close()
		vv := v
		svc, err := consensus.NewService(consensus.Config{
			Logger: newLogger(v.n.logs),
			Broadcast: func(e *payload.Extensible) {
				s.enqueue(vv.idx, -1, "consensus", msgBytes(network.CMDExtensible, e), nil)
			},
			Chain:                 v.n.BC,
			BlockQueue:            &bqAdapter{s: s, v: vv},
			ProtocolConfiguration: v.n.BC.GetConfig().ProtocolConfiguration,
			RequestTx: func(h ...util.Uint256) {
				s.mu.Lock()
				vv.outSeq++
				s.outbox = append(s.outbox, outMsg{from: vv.idx, seq: vv.outSeq, sentAt: s.now(), kind: "gettx", want: append([]util.Uint256(nil), h...)})
				s.mu.Unlock()
			},
			StopTxFlow: func() {},
			Wallet:     config.Wallet{Path: wpath, Password: "pass"},
		})
		if err != nil {
			sim.Harnessf("consensus.NewService: %v", err)
		}
		v.svc = svc
	}
	defer func() {
		for _, v := range s.nodes {
			if v.svc != nil {
				v.svc.Shutdown()
			}
		}
		sim.Wait()
	}()
	for _, v := range s.nodes {
		if v.svc != nil {
			v.svc.Start()
		}
	}
	sim.Wait()

	r.tape.Tail = np.TailSeed
	// the order in which a validator replays cached messages of a future height when it reaches that height (a Go map
	// order upstream) is a decision of the plan
	dbft.VerifCacheOrder = func(keys []uint16) {
		for i := len(keys) - 1; i > 0; i-- {
			j := r.tape.Choose(i + 1)
			keys[i], keys[j] = keys[j], keys[i]
		}
		r.out.Probes["cached_future_messages_replayed"]++
	}
	defer func() { dbft.VerifCacheOrder = nil }()
	if netDebug {
		debugNodeLogs = func(m string) { r.log.Addf("    t=%dms LOG %s", s.now()/time.Millisecond, m) }
		defer func() { debugNodeLogs = nil }()
	}
	// bootstrap: the validators' multisig funds the accounts (sent to every node)
	s.at(10*time.Millisecond, func() {
		for _, tx := range r.bootstrapTxs() {
			s.sendToTargets(tx, 0xff)
		}
		for i := 0; i < numContracts; i++ {
			if tx, _ := r.prod.buildTx(Op{Kind: OpDeploy, A: i, B: i}, nil); tx != nil {
				_ = tx // deployed later by client ops once the accounts are funded
			}
		}
	})
	if np.Election {
		s.scheduleElection()
	}
	if r.prop == "C17" {
		s.scheduleChatter()
	}
	// planned events: client transactions, observer restarts, periodic sync offers
	for i := range np.Txs {
		t := np.Txs[i]
		if r.prop == "C17" && i%3 == 1 {
			s.at(time.Duration(t.AtMS)*time.Millisecond, func() { s.rulesTx(t) })
			continue
		}
		s.at(time.Duration(t.AtMS)*time.Millisecond, func() { s.clientTx(t) })
	}
	for _, rs := range np.Restart {
		rs := rs
		s.at(time.Duration(rs.FromMS)*time.Millisecond, func() { s.restartObserver(rs.Node) })
	}
	for t := 1500; t < np.DurationMS+np.HealMS; t += 1000 {
		s.at(time.Duration(t)*time.Millisecond, s.syncOffer)
	}
	end := time.Duration(np.DurationMS) * time.Millisecond
	const quantum = 25 * time.Millisecond
	for r.fail == nil {
		if s.now() >= end {
			if np.HealMS == 0 || s.healedIn > 0 || s.uncovered {
				break
			}
			if !s.healed {
				s.healed, s.healAt = true, s.now()
				for i := 0; i < np.Validators; i++ {
					s.healHeights = append(s.healHeights, s.nodes[i].n.BC.BlockHeight())
				}
				r.log.Addf("t=%dms faults stop (heights %v)", s.now()/time.Millisecond, s.healHeights)
				r.out.Probes["heal_phase_entered"]++
			}
			done := true
			for i := 0; i < np.Validators; i++ {
				if s.nodes[i].n.BC.BlockHeight() < s.healHeights[i]+2 {
					done = false
				}
			}
			if done {
				s.healedIn = s.now() - s.healAt
				break
			}
			if s.now() >= end+time.Duration(np.HealMS)*time.Millisecond {
				break
			}
		}
		next := s.now() + quantum
		if len(s.heap) > 0 && s.heap[0].at < next {
			next = s.heap[0].at
		}
		if d := next - s.now(); d > 0 {
			time.Sleep(d)
		}
		sim.Wait()
		for len(s.heap) > 0 && s.heap[0].at <= s.now() && r.fail == nil {
			ev := heap.Pop(&s.heap).(*netEvent)
			ev.fn()
			sim.Wait()
			s.flushOutbox()
			s.checkAgreement()
		}
		s.flushOutbox()
		s.checkAgreement()
	}
	if r.fail != nil {
		return
	}
	s.finalNet()
}

// newNetNode creates a node with the network-run protocol settings (1 s blocks).
func (r *run) newNetNode(name string, l Local) *Node {
	n, err := newNodeWithHook(r.t, name, r.plan.Proto, l, func(c *config.Blockchain) {
		c.TimePerBlock = blockTimeMS * time.Millisecond
		c.Genesis.TimePerBlock = blockTimeMS * time.Millisecond
		if r.plan.Net != nil && r.plan.Net.Validators == 7 {
			var sc []string
			for _, pk := range extraValidatorKeys() {
				sc = append(sc, pk.PublicKey().StringCompressed())
			}
			c.StandbyCommittee = sc
			c.ValidatorsCount = 7
			c.CommitteeHistory = nil
			c.ValidatorsHistory = nil
		}
		if r.plan.Net != nil && r.plan.Net.MaxSysFee > 0 {
			c.MaxBlockSystemFee = int64(r.plan.Net.MaxSysFee) * 10_000_000
		}
		if r.plan.Net != nil && r.plan.Net.MaxBlkSize > 0 {
			c.MaxBlockSize = uint32(r.plan.Net.MaxBlkSize)
		}
		if r.plan.Net != nil && r.plan.Net.MaxTxPB > 0 {
			c.MaxTransactionsPerBlock = uint16(r.plan.Net.MaxTxPB)
		}
	})
	if n != nil {
		r.nodes = append(r.nodes, n)
	}
	if err != nil {
		sim.Harnessf("cannot create node %s: %v", name, err)
	}
	return n
}

// scheduleElection: once the accounts are funded all of them register as candidates, later everybody votes.
func (s *netSim) scheduleElection() {
	r := s.r
	funded := func() bool {
		for i := 0; i < numAccounts; i++ {
			if r.P.BC.GetUtilityTokenBalance(r.prod.kr.acctHash(i), util.Uint160{}).Sign() <= 0 {
				return false
			}
		}
		return true
	}
	send := func(ops []Op) {
		for _, o := range ops {
			var tx *transaction.Transaction
			if v := sim.Recover(func() { tx, _ = r.prod.buildTx(o, nil) }); v != nil || tx == nil {
				continue
			}
			s.sendToTargets(tx, 0xff)
		}
	}
	var stage1, stage2 func()
	tries := 0
	stage1 = func() {
		if !funded() {
			if tries++; tries < 8 {
				s.at(s.now()+blockTimeMS*time.Millisecond, stage1)
			}
			return
		}
		var ops []Op
		for i := 0; i < numAccounts; i++ {
			ops = append(ops, Op{Kind: OpRegister, A: i, Y: 1})
		}
		send(ops)
		r.out.Probes["net_election_registered"]++
		s.at(s.now()+2500*time.Millisecond, stage2)
	}
	stage2 = func() {
		var ops []Op
		for i := 0; i < numAccounts; i++ {
			ops = append(ops, Op{Kind: OpVote, A: i, B: i, X: 0, Y: 1})
		}
		send(ops)
		r.out.Probes["net_election_voted"]++
	}
	s.at(3000*time.Millisecond, stage1)
}

// syncOffer: a node that is behind is offered the next missing block by a node that has it.
func (s *netSim) syncOffer() {
	top := uint32(0)
	for _, v := range s.nodes {
		if !v.n.closed && v.n.BC.BlockHeight() > top {
			top = v.n.BC.BlockHeight()
		}
	}
	for _, v := range s.nodes {
		if v.n.closed {
			continue
		}
		h := v.n.BC.BlockHeight()
		if h >= top {
			continue
		}
		for _, o := range s.nodes {
			if o.n.closed || o.n.BC.BlockHeight() <= h {
				continue
			}
			b, err := o.n.BC.GetBlock(o.n.BC.GetHeaderHash(h + 1))
			if err != nil {
				continue
			}
			s.r.out.Probes["sync_block_offered"]++
			// (a node two or more blocks behind gets the block after the next one first: it waits in the node's queue and
			// is added right behind the next one)
			if b2, err2 := o.n.BC.GetBlock(o.n.BC.GetHeaderHash(h + 2)); err2 == nil && o.n.BC.BlockHeight() >= h+2 {
				s.enqueueDirect(o.idx, v.idx, "sync", msgBytes(network.CMDBlock, b2))
				s.r.out.Probes["sync_two_blocks_offered"]++
			}
			s.enqueueDirect(o.idx, v.idx, "sync", msgBytes(network.CMDBlock, b))
			break
		}
	}
}

func (s *netSim) restartObserver(i int) {
	if i >= len(s.nodes) {
		return
	}
	v := s.nodes[i]
	if err := v.n.Restart(); err != nil {
		s.r.violate(sim.Violatef("restart-failed", "", "observer %d failed to reopen: %v", i, err))
		return
	}
	v.ext = extpool.New(v.n.BC, 100, nil)
	s.r.out.Faults["observer_restart"]++
	s.r.log.Addf("t=%dms observer %d restarted at height %d", s.now()/time.Millisecond, i, v.n.BC.BlockHeight())
	if s.r.prop == "C17" {
		s.checkDBPath(v)
	}
}

// finalNet: end-of-run oracles.
func (s *netSim) finalNet() {
	r := s.r
	minH, maxH := ^uint32(0), uint32(0)
	for _, v := range s.nodes {
		if v.n.closed {
			continue
		}
		h := v.n.BC.BlockHeight()
		minH, maxH = min(minH, h), max(maxH, h)
	}
	r.out.Probes["blocks_committed"] += int(maxH)
	if maxH > 0 {
		r.out.Probes["runs_with_blocks"]++
	}
	r.log.Addf("end: heights %d..%d puts=%d", minH, maxH, s.puts)
	if s.healed && !s.uncovered {
		// bounded liveness once faults stop: all validators honest, every message delivered within 240 ms from healAt on
		switch {
		case s.healedIn == 0:
			var hs []uint32
			for i := 0; i < s.np.Validators; i++ {
				hs = append(hs, s.nodes[i].n.BC.BlockHeight())
			}
			r.out.Probes["heal_not_recovered"]++
			r.log.Addf("no recovery: heights at heal %v, now %v", s.healHeights, hs)
			// (bounded liveness after faults is C19's statement; C07 and C17 runs of this simulation only measure it)
			if healAssert && r.prop == "C19" {
				// the recorded dBFT 2.0 deadlock: some validators have sent their Commit in a view (commits are never
				// revoked) while the others - having missed the preparations - moved to a higher view before they learnt
				// of those commits; neither group reaches M, further view changes are refused (nc+nf > f) for good
				locked := 0
				for i := 0; i < s.np.Validators; i++ {
					lc := s.nodes[i].n.logs
					lc.mu.Lock()
					if lc.skipN > 0 && lc.skipNC >= 1 {
						locked++
					}
					lc.mu.Unlock()
				}
				sig := "liveness/after-heal"
				same := true
				for i := range hs {
					same = same && hs[i] == s.healHeights[i] && hs[i] == hs[0]
				}
				if locked >= 1 && same {
					sig += "+commits-locked-in-a-lower-view"
				}
				r.violate(sim.Violatef("liveness", sig, "faults stopped at %d ms (validator heights %v); %d ms of fault-free, timely delivery later the heights are %v: not every validator gained two blocks (%d validators keep refusing to change view because they know of committed ones)", s.healAt/time.Millisecond, s.healHeights, s.np.HealMS, hs, locked))
				return
			}
		case s.healedIn <= 5*time.Second:
			r.out.Probes["healed_within_5s"]++
		case s.healedIn <= 20*time.Second:
			r.out.Probes["healed_within_20s"]++
		case s.healedIn <= 60*time.Second:
			r.out.Probes["healed_within_60s"]++
		default:
			r.out.Probes["healed_within_300s"]++
		}
	}
	views := 0
	for k, c := range r.P.LogCounts() {
		_ = k
		views += c * 0
	}
	if s.np.Sync && s.np.CorruptPM == 0 && !s.uncovered {
		// blocks KEEP being produced: no long pause between two heights, nor after the last one
		gap := max(s.maxGap, time.Duration(s.np.DurationMS)*time.Millisecond-s.lastBlockAt)
		// (the block time is a policy value the workload's committee transactions may raise: the bounds follow it)
		bt := time.Duration(max(blockTimeMS, int(s.nodes[0].n.BC.GetMillisecondsPerBlock()))) * time.Millisecond
		switch {
		case bt > blockTimeMS*time.Millisecond && gap <= 8*bt:
			r.out.Probes["sync_block_time_raised"]++
		case gap <= 2*blockTimeMS*time.Millisecond:
			r.out.Probes["sync_max_block_gap_le_2"]++
		case gap <= 4*blockTimeMS*time.Millisecond:
			r.out.Probes["sync_max_block_gap_le_4"]++
		case gap <= 8*blockTimeMS*time.Millisecond:
			r.out.Probes["sync_max_block_gap_le_8"]++
		default:
			r.out.Probes["sync_max_block_gap_gt_8"]++
			if s.lastBlockAt > 0 && gapAssert {
				r.violate(sim.Violatef("liveness", "liveness/gap", "synchronous configuration (no loss, no silence, delays <= %d ms): %d ms passed without a new block (last new height at %d ms, run ends at %d ms, validators rotated at %d ms)", s.np.MaxDelayMS, gap/time.Millisecond, s.lastBlockAt/time.Millisecond, s.np.DurationMS, s.rotatedAt/time.Millisecond))
				return
			}
		}
		// liveness under synchrony (a corrupted message is a lost message: not synchronous): >= 5 blocks within 20 block times on every ledger
		if minH < 5 {
			r.violate(sim.Violatef("liveness", "liveness/blocks", "synchronous configuration (no loss, no silence, delays <= %d ms): after %d ms the slowest ledger is at height %d (fastest %d)", s.np.MaxDelayMS, s.np.DurationMS, minH, maxH))
			return
		}
		// every valid transaction pooled at a majority of validators at time t is on chain by t + 10 block times
		for h, t := range s.goodAt {
			if t+10*blockTimeMS*time.Millisecond > time.Duration(s.np.DurationMS)*time.Millisecond {
				continue
			}
			if _, _, err := s.nodes[0].n.BC.GetTransaction(h); err != nil {
				// it may have become invalid meanwhile (e.g. balance spent): only a still-valid one must be included
				if tx, ok := s.nodes[0].n.BC.GetMemPool().TryGetValue(h); ok && tx != nil {
					r.violate(sim.Violatef("liveness", "liveness/tx", "synchronous configuration: transaction %s pooled by a majority at %d ms is still only in the pool at %d ms", h.StringLE()[:8], t/time.Millisecond, s.np.DurationMS))
					return
				}
			} else {
				r.out.Probes["pending_tx_included"]++
			}
		}
	}
	// no defective transaction ever reached a block or stays in a pool
	for _, v := range s.nodes {
		if v.n.closed {
			continue
		}
		for h, d := range s.defective {
			if _, _, err := v.n.BC.GetTransaction(h); err == nil {
				r.violate(sim.Violatef("c07-invalid-tx-on-chain", "c07-invalid-tx-on-chain/"+d, "node %d knows the generator-invalid transaction (%s) as pooled or on chain", v.idx, d))
				return
			}
		}
	}
	// digests agree across all nodes at the common height
	if minH > 0 && minH != ^uint32(0) {
		var ref *Observation
		for _, v := range s.nodes {
			if v.n.closed || v.n.BC.BlockHeight() != minH {
				continue
			}
			o, err := Observe(v.n, r.w)
			if err != nil {
				r.violate(sim.Violatef("observe-failed", "", "node %d: %v", v.idx, err))
				return
			}
			if ref == nil {
				ref = o
			} else if d := o.Diff(ref); len(d) > 0 {
				r.violate(sim.Violatef("net-divergence", "net-divergence/observation", "nodes at height %d differ in %v", minH, d))
				return
			}
		}
	}
	if r.prop == "C07" {
		s.packFromPools()
	}
	st := uint64(0)
	for x := uint32(1); x <= maxH; x++ {
		st = sim.HashString(st, s.canon[x].StringLE())
	}
	r.out.StateHash = st
}

var _ = bytes.Equal
var _ io.Reader = (*detRand)(nil)
