package ledger

import (
	"bytes"
	"encoding/binary"
	"fmt"
	"sort"
	"strings"

	"github.com/nspcc-dev/neo-go/pkg/core/mpt"
	"github.com/nspcc-dev/neo-go/pkg/core/native/nativehashes"
	"github.com/nspcc-dev/neo-go/pkg/core/transaction"
	"github.com/nspcc-dev/neo-go/pkg/smartcontract/callflag"
	"github.com/nspcc-dev/neo-go/pkg/smartcontract/trigger"
	"github.com/nspcc-dev/neo-go/pkg/util"
	"github.com/nspcc-dev/neo-go/pkg/vm/stackitem"

	"verif/sim"
)

// C03: the harness keeps, per height, the flat contract-storage map taken from
// the producer's live store right after the block (a path independent of the
// trie) and later compares everything readable under that height's state root
// with it.

type flatState struct {
	keys []string          // sorted MPT keys (4-byte LE contract id + storage key)
	kv   map[string][]byte // key -> value
	ids  []int32
	// battery results recorded live at this height
	battery []string
	scripts [][]byte
}

func mptKey(id int32, k []byte) string {
	b := make([]byte, 4+len(k))
	binary.LittleEndian.PutUint32(b, uint32(id))
	copy(b[4:], k)
	return string(b)
}

func (r *run) takeFlat(n *Node) *flatState {
	fs := &flatState{kv: map[string][]byte{}}
	seen := map[int32]bool{}
	for _, c := range n.BC.GetNatives() {
		if !seen[c.ID] {
			seen[c.ID] = true
			fs.ids = append(fs.ids, c.ID)
		}
	}
	for _, id := range r.w.contracts {
		if !seen[id] {
			seen[id] = true
			fs.ids = append(fs.ids, id)
		}
	}
	sort.Slice(fs.ids, func(i, j int) bool { return fs.ids[i] < fs.ids[j] })
	for _, id := range fs.ids {
		n.BC.SeekStorage(id, nil, func(k, v []byte) bool {
			mk := mptKey(id, k)
			fs.kv[mk] = bytes.Clone(v)
			fs.keys = append(fs.keys, mk)
			return true
		})
	}
	sort.Strings(fs.keys)
	return fs
}

// batteryScripts are read-only scripts whose result depends on state only.
func (r *run) batteryScripts() [][]byte {
	var s [][]byte
	for i := 0; i < 3; i++ {
		s = append(s, callScript(nativehashes.GasToken, "balanceOf", r.w.accounts[i]))
		s = append(s, callScript(nativehashes.NeoToken, "balanceOf", r.w.accounts[i]))
	}
	s = append(s, callScript(nativehashes.PolicyContract, "getFeePerByte"))
	s = append(s, callScript(nativehashes.PolicyContract, "getStoragePrice"))
	s = append(s, callScript(nativehashes.PolicyContract, "isBlocked", r.w.accounts[1]))
	s = append(s, callScript(nativehashes.NeoToken, "getCandidates"))
	s = append(s, callScript(nativehashes.NeoToken, "getCommittee"))
	s = append(s, callScript(nativehashes.OracleContract, "getPrice"))
	// (reads contract storage backwards from a start key)
	for _, role := range []int64{4, 8, 16, 32} {
		s = append(s, callScript(nativehashes.RoleManagement, "getDesignatedByRole", role, int64(r.P.BC.BlockHeight())))
		s = append(s, callScript(nativehashes.RoleManagement, "getDesignatedByRole", role, int64(r.P.BC.BlockHeight()/2+1)))
	}
	for i := range r.prod.khash {
		if r.prod.khash[i] != (util.Uint160{}) {
			s = append(s, callScript(r.prod.khash[i], "get", kKeys[0]))
			s = append(s, callScript(r.prod.khash[i], "get", longKey))
			s = append(s, callScript(r.prod.khash[i], "get", kKeys[(int(r.P.BC.BlockHeight())+i)%len(kKeys)]))
			s = append(s, callScript(r.prod.khash[i], "find", []byte{0x01}))
			// (backwards searches under prefixes that are themselves keys and prefixes of other keys)
			s = append(s, callScript(r.prod.khash[i], "findLast", []byte{0x01}))
			s = append(s, callScript(r.prod.khash[i], "findLast", []byte{0x01, 0x02}))
			s = append(s, callScript(r.prod.khash[i], "findLast", []byte{}))
		}
	}
	return s
}

func runScript(n *Node, script []byte, historicNext uint32) string {
	tx := transaction.New(script, 0)
	tx.Signers = []transaction.Signer{{Account: util.Uint160{1}, Scopes: transaction.None}}
	var res string
	if v := sim.Recover(func() {
		var err error
		ic, e := n.BC.GetTestVM(trigger.Application, tx, nil)
		if historicNext != 0 {
			ic, e = n.BC.GetTestHistoricVM(trigger.Application, tx, historicNext)
		}
		if e != nil {
			res = "ERR-VM:" + e.Error()
			return
		}
		defer ic.Finalize()
		ic.VM.SetGasLimit(20_00000000)
		ic.VM.LoadWithFlags(script, callflag.ReadOnly)
		err = ic.VM.Run()
		st := ic.VM.State().String()
		var items []string
		if err == nil {
			for _, it := range ic.VM.Estack().ToArray() {
				items = append(items, fmt.Sprintf("%x", itemBytes(it)))
			}
		}
		res = fmt.Sprintf("%s %v", st, items)
	}); v != nil {
		return "PANIC:" + v.Sig + "\n" + v.Msg
	}
	return res
}

func (r *run) checkC03(n *Node, h uint32) {
	if n == r.P && n.BC.BlockHeight() == h {
		if r.flats == nil {
			r.flats = map[uint32]*flatState{}
		}
		if _, ok := r.flats[h]; !ok {
			fs := r.takeFlat(n)
			fs.scripts = r.batteryScripts()
			for _, sc := range fs.scripts {
				fs.battery = append(fs.battery, runScript(n, sc, 0))
			}
			r.flats[h] = fs
		}
	}
	// tape-chosen verification of some retained height on this node
	if r.tape.Chance(1, 3) {
		r.verifyRoots(n, 1)
	}
}

func (r *run) finalC03(n *Node) {
	if n.closed {
		return
	}
	r.verifyRoots(n, 3)
}

// retained returns the heights whose state node n must still serve.
func (r *run) retained(n *Node) []uint32 {
	cur := n.BC.BlockHeight()
	if n.Local.KeepLatest {
		return []uint32{cur}
	}
	lo := uint32(1)
	if n.Local.RemoveOld {
		back := min(n.BC.GetMaxTraceableBlocks()/2, 4)
		if cur > back {
			lo = cur - back
		}
	}
	var hs []uint32
	for h := lo; h <= cur; h++ {
		hs = append(hs, h)
	}
	return hs
}

func (r *run) verifyRoots(n *Node, count int) {
	hs := r.retained(n)
	for i := 0; i < count && r.fail == nil; i++ {
		h := hs[r.tape.Choose(len(hs))]
		if i == 0 && count > 1 {
			h = hs[len(hs)-1]
		}
		fs := r.flats[h]
		if fs == nil {
			continue
		}
		r.verifyRoot(n, h, fs)
	}
	// a height outside the retention window must fail cleanly or still be right
	if (n.Local.KeepLatest || n.Local.RemoveOld) && n.BC.BlockHeight() > 6 && r.fail == nil {
		h := uint32(1 + r.tape.Choose(int(n.BC.BlockHeight())-5))
		if fs := r.flats[h]; fs != nil && len(fs.keys) > 0 {
			r.probeOldRoot(n, h, fs)
		}
	}
}

func (r *run) verifyRoot(n *Node, h uint32, fs *flatState) {
	sm := n.BC.GetStateModule()
	sr, err := sm.GetStateRoot(h)
	if err != nil {
		r.violate(sim.Violatef("c03-root-missing", "", "%s (%+v): state root of retained height %d (current %d) is not available: %v", n.Name, n.Local, h, n.BC.BlockHeight(), err))
		return
	}
	root := sr.Root
	if ref := r.ref[h]; ref != nil && ref.Detail["stateroot"] != root.StringLE() {
		r.violate(sim.Violatef("c03-root-differs", "", "%s: state root of height %d is %s, producer had %s", n.Name, h, root.StringLE(), ref.Detail["stateroot"]))
		return
	}
	r.out.Probes["c03_roots_verified"]++
	if h != n.BC.BlockHeight() {
		r.out.Probes["c03_old_root_verified"]++
	}
	// (1) full enumeration per contract id through SeekStates, in order
	for _, id := range fs.ids {
		var idb [4]byte
		binary.LittleEndian.PutUint32(idb[:], uint32(id))
		var want []string
		for _, k := range fs.keys {
			if k[:4] == string(idb[:]) {
				want = append(want, k)
			}
		}
		var got []string
		var gotv [][]byte
		if v := sim.Recover(func() {
			sm.SeekStates(root, idb[:], func(k, v []byte) bool {
				got = append(got, string(idb[:])+string(k))
				gotv = append(gotv, bytes.Clone(v))
				return true
			})
		}); v != nil {
			r.violate(v)
			return
		}
		if len(got) != len(want) {
			r.violate(sim.Violatef("c03-enumeration", "c03-enumeration/count", "%s: trie of height %d lists %d items for contract %d, live storage had %d", n.Name, h, len(got), id, len(want)))
			return
		}
		for i := range want {
			if got[i] != want[i] || !bytes.Equal(gotv[i], fs.kv[want[i]]) {
				r.violate(sim.Violatef("c03-enumeration", "c03-enumeration/item", "%s: trie of height %d item %d of contract %d is %x=%x, live storage had %x=%x", n.Name, h, i, id, got[i], gotv[i], want[i], fs.kv[want[i]]))
				return
			}
		}
		// paged FindStates (page size 1-3; prefix = the contract id, or extended by the first byte of a present key)
		// must give the same sequence
		if len(want) > 0 && (id > 0 || r.tape.Chance(1, 2)) {
			page := 1 + r.tape.Choose(3)
			if r.tape.Chance(1, 2) {
				page = 1
			}
			prefix := bytes.Clone(idb[:])
			wantP := want
			if r.tape.Chance(2, 3) {
				// prefixes that end inside a run shared by neighbouring keys (inside an extension node of the trie)
				var cands []string
				for i := 1; i < len(want); i++ {
					a, b := want[i-1], want[i]
					l := 0
					for l < len(a) && l < len(b) && a[l] == b[l] {
						l++
					}
					for j := 5; j <= l; j++ {
						cands = append(cands, a[:j])
					}
				}
				if len(cands) > 0 {
					prefix = []byte(cands[r.tape.Choose(len(cands))])
					wantP = nil
					for _, w := range want {
						if strings.HasPrefix(w, string(prefix)) {
							wantP = append(wantP, w)
						}
					}
					r.out.Probes["c03_paged_find_key_prefix"]++
				}
			}
			if page == 1 && len(wantP) >= 2 && len(wantP[0]) > len(prefix) && strings.HasPrefix(wantP[1], wantP[0]) {
				// the first page ends on a stored key that sits on a branch below the end of the prefix: the next page's
				// start equals the path between the prefix and that branch
				r.out.Probes["c03_paged_find_start_equals_path"]++
			}
			var paged []string
			var start []byte
			for guard := 0; guard < len(wantP)+3; guard++ {
				kvs, err := sm.FindStates(root, prefix, start, page)
				if err != nil {
					break
				}
				if len(kvs) == 0 {
					break
				}
				for _, kv := range kvs {
					paged = append(paged, string(kv.Key))
					if !bytes.Equal(kv.Value, fs.kv[string(kv.Key)]) {
						r.violate(sim.Violatef("c03-find", "c03-find/value", "%s: FindStates at height %d returned %x=%x, live storage had %x", n.Name, h, kv.Key, kv.Value, fs.kv[string(kv.Key)]))
						return
					}
				}
				start = bytes.Clone(kvs[len(kvs)-1].Key[len(prefix):])
				if len(kvs) < page {
					break
				}
			}
			// nil start includes the item equal to the prefix, later pages exclude `start` itself
			if len(paged) != len(wantP) {
				r.violate(sim.Violatef("c03-find", "c03-find/count", "%s: FindStates(prefix %x, page size %d) continued page by page at height %d returned %d items (%x), live storage had %d (%x)", n.Name, prefix, page, h, len(paged), paged, len(wantP), wantP))
				return
			}
			for i := range wantP {
				if paged[i] != wantP[i] {
					r.violate(sim.Violatef("c03-find", "c03-find/order", "%s: paged FindStates(prefix %x, page size %d) at height %d item %d is %x, expected %x", n.Name, prefix, page, h, i, paged[i], wantP[i]))
					return
				}
			}
			r.out.Probes["c03_paged_find"]++
		}
	}
	// (2)+(3) point reads and proofs for a sample of keys, present and absent
	nk := len(fs.keys)
	if nk == 0 {
		return
	}
	for s := 0; s < 4; s++ {
		k := fs.keys[r.tape.Choose(nk)]
		v, err := sm.GetState(root, []byte(k))
		if err != nil || !bytes.Equal(v, fs.kv[k]) {
			r.violate(sim.Violatef("c03-get", "", "%s: GetState(height %d, %x) = %x, %v; live storage had %x", n.Name, h, k, v, err, fs.kv[k]))
			return
		}
		proof, err := sm.GetStateProof(root, []byte(k))
		if err != nil {
			r.violate(sim.Violatef("c03-proof", "c03-proof/missing", "%s: no proof for present key %x at height %d: %v", n.Name, k, h, err))
			return
		}
		pv, ok := mpt.VerifyProof(root, []byte(k), proof)
		if !ok || !bytes.Equal(pv, fs.kv[k]) {
			r.violate(sim.Violatef("c03-proof", "c03-proof/verify", "%s: proof of %x at height %d verifies to %x,%v; stored %x", n.Name, k, h, pv, ok, fs.kv[k]))
			return
		}
		r.out.Probes["c03_proofs_verified"]++
		// tampering: never another value
		other := fs.keys[r.tape.Choose(nk)]
		oproof, _ := sm.GetStateProof(root, []byte(other))
		for _, tp := range tamper(proof, oproof, r.tape) {
			tv, tok := mpt.VerifyProof(root, []byte(k), tp)
			if tok && !bytes.Equal(tv, fs.kv[k]) {
				r.violate(sim.Violatef("c03-proof", "c03-proof/forged", "%s: tampered proof of %x at height %d verifies to %x, stored %x", n.Name, k, h, tv, fs.kv[k]))
				return
			}
			r.out.Probes["c03_tampered_proofs"]++
		}
		// absent neighbours: prefix, extension, last byte changed
		for _, ak := range []string{k[:len(k)-1], k + "\x00", k[:len(k)-1] + string([]byte{k[len(k)-1] ^ 0x01})} {
			if _, present := fs.kv[ak]; present || len(ak) < 4 {
				continue
			}
			if av, err := sm.GetState(root, []byte(ak)); err == nil {
				r.violate(sim.Violatef("c03-get", "c03-get/absent", "%s: GetState(height %d, absent %x) returned %x", n.Name, h, ak, av))
				return
			}
			ap, _ := sm.GetStateProof(root, []byte(ak))
			for _, cand := range [][][]byte{ap, proof} {
				if cand == nil {
					continue
				}
				if av, ok := mpt.VerifyProof(root, []byte(ak), cand); ok {
					r.violate(sim.Violatef("c03-proof", "c03-proof/absent", "%s: a proof verifies for absent key %x at height %d to %x", n.Name, ak, h, av))
					return
				}
			}
			r.out.Probes["c03_absent_keys"]++
		}
	}
	// (5, before the invocations) the same questions through the RPC server's handlers
	if r.tape.Chance(1, 2) {
		r.verifyRootRPC(n, h, root, fs)
		if r.fail != nil {
			return
		}
	}
	// (4) historic invocation on every node that keeps state history: archival nodes, and garbage-collecting
	// nodes for the heights they still retain
	if !n.Local.KeepLatest && h < n.BC.BlockHeight() && len(fs.battery) > 0 {
		scripts := r.batteryScriptsAt(fs)
		for i, sc := range scripts {
			got := runScript(n, sc, h+1)
			if got != fs.battery[i] {
				r.violate(sim.Violatef("c03-historic", "", "%s: historic invocation #%d at height %d gives %s, live node gave %s", n.Name, i, h, clip(got), clip(fs.battery[i])))
				return
			}
		}
		r.out.Probes["c03_historic_invocations"] += len(scripts)
		if n.Local.RemoveOld {
			r.out.Probes["c03_historic_on_gc_node"]++
		}
	}
}

// batteryScriptsAt rebuilds the battery with exactly as many scripts as were recorded.
func (r *run) batteryScriptsAt(fs *flatState) [][]byte {
	return fs.scripts
}

func (r *run) probeOldRoot(n *Node, h uint32, fs *flatState) {
	sm := n.BC.GetStateModule()
	refRoot := r.ref[h]
	if refRoot == nil {
		return
	}
	root, err := util.Uint256DecodeStringLE(refRoot.Detail["stateroot"])
	if err != nil {
		return
	}
	k := fs.keys[r.tape.Choose(len(fs.keys))]
	var v []byte
	if pv := sim.Recover(func() { v, err = sm.GetState(root, []byte(k)) }); pv != nil {
		r.violate(pv)
		return
	}
	if err != nil {
		r.out.Probes["c03_unretained_root_fails_cleanly"]++
		return
	}
	if !bytes.Equal(v, fs.kv[k]) {
		r.violate(sim.Violatef("c03-old-root-wrong-data", "", "%s (%+v): GetState under the unretained root of height %d returned %x for %x, the value at that height was %x", n.Name, n.Local, h, v, k, fs.kv[k]))
		return
	}
	r.out.Probes["c03_unretained_root_still_right"]++
}

// tamper produces tampered variants of a proof.
func tamper(proof, other [][]byte, tape *sim.Tape) [][][]byte {
	var res [][][]byte
	cp := func() [][]byte {
		c := make([][]byte, len(proof))
		for i := range proof {
			c[i] = bytes.Clone(proof[i])
		}
		return c
	}
	if len(proof) == 0 {
		return nil
	}
	// byte flip
	c := cp()
	i := tape.Choose(len(c))
	if len(c[i]) > 0 {
		c[i][tape.Choose(len(c[i]))] ^= byte(1 + tape.Choose(255))
		res = append(res, c)
	}
	// drop
	c = cp()
	i = tape.Choose(len(c))
	res = append(res, append(c[:i], c[i+1:]...))
	// duplicate
	c = cp()
	res = append(res, append(c, c[tape.Choose(len(c))]))
	// reverse
	c = cp()
	for a, b := 0, len(c)-1; a < b; a, b = a+1, b-1 {
		c[a], c[b] = c[b], c[a]
	}
	res = append(res, c)
	// splice the tail of another key's proof
	if len(other) > 0 {
		c = cp()
		cut := tape.Choose(len(c))
		sp := append(c[:cut:cut], other[min(cut, len(other)-1):]...)
		res = append(res, sp)
		// replace the last node (leaf) with the other key's leaf
		c = cp()
		c[len(c)-1] = bytes.Clone(other[len(other)-1])
		res = append(res, c)
	}
	return res
}

var _ = stackitem.Null{}
