package mptsim

import (
	"bytes"
	"encoding/hex"
	"fmt"
	"github.com/nspcc-dev/neo-go/pkg/crypto/hash"
	"strings"

	"github.com/nspcc-dev/neo-go/pkg/core/mpt"
	"github.com/nspcc-dev/neo-go/pkg/core/storage"
	"github.com/nspcc-dev/neo-go/pkg/util"
	"pgregory.net/rapid"

	"verif/sim"
)

// C10: the state trie is a canonical authenticated map.

const (
	opPut = iota
	opDelete
	opBatch
	opFlush
	opCollapse
	opReload
	opFind
	opSeek
	opProof
	opBad
)

var opNames = []string{"put", "delete", "batch", "flush", "collapse", "reload", "find", "seek", "proof", "bad"}

// C10Op is one operation of a C10 run.
type C10Op struct {
	Kind    int    `json:"kind"`
	Key     int    `json:"key,omitempty"`
	Val     int    `json:"val,omitempty"`
	Items   []Item `json:"items,omitempty"`   // batch
	Depth   int    `json:"depth,omitempty"`   // collapse
	How     int    `json:"how,omitempty"`     // reload: 0 same cache layer, 1 persist and re-layer; bad: sub-kind
	Cut     int    `json:"cut,omitempty"`     // find/seek: prefix = first Cut bytes of Keys[Key]
	From    int    `json:"from,omitempty"`    // find/seek: 0 nil, 1 empty, 2 derived from Keys[Key2]
	Key2    int    `json:"key2,omitempty"`    // find/seek start, see From
	Max     int    `json:"max,omitempty"`     // find: maxNum; seek: stop after Max items (0 = never)
	Back    bool   `json:"back,omitempty"`    // seek direction
	Tampers int    `json:"tampers,omitempty"` // proof: number of tampered verifications
}

// C10Plan is a whole C10 run.
type C10Plan struct {
	Mode      int       `json:"mode"` // 0 ModeAll, 1 ModeLatest, 2 ModeGC
	Keys      []string  `json:"keys"` // hex
	Vals      []ValSpec `json:"vals"`
	Ops       []C10Op   `json:"ops"`
	DirtyFind bool      `json:"dirty_find,omitempty"` // allow Find on a trie holding unflushed nodes
	Isolate   bool      `json:"isolate,omitempty"`    // flush and reload after every batch: no node built by PutBatch stays in memory
	Quiet     bool      `json:"quiet,omitempty"`      // write path alone: no Get sweep after the operations, read operations skipped, root check only
	MissAt    int       `json:"miss_at,omitempty"`    // 0: no missing-node fault; n: after min(n, len(ops)) operations
	MissPick  int       `json:"miss_pick,omitempty"`
	Tape      []uint32  `json:"tape,omitempty"`
}

var alphabet = []byte{0x00, 0x01, 0x10, 0x11, 0x1f, 0xf0, 0xff, 0xab}

func drawAlpha(rt *rapid.T, n int) []byte {
	b := make([]byte, n)
	for i := range b {
		b[i] = alphabet[rapid.IntRange(0, len(alphabet)-1).Draw(rt, "ab")]
	}
	return b
}

func drawC10(rt *rapid.T, tier string) *C10Plan {
	p := &C10Plan{}
	p.Mode = rapid.IntRange(0, 2).Draw(rt, "mode")
	maxKeys, maxOps := 14, 30
	if tier == "thorough" {
		maxKeys, maxOps = 24, 70
	}
	nk := rapid.IntRange(2, maxKeys).Draw(rt, "nkeys")
	var keys [][]byte
	for i := 0; i < nk; i++ {
		kind := rapid.IntRange(0, 6).Draw(rt, "kkind")
		var k []byte
		switch {
		case kind == 1 && len(keys) > 0:
			b := keys[rapid.IntRange(0, len(keys)-1).Draw(rt, "kbase")]
			if len(b) > 1 {
				k = append([]byte{}, b[:rapid.IntRange(1, len(b)-1).Draw(rt, "kcut")]...)
			}
		case kind == 2 && len(keys) > 0:
			b := keys[rapid.IntRange(0, len(keys)-1).Draw(rt, "kbase")]
			if len(b)+2 <= mpt.MaxKeyLength {
				k = append(append([]byte{}, b...), drawAlpha(rt, rapid.IntRange(1, 2).Draw(rt, "kext"))...)
			}
		case kind == 3:
			k = append(bytes.Repeat([]byte{0xab}, 20), drawAlpha(rt, rapid.IntRange(1, 2).Draw(rt, "ktail"))...)
		case kind == 4:
			k = append(bytes.Repeat([]byte{0xcd}, mpt.MaxKeyLength-2), drawAlpha(rt, 2)...)
		case kind == 5:
			k = append(bytes.Repeat([]byte{0xcd}, mpt.MaxKeyLength-2), drawAlpha(rt, 1)...)
		case kind == 6:
			k = []byte{0x12, byte(0x30 + rapid.IntRange(0, 3).Draw(rt, "knib"))}
		}
		if k == nil {
			k = drawAlpha(rt, rapid.IntRange(1, 2).Draw(rt, "klen"))
		}
		keys = append(keys, k)
	}
	seen := map[string]bool{}
	var uniq [][]byte
	for _, k := range keys {
		if !seen[string(k)] {
			seen[string(k)] = true
			uniq = append(uniq, k)
			p.Keys = append(p.Keys, hex.EncodeToString(k))
		}
	}
	nkeys := len(uniq)
	nv := rapid.IntRange(2, 5).Draw(rt, "nvals")
	sizes := []int{1, 0, 2, 5, 40, 300}
	for i := 0; i < nv; i++ {
		s := ValSpec{B: byte('a' + rapid.IntRange(0, 1).Draw(rt, "vb"))}
		if rapid.IntRange(0, 59).Draw(rt, "vmax") == 59 {
			s.N = mpt.MaxValueLength
		} else {
			s.N = sizes[rapid.IntRange(0, len(sizes)-1).Draw(rt, "vsize")]
		}
		p.Vals = append(p.Vals, s)
	}
	p.DirtyFind = rapid.IntRange(0, 3).Draw(rt, "dirtyfind") == 3
	p.Quiet = rapid.IntRange(0, 3).Draw(rt, "quiet") == 3
	p.Isolate = rapid.IntRange(0, 1).Draw(rt, "isolate") == 1
	itemGen := rapid.Custom(func(t *rapid.T) Item {
		v := rapid.IntRange(0, nv+1).Draw(t, "iv")
		if v >= nv {
			v = -1
		}
		return Item{Key: rapid.IntRange(0, nkeys-1).Draw(t, "ik"), Val: v}
	})
	opGen := rapid.Custom(func(rt *rapid.T) C10Op {
		o := C10Op{}
		k := rapid.IntRange(0, 21).Draw(rt, "kind")
		switch {
		case k <= 5:
			o.Kind = opPut
		case k <= 8:
			o.Kind = opDelete
		case k <= 11:
			o.Kind = opBatch
		case k == 12:
			o.Kind = opFlush
		case k == 13:
			o.Kind = opCollapse
		case k == 14:
			o.Kind = opReload
		case k <= 16:
			o.Kind = opFind
		case k <= 18:
			o.Kind = opSeek
		case k <= 20:
			o.Kind = opProof
		default:
			o.Kind = opBad
		}
		switch o.Kind {
		case opPut:
			o.Key = rapid.IntRange(0, nkeys-1).Draw(rt, "key")
			o.Val = rapid.IntRange(0, nv-1).Draw(rt, "val")
		case opDelete:
			o.Key = rapid.IntRange(0, nkeys-1).Draw(rt, "key")
		case opBatch:
			o.Items = rapid.SliceOfN(itemGen, 1, 6).Draw(rt, "items")
		case opCollapse:
			o.Depth = rapid.IntRange(0, 4).Draw(rt, "depth")
		case opReload:
			o.How = rapid.IntRange(0, 1).Draw(rt, "how")
		case opFind, opSeek:
			o.Key = rapid.IntRange(0, nkeys-1).Draw(rt, "key")
			o.Cut = rapid.IntRange(0, 3).Draw(rt, "cut")
			if o.Cut == 3 {
				o.Cut = rapid.IntRange(3, mpt.MaxKeyLength).Draw(rt, "cutlong")
			}
			o.From = rapid.IntRange(0, 2).Draw(rt, "from")
			if o.From == 2 {
				o.Key2 = rapid.IntRange(0, nkeys-1).Draw(rt, "key2")
			}
			o.Max = rapid.IntRange(0, 6).Draw(rt, "max")
			if o.Kind == opFind {
				o.Max++ // maxNum <= 0 is a degenerate argument (Find then returns the first pair): not demanded
			}
			if o.Kind == opSeek {
				o.Back = rapid.Bool().Draw(rt, "back")
			}
		case opProof:
			o.Key = rapid.IntRange(0, nkeys-1).Draw(rt, "key")
			o.Tampers = rapid.IntRange(0, 6).Draw(rt, "tampers")
		case opBad:
			o.How = rapid.IntRange(0, 9).Draw(rt, "bad")
		}
		return o
	})
	p.Ops = rapid.SliceOfN(opGen, 1, maxOps).Draw(rt, "ops")
	nops := len(p.Ops)
	if rapid.IntRange(0, 3).Draw(rt, "miss") == 3 {
		p.MissAt = rapid.IntRange(1, nops).Draw(rt, "missat")
		p.MissPick = rapid.IntRange(0, 63).Draw(rt, "misspick")
	}
	p.Tape = drawTape(rt, 60)
	return p
}

type savedProof struct {
	root  util.Uint256
	proof [][]byte
}

type c10 struct {
	p        *C10Plan
	soft     *sim.Violation
	out      *sim.Outcome
	log      *sim.Log
	tape     *sim.Tape
	mode     mpt.TrieMode
	keys     [][]byte
	vals     [][]byte
	bottom   *storage.MemoryStore
	store    *storage.MemCachedStore
	tr       *mpt.Trie
	model    map[string][]byte
	want     util.Uint256 // root of the fresh trie for the current model
	dirty    bool         // nodes changed since the last Flush
	flushIdx uint32
	old      map[int]savedProof
	// batchMem: nodes built by PutBatch may still be in memory; tainted: a read
	// has run while batchMem was set. Violations raised in a tainted run carry
	// the signature suffix "+reads-after-batch" (see REGISTRY_ENTRY.py).
	batchMem bool
	tainted  bool
	seenPfx  bool
	seenEq   bool
	seenMax  bool
	seenEmpV bool
}

func trieMode(m int) mpt.TrieMode {
	switch m {
	case 1:
		return mpt.ModeLatest
	case 2:
		return mpt.ModeGC
	}
	return mpt.ModeAll
}

func runC10(p *C10Plan) *sim.Outcome {
	c := &c10{p: p, out: sim.NewOutcome(), log: sim.NewLog(3000), tape: sim.NewTape(p.Tape), mode: trieMode(p.Mode),
		model: map[string][]byte{}, old: map[int]savedProof{}}
	c.keys = decodeKeys(p.Keys)
	if len(c.keys) == 0 {
		c.keys = [][]byte{{0x01}}
	}
	for _, v := range p.Vals {
		if v.N < 0 || v.N > mpt.MaxValueLength {
			v.N = 1
		}
		c.vals = append(c.vals, v.bytes())
	}
	if len(c.vals) == 0 {
		c.vals = [][]byte{{'a'}}
	}
	c.bottom = storage.NewMemoryStore()
	c.store = storage.NewMemCachedStore(c.bottom)
	c.tr = mpt.NewTrie(nil, c.mode, c.store)
	c.log.Addf("c10 mode=%d keys=%d vals=%d ops=%d dirty_find=%v quiet=%v miss_at=%d", p.Mode, len(c.keys), len(c.vals), len(p.Ops), p.DirtyFind, p.Quiet, p.MissAt)

	v := c.run()
	if v == nil {
		v = c.soft
	}
	if v != nil && c.tainted && v.Class != "harness" {
		// (attribution only: the aliasing defect that made reads after PutBatch dangerous was fixed in be621b0)
		c.out.Probes["violation_in_run_with_reads_after_batch"]++
	}
	c.out.Summary = map[string]any{"prop": "C10", "mode": p.Mode, "keys": len(c.keys), "ops": len(p.Ops), "miss_at": p.MissAt, "dirty_find": p.DirtyFind, "quiet": p.Quiet, "isolate": p.Isolate}
	if c.seenPfx {
		c.out.Probes["prefix_keys_present"]++
	}
	if c.seenEq {
		c.out.Probes["shared_value_nodes"]++
	}
	if c.seenMax {
		c.out.Probes["max_length_key_present"]++
	}
	if c.seenEmpV {
		c.out.Probes["empty_value_present"]++
	}
	c.out.StateHash = sim.HashBytes(0, c.want[:])
	return finish(c.out, c.log, v)
}

func (c *c10) run() *sim.Violation {
	for i, op := range c.p.Ops {
		if c.p.MissAt > 0 && i == c.p.MissAt && !c.p.Quiet {
			return c.missingPhase(i)
		}
		if v := c.step(i, op); v != nil {
			return v
		}
	}
	if c.p.MissAt > 0 && !c.p.Quiet {
		return c.missingPhase(len(c.p.Ops))
	}
	return c.finalSweep(len(c.p.Ops))
}

func (c *c10) key(i int) (int, []byte) {
	if i < 0 {
		i = -i
	}
	i %= len(c.keys)
	return i, c.keys[i]
}

func (c *c10) val(i int) (int, []byte) {
	if i < 0 {
		i = -i
	}
	i %= len(c.vals)
	return i, c.vals[i]
}

// freshRoot builds a fresh ModeAll trie from the model by single sorted puts.
func freshRoot(model map[string][]byte) (root util.Uint256, v *sim.Violation) {
	v = sim.Recover(func() {
		t := mpt.NewTrie(nil, mpt.ModeAll, storage.NewMemCachedStore(storage.NewMemoryStore()))
		for _, k := range sortedKeys(model) {
			if err := t.Put([]byte(k), model[k]); err != nil {
				sim.Harnessf("fresh trie refused %x: %v", k, err)
			}
		}
		root = t.StateRoot()
	})
	return
}

func (c *c10) modelChanged() *sim.Violation {
	var v *sim.Violation
	c.want, v = freshRoot(c.model)
	ks := sortedKeys(c.model)
	vs := map[string]bool{}
	for i, k := range ks {
		if i > 0 && strings.HasPrefix(k, ks[i-1]) {
			c.seenPfx = true
		}
		if len(k) == mpt.MaxKeyLength {
			c.seenMax = true
		}
		val := c.model[k]
		if len(val) == 0 {
			c.seenEmpV = true
		}
		if vs[string(val)] {
			c.seenEq = true
		}
		vs[string(val)] = true
	}
	return v
}

func (c *c10) root() (r util.Uint256, v *sim.Violation) {
	v = sim.Recover(func() { r = c.tr.StateRoot() })
	return
}

// checkRoot compares the root with the root of the fresh trie.
func (c *c10) checkRoot(step int, what string) *sim.Violation {
	r, v := c.root()
	if v != nil {
		return v
	}
	if r != c.want {
		if c.p.Quiet {
			what = "write-only/" + what // no read has touched the trie so far
		}
		return sim.Violatef("root", "root/after-"+what, "step %d (%s): root %s but a fresh trie of the %d model pairs has %s", step, what, short(r), len(c.model), short(c.want))
	}
	return nil
}

// reading marks the run as tainted when a read is about to run on a trie that
// may hold nodes built by PutBatch.
func (c *c10) reading() {
	if c.batchMem {
		c.tainted = true
	}
}

// check compares the root with the fresh-trie root and every universe key's
// Get with the model.
func (c *c10) check(step int, what string) *sim.Violation {
	if v := c.checkRoot(step, what); v != nil {
		return v
	}
	if c.p.Quiet {
		return nil
	}
	c.reading()
	for i, k := range c.keys {
		var got []byte
		var err error
		if v := sim.Recover(func() { got, err = c.tr.Get(k) }); v != nil {
			return v
		}
		want, present := c.model[string(k)]
		switch {
		case present && err != nil:
			return sim.Violatef("get", "get/present-key-fails/after-"+what, "step %d (%s): Get(%s=%x) = %v, model holds %s", step, what, kname(i), k, err, showVal(want))
		case present && !bytes.Equal(got, want):
			return sim.Violatef("get", "get/wrong-value", "step %d (%s): Get(%s=%x) = %s, model holds %s", step, what, kname(i), k, showVal(got), showVal(want))
		case !present && err == nil:
			return sim.Violatef("get", "get/absent-key-found", "step %d (%s): Get(%s=%x) = %s for an absent key", step, what, kname(i), k, showVal(got))
		}
	}
	return nil
}

func (c *c10) flush(step int) *sim.Violation {
	c.flushIdx++
	if v := sim.Recover(func() { c.tr.Flush(c.flushIdx) }); v != nil {
		return v
	}
	c.dirty = false
	c.out.Faults["flush"]++
	// the flushed store alone must hold the whole current trie
	recs, _ := dumpMPT(c.store)
	r, v := c.root()
	if v != nil {
		return v
	}
	w, werr := walk(recs, c.mode.RC(), r)
	if werr != nil {
		return sim.Violatef("store", "store/"+werr.kind, "step %d: after Flush(%d) the stored trie under root %s is not walkable: %s", step, c.flushIdx, short(r), werr.msg)
	}
	if d := sameContents(w.leaves, c.model); d != "" {
		return sim.Violatef("store", "store/contents", "step %d: after Flush(%d) the stored trie differs from the model: %s", step, c.flushIdx, d)
	}
	return nil
}

func (c *c10) ensureFlushed(step int) *sim.Violation {
	if !c.dirty {
		return nil
	}
	return c.flush(step)
}

func (c *c10) reload(step, how int) *sim.Violation {
	if v := c.ensureFlushed(step); v != nil {
		return v
	}
	r, v := c.root()
	if v != nil {
		return v
	}
	if how == 1 {
		if _, err := c.store.PersistSync(); err != nil {
			sim.Harnessf("persist: %v", err)
		}
		c.store = storage.NewMemCachedStore(c.bottom)
	}
	if r.Equals(util.Uint256{}) {
		c.tr = mpt.NewTrie(nil, c.mode, c.store)
	} else {
		c.tr = mpt.NewTrie(mpt.NewHashNode(r), c.mode, c.store)
	}
	c.out.Faults["reload"]++
	c.batchMem = false
	return nil
}

func (c *c10) step(i int, op C10Op) *sim.Violation {
	what := "?"
	if op.Kind >= 0 && op.Kind < len(opNames) {
		what = opNames[op.Kind]
	}
	if c.p.Quiet && (op.Kind == opFind || op.Kind == opSeek || op.Kind == opProof) {
		return nil // write path only: reads replace hash nodes and walk the in-memory nodes
	}
	switch op.Kind {
	case opPut:
		ki, k := c.key(op.Key)
		vi, val := c.val(op.Val)
		var err error
		if v := sim.Recover(func() { err = c.tr.Put(k, val) }); v != nil {
			return v
		}
		c.log.Addf("%d put %s=%x v%d(%d) -> %v", i, kname(ki), k, vi, len(val), err)
		if err != nil {
			return sim.Violatef("put", "put/valid-refused", "step %d: Put(%x, %d bytes) refused: %v", i, k, len(val), err)
		}
		old, had := c.model[string(k)]
		switch {
		case !had:
			c.out.Probes["put_new"]++
		case bytes.Equal(old, val):
			c.out.Probes["put_same_value"]++
		default:
			c.out.Probes["put_overwrite"]++
		}
		c.model[string(k)] = val
		c.dirty = true
		if v := c.modelChanged(); v != nil {
			return v
		}
	case opDelete:
		ki, k := c.key(op.Key)
		var err error
		if v := sim.Recover(func() { err = c.tr.Delete(k) }); v != nil {
			return v
		}
		c.log.Addf("%d delete %s=%x -> %v", i, kname(ki), k, err)
		if err != nil {
			return sim.Violatef("delete", "delete/refused", "step %d: Delete(%x) failed: %v", i, k, err)
		}
		if _, had := c.model[string(k)]; had {
			c.out.Probes["delete_present"]++
		} else {
			c.out.Probes["delete_absent"]++
		}
		delete(c.model, string(k))
		c.dirty = true
		if v := c.modelChanged(); v != nil {
			return v
		}
	case opBatch:
		m := map[string][]byte{}
		var desc []string
		for _, it := range op.Items {
			ki, k := c.key(it.Key)
			sk := string(append([]byte{byte(storage.STStorage)}, k...))
			if it.Val < 0 {
				m[sk] = nil
				desc = append(desc, kname(ki)+"=del")
			} else {
				vi, val := c.val(it.Val)
				m[sk] = val
				desc = append(desc, fmt.Sprintf("%s=v%d", kname(ki), vi))
			}
		}
		dels, delAbsent, over := 0, 0, 0
		for sk, val := range m {
			_, had := c.model[sk[1:]]
			switch {
			case val == nil && had:
				dels++
			case val == nil:
				dels++
				delAbsent++
			case had:
				over++
			}
		}
		var n int
		var err error
		if v := sim.Recover(func() { n, err = c.tr.PutBatch(mpt.MapToMPTBatch(m)) }); v != nil {
			return v
		}
		c.log.Addf("%d batch [%s] -> %d %v", i, strings.Join(desc, " "), n, err)
		if err != nil || n != len(m) {
			return sim.Violatef("batch", "batch/refused", "step %d: PutBatch of %d valid items returned (%d, %v)", i, len(m), n, err)
		}
		c.out.Probes["batch"]++
		if dels > 0 {
			c.out.Probes["batch_with_deletes"]++
		}
		if delAbsent > 0 {
			c.out.Probes["batch_delete_absent"]++
		}
		if over > 0 {
			c.out.Probes["batch_overwrite"]++
		}
		for sk, val := range m {
			if val == nil {
				delete(c.model, sk[1:])
			} else {
				c.model[sk[1:]] = val
			}
		}
		c.dirty = true
		c.batchMem = true
		if v := c.modelChanged(); v != nil {
			return v
		}
		if c.p.Isolate {
			if v := c.checkRoot(i, what); v != nil {
				return v
			}
			if v := c.reload(i, 0); v != nil {
				return v
			}
			c.log.Addf("%d   isolate: flush(%d) + reload", i, c.flushIdx)
		}
	case opFlush:
		if v := c.flush(i); v != nil {
			return v
		}
		c.log.Addf("%d flush(%d)", i, c.flushIdx)
	case opCollapse:
		if v := c.ensureFlushed(i); v != nil {
			return v
		}
		d := op.Depth
		if d < 0 {
			d = 0
		}
		if v := sim.Recover(func() { c.tr.Collapse(d) }); v != nil {
			return v
		}
		c.out.Faults["collapse"]++
		if d == 0 {
			c.batchMem = false
		}
		c.log.Addf("%d collapse(%d)", i, d)
	case opReload:
		if v := c.reload(i, op.How); v != nil {
			return v
		}
		c.log.Addf("%d reload how=%d", i, op.How)
	case opFind:
		if v := c.find(i, op); v != nil {
			return v
		}
	case opSeek:
		if v := c.seek(i, op); v != nil {
			return v
		}
	case opProof:
		if v := c.proof(i, op); v != nil {
			return v
		}
	case opBad:
		if v := c.bad(i, op.How); v != nil {
			return v
		}
	default:
		return nil
	}
	return c.check(i, what)
}

// rangeArgs derives prefix and start/from for find and seek.
func (c *c10) rangeArgs(op C10Op) (prefix, from []byte) {
	_, k := c.key(op.Key)
	cut := op.Cut
	if cut < 0 {
		cut = 0
	}
	if cut > len(k) {
		cut = len(k)
	}
	prefix = append([]byte{}, k[:cut]...)
	switch op.From {
	case 1:
		from = []byte{}
	case 2:
		_, k2 := c.key(op.Key2)
		if len(k2) > cut {
			from = append([]byte{}, k2[cut:]...)
		} else {
			from = append([]byte{}, k2...)
		}
		if len(from) > mpt.MaxKeyLength-len(prefix) {
			from = from[:mpt.MaxKeyLength-len(prefix)]
		}
	}
	return
}

type kv struct{ k, v []byte }

func (c *c10) withPrefix(prefix []byte) []kv {
	var r []kv
	for _, k := range sortedKeys(c.model) {
		if bytes.HasPrefix([]byte(k), prefix) {
			r = append(r, kv{[]byte(k), c.model[k]})
		}
	}
	return r
}

// modelFind: pairs whose key has the prefix, strictly after prefix||from when
// from is non-nil, at most max of them.
func (c *c10) modelFind(prefix, from []byte, max int) []kv {
	var r []kv
	for _, e := range c.withPrefix(prefix) {
		if len(r) >= max {
			break
		}
		if from != nil && bytes.Compare(e.k[len(prefix):], from) <= 0 {
			continue
		}
		r = append(r, e)
	}
	return r
}

// modelSeek: storage.SeekRange semantics over the model.
func (c *c10) modelSeek(prefix, start []byte, back bool, stop int) []kv {
	all := c.withPrefix(prefix)
	var r []kv
	if !back {
		for _, e := range all {
			if len(start) > 0 && bytes.Compare(e.k[len(prefix):], start) < 0 {
				continue
			}
			r = append(r, e)
		}
	} else {
		for i := len(all) - 1; i >= 0; i-- {
			e := all[i]
			if len(start) > 0 && bytes.Compare(e.k[len(prefix):], start) > 0 {
				continue
			}
			r = append(r, e)
		}
	}
	if stop > 0 && len(r) > stop {
		r = r[:stop]
	}
	return r
}

func diffKV(got, want []kv) string {
	for i := 0; i < len(got) || i < len(want); i++ {
		switch {
		case i >= len(got):
			return fmt.Sprintf("item %d missing: model has %x=%s (got %d items, model %d)", i, want[i].k, showVal(want[i].v), len(got), len(want))
		case i >= len(want):
			return fmt.Sprintf("item %d extra: %x=%s (got %d items, model %d)", i, got[i].k, showVal(got[i].v), len(got), len(want))
		case !bytes.Equal(got[i].k, want[i].k):
			return fmt.Sprintf("item %d is key %x, model has %x", i, got[i].k, want[i].k)
		case !bytes.Equal(got[i].v, want[i].v):
			return fmt.Sprintf("item %d key %x value %s, model %s", i, got[i].k, showVal(got[i].v), showVal(want[i].v))
		}
	}
	return ""
}

func fromName(from []byte) string {
	if from == nil {
		return "nil"
	}
	return fmt.Sprintf("%x", from)
}

func (c *c10) doFind(prefix, from []byte, max int) (res []kv, err error, v *sim.Violation) {
	var raw []storage.KeyValue
	v = sim.Recover(func() { raw, err = c.tr.Find(prefix, from, max) })
	for _, e := range raw {
		res = append(res, kv{e.Key, e.Value})
	}
	return
}

func (c *c10) find(i int, op C10Op) *sim.Violation {
	if c.dirty {
		if !c.p.DirtyFind {
			if v := c.ensureFlushed(i); v != nil {
				return v
			}
		} else {
			c.out.Probes["find_on_unflushed_trie"]++
		}
	}
	c.reading()
	prefix, from := c.rangeArgs(op)
	if op.Max < 1 {
		op.Max = 1
	}
	want := c.modelFind(prefix, from, op.Max)
	got, err, v := c.doFind(prefix, from, op.Max)
	if v != nil {
		return v
	}
	c.log.Addf("%d find prefix=%x from=%s max=%d -> %d items err=%v", i, prefix, fromName(from), op.Max, len(got), err)
	if err != nil {
		if len(want) != 0 {
			return sim.Violatef("find", "find/error", "step %d: Find(%x, %s, %d) failed with %v, model has %d matching pairs", i, prefix, fromName(from), op.Max, err, len(want))
		}
		c.out.Probes["find_not_found"]++
		return nil
	}
	if d := diffKV(got, want); d != "" {
		return sim.Violatef("find", "find/mismatch", "step %d: Find(%x, %s, %d): %s", i, prefix, fromName(from), op.Max, d)
	}
	c.out.Probes["find_ok"]++
	if c.dirty {
		// Find ran on a trie holding unflushed nodes: every present key must still be readable
		for ki, k := range c.keys {
			if want, present := c.model[string(k)]; present {
				var got []byte
				var err error
				if v := sim.Recover(func() { got, err = c.tr.Get(k) }); v != nil {
					return v
				}
				if err != nil || !bytes.Equal(got, want) {
					return sim.Violatef("find-unflushed", "find-unflushed/present-key-lost", "step %d: after Find(%x, %s, %d) on a trie with unflushed nodes Get(%s=%x) = (%s, %v), model holds %s", i, prefix, fromName(from), op.Max, kname(ki), k, showVal(got), err, showVal(want))
				}
			}
		}
	}
	if from != nil && len(want) > 0 {
		c.out.Probes["find_from_nonempty_result"]++
	}
	return nil
}

// doSeek runs TrieStore.Seek over the flushed store; panicMsg is set when the
// call panicked.
func (c *c10) doSeek(prefix, start []byte, back bool, stop int) (res []kv, panicMsg string, v *sim.Violation) {
	r, v := c.root()
	if v != nil {
		return nil, "", v
	}
	pv := sim.Recover(func() {
		ts := mpt.NewTrieStore(r, c.mode, c.store)
		rng := storage.SeekRange{Prefix: append([]byte{byte(storage.STStorage)}, prefix...), Start: start, Backwards: back}
		ts.Seek(rng, func(k, val []byte) bool {
			res = append(res, kv{bytes.Clone(k[1:]), bytes.Clone(val)})
			return !(stop > 0 && len(res) >= stop)
		})
	})
	if pv != nil {
		return res, pv.Msg, nil
	}
	return res, "", nil
}

func (c *c10) seek(i int, op C10Op) *sim.Violation {
	if v := c.ensureFlushed(i); v != nil {
		return v
	}
	prefix, start := c.rangeArgs(op)
	want := c.modelSeek(prefix, start, op.Back, op.Max)
	got, pmsg, v := c.doSeek(prefix, start, op.Back, op.Max)
	if v != nil {
		return v
	}
	c.log.Addf("%d seek prefix=%x start=%s back=%v stop=%d -> %d items panic=%v", i, prefix, fromName(start), op.Back, op.Max, len(got), pmsg != "")
	if pmsg != "" {
		return sim.Violatef("panic", "panic@TrieStore.Seek", "step %d: Seek(%x, %s, back=%v) panicked on an intact store: %s", i, prefix, fromName(start), op.Back, firstLine(pmsg))
	}
	if d := diffKV(got, want); d != "" {
		dir := "forward"
		if op.Back {
			dir = "backward"
		}
		if len(start) > 0 {
			dir += "/start"
			full := append(append([]byte{}, prefix...), start...)
			for _, e := range want {
				if op.Back && len(e.k) < len(full) && bytes.HasPrefix(full, e.k) {
					found := false
					for _, g := range got {
						found = found || bytes.Equal(g.k, e.k)
					}
					if !found {
						dir += "/prefix-of-start-missed"
						break
					}
				}
			}
		} else {
			dir += "/nostart"
		}
		sv := sim.Violatef("seek", "seek/mismatch/"+dir, "step %d: Seek(prefix=%x, start=%s, %s, stop=%d): %s", i, prefix, fromName(start), dir, op.Max, d)
		return sv
	}
	if op.Back {
		c.out.Probes["seek_backward"]++
	} else {
		c.out.Probes["seek_forward"]++
	}
	if len(start) > 0 && len(want) > 0 {
		c.out.Probes["seek_start_nonempty_result"]++
	}
	return nil
}

func firstLine(s string) string {
	if i := strings.IndexByte(s, '\n'); i >= 0 {
		return s[:i]
	}
	return s
}

func cloneProof(p [][]byte) [][]byte {
	r := make([][]byte, len(p))
	for i := range p {
		r[i] = bytes.Clone(p[i])
	}
	return r
}

// tamper builds one tampered node list from the key's own proof, another
// key's proof under the same root and a proof taken under an earlier root.
func (c *c10) tamper(own, other, old [][]byte) ([][]byte, string) {
	pick := func(p [][]byte) int { return c.tape.Choose(len(p)) }
	kind := c.tape.Choose(11)
	base := own
	if len(base) == 0 {
		base = other
	}
	if len(base) == 0 {
		base = old
	}
	if len(base) == 0 {
		return [][]byte{{byte(c.tape.Choose(5))}}, "garbage-node"
	}
	m := cloneProof(base)
	switch kind {
	case 0:
		i := pick(m)
		if len(m[i]) == 0 {
			return m, "flip-empty"
		}
		j := c.tape.Choose(len(m[i]))
		m[i][j] ^= 1 << uint(c.tape.Choose(8))
		return m, fmt.Sprintf("flip node %d byte %d", i, j)
	case 1:
		i := pick(m)
		return append(m[:i], m[i+1:]...), fmt.Sprintf("drop node %d", i)
	case 2:
		i := pick(m)
		return append(m, bytes.Clone(m[i])), fmt.Sprintf("duplicate node %d", i)
	case 3:
		for a, b := 0, len(m)-1; a < b; a, b = a+1, b-1 {
			m[a], m[b] = m[b], m[a]
		}
		return m, "reverse order"
	case 4:
		if len(other) == 0 {
			return m[:len(m)-1], "drop last"
		}
		i, j := pick(m), pick(other)
		m[i] = bytes.Clone(other[j])
		return m, fmt.Sprintf("node %d replaced by node %d of another key's proof", i, j)
	case 5:
		return append(m, cloneProof(other)...), "own + another key's proof"
	case 6:
		if len(old) == 0 {
			return m[1:], "drop first"
		}
		i, j := pick(m), pick(old)
		m[i] = bytes.Clone(old[j])
		return m, fmt.Sprintf("node %d replaced by node %d of a proof under an earlier root", i, j)
	case 7:
		return cloneProof(old), "proof taken under an earlier root"
	case 8:
		return cloneProof(other), "another key's proof"
	case 9:
		i := pick(m)
		if c.tape.Choose(2) == 0 && len(m[i]) > 0 {
			m[i] = m[i][:len(m[i])-1]
			return m, fmt.Sprintf("truncate node %d", i)
		}
		m[i] = append(m[i], 0)
		return m, fmt.Sprintf("extend node %d", i)
	default:
		return append(m, cloneProof(old)...), "own + proof under an earlier root"
	}
}

func (c *c10) proof(i int, op C10Op) *sim.Violation {
	c.reading()
	ki, k := c.key(op.Key)
	want, present := c.model[string(k)]
	r, v := c.root()
	if v != nil {
		return v
	}
	var proof [][]byte
	var err error
	if v := sim.Recover(func() { proof, err = c.tr.GetProof(k) }); v != nil {
		return v
	}
	var val []byte
	var ok bool
	if v := sim.Recover(func() { val, ok = mpt.VerifyProof(r, k, proof) }); v != nil {
		return v
	}
	c.log.Addf("%d proof %s=%x present=%v -> %d nodes err=%v verify=%v", i, kname(ki), k, present, len(proof), err, ok)
	if present {
		if err != nil {
			return sim.Violatef("proof-complete", "proof-complete/getproof-fails", "step %d: GetProof(%x) of a present key failed: %v", i, k, err)
		}
		if !ok || !bytes.Equal(val, want) {
			return sim.Violatef("proof-complete", "proof-complete/verify", "step %d: proof of present key %x verifies to (%s, %v), stored %s", i, k, showVal(val), ok, showVal(want))
		}
		c.out.Probes["proof_present_ok"]++
	} else {
		if err == nil {
			return sim.Violatef("proof-sound", "proof-sound/getproof-absent", "step %d: GetProof(%x) of an absent key succeeded with %d nodes", i, k, len(proof))
		}
		if ok {
			return sim.Violatef("proof-sound", "proof-sound/absent-verifies", "step %d: the partial proof of absent key %x verifies to %s", i, k, showVal(val))
		}
		c.out.Probes["proof_absent_rejected"]++
	}
	// material for tampering
	var other [][]byte
	var present2 []int
	for j, k2 := range c.keys {
		if _, ok := c.model[string(k2)]; ok && j != ki {
			present2 = append(present2, j)
		}
	}
	if len(present2) > 0 && op.Tampers > 0 {
		j := present2[c.tape.Choose(len(present2))]
		if v := sim.Recover(func() { other, _ = c.tr.GetProof(c.keys[j]) }); v != nil {
			return v
		}
	}
	var old [][]byte
	if sp, ok := c.old[ki]; ok && sp.root != r {
		old = sp.proof
		c.out.Probes["proof_under_earlier_root_available"]++
	} else {
		// any other key's old proof
		var cand []int
		for j := range c.keys {
			if sp, ok := c.old[j]; ok && sp.root != r {
				cand = append(cand, j)
			}
		}
		if len(cand) > 0 && op.Tampers > 0 {
			old = c.old[cand[c.tape.Choose(len(cand))]].proof
		}
	}
	for n := 0; n < op.Tampers; n++ {
		m, desc := c.tamper(proof, other, old)
		var tv []byte
		var tok bool
		if v := sim.Recover(func() { tv, tok = mpt.VerifyProof(r, k, m) }); v != nil {
			v.Msg = fmt.Sprintf("step %d: VerifyProof panicked on tampered proof (%s): %s", i, desc, v.Msg)
			return v
		}
		c.out.Faults["tampered_proofs"]++
		c.log.Addf("%d   tamper %q -> %v", i, desc, tok)
		if tok {
			c.out.Probes["tampered_still_verifies_same_value"]++
			if !present {
				return sim.Violatef("proof-sound", "proof-sound/absent-verifies", "step %d: tampered proof (%s) makes absent key %x verify to %s", i, desc, k, showVal(tv))
			}
			if !bytes.Equal(tv, want) {
				return sim.Violatef("proof-sound", "proof-sound/other-value", "step %d: tampered proof (%s) makes key %x verify to %s, stored %s", i, desc, k, showVal(tv), showVal(want))
			}
		} else {
			c.out.Probes["tampered_rejected"]++
		}
	}
	// a verifier that is handed the root together with the proof (the verifyproof RPC method): the prover controls both.
	// Elements that decode as nodes a database never holds - a hash node, the empty node - under the root they hash to:
	// no value may come out, and the call has to return
	if op.Tampers > 0 && c.tape.Chance(1, 4) {
		forged := [][]byte{append([]byte{0x03}, r[:]...), {0x04}}
		if len(proof) > 0 {
			forged = append(forged, append([]byte{0x03}, hash.DoubleSha256(proof[0]).BytesBE()...))
		}
		for _, e := range forged {
			fr := hash.DoubleSha256(e)
			var tv []byte
			var tok bool
			if v := sim.Recover(func() { tv, tok = mpt.VerifyProof(fr, k, [][]byte{e}) }); v != nil {
				v.Msg = fmt.Sprintf("step %d: VerifyProof panicked on a proof whose only element %x is not a node a database holds (root = its hash): %s", i, e[:1], v.Msg)
				return v
			}
			if tok {
				return sim.Violatef("proof-sound", "proof-sound/forged-root", "step %d: a one-element proof %x... verifies key %x to %s under the root it hashes to", i, e[:1], k, showVal(tv))
			}
			c.out.Probes["forged_root_proof_rejected"]++
		}
	}
	if present {
		c.old[ki] = savedProof{root: r, proof: cloneProof(proof)}
	}
	return nil
}

// bad performs an operation that must fail (or be a no-op); the generic check
// that follows verifies that nothing changed.
func (c *c10) bad(i, how int) *sim.Violation {
	long := bytes.Repeat([]byte{0xcd}, mpt.MaxKeyLength+1)
	_, k := c.key(c.tape.Choose(len(c.keys)))
	var err error
	name := ""
	mustFail := true
	v := sim.Recover(func() {
		switch how {
		case 0:
			name = "put too-long key"
			err = c.tr.Put(long, []byte{1})
		case 1:
			name = "put empty key"
			err = c.tr.Put([]byte{}, []byte{1})
		case 2:
			name = "put nil value"
			err = c.tr.Put(k, nil)
		case 3:
			name = "put too-long value"
			err = c.tr.Put(k, make([]byte, mpt.MaxValueLength+1))
		case 4:
			name = "delete too-long key"
			err = c.tr.Delete(long)
		case 5:
			name = "get too-long key"
			_, err = c.tr.Get(long)
		case 6:
			name = "getproof too-long key"
			_, err = c.tr.GetProof(long)
		case 7:
			name = "find too-long prefix"
			_, err = c.tr.Find(long, nil, 1)
		case 8:
			name = "find too-long from"
			_, err = c.tr.Find(k, bytes.Repeat([]byte{1}, mpt.MaxKeyLength), 1)
		default:
			name = "delete empty key"
			mustFail = false
			err = c.tr.Delete([]byte{})
		}
	})
	if v != nil {
		return v
	}
	c.log.Addf("%d bad %q -> %v", i, name, err)
	if mustFail && err == nil {
		return sim.Violatef("bad-op", "bad-op/accepted", "step %d: %s was accepted", i, name)
	}
	c.out.Probes["failed_operation"]++
	return nil
}

// finalSweep: flush, then compare the complete enumeration, every proof and
// both seek directions with the model.
func (c *c10) finalSweep(step int) *sim.Violation {
	if v := c.ensureFlushed(step); v != nil {
		return v
	}
	if c.p.Quiet {
		// write path only: root and the independent walk of the flushed store (done by flush)
		if c.flushIdx == 0 || c.dirty {
			if v := c.flush(step); v != nil {
				return v
			}
		}
		return c.check(step, "final-write-only")
	}
	if v := c.check(step, "final"); v != nil {
		return v
	}
	c.reading()
	all := c.withPrefix(nil)
	got, err, v := c.doFind([]byte{}, nil, len(all)+1)
	if v != nil {
		return v
	}
	if err != nil && len(all) > 0 {
		return sim.Violatef("find", "find/error", "final: Find(all) failed: %v, model has %d pairs", err, len(all))
	}
	if d := diffKV(got, all); d != "" {
		return sim.Violatef("find", "find/mismatch", "final: Find(all): %s", d)
	}
	for _, back := range []bool{false, true} {
		got, pmsg, v := c.doSeek(nil, nil, back, 0)
		if v != nil {
			return v
		}
		if pmsg != "" {
			return sim.Violatef("panic", "panic@TrieStore.Seek", "final: Seek(all, back=%v) panicked: %s", back, firstLine(pmsg))
		}
		if d := diffKV(got, c.modelSeek(nil, nil, back, 0)); d != "" {
			return sim.Violatef("seek", "seek/mismatch/all", "final: Seek(all, back=%v): %s", back, d)
		}
	}
	r, v := c.root()
	if v != nil {
		return v
	}
	for _, e := range all {
		var proof [][]byte
		var err error
		var val []byte
		var ok bool
		if v := sim.Recover(func() {
			proof, err = c.tr.GetProof(e.k)
			if err == nil {
				val, ok = mpt.VerifyProof(r, e.k, proof)
			}
		}); v != nil {
			return v
		}
		if err != nil || !ok || !bytes.Equal(val, e.v) {
			return sim.Violatef("proof-complete", "proof-complete/verify", "final: proof of %x: err=%v verify=(%s,%v) stored %s", e.k, err, showVal(val), ok, showVal(e.v))
		}
	}
	c.log.Addf("final sweep: %d pairs root=%s", len(all), short(r))
	return nil
}

// missingPhase deletes one node record of the current trie from the store
// and then only reads (plus one last mutation): every answer must be either
// an error or the model's answer.
func (c *c10) missingPhase(step int) *sim.Violation {
	if v := c.ensureFlushed(step); v != nil {
		return v
	}
	r, v := c.root()
	if v != nil {
		return v
	}
	recs, _ := dumpMPT(c.store)
	w, werr := walk(recs, c.mode.RC(), r)
	if werr != nil {
		return sim.Violatef("store", "store/"+werr.kind, "step %d: the flushed trie is not walkable: %s", step, werr.msg)
	}
	if len(w.order) == 0 {
		c.out.Probes["missing_node_on_empty_trie"]++
		return c.finalSweep(step)
	}
	pick := c.p.MissPick
	if pick < 0 {
		pick = -pick
	}
	victim := w.order[pick%len(w.order)]
	c.store.Delete(append([]byte{byte(storage.DataMPT)}, victim[:]...))
	c.out.Faults["missing_node"]++
	how := c.tape.Choose(3)
	switch how {
	case 0: // everything comes from the store again
		c.batchMem = false
		if r.Equals(util.Uint256{}) {
			c.tr = mpt.NewTrie(nil, c.mode, c.store)
		} else {
			c.tr = mpt.NewTrie(mpt.NewHashNode(r), c.mode, c.store)
		}
	case 1:
		if v := sim.Recover(func() { c.tr.Collapse(1) }); v != nil {
			return v
		}
	}
	c.reading()
	c.log.Addf("%d missing-node %s (position %d of %d) then how=%d", step, short(victim), pick%len(w.order), len(w.order), how)

	errs := 0
	for i, k := range c.keys {
		want, present := c.model[string(k)]
		var got []byte
		var err error
		if v := sim.Recover(func() { got, err = c.tr.Get(k) }); v != nil {
			v.Msg = fmt.Sprintf("Get(%x) with a node record missing: %s", k, v.Msg)
			return v
		}
		if err == nil && (!present || !bytes.Equal(got, want)) {
			return sim.Violatef("missing-node", "missing-node/get-wrong-value", "with node %s missing Get(%s=%x) = %s, model %s present=%v", short(victim), kname(i), k, showVal(got), showVal(want), present)
		}
		if err != nil && present {
			errs++
		}
		var proof [][]byte
		if v := sim.Recover(func() { proof, err = c.tr.GetProof(k) }); v != nil {
			v.Msg = fmt.Sprintf("GetProof(%x) with a node record missing: %s", k, v.Msg)
			return v
		}
		if err == nil {
			val, ok := mpt.VerifyProof(r, k, proof)
			if !present || !ok || !bytes.Equal(val, want) {
				return sim.Violatef("missing-node", "missing-node/proof-wrong", "with node %s missing GetProof(%x) succeeded and verifies to (%s,%v), model %s present=%v", short(victim), k, showVal(val), ok, showVal(want), present)
			}
		} else if present {
			errs++
		}
	}
	if errs > 0 {
		c.out.Probes["missing_node_read_error"]++
	} else {
		c.out.Probes["missing_node_masked"]++
	}
	// range reads: whole trie and the prefixes of two tape-chosen keys
	prefixes := [][]byte{{}}
	for n := 0; n < 2; n++ {
		_, k := c.key(c.tape.Choose(len(c.keys)))
		prefixes = append(prefixes, k[:1])
	}
	for _, pfx := range prefixes {
		want := c.modelFind(pfx, nil, len(c.model)+1)
		got, err, v := c.doFind(pfx, nil, len(c.model)+1)
		if v != nil {
			v.Msg = fmt.Sprintf("Find(%x) with a node record missing: %s", pfx, v.Msg)
			return v
		}
		if err == nil {
			if d := diffKV(got, want); d != "" {
				return sim.Violatef("missing-node", "missing-node/find-wrong", "with node %s missing Find(%x) succeeded but %s", short(victim), pfx, d)
			}
		} else {
			c.out.Probes["missing_node_find_error"]++
		}
		for _, back := range []bool{false, true} {
			want := c.modelSeek(pfx, nil, back, 0)
			got, pmsg, v := c.doSeek(pfx, nil, back, 0)
			if v != nil {
				return v
			}
			if pmsg != "" {
				if !strings.Contains(pmsg, "failed to perform Seek operation on TrieStore") {
					return sim.Violatef("panic", "panic@TrieStore.Seek/other", "with node %s missing Seek(%x) panicked: %s", short(victim), pfx, firstLine(pmsg))
				}
				// TrieStore.Seek has no error result: this panic is its failure channel.
				c.out.Probes["missing_node_seek_panics_with_error"]++
			}
			// whatever was delivered must be an in-order part of the model's answer
			j := 0
			for _, e := range got {
				for j < len(want) && !bytes.Equal(want[j].k, e.k) {
					j++
				}
				if j == len(want) || !bytes.Equal(want[j].v, e.v) {
					return sim.Violatef("missing-node", "missing-node/seek-wrong", "with node %s missing Seek(%x, back=%v) delivered %x=%s which is not the model's next pair", short(victim), pfx, back, e.k, showVal(e.v))
				}
				j++
			}
			if pmsg == "" && len(got) < len(want) {
				c.out.Probes["missing_node_seek_silently_short"]++
			}
		}
	}
	// one last mutation: no panic; success must give the canonical root
	_, k := c.key(c.tape.Choose(len(c.keys)))
	_, val := c.val(c.tape.Choose(len(c.vals)))
	mk := c.tape.Choose(3)
	var err error
	before := r
	if v := sim.Recover(func() {
		switch mk {
		case 0:
			err = c.tr.Put(k, val)
		case 1:
			err = c.tr.Delete(k)
		default:
			_, err = c.tr.PutBatch(mpt.MapToMPTBatch(map[string][]byte{string(append([]byte{byte(storage.STStorage)}, k...)): val}))
		}
	}); v != nil {
		v.Msg = fmt.Sprintf("mutation %d of %x with a node record missing: %s", mk, k, v.Msg)
		return v
	}
	c.log.Addf("%d   mutation %d on %x -> %v", step, mk, k, err)
	after, v := c.root()
	if v != nil {
		return v
	}
	if err == nil {
		if mk == 1 {
			delete(c.model, string(k))
		} else {
			c.model[string(k)] = val
		}
		if v := c.modelChanged(); v != nil {
			return v
		}
		if after != c.want {
			return sim.Violatef("missing-node", "missing-node/mutation-root", "with node %s missing mutation %d of %x succeeded but root %s != fresh %s", short(victim), mk, k, short(after), short(c.want))
		}
		c.out.Probes["missing_node_mutation_ok"]++
	} else {
		c.out.Probes["missing_node_mutation_error"]++
		if after != before {
			c.out.Probes["missing_node_failed_mutation_changed_root"]++
		}
	}
	return nil
}
