package mptsim

import (
	"bytes"
	"encoding/binary"
	"errors"
	"fmt"
	"sort"

	"github.com/nspcc-dev/neo-go/pkg/core/storage"
	"github.com/nspcc-dev/neo-go/pkg/crypto/hash"
	"github.com/nspcc-dev/neo-go/pkg/util"
)

// This file is the harness-side reading of the on-disk trie format. It does
// not use package mpt: node records are decoded by hand, so the reachability
// oracle of C11 (and the node listing used by the missing-node fault of C10)
// is independent of the code under test.
//
// Record layout (trie.go Flush/updateRefCount, billet.go incrementRefAndStore):
//
//	key   = DataMPT(0x03) || node hash (32 bytes, as produced by DoubleSha256)
//	value = node bytes                                   (ModeAll)
//	value = node bytes || flag(1) || LE32                (ModeLatest, ModeGC)
//	        flag 1: active, LE32 = reference count
//	        flag 0: inactive (ModeGC only), LE32 = height of deactivation
//
// node bytes = type(1) || body
//
//	0x00 branch:    17 children, each 0x04 (empty) or 0x03 || hash
//	0x01 extension: varbytes(nibble path) || child
//	0x02 leaf:      varbytes(value)

const (
	tBranch = 0x00
	tExt    = 0x01
	tLeaf   = 0x02
	tHash   = 0x03
	tEmpty  = 0x04
)

type rawNode struct {
	typ      byte
	children [17]*util.Uint256
	key      []byte // extension: nibbles
	next     util.Uint256
	value    []byte
}

type rawEntry struct {
	node   []byte
	rc     bool // record carries the 5-byte suffix
	active bool
	num    uint32 // count (active) or height (inactive)
}

var errShort = errors.New("short node record")

func readVarBytes(b []byte) ([]byte, []byte, error) {
	if len(b) == 0 {
		return nil, nil, errShort
	}
	var n uint64
	switch b[0] {
	case 0xfd:
		if len(b) < 3 {
			return nil, nil, errShort
		}
		n = uint64(binary.LittleEndian.Uint16(b[1:]))
		b = b[3:]
	case 0xfe:
		if len(b) < 5 {
			return nil, nil, errShort
		}
		n = uint64(binary.LittleEndian.Uint32(b[1:]))
		b = b[5:]
	case 0xff:
		if len(b) < 9 {
			return nil, nil, errShort
		}
		n = binary.LittleEndian.Uint64(b[1:])
		b = b[9:]
	default:
		n = uint64(b[0])
		b = b[1:]
	}
	if uint64(len(b)) < n {
		return nil, nil, errShort
	}
	return b[:n], b[n:], nil
}

func readChild(b []byte) (*util.Uint256, []byte, error) {
	if len(b) == 0 {
		return nil, nil, errShort
	}
	switch b[0] {
	case tEmpty:
		return nil, b[1:], nil
	case tHash:
		if len(b) < 33 {
			return nil, nil, errShort
		}
		var h util.Uint256
		copy(h[:], b[1:33])
		return &h, b[33:], nil
	}
	return nil, nil, fmt.Errorf("child of type %#x", b[0])
}

// decodeNode parses node bytes; the whole slice must be consumed.
func decodeNode(b []byte) (*rawNode, error) {
	if len(b) == 0 {
		return nil, errShort
	}
	n := &rawNode{typ: b[0]}
	rest := b[1:]
	var err error
	switch n.typ {
	case tBranch:
		for i := 0; i < 17; i++ {
			n.children[i], rest, err = readChild(rest)
			if err != nil {
				return nil, err
			}
		}
	case tExt:
		n.key, rest, err = readVarBytes(rest)
		if err != nil {
			return nil, err
		}
		var c *util.Uint256
		c, rest, err = readChild(rest)
		if err != nil {
			return nil, err
		}
		if c == nil {
			return nil, errors.New("extension with empty child")
		}
		n.next = *c
	case tLeaf:
		n.value, rest, err = readVarBytes(rest)
		if err != nil {
			return nil, err
		}
	default:
		return nil, fmt.Errorf("node of type %#x", n.typ)
	}
	if len(rest) != 0 {
		return nil, fmt.Errorf("%d trailing bytes", len(rest))
	}
	return n, nil
}

func splitEntry(v []byte, rc bool) (rawEntry, error) {
	if !rc {
		return rawEntry{node: v}, nil
	}
	if len(v) < 6 {
		return rawEntry{}, fmt.Errorf("record of %d bytes", len(v))
	}
	f := v[len(v)-5]
	if f > 1 {
		return rawEntry{}, fmt.Errorf("flag byte %#x", f)
	}
	return rawEntry{node: v[:len(v)-5], rc: true, active: f == 1, num: binary.LittleEndian.Uint32(v[len(v)-4:])}, nil
}

// dumpMPT lists every DataMPT record visible through s (layers merged).
func dumpMPT(s storage.Store) (map[util.Uint256][]byte, []util.Uint256) {
	res := map[util.Uint256][]byte{}
	var order []util.Uint256
	s.Seek(storage.SeekRange{Prefix: []byte{byte(storage.DataMPT)}}, func(k, v []byte) bool {
		if len(k) != 33 {
			return true
		}
		var h util.Uint256
		copy(h[:], k[1:])
		res[h] = bytes.Clone(v)
		order = append(order, h)
		return true
	})
	sort.Slice(order, func(i, j int) bool { return bytes.Compare(order[i][:], order[j][:]) < 0 })
	return res, order
}

type walkResult struct {
	occ    map[util.Uint256]int // tree positions per node hash
	leaves map[string][]byte    // key bytes -> value
	order  []util.Uint256       // distinct hashes, first-visit order (deterministic: children in index order)
}

type walkError struct {
	kind string // missing | undecodable | hash | structure
	msg  string
}

func (e *walkError) Error() string { return e.kind + ": " + e.msg }

// walk expands the trie under root as a tree (a node shared by two parents is
// visited twice) through the raw records, checking on the way that each node
// decodes, hashes to its key and respects the structural invariants.
func walk(recs map[util.Uint256][]byte, rc bool, root util.Uint256) (*walkResult, *walkError) {
	w := &walkResult{occ: map[util.Uint256]int{}, leaves: map[string][]byte{}}
	if root.Equals(util.Uint256{}) {
		return w, nil
	}
	var rec func(h util.Uint256, path []byte, parent byte, depth int) *walkError
	rec = func(h util.Uint256, path []byte, parent byte, depth int) *walkError {
		if depth > 400 {
			return &walkError{"structure", "depth > 400"}
		}
		v, ok := recs[h]
		if !ok {
			return &walkError{"missing", fmt.Sprintf("node %s at path %x", short(h), path)}
		}
		e, err := splitEntry(v, rc)
		if err != nil {
			return &walkError{"undecodable", fmt.Sprintf("node %s: %v", short(h), err)}
		}
		n, err := decodeNode(e.node)
		if err != nil {
			return &walkError{"undecodable", fmt.Sprintf("node %s: %v", short(h), err)}
		}
		if hash.DoubleSha256(e.node) != h {
			return &walkError{"hash", fmt.Sprintf("record %s holds bytes hashing to %s", short(h), short(hash.DoubleSha256(e.node)))}
		}
		if w.occ[h] == 0 {
			w.order = append(w.order, h)
		}
		w.occ[h]++
		switch n.typ {
		case tBranch:
			cnt := 0
			for i, c := range n.children {
				if c == nil {
					continue
				}
				cnt++
				p := path
				if i < 16 {
					p = append(append([]byte{}, path...), byte(i))
				}
				if werr := rec(*c, p, tBranch, depth+1); werr != nil {
					return werr
				}
			}
			if cnt < 2 {
				return &walkError{"structure", fmt.Sprintf("branch %s with %d children", short(h), cnt)}
			}
		case tExt:
			if len(n.key) == 0 {
				return &walkError{"structure", fmt.Sprintf("extension %s with empty key", short(h))}
			}
			if parent == tExt {
				return &walkError{"structure", fmt.Sprintf("extension %s under an extension", short(h))}
			}
			for _, nb := range n.key {
				if nb > 15 {
					return &walkError{"structure", fmt.Sprintf("extension %s key holds byte %#x", short(h), nb)}
				}
			}
			return rec(n.next, append(append([]byte{}, path...), n.key...), tExt, depth+1)
		case tLeaf:
			if len(path)%2 != 0 {
				return &walkError{"structure", fmt.Sprintf("leaf %s at odd path %x", short(h), path)}
			}
			k := make([]byte, len(path)/2)
			for i := range k {
				k[i] = path[2*i]<<4 | path[2*i+1]
			}
			if _, dup := w.leaves[string(k)]; dup {
				return &walkError{"structure", fmt.Sprintf("two leaves for key %x", k)}
			}
			w.leaves[string(k)] = n.value
		}
		return nil
	}
	if err := rec(root, nil, 0xff, 0); err != nil {
		return w, err
	}
	return w, nil
}

func short(h util.Uint256) string { return fmt.Sprintf("%x", h[:4]) }

// sameContents compares walked leaves with a model map; "" when equal.
func sameContents(leaves, model map[string][]byte) string {
	ks := sortedKeys(model)
	for _, k := range ks {
		v, ok := leaves[k]
		if !ok {
			return fmt.Sprintf("key %x missing", k)
		}
		if !bytes.Equal(v, model[k]) {
			return fmt.Sprintf("key %x holds %s, model %s", k, showVal(v), showVal(model[k]))
		}
	}
	for _, k := range sortedKeys(leaves) {
		if _, ok := model[k]; !ok {
			return fmt.Sprintf("extra key %x", k)
		}
	}
	return ""
}

func sortedKeys(m map[string][]byte) []string {
	ks := make([]string, 0, len(m))
	for k := range m {
		ks = append(ks, k)
	}
	sort.Strings(ks)
	return ks
}

func showVal(v []byte) string {
	if v == nil {
		return "<nil>"
	}
	if len(v) > 8 {
		return fmt.Sprintf("%x..(%d)", v[:6], len(v))
	}
	return fmt.Sprintf("%x(%d)", v, len(v))
}
