package mpt

import (
	"encoding/json"
	"errors"

	"github.com/nspcc-dev/neo-go/pkg/io"
	"github.com/nspcc-dev/neo-go/pkg/util"
)

// EmptyNode represents an empty node.
type EmptyNode struct{}

// DecodeBinaryWithDepth implements Node interface.
func (e EmptyNode) decodeBinaryWithDepth(*io.BinReader, int) {
}

// EncodeBinary implements the io.Encodable interface.
func (e EmptyNode) EncodeBinary(*io.BinWriter) {
}

// Size implements Node interface.
func (EmptyNode) Size() int { return 0 }

// MarshalJSON implements Node interface.
func (e EmptyNode) MarshalJSON() ([]byte, error) {
	return []byte(`{}`), nil
}

// UnmarshalJSON implements Node interface.
func (e EmptyNode) UnmarshalJSON(bytes []byte) error {
	var m map[string]any
	err := json.Unmarshal(bytes, &m)
	if err != nil {
		return err
	}
	if len(m) != 0 {
		return errors.New("expected empty node")
	}
	return nil
}

// Hash implements Node interface.
func (e EmptyNode) Hash() util.Uint256 {
	panic("can't get hash of an EmptyNode")
}

// Type implements Node interface.
func (e EmptyNode) Type() NodeType {
	return EmptyT
}

// Bytes implements Node interface.
func (e EmptyNode) Bytes() []byte {
	return nil
}

// Clone implements Node interface.
func (EmptyNode) Clone() Node { return EmptyNode{} }
