package mpt

import (
	"testing"

	"github.com/nspcc-dev/neo-go/internal/random"
)

func benchmarkBytes(b *testing.B, n Node) {
	inv := n.(interface{ invalidateCache() })
	b.ReportAllocs()
	for b.Loop() {
		inv.invalidateCache()
		_ = n.Bytes()
	}
}

func BenchmarkBytes(b *testing.B) {
	b.Run("extension", func(b *testing.B) {
		n := NewExtensionNode(random.Bytes(10), NewLeafNode(random.Bytes(10)))
		benchmarkBytes(b, n)
	})
	b.Run("leaf", func(b *testing.B) {
		n := NewLeafNode(make([]byte, 15))
		benchmarkBytes(b, n)
	})
	b.Run("hash", func(b *testing.B) {
		n := NewHashNode(random.Uint256())
		benchmarkBytes(b, n)
	})
	b.Run("branch", func(b *testing.B) {
		n := NewBranchNode()
		n.Children[0] = NewLeafNode(random.Bytes(10))
		n.Children[4] = NewLeafNode(random.Bytes(10))
		n.Children[7] = NewLeafNode(random.Bytes(10))
		n.Children[8] = NewLeafNode(random.Bytes(10))
	})
}
