package mpt

import (
	"testing"

	"github.com/stretchr/testify/require"
)

func prepareMPTCompat() *Trie {
	b := NewBranchNode()
	r := NewExtensionNode([]byte{0x0a, 0x0c}, b)
	v1 := NewLeafNode([]byte{0xab, 0xcd}) //key=ac01
	v2 := NewLeafNode([]byte{0x22, 0x22}) //key=ac
	v3 := NewLeafNode([]byte("existing")) //key=acae
	v4 := NewLeafNode([]byte("missing"))
	h3 := NewHashNode(v3.Hash())
	e1 := NewExtensionNode([]byte{0x01}, v1)
	e3 := NewExtensionNode([]byte{0x0e}, h3)
	e4 := NewExtensionNode([]byte{0x01}, v4)
	b.Children[0] = e1
	b.Children[10] = e3
	b.Children[16] = v2
	b.Children[15] = NewHashNode(e4.Hash())

	tr := NewTrie(r, ModeLatest, newTestStore())
	tr.putToStore(r)
	tr.putToStore(b)
	tr.putToStore(e1)
	tr.putToStore(e3)
	tr.putToStore(v1)
	tr.putToStore(v2)
	tr.putToStore(v3)

	return tr
}

// TestCompatibility contains tests present in C# implementation.
// https://github.com/neo-project/neo-modules/blob/master/tests/Neo.Plugins.StateService.Tests/MPT/UT_MPTTrie.cs
// There are some differences, though:
//  1. In our implementation, delete is silent, i.e. we do not return an error if the key is missing or empty.
//     However, we do return an error when the contents of the hash node are missing from the store
//     (corresponds to exception in C# implementation). However, if the key is too big, an error is returned
//     (corresponds to exception in C# implementation).
//  2. In our implementation, put returns an error if something goes wrong, while C# implementation throws
//     an exception and returns nothing.
//  3. In our implementation, get does not immediately return any error in case of an empty key. An error is returned
//     only if the value is missing from the storage. C# implementation checks that the key is not empty and throws an error
//     otherwise. However, if the key is too big, an error is returned (corresponds to exception in C# implementation).
func TestCompatibility(t *testing.T) {
	mainTrie := prepareMPTCompat()

	t.Run("TryGet", func(t *testing.T) {
		tr := copyTrie(mainTrie)
		tr.testHas(t, []byte{0xac, 0x01}, []byte{0xab, 0xcd})
		tr.testHas(t, []byte{0xac}, []byte{0x22, 0x22})
		tr.testHas(t, []byte{0xab, 0x99}, nil)
		tr.testHas(t, []byte{0xac, 0x39}, nil)
		tr.testHas(t, []byte{0xac, 0x02}, nil)
		tr.testHas(t, []byte{0xac, 0x01, 0x00}, nil)
		tr.testHas(t, []byte{0xac, 0x99, 0x10}, nil)
		tr.testHas(t, []byte{0xac, 0xf1}, nil)
		tr.testHas(t, make([]byte, MaxKeyLength), nil)
	})

	t.Run("TryGetResolve", func(t *testing.T) {
		tr := copyTrie(mainTrie)
		tr.testHas(t, []byte{0xac, 0xae}, []byte("existing"))
	})

	t.Run("TryPut", func(t *testing.T) {
		tr := newFilledTrie(t,
			[]byte{0xac, 0x01}, []byte{0xab, 0xcd},
			[]byte{0xac}, []byte{0x22, 0x22},
			[]byte{0xac, 0xae}, []byte("existing"),
			[]byte{0xac, 0xf1}, []byte("missing"))

		require.Equal(t, mainTrie.root.Hash(), tr.root.Hash())
		require.Error(t, tr.Put(nil, []byte{0x01}))
		require.Error(t, tr.Put([]byte{0x01}, nil))
		require.Error(t, tr.Put(make([]byte, MaxKeyLength+1), nil))
		require.Error(t, tr.Put([]byte{0x01}, make([]byte, MaxValueLength+1)))
		require.Equal(t, mainTrie.root.Hash(), tr.root.Hash())
		require.NoError(t, tr.Put([]byte{0x01}, []byte{}))
		require.NoError(t, tr.Put([]byte{0xac, 0x01}, []byte{0xab}))
	})

	t.Run("PutCantResolve", func(t *testing.T) {
		tr := copyTrie(mainTrie)
		require.Error(t, tr.Put([]byte{0xac, 0xf1, 0x11}, []byte{1}))
	})

	t.Run("TryDelete", func(t *testing.T) {
		tr := copyTrie(mainTrie)
		tr.testHas(t, []byte{0xac}, []byte{0x22, 0x22})
		require.NoError(t, tr.Delete([]byte{0x0c, 0x99}))
		require.NoError(t, tr.Delete(nil))
		require.NoError(t, tr.Delete([]byte{0xac, 0x20}))

		require.Error(t, tr.Delete([]byte{0xac, 0xf1}))           // error for can't resolve
		require.Error(t, tr.Delete(make([]byte, MaxKeyLength+1))) // error for too big key

		// In our implementation missing keys are ignored.
		require.NoError(t, tr.Delete([]byte{0xac}))
		require.NoError(t, tr.Delete([]byte{0xac, 0xae, 0x01}))
		require.NoError(t, tr.Delete([]byte{0xac, 0xae}))

		require.Equal(t, "cb06925428b7c727375c7fdd943a302fe2c818cf2e2eaf63a7932e3fd6cb3408",
			tr.root.Hash().StringLE())
	})

	t.Run("DeleteRemainCanResolve", func(t *testing.T) {
		tr := newFilledTrie(t,
			[]byte{0xac, 0x00}, []byte{0xab, 0xcd},
			[]byte{0xac, 0x10}, []byte{0xab, 0xcd})
		tr.Flush(0)

		tr2 := copyTrie(tr)
		require.NoError(t, tr2.Delete([]byte{0xac, 0x00}))

		tr2.Flush(0)
		require.NoError(t, tr2.Delete([]byte{0xac, 0x10}))
	})

	t.Run("DeleteRemainCantResolve", func(t *testing.T) {
		b := NewBranchNode()
		r := NewExtensionNode([]byte{0x0a, 0x0c}, b)
		v1 := NewLeafNode([]byte{0xab, 0xcd})
		v4 := NewLeafNode([]byte("missing"))
		e1 := NewExtensionNode([]byte{0x01}, v1)
		e4 := NewExtensionNode([]byte{0x01}, v4)
		b.Children[0] = e1
		b.Children[15] = NewHashNode(e4.Hash())

		tr := NewTrie(NewHashNode(r.Hash()), ModeAll, newTestStore())
		tr.putToStore(r)
		tr.putToStore(b)
		tr.putToStore(e1)
		tr.putToStore(v1)

		require.Error(t, tr.Delete([]byte{0xac, 0x01}))
	})

	t.Run("DeleteSameValue", func(t *testing.T) {
		tr := newFilledTrie(t,
			[]byte{0xac, 0x01}, []byte{0xab, 0xcd},
			[]byte{0xac, 0x02}, []byte{0xab, 0xcd})
		tr.testHas(t, []byte{0xac, 0x01}, []byte{0xab, 0xcd})
		tr.testHas(t, []byte{0xac, 0x02}, []byte{0xab, 0xcd})

		require.NoError(t, tr.Delete([]byte{0xac, 0x01}))
		tr.testHas(t, []byte{0xac, 0x02}, []byte{0xab, 0xcd})
		tr.Flush(0)

		tr2 := NewTrie(NewHashNode(tr.root.Hash()), ModeAll, tr.Store)
		tr2.testHas(t, []byte{0xac, 0x02}, []byte{0xab, 0xcd})
	})

	t.Run("BranchNodeRemainValue", func(t *testing.T) {
		tr := newFilledTrie(t,
			[]byte{0xac, 0x11}, []byte{0xac, 0x11},
			[]byte{0xac, 0x22}, []byte{0xac, 0x22},
			[]byte{0xac}, []byte{0xac})
		tr.Flush(0)
		checkBatchSize(t, tr, 7)

		require.NoError(t, tr.Delete([]byte{0xac, 0x11}))
		tr.Flush(0)
		checkBatchSize(t, tr, 5)

		require.NoError(t, tr.Delete([]byte{0xac, 0x22}))
		tr.Flush(0)
		checkBatchSize(t, tr, 2)
	})

	t.Run("GetProof", func(t *testing.T) {
		b := NewBranchNode()
		r := NewExtensionNode([]byte{0x0a, 0x0c}, b)
		v1 := NewLeafNode([]byte{0xab, 0xcd}) //key=ac01
		v2 := NewLeafNode([]byte{0x22, 0x22}) //key=ac
		v3 := NewLeafNode([]byte("existing")) //key=acae
		v4 := NewLeafNode([]byte("missing"))
		h3 := NewHashNode(v3.Hash())
		e1 := NewExtensionNode([]byte{0x01}, v1)
		e3 := NewExtensionNode([]byte{0x0e}, h3)
		e4 := NewExtensionNode([]byte{0x01}, v4)
		b.Children[0] = e1
		b.Children[10] = e3
		b.Children[16] = v2
		b.Children[15] = NewHashNode(e4.Hash())

		tr := NewTrie(NewHashNode(r.Hash()), ModeLatest, mainTrie.Store)
		require.Equal(t, r.Hash(), tr.root.Hash())

		proof := testGetProof(t, tr, []byte{0xac, 0x01}, 4)
		require.Equal(t, r.Bytes(), proof[0])
		require.Equal(t, b.Bytes(), proof[1])
		require.Equal(t, e1.Bytes(), proof[2])
		require.Equal(t, v1.Bytes(), proof[3])

		testGetProof(t, tr, []byte{0xac}, 3)
		testGetProof(t, tr, []byte{0xac, 0x10}, 0)
		testGetProof(t, tr, []byte{0xac, 0xae}, 4)
		testGetProof(t, tr, nil, 0)
		testGetProof(t, tr, []byte{0xac, 0x01, 0x00}, 0)
		testGetProof(t, tr, []byte{0xac, 0xf1}, 0)
		testGetProof(t, tr, make([]byte, MaxKeyLength), 0)
	})

	t.Run("VerifyProof", func(t *testing.T) {
		tr := copyTrie(mainTrie)
		proof := testGetProof(t, tr, []byte{0xac, 0x01}, 4)
		value, ok := VerifyProof(tr.root.Hash(), []byte{0xac, 0x01}, proof)
		require.True(t, ok)
		require.Equal(t, []byte{0xab, 0xcd}, value)
	})

	t.Run("AddLongerKey", func(t *testing.T) {
		tr := newFilledTrie(t,
			[]byte{0xab}, []byte{0x01},
			[]byte{0xab, 0xcd}, []byte{0x02})
		tr.testHas(t, []byte{0xab}, []byte{0x01})
	})

	t.Run("SplitKey", func(t *testing.T) {
		tr := newFilledTrie(t,
			[]byte{0xab, 0xcd}, []byte{0x01},
			[]byte{0xab}, []byte{0x02})
		testGetProof(t, tr, []byte{0xab, 0xcd}, 4)

		tr2 := newFilledTrie(t,
			[]byte{0xab}, []byte{0x02},
			[]byte{0xab, 0xcd}, []byte{0x01})
		testGetProof(t, tr, []byte{0xab, 0xcd}, 4)

		require.Equal(t, tr.root.Hash(), tr2.root.Hash())
	})

	t.Run("Reference", func(t *testing.T) {
		tr := newFilledTrie(t,
			[]byte{0xa1, 0x01}, []byte{0x01},
			[]byte{0xa2, 0x01}, []byte{0x01},
			[]byte{0xa3, 0x01}, []byte{0x01})
		tr.Flush(0)

		tr2 := copyTrie(tr)
		require.NoError(t, tr2.Delete([]byte{0xa3, 0x01}))
		tr2.Flush(0)

		tr3 := copyTrie(tr2)
		require.NoError(t, tr3.Delete([]byte{0xa2, 0x01}))
		tr3.testHas(t, []byte{0xa1, 0x01}, []byte{0x01})
	})

	t.Run("Reference2", func(t *testing.T) {
		tr := newFilledTrie(t,
			[]byte{0xa1, 0x01}, []byte{0x01},
			[]byte{0xa2, 0x01}, []byte{0x01},
			[]byte{0xa3, 0x01}, []byte{0x01})
		tr.Flush(0)
		checkBatchSize(t, tr, 4)

		require.NoError(t, tr.Delete([]byte{0xa3, 0x01}))
		tr.Flush(0)
		checkBatchSize(t, tr, 4)

		require.NoError(t, tr.Delete([]byte{0xa2, 0x01}))
		tr.Flush(0)
		checkBatchSize(t, tr, 2)
		tr.testHas(t, []byte{0xa1, 0x01}, []byte{0x01})
	})

	t.Run("ExtensionDeleteDirty", func(t *testing.T) {
		tr := newFilledTrie(t,
			[]byte{0xa1}, []byte{0x01},
			[]byte{0xa2}, []byte{0x02})
		tr.Flush(0)
		checkBatchSize(t, tr, 4)

		tr1 := copyTrie(tr)
		require.NoError(t, tr1.Delete([]byte{0xa1}))
		tr1.Flush(0)
		require.Equal(t, 2, len(tr1.Store.GetBatch().Put))

		tr2 := copyTrie(tr1)
		require.NoError(t, tr2.Delete([]byte{0xa2}))
		tr2.Flush(0)
		require.Equal(t, 0, len(tr2.Store.GetBatch().Put))
	})

	t.Run("BranchDeleteDirty", func(t *testing.T) {
		tr := newFilledTrie(t,
			[]byte{0x10}, []byte{0x01},
			[]byte{0x20}, []byte{0x02},
			[]byte{0x30}, []byte{0x03})
		tr.Flush(0)
		checkBatchSize(t, tr, 7)

		tr1 := copyTrie(tr)
		require.NoError(t, tr1.Delete([]byte{0x10}))
		tr1.Flush(0)

		tr2 := copyTrie(tr1)
		require.NoError(t, tr2.Delete([]byte{0x20}))
		tr2.Flush(0)
		require.Equal(t, 2, len(tr2.Store.GetBatch().Put))

		tr3 := copyTrie(tr2)
		require.NoError(t, tr3.Delete([]byte{0x30}))
		tr3.Flush(0)
		require.Equal(t, 0, len(tr3.Store.GetBatch().Put))
	})

	t.Run("ExtensionPutDirty", func(t *testing.T) {
		tr := newFilledTrie(t,
			[]byte{0xa1}, []byte{0x01},
			[]byte{0xa2}, []byte{0x02})
		tr.Flush(0)
		checkBatchSize(t, tr, 4)

		tr1 := copyTrie(tr)
		require.NoError(t, tr1.Put([]byte{0xa3}, []byte{0x03}))
		tr1.Flush(0)
		require.Equal(t, 5, len(tr1.Store.GetBatch().Put))
	})

	t.Run("BranchPutDirty", func(t *testing.T) {
		tr := newFilledTrie(t,
			[]byte{0x10}, []byte{0x01},
			[]byte{0x20}, []byte{0x02})
		tr.Flush(0)
		checkBatchSize(t, tr, 5)

		tr1 := copyTrie(tr)
		require.NoError(t, tr1.Put([]byte{0x30}, []byte{0x03}))
		tr1.Flush(0)
		checkBatchSize(t, tr1, 7)
	})

	t.Run("EmptyValueIssue633", func(t *testing.T) {
		tr := newFilledTrie(t,
			[]byte{0x01}, []byte{})
		tr.Flush(0)
		checkBatchSize(t, tr, 2)

		proof := testGetProof(t, tr, []byte{0x01}, 2)
		value, ok := VerifyProof(tr.root.Hash(), []byte{0x01}, proof)
		require.True(t, ok)
		require.Equal(t, []byte{}, value)
	})
}

func copyTrie(t *Trie) *Trie {
	return NewTrie(NewHashNode(t.root.Hash()), t.mode, t.Store)
}

func checkBatchSize(t *testing.T, tr *Trie, n int) {
	require.Equal(t, n, len(tr.Store.GetBatch().Put))
}

func testGetProof(t *testing.T, tr *Trie, key []byte, size int) [][]byte {
	proof, err := tr.GetProof(key)
	if size == 0 {
		require.Error(t, err)
		return proof
	}

	require.NoError(t, err)
	require.Equal(t, size, len(proof))
	return proof
}

func newFilledTrie(t *testing.T, args ...[]byte) *Trie {
	tr := NewTrie(nil, ModeLatest, newTestStore())
	for i := 0; i < len(args); i += 2 {
		require.NoError(t, tr.Put(args[i], args[i+1]))
	}
	return tr
}

func TestCompatibility_Find(t *testing.T) {
	check := func(t *testing.T, from []byte, expectedResLen int) {
		tr := NewTrie(nil, ModeAll, newTestStore())
		require.NoError(t, tr.Put([]byte("aa"), []byte("02")))
		require.NoError(t, tr.Put([]byte("aa10"), []byte("03")))
		require.NoError(t, tr.Put([]byte("aa50"), []byte("04")))
		res, err := tr.Find([]byte("aa"), from, 10)
		require.NoError(t, err)
		require.Equal(t, expectedResLen, len(res))
	}
	t.Run("no from", func(t *testing.T) {
		check(t, nil, 3)
	})
	t.Run("from is not in tree", func(t *testing.T) {
		t.Run("matching", func(t *testing.T) {
			check(t, []byte("30"), 1)
		})
		t.Run("non-matching", func(t *testing.T) {
			check(t, []byte("60"), 0)
		})
	})
	t.Run("from is in tree", func(t *testing.T) {
		check(t, []byte("10"), 1) // without `from` key
	})
	t.Run("from matching start", func(t *testing.T) {
		check(t, []byte{}, 2) // without `from` key
	})
	t.Run("TestFindStatesIssue652", func(t *testing.T) {
		tr := NewTrie(nil, ModeAll, newTestStore())
		// root is an extension node with key=abc; next=branch
		require.NoError(t, tr.Put([]byte("abc1"), []byte("01")))
		require.NoError(t, tr.Put([]byte("abc3"), []byte("02")))
		tr.Flush(0)
		// find items with extension's key prefix
		t.Run("from > start", func(t *testing.T) {
			res, err := tr.Find([]byte("ab"), []byte("d2"), 100)
			require.NoError(t, err)
			// nothing should be found, because from[0]=`d` > key[2]=`c`
			require.Equal(t, 0, len(res))
		})

		t.Run("from < start", func(t *testing.T) {
			res, err := tr.Find([]byte("ab"), []byte("b2"), 100)
			require.NoError(t, err)
			// all items should be included into the result, because from[0]=`b` < key[2]=`c`
			require.Equal(t, 2, len(res))
		})

		t.Run("from and start have common prefix", func(t *testing.T) {
			res, err := tr.Find([]byte("ab"), []byte("c"), 100)
			require.NoError(t, err)
			// all items should be included into the result, because from[0] == key[2]
			require.Equal(t, 2, len(res))
		})

		t.Run("from equals to item key", func(t *testing.T) {
			res, err := tr.Find([]byte("ab"), []byte("c1"), 100)
			require.NoError(t, err)
			require.Equal(t, 1, len(res))
		})
	})
}
