package mpt

import (
	"encoding/json"
	"errors"

	"github.com/nspcc-dev/neo-go/pkg/io"
	"github.com/nspcc-dev/neo-go/pkg/util"
)

const (
	// childrenCount represents the number of children of a branch node.
	childrenCount = 17
	// lastChild is the index of the last child.
	lastChild = childrenCount - 1
)

// BranchNode represents an MPT's branch node.
type BranchNode struct {
	BaseNode
	Children [childrenCount]Node
}

var _ Node = (*BranchNode)(nil)

// NewBranchNode returns a new branch node.
func NewBranchNode() *BranchNode {
	b := new(BranchNode)
	for i := range childrenCount {
		b.Children[i] = EmptyNode{}
	}
	return b
}

// Type implements the Node interface.
func (b *BranchNode) Type() NodeType { return BranchT }

// Hash implements the BaseNode interface.
func (b *BranchNode) Hash() util.Uint256 {
	return b.getHash(b)
}

// Bytes implements the BaseNode interface.
func (b *BranchNode) Bytes() []byte {
	return b.getBytes(b)
}

// Size implements the Node interface.
func (b *BranchNode) Size() int {
	sz := childrenCount
	for i := range b.Children {
		if !isEmpty(b.Children[i]) {
			sz += util.Uint256Size
		}
	}
	return sz
}

// EncodeBinary implements io.Encodable.
func (b *BranchNode) EncodeBinary(w *io.BinWriter) {
	for i := range childrenCount {
		encodeBinaryAsChild(b.Children[i], w)
	}
}

// DecodeBinaryWithDepth implements Node interface.
func (b *BranchNode) decodeBinaryWithDepth(r *io.BinReader, depth int) {
	for i := range childrenCount {
		no := new(NodeObject)
		no.decodeBinaryWithDepth(r, depth+1)
		b.Children[i] = no.Node
	}
}

// MarshalJSON implements the json.Marshaler.
func (b *BranchNode) MarshalJSON() ([]byte, error) {
	return json.Marshal(b.Children)
}

// UnmarshalJSON implements the json.Unmarshaler.
func (b *BranchNode) UnmarshalJSON(data []byte) error {
	var obj NodeObject
	if err := obj.UnmarshalJSON(data); err != nil {
		return err
	} else if u, ok := obj.Node.(*BranchNode); ok {
		*b = *u
		return nil
	}
	return errors.New("expected branch node")
}

// Clone implements Node interface.
func (b *BranchNode) Clone() Node {
	res := *b
	return &res
}

// splitPath splits path for a branch node.
func splitPath(path []byte) (byte, []byte) {
	if len(path) != 0 {
		return path[0], path[1:]
	}
	return lastChild, path
}
