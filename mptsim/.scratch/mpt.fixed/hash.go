package mpt

import (
	"errors"

	"github.com/nspcc-dev/neo-go/pkg/io"
	"github.com/nspcc-dev/neo-go/pkg/util"
)

// HashNode represents an MPT's hash node.
type HashNode struct {
	BaseNode
	Collapsed bool
}

var _ Node = (*HashNode)(nil)

// NewHashNode returns a hash node with the specified hash.
func NewHashNode(h util.Uint256) *HashNode {
	return &HashNode{
		BaseNode: BaseNode{
			hash:      h,
			hashValid: true,
		},
	}
}

// Type implements Node interface.
func (h *HashNode) Type() NodeType { return HashT }

// Size implements Node interface.
func (h *HashNode) Size() int {
	return util.Uint256Size
}

// Hash implements Node interface.
func (h *HashNode) Hash() util.Uint256 {
	if !h.hashValid {
		panic("can't get hash of an empty HashNode")
	}
	return h.hash
}

// Bytes returns serialized HashNode.
func (h *HashNode) Bytes() []byte {
	return h.getBytes(h)
}

// DecodeBinaryWithDepth implements Node interface.
func (h *HashNode) decodeBinaryWithDepth(r *io.BinReader, depth int) {
	if h.hashValid {
		h.hash.DecodeBinary(r)
	}
}

// EncodeBinary implements io.Encodable.
func (h HashNode) EncodeBinary(w *io.BinWriter) {
	if !h.hashValid {
		return
	}
	w.WriteBytes(h.hash[:])
}

// MarshalJSON implements the json.Marshaler.
func (h *HashNode) MarshalJSON() ([]byte, error) {
	return []byte(`{"hash":"` + h.hash.StringLE() + `"}`), nil
}

// UnmarshalJSON implements the json.Unmarshaler.
func (h *HashNode) UnmarshalJSON(data []byte) error {
	var obj NodeObject
	if err := obj.UnmarshalJSON(data); err != nil {
		return err
	} else if u, ok := obj.Node.(*HashNode); ok {
		*h = *u
		return nil
	}
	return errors.New("expected hash node")
}

// Clone implements Node interface.
func (h *HashNode) Clone() Node {
	res := *h
	res.Collapsed = false
	return &res
}
