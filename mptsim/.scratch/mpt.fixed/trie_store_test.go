package mpt

import (
	"bytes"
	"errors"
	"testing"

	"github.com/nspcc-dev/neo-go/pkg/core/storage"
	"github.com/stretchr/testify/require"
)

func TestTrieStore_TestTrieOperations(t *testing.T) {
	source := newTestTrie(t)
	backed := source.Store

	st := NewTrieStore(source.root.Hash(), ModeAll, backed)

	t.Run("forbidden operations", func(t *testing.T) {
		require.ErrorIs(t, st.SeekGC(storage.SeekRange{}, nil), errors.ErrUnsupported)
		_, err := st.Get([]byte{byte(storage.STTokenTransferInfo)})
		require.ErrorIs(t, err, errors.ErrUnsupported)
		require.ErrorIs(t, st.PutChangeSet(nil, nil), errors.ErrUnsupported)
	})

	t.Run("Get", func(t *testing.T) {
		t.Run("good", func(t *testing.T) {
			res, err := st.Get(append([]byte{byte(storage.STStorage)}, 0xAC, 0xae)) // leaf `hello`
			require.NoError(t, err)
			require.Equal(t, []byte("hello"), res)
		})
		t.Run("bad path", func(t *testing.T) {
			_, err := st.Get(append([]byte{byte(storage.STStorage)}, 0xAC, 0xa0)) // bad path
			require.ErrorIs(t, err, storage.ErrKeyNotFound)
		})
		t.Run("path to not-a-leaf", func(t *testing.T) {
			_, err := st.Get(append([]byte{byte(storage.STStorage)}, 0xAC)) // path to extension
			require.ErrorIs(t, err, storage.ErrKeyNotFound)
		})
	})

	t.Run("Seek", func(t *testing.T) {
		check := func(t *testing.T, backwards bool) {
			var res [][]byte
			st.Seek(storage.SeekRange{
				Prefix:    []byte{byte(storage.STStorage)},
				Start:     nil,
				Backwards: backwards,
			}, func(k, v []byte) bool {
				res = append(res, k)
				return true
			})
			require.Equal(t, 4, len(res))
			for i := range res {
				require.Equal(t, byte(storage.STStorage), res[i][0])
				if i < len(res)-1 {
					cmp := bytes.Compare(res[i], res[i+1])
					if backwards {
						require.True(t, cmp > 0)
					} else {
						require.True(t, cmp < 0)
					}
				}
			}
		}
		t.Run("good: over whole storage", func(t *testing.T) {
			t.Run("forwards", func(t *testing.T) {
				check(t, false)
			})
			t.Run("backwards", func(t *testing.T) {
				check(t, true)
			})
		})
	})
}
