package mpt

import (
	"encoding/hex"
	"encoding/json"
	"errors"

	"github.com/nspcc-dev/neo-go/pkg/io"
	"github.com/nspcc-dev/neo-go/pkg/util"
)

// NodeType represents a node type..
type NodeType byte

// Node types definitions.
const (
	BranchT    NodeType = 0x00
	ExtensionT NodeType = 0x01
	LeafT      NodeType = 0x02
	HashT      NodeType = 0x03
	EmptyT     NodeType = 0x04
)

// NodeObject represents a Node together with it's type.
// It is used for serialization/deserialization where type info
// is also expected.
type NodeObject struct {
	Node
}

// Node represents a common interface of all MPT nodes.
type Node interface {
	io.Encodable
	decodeBinaryWithDepth(r *io.BinReader, depth int)
	json.Marshaler
	json.Unmarshaler
	Size() int
	Clone() Node
	BaseNodeIface
}

// EncodeBinary implements io.Serializable.
func (n NodeObject) EncodeBinary(w *io.BinWriter) {
	encodeNodeWithType(n.Node, w)
}

// DecodeBinary implements io.Serializable.
func (n *NodeObject) DecodeBinary(r *io.BinReader) {
	n.decodeBinaryWithDepth(r, 0)
}

// DecodeBinaryWithDepth implements Node interface.
func (n *NodeObject) decodeBinaryWithDepth(r *io.BinReader, depth int) {
	n.Node = DecodeNodeWithType(r, depth)
}

// UnmarshalJSON implements the json.Unmarshaler.
func (n *NodeObject) UnmarshalJSON(data []byte) error {
	var m map[string]json.RawMessage
	err := json.Unmarshal(data, &m)
	if err != nil { // it can be a branch node
		var nodes []NodeObject
		if err := json.Unmarshal(data, &nodes); err != nil {
			return err
		} else if len(nodes) != childrenCount {
			return errors.New("invalid length of branch node")
		}

		b := NewBranchNode()
		for i := range b.Children {
			b.Children[i] = nodes[i].Node
		}
		n.Node = b
		return nil
	}

	switch len(m) {
	case 0:
		n.Node = EmptyNode{}
	case 1:
		if v, ok := m["hash"]; ok {
			var h util.Uint256
			if err := json.Unmarshal(v, &h); err != nil {
				return err
			}
			n.Node = NewHashNode(h)
		} else if v, ok = m["value"]; ok {
			b, err := unmarshalHex(v)
			if err != nil {
				return err
			} else if len(b) > MaxValueLength {
				return errors.New("leaf value is too big")
			}
			n.Node = NewLeafNode(b)
		} else {
			return errors.New("invalid field")
		}
	case 2:
		keyRaw, ok1 := m["key"]
		nextRaw, ok2 := m["next"]
		if !ok1 || !ok2 {
			return errors.New("invalid field")
		}
		key, err := unmarshalHex(keyRaw)
		if err != nil {
			return err
		} else if len(key) > maxPathLength {
			return errors.New("extension key is too big")
		}

		var next NodeObject
		if err := json.Unmarshal(nextRaw, &next); err != nil {
			return err
		}
		n.Node = NewExtensionNode(key, next.Node)
	default:
		return errors.New("0, 1 or 2 fields expected")
	}
	return nil
}

func unmarshalHex(data json.RawMessage) ([]byte, error) {
	var s string
	if err := json.Unmarshal(data, &s); err != nil {
		return nil, err
	}
	return hex.DecodeString(s)
}
