package mpt

import (
	"encoding/hex"
	"fmt"
	"testing"

	"github.com/nspcc-dev/neo-go/pkg/core/storage"
	"github.com/stretchr/testify/require"
)

func TestBatchAdd(t *testing.T) {
	b := MapToMPTBatch(map[string][]byte{
		"a\x01":     {2},
		"a\x02\x10": {3},
		"a\x00\x01": {5},
		"a\x02\x00": {6},
	})

	expected := []keyValue{
		{[]byte{0, 0, 0, 1}, []byte{5}},
		{[]byte{0, 1}, []byte{2}},
		{[]byte{0, 2, 0, 0}, []byte{6}},
		{[]byte{0, 2, 1, 0}, []byte{3}},
	}
	require.Equal(t, expected, b.kv)
}

type pairs = [][2][]byte

func testIncompletePut(t *testing.T, ps pairs, n int, tr1, tr2 *Trie) {
	var m = make(map[string][]byte)
	for i, p := range ps {
		if i < n {
			if p[1] == nil {
				require.NoError(t, tr1.Delete(p[0]), "item %d", i)
			} else {
				require.NoError(t, tr1.Put(p[0], p[1]), "item %d", i)
			}
		} else if i == n {
			if p[1] == nil {
				require.Error(t, tr1.Delete(p[0]), "item %d", i)
			} else {
				require.Error(t, tr1.Put(p[0], p[1]), "item %d", i)
			}
		}
		m["a"+string(p[0])] = p[1]
	}

	b := MapToMPTBatch(m)
	num, err := tr2.PutBatch(b)
	if n == len(ps) {
		require.NoError(t, err)
	} else {
		require.Error(t, err)
	}
	require.Equal(t, n, num)
	require.Equal(t, tr1.StateRoot(), tr2.StateRoot())

	t.Run("test restore", func(t *testing.T) {
		tr2.Flush(0)
		tr3 := NewTrie(NewHashNode(tr2.StateRoot()), ModeAll, storage.NewMemCachedStore(tr2.Store))
		for _, p := range ps[:n] {
			val, err := tr3.Get(p[0])
			if p[1] == nil {
				require.Error(t, err)
				continue
			}
			require.NoError(t, err, "key: %s", hex.EncodeToString(p[0]))
			require.Equal(t, p[1], val)
		}
	})
}

func testPut(t *testing.T, ps pairs, tr1, tr2 *Trie) {
	testIncompletePut(t, ps, len(ps), tr1, tr2)
}

func TestTrie_PutBatchLeaf(t *testing.T) {
	prepareLeaf := func(t *testing.T) (*Trie, *Trie) {
		tr1 := NewTrie(EmptyNode{}, ModeAll, newTestStore())
		tr2 := NewTrie(EmptyNode{}, ModeAll, newTestStore())
		require.NoError(t, tr1.Put([]byte{0}, []byte("value")))
		require.NoError(t, tr2.Put([]byte{0}, []byte("value")))
		return tr1, tr2
	}

	t.Run("remove", func(t *testing.T) {
		tr1, tr2 := prepareLeaf(t)
		var ps = pairs{{[]byte{0}, nil}}
		testPut(t, ps, tr1, tr2)
	})
	t.Run("empty value", func(t *testing.T) {
		tr1, tr2 := prepareLeaf(t)
		var ps = pairs{{[]byte{0}, []byte{}}}
		testPut(t, ps, tr1, tr2)
	})
	t.Run("replace", func(t *testing.T) {
		tr1, tr2 := prepareLeaf(t)
		var ps = pairs{{[]byte{0}, []byte("replace")}}
		testPut(t, ps, tr1, tr2)
	})
	t.Run("remove and replace", func(t *testing.T) {
		tr1, tr2 := prepareLeaf(t)
		var ps = pairs{
			{[]byte{0}, nil},
			{[]byte{0, 2}, []byte("replace2")},
		}
		testPut(t, ps, tr1, tr2)
	})
	t.Run("empty value and replace", func(t *testing.T) {
		tr1, tr2 := prepareLeaf(t)
		var ps = pairs{
			{[]byte{0}, []byte{}},
			{[]byte{0, 2}, []byte("replace2")},
		}
		testPut(t, ps, tr1, tr2)
	})
}

func TestTrie_PutBatchExtension(t *testing.T) {
	prepareExtension := func(t *testing.T) (*Trie, *Trie) {
		tr1 := NewTrie(EmptyNode{}, ModeAll, newTestStore())
		tr2 := NewTrie(EmptyNode{}, ModeAll, newTestStore())
		require.NoError(t, tr1.Put([]byte{1, 2}, []byte("value1")))
		require.NoError(t, tr2.Put([]byte{1, 2}, []byte("value1")))
		return tr1, tr2
	}

	t.Run("split, key len > 1", func(t *testing.T) {
		tr1, tr2 := prepareExtension(t)
		var ps = pairs{{[]byte{2, 3}, []byte("value2")}}
		testPut(t, ps, tr1, tr2)
	})
	t.Run("split, key len = 1", func(t *testing.T) {
		tr1, tr2 := prepareExtension(t)
		var ps = pairs{{[]byte{1, 3}, []byte("value2")}}
		testPut(t, ps, tr1, tr2)
	})
	t.Run("add to next", func(t *testing.T) {
		tr1, tr2 := prepareExtension(t)
		var ps = pairs{{[]byte{1, 2, 3}, []byte("value2")}}
		testPut(t, ps, tr1, tr2)
	})
	t.Run("add to next with leaf", func(t *testing.T) {
		tr1, tr2 := prepareExtension(t)
		var ps = pairs{
			{[]byte{0}, []byte("value3")},
			{[]byte{1, 2, 3}, []byte("value2")},
		}
		testPut(t, ps, tr1, tr2)
	})
	t.Run("remove value", func(t *testing.T) {
		tr1, tr2 := prepareExtension(t)
		var ps = pairs{{[]byte{1, 2}, nil}}
		testPut(t, ps, tr1, tr2)
	})
	t.Run("empty value", func(t *testing.T) {
		tr1, tr2 := prepareExtension(t)
		var ps = pairs{{[]byte{1, 2}, []byte{}}}
		testPut(t, ps, tr1, tr2)
	})
	t.Run("add to next, merge extension", func(t *testing.T) {
		tr1, tr2 := prepareExtension(t)
		var ps = pairs{
			{[]byte{1, 2}, nil},
			{[]byte{1, 2, 3}, []byte("value2")},
		}
		testPut(t, ps, tr1, tr2)
	})
}

func TestTrie_PutBatchBranch(t *testing.T) {
	prepareBranch := func(t *testing.T) (*Trie, *Trie) {
		tr1 := NewTrie(EmptyNode{}, ModeAll, newTestStore())
		tr2 := NewTrie(EmptyNode{}, ModeAll, newTestStore())
		require.NoError(t, tr1.Put([]byte{0x00, 2}, []byte("value1")))
		require.NoError(t, tr2.Put([]byte{0x00, 2}, []byte("value1")))
		require.NoError(t, tr1.Put([]byte{0x10, 3}, []byte("value2")))
		require.NoError(t, tr2.Put([]byte{0x10, 3}, []byte("value2")))
		return tr1, tr2
	}

	t.Run("simple add", func(t *testing.T) {
		tr1, tr2 := prepareBranch(t)
		var ps = pairs{{[]byte{0x20, 4}, []byte("value3")}}
		testPut(t, ps, tr1, tr2)
	})
	t.Run("remove 1, transform to extension", func(t *testing.T) {
		tr1, tr2 := prepareBranch(t)
		var ps = pairs{{[]byte{0x00, 2}, nil}}
		testPut(t, ps, tr1, tr2)

		t.Run("non-empty child is hash node", func(t *testing.T) {
			tr1, tr2 := prepareBranch(t)
			tr1.Flush(0)
			tr1.Collapse(1)
			tr2.Flush(0)
			tr2.Collapse(1)

			var ps = pairs{{[]byte{0x00, 2}, nil}}
			testPut(t, ps, tr1, tr2)
			require.IsType(t, (*ExtensionNode)(nil), tr1.root)
		})
		t.Run("non-empty child is last node", func(t *testing.T) {
			tr1 := NewTrie(EmptyNode{}, ModeAll, newTestStore())
			tr2 := NewTrie(EmptyNode{}, ModeAll, newTestStore())
			require.NoError(t, tr1.Put([]byte{0x00, 2}, []byte("value1")))
			require.NoError(t, tr2.Put([]byte{0x00, 2}, []byte("value1")))
			require.NoError(t, tr1.Put([]byte{0x00}, []byte("value2")))
			require.NoError(t, tr2.Put([]byte{0x00}, []byte("value2")))

			tr1.Flush(0)
			tr1.Collapse(1)
			tr2.Flush(0)
			tr2.Collapse(1)

			var ps = pairs{{[]byte{0x00, 2}, nil}}
			testPut(t, ps, tr1, tr2)
		})
	})
	t.Run("incomplete put, transform to extension", func(t *testing.T) {
		tr1, tr2 := prepareBranch(t)
		var ps = pairs{
			{[]byte{0x00, 2}, nil},
			{[]byte{0x20, 2}, nil},
			{[]byte{0x30, 3}, []byte("won't be put")},
		}
		testIncompletePut(t, ps, 3, tr1, tr2)
	})
	t.Run("incomplete put, transform to empty", func(t *testing.T) {
		tr1, tr2 := prepareBranch(t)
		var ps = pairs{
			{[]byte{0x00, 2}, nil},
			{[]byte{0x10, 3}, nil},
			{[]byte{0x20, 2}, nil},
			{[]byte{0x30, 3}, []byte("won't be put")},
		}
		testIncompletePut(t, ps, 4, tr1, tr2)
	})
	t.Run("remove 2, become empty", func(t *testing.T) {
		tr1, tr2 := prepareBranch(t)
		var ps = pairs{
			{[]byte{0x00, 2}, nil},
			{[]byte{0x10, 3}, nil},
		}
		testPut(t, ps, tr1, tr2)
	})
}

func TestTrie_PutBatchHash(t *testing.T) {
	prepareHash := func(t *testing.T) (*Trie, *Trie) {
		tr1 := NewTrie(EmptyNode{}, ModeAll, newTestStore())
		tr2 := NewTrie(EmptyNode{}, ModeAll, newTestStore())
		require.NoError(t, tr1.Put([]byte{0x10}, []byte("value1")))
		require.NoError(t, tr2.Put([]byte{0x10}, []byte("value1")))
		require.NoError(t, tr1.Put([]byte{0x20}, []byte("value2")))
		require.NoError(t, tr2.Put([]byte{0x20}, []byte("value2")))
		tr1.Flush(0)
		tr2.Flush(0)
		return tr1, tr2
	}

	t.Run("good", func(t *testing.T) {
		tr1, tr2 := prepareHash(t)
		var ps = pairs{{[]byte{2}, []byte("value2")}}
		tr1.Collapse(0)
		tr1.Collapse(0)
		testPut(t, ps, tr1, tr2)
	})
	t.Run("incomplete, second hash not found", func(t *testing.T) {
		tr1, tr2 := prepareHash(t)
		var ps = pairs{
			{[]byte{0x10}, []byte("replace1")},
			{[]byte{0x20}, []byte("replace2")},
		}
		tr1.Collapse(1)
		tr2.Collapse(1)
		key := makeStorageKey(tr1.root.(*BranchNode).Children[2].Hash())
		tr1.Store.Delete(key)
		tr2.Store.Delete(key)
		testIncompletePut(t, ps, 1, tr1, tr2)
	})
}

func TestTrie_PutBatchEmpty(t *testing.T) {
	t.Run("good", func(t *testing.T) {
		tr1 := NewTrie(EmptyNode{}, ModeAll, newTestStore())
		tr2 := NewTrie(EmptyNode{}, ModeAll, newTestStore())
		var ps = pairs{
			{[]byte{0}, []byte("value0")},
			{[]byte{1}, []byte("value1")},
			{[]byte{3}, []byte("value3")},
		}
		testPut(t, ps, tr1, tr2)
	})
	t.Run("incomplete", func(t *testing.T) {
		var ps = pairs{
			{[]byte{0}, []byte("replace0")},
			{[]byte{1}, []byte("replace1")},
			{[]byte{2}, nil},
			{[]byte{3}, []byte("replace3")},
		}
		tr1 := NewTrie(EmptyNode{}, ModeAll, newTestStore())
		tr2 := NewTrie(EmptyNode{}, ModeAll, newTestStore())
		testIncompletePut(t, ps, 4, tr1, tr2)
	})
}

// For the sake of coverage.
func TestTrie_InvalidNodeType(t *testing.T) {
	tr := NewTrie(EmptyNode{}, ModeAll, newTestStore())
	var b = Batch{kv: []keyValue{{
		key:   []byte{0, 1},
		value: []byte("value"),
	}}}
	tr.root = Node(nil)
	require.Panics(t, func() { _, _ = tr.PutBatch(b) })
}

func TestTrie_PutBatch(t *testing.T) {
	tr1 := NewTrie(EmptyNode{}, ModeAll, newTestStore())
	tr2 := NewTrie(EmptyNode{}, ModeAll, newTestStore())
	var ps = pairs{
		{[]byte{1}, []byte{1}},
		{[]byte{2}, []byte{3}},
		{[]byte{4}, []byte{5}},
	}
	testPut(t, ps, tr1, tr2)

	ps = pairs{[2][]byte{{4}, {6}}}
	testPut(t, ps, tr1, tr2)

	ps = pairs{[2][]byte{{4}, nil}}
	testPut(t, ps, tr1, tr2)

	testPut(t, pairs{}, tr1, tr2)
}

var _ = printNode

// This function is unused, but is helpful for debugging
// as it provides more readable Trie representation compared to
// `spew.Dump()`.
func printNode(prefix string, n Node) {
	switch tn := n.(type) {
	case EmptyNode:
		fmt.Printf("%s empty\n", prefix)
		return
	case *HashNode:
		fmt.Printf("%s %s\n", prefix, tn.Hash().StringLE())
	case *BranchNode:
		for i, c := range tn.Children {
			if isEmpty(c) {
				continue
			}
			fmt.Printf("%s [%2d] ->\n", prefix, i)
			printNode(prefix+" ", c)
		}
	case *ExtensionNode:
		fmt.Printf("%s extension-> %s\n", prefix, hex.EncodeToString(tn.key))
		printNode(prefix+" ", tn.next)
	case *LeafNode:
		fmt.Printf("%s leaf-> %s\n", prefix, hex.EncodeToString(tn.value))
	}
}
