/*
Package mpt implements MPT (Merkle-Patricia Trie).

An MPT stores key-value pairs and is a trie over 16-symbol alphabet. https://en.wikipedia.org/wiki/Trie
A trie is a tree where values are stored in leafs and keys are paths from the root to the leaf node.
An MPT consists of 4 types of nodes:
  - Leaf node only contains a value.
  - Extension node contains both a key and a value.
  - Branch node contains 2 or more children.
  - Hash node is a compressed node and only contains the actual node's hash.
    The actual node must be retrieved from the storage or over the network.

As an example here is a trie containing 3 pairs:
- 0x1201 -> val1
- 0x1203 -> val2
- 0x1224 -> val3
- 0x12 -> val4

	ExtensionNode(0x0102), Next
	 _______________________|
	 |
	BranchNode [0, 1, 2, ...], Last -> Leaf(val4)
	            |     |
	            |     ExtensionNode [0x04], Next -> Leaf(val3)
	            |
	            BranchNode [0, 1, 2, 3, ...], Last -> HashNode(nil)
	                           |     |
	                           |     Leaf(val2)
	                           |
	                           Leaf(val1)

There are 3 invariants that this implementation has:
- Branch node cannot have <= 1 children
- Extension node cannot have a zero-length key
- Extension node cannot have another Extension node in its next field

Thanks to these restrictions, there is a single root hash for every set of key-value pairs
irregardless of the order they were added/removed in.
The actual trie structure can vary because of node -> HashNode compressing.

There is also one optimization which cost us almost nothing in terms of complexity but is quite beneficial:
When we perform get/put/delete on a specific path, every Hash node which was retrieved from the storage is
replaced by its uncompressed form, so that subsequent hits of this don't need to access the storage.
*/
package mpt
