package mpt

import (
	"fmt"

	"github.com/nspcc-dev/neo-go/pkg/crypto/hash"
	"github.com/nspcc-dev/neo-go/pkg/io"
	"github.com/nspcc-dev/neo-go/pkg/util"
)

var errTooManyNodes = fmt.Errorf("too many nodes")

// BaseNode implements basic things every node needs like caching hash and
// serialized representation. It's a basic node building block intended to be
// included into all node types.
type BaseNode struct {
	hash       util.Uint256
	bytes      []byte
	hashValid  bool
	bytesValid bool
}

// BaseNodeIface abstracts away basic Node functions.
type BaseNodeIface interface {
	Hash() util.Uint256
	Type() NodeType
	Bytes() []byte
}

type flushedNode interface {
	setCache([]byte, util.Uint256)
}

func (b *BaseNode) setCache(bs []byte, h util.Uint256) {
	b.bytes = bs
	b.hash = h
	b.bytesValid = true
	b.hashValid = true
}

// getHash returns the hash of this BaseNode.
func (b *BaseNode) getHash(n Node) util.Uint256 {
	if !b.hashValid {
		b.updateHash(n)
	}
	return b.hash
}

// getBytes returns a slice of bytes representing this node.
func (b *BaseNode) getBytes(n Node) []byte {
	if !b.bytesValid {
		b.updateBytes(n)
	}
	return b.bytes
}

// updateHash updates the hash field for this BaseNode.
func (b *BaseNode) updateHash(n Node) {
	if n.Type() == HashT || n.Type() == EmptyT {
		panic("can't update hash for empty or hash node")
	}
	b.hash = hash.DoubleSha256(b.getBytes(n))
	b.hashValid = true
}

// updateBytes updates the hash and bytes fields for this BaseNode.
func (b *BaseNode) updateBytes(n Node) {
	bw := io.NewBufBinWriter()
	bw.Grow(1 + n.Size())
	encodeNodeWithType(n, bw.BinWriter)
	b.bytes = bw.Bytes()
	b.bytesValid = true
}

// invalidateCache sets all cache fields to invalid state.
func (b *BaseNode) invalidateCache() {
	b.bytesValid = false
	b.hashValid = false
}

func encodeBinaryAsChild(n Node, w *io.BinWriter) {
	if isEmpty(n) {
		w.WriteB(byte(EmptyT))
		return
	}
	w.WriteB(byte(HashT))
	w.WriteBytes(n.Hash().BytesBE())
}

// encodeNodeWithType encodes the node together with its type.
func encodeNodeWithType(n Node, w *io.BinWriter) {
	w.WriteB(byte(n.Type()))
	n.EncodeBinary(w)
}

// DecodeNodeWithType decodes the node together with its type.
func DecodeNodeWithType(r *io.BinReader, depth int) Node {
	if r.Err != nil {
		return nil
	}
	if depth > maxPathLength {
		r.Err = errTooManyNodes
		return nil
	}
	var n Node
	switch typ := NodeType(r.ReadB()); typ {
	case BranchT:
		n = new(BranchNode)
	case ExtensionT:
		n = new(ExtensionNode)
	case HashT:
		n = &HashNode{
			BaseNode: BaseNode{
				hashValid: true,
			},
		}
	case LeafT:
		n = new(LeafNode)
	case EmptyT:
		n = EmptyNode{}
	default:
		r.Err = fmt.Errorf("invalid node type: %x", typ)
		return nil
	}
	n.decodeBinaryWithDepth(r, depth)
	return n
}
