package mpt

import (
	"testing"

	"github.com/nspcc-dev/neo-go/internal/random"
	"github.com/nspcc-dev/neo-go/pkg/core/storage"
	"github.com/stretchr/testify/require"
)

func newTestStore() *storage.MemCachedStore {
	return storage.NewMemCachedStore(storage.NewMemoryStore())
}

func newTestTrie(t *testing.T) *Trie {
	b := NewBranchNode()

	l1 := NewLeafNode([]byte{0xAB, 0xCD})
	b.Children[0] = NewExtensionNode([]byte{0x01}, l1)

	l3 := NewLeafNode([]byte{})
	b.Children[1] = NewExtensionNode([]byte{0x03}, l3)

	l2 := NewLeafNode([]byte{0x22, 0x22})
	b.Children[9] = NewExtensionNode([]byte{0x09}, l2)

	v := NewLeafNode([]byte("hello"))
	h := NewHashNode(v.Hash())
	b.Children[10] = NewExtensionNode([]byte{0x0e}, h)

	e := NewExtensionNode(toNibbles([]byte{0xAC}), b)
	tr := NewTrie(e, ModeAll, newTestStore())

	tr.putToStore(e)
	tr.putToStore(b)
	tr.putToStore(l1)
	tr.putToStore(l2)
	tr.putToStore(l3)
	tr.putToStore(v)
	tr.putToStore(b.Children[0])
	tr.putToStore(b.Children[1])
	tr.putToStore(b.Children[9])
	tr.putToStore(b.Children[10])

	return tr
}

func testTrieRefcount(t *testing.T, key1, key2 []byte) {
	tr := NewTrie(nil, ModeLatest, storage.NewMemCachedStore(storage.NewMemoryStore()))
	require.NoError(t, tr.Put(key1, []byte{1}))
	tr.Flush(0)
	require.NoError(t, tr.Put(key2, []byte{1}))
	tr.Flush(0)
	tr.testHas(t, key1, []byte{1})
	tr.testHas(t, key2, []byte{1})

	// remove first, keep second
	require.NoError(t, tr.Delete(key1))
	tr.Flush(0)
	tr.testHas(t, key1, nil)
	tr.testHas(t, key2, []byte{1})

	// no-op
	require.NoError(t, tr.Put(key1, []byte{1}))
	require.NoError(t, tr.Delete(key1))
	tr.Flush(0)
	tr.testHas(t, key1, nil)
	tr.testHas(t, key2, []byte{1})

	// delete non-existent, refcount should not be updated
	require.NoError(t, tr.Delete(key1))
	tr.Flush(0)
	tr.testHas(t, key1, nil)
	tr.testHas(t, key2, []byte{1})
}

func TestTrie_Refcount(t *testing.T) {
	t.Run("Leaf", func(t *testing.T) {
		testTrieRefcount(t, []byte{0x11}, []byte{0x12})
	})
	t.Run("Extension", func(t *testing.T) {
		testTrieRefcount(t, []byte{0x10, 11}, []byte{0x11, 12})
	})
}

func TestTrie_PutIntoBranchNode(t *testing.T) {
	check := func(t *testing.T, value []byte) {
		b := NewBranchNode()
		l := NewLeafNode([]byte{0x8})
		b.Children[0x7] = NewHashNode(l.Hash())
		b.Children[0x8] = NewHashNode(random.Uint256())
		tr := NewTrie(b, ModeAll, newTestStore())

		// empty hash node child
		require.NoError(t, tr.Put([]byte{0x66}, value))
		tr.testHas(t, []byte{0x66}, value)
		require.True(t, isValid(tr.root))

		// missing hash
		require.Error(t, tr.Put([]byte{0x70}, value))
		require.True(t, isValid(tr.root))

		// hash is in store
		tr.putToStore(l)
		require.NoError(t, tr.Put([]byte{0x70}, value))
		require.True(t, isValid(tr.root))
	}

	t.Run("non-empty value", func(t *testing.T) {
		check(t, []byte{0x42})
	})
	t.Run("empty value", func(t *testing.T) {
		check(t, []byte{})
	})
}

func TestTrie_PutIntoExtensionNode(t *testing.T) {
	check := func(t *testing.T, value []byte) {
		l := NewLeafNode([]byte{0x11})
		key := []byte{0x12}
		e := NewExtensionNode(toNibbles(key), NewHashNode(l.Hash()))
		tr := NewTrie(e, ModeAll, newTestStore())

		// missing hash
		require.Error(t, tr.Put(key, value))

		tr.putToStore(l)
		require.NoError(t, tr.Put(key, value))
		tr.testHas(t, key, value)
		require.True(t, isValid(tr.root))
	}

	t.Run("non-empty value", func(t *testing.T) {
		check(t, []byte{0x42})
	})
	t.Run("empty value", func(t *testing.T) {
		check(t, []byte{})
	})
}

func TestTrie_PutIntoHashNode(t *testing.T) {
	check := func(t *testing.T, value []byte) {
		b := NewBranchNode()
		l := NewLeafNode(random.Bytes(5))
		e := NewExtensionNode([]byte{0x02}, l)
		b.Children[1] = NewHashNode(e.Hash())
		b.Children[9] = NewHashNode(random.Uint256())
		tr := NewTrie(b, ModeAll, newTestStore())

		tr.putToStore(e)

		t.Run("MissingLeafHash", func(t *testing.T) {
			_, err := tr.Get([]byte{0x12})
			require.Error(t, err)
		})

		tr.putToStore(l)

		require.NoError(t, tr.Put([]byte{0x12, 0x34}, value))
		tr.testHas(t, []byte{0x12, 0x34}, value)
		tr.testHas(t, []byte{0x12}, l.value)
		require.True(t, isValid(tr.root))
	}

	t.Run("non-empty value", func(t *testing.T) {
		val := random.Bytes(3)
		check(t, val)
	})
	t.Run("empty value", func(t *testing.T) {
		check(t, []byte{})
	})
}

func TestTrie_Put(t *testing.T) {
	trExp := newTestTrie(t)

	trAct := NewTrie(nil, ModeAll, newTestStore())
	require.NoError(t, trAct.Put([]byte{0xAC, 0x01}, []byte{0xAB, 0xCD}))
	require.NoError(t, trAct.Put([]byte{0xAC, 0x13}, []byte{}))
	require.NoError(t, trAct.Put([]byte{0xAC, 0x99}, []byte{0x22, 0x22}))
	require.NoError(t, trAct.Put([]byte{0xAC, 0xAE}, []byte("hello")))

	// Note: the exact tries differ because of ("acae":"hello") node is stored as Hash node in test trie.
	require.Equal(t, trExp.root.Hash(), trAct.root.Hash())
	require.True(t, isValid(trAct.root))
}

func TestTrie_PutInvalid(t *testing.T) {
	tr := NewTrie(nil, ModeAll, newTestStore())
	key, value := []byte("key"), []byte("value")

	// empty key
	require.Error(t, tr.Put(nil, value))

	// big key
	require.Error(t, tr.Put(make([]byte, maxPathLength+1), value))

	// big value
	require.Error(t, tr.Put(key, make([]byte, MaxValueLength+1)))

	// this is ok though
	require.NoError(t, tr.Put(key, value))
	tr.testHas(t, key, value)
}

func TestTrie_BigPut(t *testing.T) {
	tr := NewTrie(nil, ModeAll, newTestStore())
	items := []struct{ k, v string }{
		{"item with long key", "value1"},
		{"item with matching prefix", "value2"},
		{"another prefix", "value3"},
		{"another prefix 2", "value4"},
		{"another ", "value5"},
	}

	for i := range items {
		require.NoError(t, tr.Put([]byte(items[i].k), []byte(items[i].v)))
	}

	for i := range items {
		tr.testHas(t, []byte(items[i].k), []byte(items[i].v))
	}

	t.Run("Rewrite", func(t *testing.T) {
		k, v := []byte(items[0].k), []byte{0x01, 0x23}
		require.NoError(t, tr.Put(k, v))
		tr.testHas(t, k, v)
	})

	t.Run("Rewrite to empty", func(t *testing.T) {
		k, v := []byte(items[0].k), []byte{}
		require.NoError(t, tr.Put(k, v))
		tr.testHas(t, k, v)
	})

	t.Run("Remove", func(t *testing.T) {
		k := []byte(items[1].k)
		require.NoError(t, tr.Delete(k))
		tr.testHas(t, k, nil)
	})
}

func (tr *Trie) putToStore(n Node) {
	if n.Type() == HashT {
		panic("can't put hash node in trie")
	}
	if tr.mode.RC() {
		tr.refcount[n.Hash()] = &cachedNode{
			bytes:    n.Bytes(),
			refcount: 1,
		}
		tr.updateRefCount(n.Hash(), makeStorageKey(n.Hash()), 0)
	} else {
		tr.Store.Put(makeStorageKey(n.Hash()), n.Bytes())
	}
}

func (tr *Trie) testHas(t *testing.T, key, value []byte) {
	v, err := tr.Get(key)
	if value == nil {
		require.Error(t, err)
		return
	}
	require.NoError(t, err)
	require.Equal(t, value, v)
}

// isValid checks for 3 invariants:
// - BranchNode contains > 1 children
// - ExtensionNode do not contain another extension node
// - ExtensionNode do not have nil key
// It is used only during testing to catch possible bugs.
func isValid(curr Node) bool {
	switch n := curr.(type) {
	case *BranchNode:
		var count int
		for i := range n.Children {
			if !isValid(n.Children[i]) {
				return false
			}
			if !isEmpty(n.Children[i]) {
				count++
			}
		}
		return count > 1
	case *ExtensionNode:
		_, ok := n.next.(*ExtensionNode)
		return len(n.key) != 0 && !ok
	default:
		return true
	}
}

func TestTrie_Get(t *testing.T) {
	t.Run("HashNode", func(t *testing.T) {
		tr := newTestTrie(t)
		tr.testHas(t, []byte{0xAC, 0xAE}, []byte("hello"))
	})
	t.Run("UnfoldRoot", func(t *testing.T) {
		tr := newTestTrie(t)
		single := NewTrie(NewHashNode(tr.root.Hash()), ModeAll, tr.Store)
		single.testHas(t, []byte{0xAC}, nil)
		single.testHas(t, []byte{0xAC, 0x01}, []byte{0xAB, 0xCD})
		single.testHas(t, []byte{0xAC, 0x99}, []byte{0x22, 0x22})
		single.testHas(t, []byte{0xAC, 0xAE}, []byte("hello"))
	})
}

func TestTrie_Flush(t *testing.T) {
	pairs := map[string][]byte{
		"x":    []byte("value0"),
		"key1": []byte("value1"),
		"key2": []byte("value2"),
	}

	tr := NewTrie(nil, ModeAll, newTestStore())
	for k, v := range pairs {
		require.NoError(t, tr.Put([]byte(k), v))
	}

	tr.Flush(0)
	tr = NewTrie(NewHashNode(tr.StateRoot()), ModeAll, tr.Store)
	for k, v := range pairs {
		actual, err := tr.Get([]byte(k))
		require.NoError(t, err)
		require.Equal(t, v, actual)
	}
}

func TestTrie_Delete(t *testing.T) {
	t.Run("No GC", func(t *testing.T) {
		testTrieDelete(t, false)
	})
	t.Run("With GC", func(t *testing.T) {
		testTrieDelete(t, true)
	})
}

func testTrieDelete(t *testing.T, enableGC bool) {
	var mode TrieMode
	if enableGC {
		mode = ModeLatest
	}
	t.Run("Hash", func(t *testing.T) {
		t.Run("FromStore", func(t *testing.T) {
			l := NewLeafNode([]byte{0x12})
			tr := NewTrie(NewHashNode(l.Hash()), mode, newTestStore())
			t.Run("NotInStore", func(t *testing.T) {
				require.Error(t, tr.Delete([]byte{}))
			})

			tr.putToStore(l)
			tr.testHas(t, []byte{}, []byte{0x12})
			require.NoError(t, tr.Delete([]byte{}))
			tr.testHas(t, []byte{}, nil)
		})

		t.Run("Empty", func(t *testing.T) {
			tr := NewTrie(nil, mode, newTestStore())
			require.NoError(t, tr.Delete([]byte{}))
		})
	})

	t.Run("Leaf", func(t *testing.T) {
		check := func(t *testing.T, value []byte) {
			l := NewLeafNode(value)
			tr := NewTrie(l, mode, newTestStore())
			t.Run("NonExistentKey", func(t *testing.T) {
				require.NoError(t, tr.Delete([]byte{0x12}))
				tr.testHas(t, []byte{}, value)
			})
			require.NoError(t, tr.Delete([]byte{}))
			tr.testHas(t, []byte{}, nil)
		}
		t.Run("non-empty value", func(t *testing.T) {
			check(t, []byte{0x12, 0x34})
		})
		t.Run("empty value", func(t *testing.T) {
			check(t, []byte{})
		})
	})

	t.Run("Extension", func(t *testing.T) {
		t.Run("SingleKey", func(t *testing.T) {
			check := func(t *testing.T, value []byte) {
				l := NewLeafNode(value)
				e := NewExtensionNode([]byte{0x0A, 0x0B}, l)
				tr := NewTrie(e, mode, newTestStore())

				t.Run("NonExistentKey", func(t *testing.T) {
					require.NoError(t, tr.Delete([]byte{}))
					tr.testHas(t, []byte{0xAB}, value)
				})

				require.NoError(t, tr.Delete([]byte{0xAB}))
				require.IsType(t, EmptyNode{}, tr.root)
			}
			t.Run("non-empty value", func(t *testing.T) {
				check(t, []byte{0x12, 0x34})
			})
			t.Run("empty value", func(t *testing.T) {
				check(t, []byte{})
			})
		})

		t.Run("MultipleKeys", func(t *testing.T) {
			check := func(t *testing.T, value []byte) {
				b := NewBranchNode()
				b.Children[0] = NewExtensionNode([]byte{0x01}, NewLeafNode(value))
				b.Children[6] = NewExtensionNode([]byte{0x07}, NewLeafNode([]byte{0x56, 0x78}))
				e := NewExtensionNode([]byte{0x01, 0x02}, b)
				tr := NewTrie(e, mode, newTestStore())

				h := e.Hash()
				require.NoError(t, tr.Delete([]byte{0x12, 0x01}))
				tr.testHas(t, []byte{0x12, 0x01}, nil)
				tr.testHas(t, []byte{0x12, 0x67}, []byte{0x56, 0x78})

				require.NotEqual(t, h, tr.root.Hash())
				require.Equal(t, toNibbles([]byte{0x12, 0x67}), e.key)
				require.IsType(t, (*LeafNode)(nil), e.next)
			}
			t.Run("non-empty value", func(t *testing.T) {
				check(t, []byte{0x12, 0x34})
			})
			t.Run("empty value", func(t *testing.T) {
				check(t, []byte{})
			})
		})
	})

	t.Run("Branch", func(t *testing.T) {
		t.Run("3 Children", func(t *testing.T) {
			check := func(t *testing.T, value []byte) {
				b := NewBranchNode()
				b.Children[lastChild] = NewLeafNode([]byte{0x12})
				b.Children[0] = NewExtensionNode([]byte{0x01}, NewLeafNode([]byte{0x34}))
				b.Children[1] = NewExtensionNode([]byte{0x06}, NewLeafNode(value))
				tr := NewTrie(b, mode, newTestStore())
				require.NoError(t, tr.Delete([]byte{0x16}))
				tr.testHas(t, []byte{}, []byte{0x12})
				tr.testHas(t, []byte{0x01}, []byte{0x34})
				tr.testHas(t, []byte{0x16}, nil)
			}
			t.Run("non-empty value", func(t *testing.T) {
				check(t, []byte{0x56})
			})
			t.Run("empty value", func(t *testing.T) {
				check(t, []byte{})
			})
		})
		t.Run("2 Children", func(t *testing.T) {
			t.Run("DeleteLast", func(t *testing.T) {
				t.Run("MergeExtension", func(t *testing.T) {
					check := func(t *testing.T, value []byte) {
						b := NewBranchNode()
						b.Children[lastChild] = NewLeafNode(value)
						l := NewLeafNode([]byte{0x34})
						e := NewExtensionNode([]byte{0x06}, l)
						b.Children[5] = NewHashNode(e.Hash())
						tr := NewTrie(b, mode, newTestStore())
						tr.putToStore(l)
						tr.putToStore(e)
						require.NoError(t, tr.Delete([]byte{}))
						tr.testHas(t, []byte{}, nil)
						tr.testHas(t, []byte{0x56}, []byte{0x34})
						require.IsType(t, (*ExtensionNode)(nil), tr.root)
					}
					t.Run("non-empty value", func(t *testing.T) {
						check(t, []byte{0x12})
					})
					t.Run("empty value", func(t *testing.T) {
						check(t, []byte{})
					})

					t.Run("WithHash, branch node replaced", func(t *testing.T) {
						check := func(t *testing.T, value []byte) {
							ch := NewLeafNode([]byte{5, 6})
							h := ch.Hash()

							b := NewBranchNode()
							b.Children[3] = NewExtensionNode([]byte{4}, NewLeafNode(value))
							b.Children[lastChild] = NewHashNode(h)

							tr := NewTrie(NewExtensionNode([]byte{1, 2}, b), mode, newTestStore())
							tr.putToStore(ch)

							require.NoError(t, tr.Delete([]byte{0x12, 0x34}))
							tr.testHas(t, []byte{0x12, 0x34}, nil)
							tr.testHas(t, []byte{0x12}, []byte{5, 6})
							require.IsType(t, (*ExtensionNode)(nil), tr.root)
							require.Equal(t, h, tr.root.(*ExtensionNode).next.Hash())
						}
						t.Run("non-empty value", func(t *testing.T) {
							check(t, []byte{1, 2, 3})
						})
						t.Run("empty value", func(t *testing.T) {
							check(t, []byte{})
						})
					})
				})

				t.Run("LeaveLeaf", func(t *testing.T) {
					check := func(t *testing.T, value []byte) {
						c := NewBranchNode()
						c.Children[5] = NewLeafNode([]byte{0x05})
						c.Children[6] = NewLeafNode([]byte{0x06})

						b := NewBranchNode()
						b.Children[lastChild] = NewLeafNode(value)
						b.Children[5] = c
						tr := NewTrie(b, mode, newTestStore())

						require.NoError(t, tr.Delete([]byte{}))
						tr.testHas(t, []byte{}, nil)
						tr.testHas(t, []byte{0x55}, []byte{0x05})
						tr.testHas(t, []byte{0x56}, []byte{0x06})
						require.IsType(t, (*ExtensionNode)(nil), tr.root)
					}
					t.Run("non-empty value", func(t *testing.T) {
						check(t, []byte{0x12})
					})
					t.Run("empty value", func(t *testing.T) {
						check(t, []byte{})
					})
				})
			})

			t.Run("DeleteMiddle", func(t *testing.T) {
				check := func(t *testing.T, value []byte) {
					b := NewBranchNode()
					b.Children[lastChild] = NewLeafNode([]byte{0x12})
					l := NewLeafNode(value)
					e := NewExtensionNode([]byte{0x06}, l)
					b.Children[5] = NewHashNode(e.Hash())
					tr := NewTrie(b, mode, newTestStore())
					tr.putToStore(l)
					tr.putToStore(e)
					require.NoError(t, tr.Delete([]byte{0x56}))
					tr.testHas(t, []byte{}, []byte{0x12})
					tr.testHas(t, []byte{0x56}, nil)
					require.IsType(t, (*LeafNode)(nil), tr.root)
				}
				t.Run("non-empty value", func(t *testing.T) {
					check(t, []byte{0x34})
				})
				t.Run("empty value", func(t *testing.T) {
					check(t, []byte{})
				})
			})
		})
	})
}

func TestTrie_PanicInvalidRoot(t *testing.T) {
	tr := &Trie{Store: newTestStore()}
	require.Panics(t, func() { _ = tr.Put([]byte{1}, []byte{2}) })
	require.Panics(t, func() { _, _ = tr.Get([]byte{1}) })
	require.Panics(t, func() { _ = tr.Delete([]byte{1}) })
}

func TestTrie_Collapse(t *testing.T) {
	t.Run("PanicNegative", func(t *testing.T) {
		tr := newTestTrie(t)
		require.Panics(t, func() { tr.Collapse(-1) })
	})
	t.Run("Depth=0", func(t *testing.T) {
		tr := newTestTrie(t)
		h := tr.root.Hash()

		_, ok := tr.root.(*HashNode)
		require.False(t, ok)

		tr.Collapse(0)
		_, ok = tr.root.(*HashNode)
		require.True(t, ok)
		require.Equal(t, h, tr.root.Hash())
	})
	t.Run("Branch,Depth=1", func(t *testing.T) {
		b := NewBranchNode()
		e := NewExtensionNode([]byte{0x01}, NewLeafNode([]byte("value1")))
		he := e.Hash()
		b.Children[0] = e
		hb := b.Hash()

		tr := NewTrie(b, ModeAll, newTestStore())
		tr.Collapse(1)

		newb, ok := tr.root.(*BranchNode)
		require.True(t, ok)
		require.Equal(t, hb, newb.Hash())
		require.IsType(t, (*HashNode)(nil), b.Children[0])
		require.Equal(t, he, b.Children[0].Hash())
	})
	t.Run("Extension,Depth=1", func(t *testing.T) {
		l := NewLeafNode([]byte("value"))
		hl := l.Hash()
		e := NewExtensionNode([]byte{0x01}, l)
		h := e.Hash()
		tr := NewTrie(e, ModeAll, newTestStore())
		tr.Collapse(1)

		newe, ok := tr.root.(*ExtensionNode)
		require.True(t, ok)
		require.Equal(t, h, newe.Hash())
		require.IsType(t, (*HashNode)(nil), newe.next)
		require.Equal(t, hl, newe.next.Hash())
	})
	t.Run("Leaf", func(t *testing.T) {
		l := NewLeafNode([]byte("value"))
		tr := NewTrie(l, ModeAll, newTestStore())
		tr.Collapse(10)
		require.Equal(t, NewLeafNode([]byte("value")), tr.root)
	})
	t.Run("Empty Leaf", func(t *testing.T) {
		l := NewLeafNode([]byte{})
		tr := NewTrie(l, ModeAll, newTestStore())
		tr.Collapse(10)
		require.Equal(t, NewLeafNode([]byte{}), tr.root)
	})
	t.Run("Hash", func(t *testing.T) {
		t.Run("EmptyNode", func(t *testing.T) {
			tr := NewTrie(EmptyNode{}, ModeAll, newTestStore())
			require.NotPanics(t, func() { tr.Collapse(1) })
			_, ok := tr.root.(EmptyNode)
			require.True(t, ok)
		})

		h := random.Uint256()
		hn := NewHashNode(h)
		tr := NewTrie(hn, ModeAll, newTestStore())
		tr.Collapse(10)

		newRoot, ok := tr.root.(*HashNode)
		require.True(t, ok)
		require.Equal(t, NewHashNode(h), newRoot)
	})
}

func TestTrie_Seek(t *testing.T) {
	tr := newTestTrie(t)
	t.Run("extension", func(t *testing.T) {
		check := func(t *testing.T, prefix []byte) {
			_, res, prefix, err := tr.getWithPath(tr.root, prefix, false)
			require.NoError(t, err)
			require.Equal(t, []byte{0x0A, 0x0C}, prefix)
			require.Equal(t, BranchT, res.Type()) // extension's next is branch
		}
		t.Run("seek prefix points to extension", func(t *testing.T) {
			check(t, []byte{})
		})
		t.Run("seek prefix is a part of extension key", func(t *testing.T) {
			check(t, []byte{0x0A})
		})
		t.Run("seek prefix match extension key", func(t *testing.T) {
			check(t, []byte{0x0A, 0x0C}) // path to extension's next
		})
	})
	t.Run("branch", func(t *testing.T) {
		t.Run("seek prefix points to branch", func(t *testing.T) {
			_, res, prefix, err := tr.getWithPath(tr.root, []byte{0x0A, 0x0C}, false)
			require.NoError(t, err)
			require.Equal(t, []byte{0x0A, 0x0C}, prefix)
			require.Equal(t, BranchT, res.Type())
		})
		t.Run("seek prefix points to empty branch child", func(t *testing.T) {
			_, _, _, err := tr.getWithPath(tr.root, []byte{0x0A, 0x0C, 0x02}, false)
			require.Error(t, err)
		})
		t.Run("seek prefix points to non-empty branch child", func(t *testing.T) {
			_, res, prefix, err := tr.getWithPath(tr.root, []byte{0x0A, 0x0C, 0x01}, false)
			require.NoError(t, err)
			require.Equal(t, []byte{0x0A, 0x0C, 0x01, 0x03}, prefix)
			require.Equal(t, LeafT, res.Type())
		})
	})
	t.Run("leaf", func(t *testing.T) {
		t.Run("seek prefix points to leaf", func(t *testing.T) {
			_, res, prefix, err := tr.getWithPath(tr.root, []byte{0x0A, 0x0C, 0x01, 0x03}, false)
			require.NoError(t, err)
			require.Equal(t, []byte{0x0A, 0x0C, 0x01, 0x03}, prefix)
			require.Equal(t, LeafT, res.Type())
		})
	})
	t.Run("hash", func(t *testing.T) {
		t.Run("seek prefix points to hash", func(t *testing.T) {
			_, res, prefix, err := tr.getWithPath(tr.root, []byte{0x0A, 0x0C, 0x0A, 0x0E}, false)
			require.NoError(t, err)
			require.Equal(t, []byte{0x0A, 0x0C, 0x0A, 0x0E}, prefix)
			require.Equal(t, LeafT, res.Type())
		})
	})
}
