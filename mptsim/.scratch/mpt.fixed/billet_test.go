package mpt

import (
	"encoding/binary"
	"testing"

	"github.com/nspcc-dev/neo-go/pkg/core/storage"
	"github.com/nspcc-dev/neo-go/pkg/io"
	"github.com/nspcc-dev/neo-go/pkg/util"
	"github.com/stretchr/testify/require"
)

func TestBillet_RestoreHashNode(t *testing.T) {
	check := func(t *testing.T, tr *Billet, expectedRoot Node, expectedNode Node, expectedRefCount uint32) {
		_ = expectedRoot.Hash()
		_ = tr.root.Hash()
		require.Equal(t, expectedRoot, tr.root)
		expectedBytes, err := tr.Store.Get(makeStorageKey(expectedNode.Hash()))
		if expectedRefCount != 0 {
			require.NoError(t, err)
			require.Equal(t, expectedRefCount, binary.LittleEndian.Uint32(expectedBytes[len(expectedBytes)-4:]))
		} else {
			require.ErrorIs(t, err, storage.ErrKeyNotFound)
		}
	}

	t.Run("parent is Extension", func(t *testing.T) {
		t.Run("restore Branch", func(t *testing.T) {
			b := NewBranchNode()
			b.Children[0] = NewExtensionNode([]byte{0x01}, NewLeafNode([]byte{0xAB, 0xCD}))
			b.Children[5] = NewExtensionNode([]byte{0x01}, NewLeafNode([]byte{0xAB, 0xDE}))
			path := toNibbles([]byte{0xAC})
			e := NewExtensionNode(path, NewHashNode(b.Hash()))
			tr := NewBillet(e.Hash(), ModeLatest, storage.STTempStorage, newTestStore())
			tr.root = e

			// OK
			n := new(NodeObject)
			n.DecodeBinary(io.NewBinReaderFromBuf(b.Bytes()))
			require.NoError(t, tr.RestoreHashNode(path, n.Node))
			expected := NewExtensionNode(path, n.Node)
			check(t, tr, expected, n.Node, 1)

			// One more time (already restored) => panic expected, no refcount changes
			require.Panics(t, func() {
				_ = tr.RestoreHashNode(path, n.Node)
			})
			check(t, tr, expected, n.Node, 1)

			// Same path, but wrong hash => error expected, no refcount changes
			require.ErrorIs(t, tr.RestoreHashNode(path, NewBranchNode()), ErrRestoreFailed)
			check(t, tr, expected, n.Node, 1)

			// New path (changes in the MPT structure are not allowed) => error expected, no refcount changes
			require.ErrorIs(t, tr.RestoreHashNode(toNibbles([]byte{0xAB}), n.Node), ErrRestoreFailed)
			check(t, tr, expected, n.Node, 1)
		})

		t.Run("restore Leaf", func(t *testing.T) {
			l := NewLeafNode([]byte{0xAB, 0xCD})
			path := toNibbles([]byte{0xAC})
			e := NewExtensionNode(path, NewHashNode(l.Hash()))
			tr := NewBillet(e.Hash(), ModeLatest, storage.STTempStorage, newTestStore())
			tr.root = e

			// OK
			require.NoError(t, tr.RestoreHashNode(path, l))
			expected := NewHashNode(e.Hash()) // leaf should be collapsed immediately => extension should also be collapsed
			expected.Collapsed = true
			check(t, tr, expected, l, 1)

			// One more time (already restored and collapsed) => error expected, no refcount changes
			require.Error(t, tr.RestoreHashNode(path, l))
			check(t, tr, expected, l, 1)

			// Same path, but wrong hash => error expected, no refcount changes
			require.ErrorIs(t, tr.RestoreHashNode(path, NewLeafNode([]byte{0xAB, 0xEF})), ErrRestoreFailed)
			check(t, tr, expected, l, 1)

			// New path (changes in the MPT structure are not allowed) => error expected, no refcount changes
			require.ErrorIs(t, tr.RestoreHashNode(toNibbles([]byte{0xAB}), l), ErrRestoreFailed)
			check(t, tr, expected, l, 1)
		})

		t.Run("restore Hash", func(t *testing.T) {
			h := NewHashNode(util.Uint256{1, 2, 3})
			path := toNibbles([]byte{0xAC})
			e := NewExtensionNode(path, h)
			tr := NewBillet(e.Hash(), ModeLatest, storage.STTempStorage, newTestStore())
			tr.root = e

			// no-op
			require.ErrorIs(t, tr.RestoreHashNode(path, h), ErrRestoreFailed)
			check(t, tr, e, h, 0)
		})
	})

	t.Run("parent is Leaf", func(t *testing.T) {
		l := NewLeafNode([]byte{0xAB, 0xCD})
		path := []byte{}
		tr := NewBillet(l.Hash(), ModeLatest, storage.STTempStorage, newTestStore())
		tr.root = l

		// Already restored => panic expected
		require.Panics(t, func() {
			_ = tr.RestoreHashNode(path, l)
		})

		// Same path, but wrong hash => error expected, no refcount changes
		require.ErrorIs(t, tr.RestoreHashNode(path, NewLeafNode([]byte{0xAB, 0xEF})), ErrRestoreFailed)

		// Non-nil path, but MPT structure can't be changed => error expected, no refcount changes
		require.ErrorIs(t, tr.RestoreHashNode(toNibbles([]byte{0xAC}), NewLeafNode([]byte{0xAB, 0xEF})), ErrRestoreFailed)
	})

	t.Run("parent is Branch", func(t *testing.T) {
		t.Run("middle child", func(t *testing.T) {
			l1 := NewLeafNode([]byte{0xAB, 0xCD})
			l2 := NewLeafNode([]byte{0xAB, 0xDE})
			b := NewBranchNode()
			b.Children[5] = NewHashNode(l1.Hash())
			b.Children[lastChild] = NewHashNode(l2.Hash())
			tr := NewBillet(b.Hash(), ModeLatest, storage.STTempStorage, newTestStore())
			tr.root = b

			// OK
			path := []byte{0x05}
			require.NoError(t, tr.RestoreHashNode(path, l1))
			check(t, tr, b, l1, 1)

			// One more time (already restored) => panic expected.
			// It's an MPT pool duty to avoid such situations during real restore process.
			require.Panics(t, func() {
				_ = tr.RestoreHashNode(path, l1)
			})
			// No refcount changes expected.
			check(t, tr, b, l1, 1)

			// Same path, but wrong hash => error expected, no refcount changes
			require.ErrorIs(t, tr.RestoreHashNode(path, NewLeafNode([]byte{0xAD})), ErrRestoreFailed)
			check(t, tr, b, l1, 1)

			// New path pointing to the empty HashNode (changes in the MPT structure are not allowed) => error expected, no refcount changes
			require.ErrorIs(t, tr.RestoreHashNode([]byte{0x01}, l1), ErrRestoreFailed)
			check(t, tr, b, l1, 1)
		})

		t.Run("last child", func(t *testing.T) {
			l1 := NewLeafNode([]byte{0xAB, 0xCD})
			l2 := NewLeafNode([]byte{0xAB, 0xDE})
			b := NewBranchNode()
			b.Children[5] = NewHashNode(l1.Hash())
			b.Children[lastChild] = NewHashNode(l2.Hash())
			tr := NewBillet(b.Hash(), ModeLatest, storage.STTempStorage, newTestStore())
			tr.root = b

			// OK
			path := []byte{}
			require.NoError(t, tr.RestoreHashNode(path, l2))
			check(t, tr, b, l2, 1)

			// One more time (already restored) => panic expected.
			// It's an MPT pool duty to avoid such situations during real restore process.
			require.Panics(t, func() {
				_ = tr.RestoreHashNode(path, l2)
			})
			// No refcount changes expected.
			check(t, tr, b, l2, 1)

			// Same path, but wrong hash => error expected, no refcount changes
			require.ErrorIs(t, tr.RestoreHashNode(path, NewLeafNode([]byte{0xAD})), ErrRestoreFailed)
			check(t, tr, b, l2, 1)
		})

		t.Run("two children with same hash", func(t *testing.T) {
			l := NewLeafNode([]byte{0xAB, 0xCD})
			b := NewBranchNode()
			// two same hashnodes => leaf's refcount expected to be 2 in the end.
			b.Children[3] = NewHashNode(l.Hash())
			b.Children[4] = NewHashNode(l.Hash())
			tr := NewBillet(b.Hash(), ModeLatest, storage.STTempStorage, newTestStore())
			tr.root = b

			// OK
			require.NoError(t, tr.RestoreHashNode([]byte{0x03}, l))
			expected := b
			expected.Children[3].(*HashNode).Collapsed = true
			check(t, tr, b, l, 1)

			// Restore another node with the same hash => no error expected, refcount should be incremented.
			// Branch node should be collapsed.
			require.NoError(t, tr.RestoreHashNode([]byte{0x04}, l))
			res := NewHashNode(b.Hash())
			res.Collapsed = true
			check(t, tr, res, l, 2)
		})
	})

	t.Run("parent is Hash", func(t *testing.T) {
		l := NewLeafNode([]byte{0xAB, 0xCD})
		b := NewBranchNode()
		b.Children[3] = NewHashNode(l.Hash())
		b.Children[4] = NewHashNode(l.Hash())
		tr := NewBillet(b.Hash(), ModeLatest, storage.STTempStorage, newTestStore())

		// Should fail, because if it's a hash node with non-empty path, then the node
		// has already been collapsed.
		require.Error(t, tr.RestoreHashNode([]byte{0x03}, l))
	})
}
