package mpt

import (
	"testing"

	"github.com/nspcc-dev/neo-go/pkg/core/storage"
	"github.com/nspcc-dev/neo-go/pkg/crypto/hash"
	"github.com/stretchr/testify/require"
)

func newProofTrie(t *testing.T, missingHashNode bool) *Trie {
	l := NewLeafNode([]byte("somevalue"))
	e := NewExtensionNode([]byte{0x05, 0x06, 0x07}, l)
	l2 := NewLeafNode([]byte("invalid"))
	e2 := NewExtensionNode([]byte{0x05}, NewHashNode(l2.Hash()))
	b := NewBranchNode()
	b.Children[4] = NewHashNode(e.Hash())
	b.Children[5] = e2

	tr := NewTrie(b, ModeAll, newTestStore())
	require.NoError(t, tr.Put([]byte{0x12, 0x31}, []byte("value1")))
	require.NoError(t, tr.Put([]byte{0x12, 0x32}, []byte("value2")))
	tr.putToStore(l)
	tr.putToStore(e)
	if !missingHashNode {
		tr.putToStore(l2)
	}
	return tr
}

func TestTrie_GetProof(t *testing.T) {
	tr := newProofTrie(t, true)

	t.Run("MissingKey", func(t *testing.T) {
		_, err := tr.GetProof([]byte{0x12})
		require.Error(t, err)
	})

	t.Run("Valid", func(t *testing.T) {
		_, err := tr.GetProof([]byte{0x12, 0x31})
		require.NoError(t, err)
	})

	t.Run("MissingHashNode", func(t *testing.T) {
		_, err := tr.GetProof([]byte{0x55})
		require.Error(t, err)
	})
}

func TestVerifyProof(t *testing.T) {
	tr := newProofTrie(t, true)

	t.Run("Simple", func(t *testing.T) {
		proof, err := tr.GetProof([]byte{0x12, 0x32})
		require.NoError(t, err)

		t.Run("Good", func(t *testing.T) {
			v, ok := VerifyProof(tr.root.Hash(), []byte{0x12, 0x32}, proof)
			require.True(t, ok)
			require.Equal(t, []byte("value2"), v)
		})

		t.Run("Bad", func(t *testing.T) {
			_, ok := VerifyProof(tr.root.Hash(), []byte{0x12, 0x31}, proof)
			require.False(t, ok)
		})
	})

	t.Run("InsideHash", func(t *testing.T) {
		key := []byte{0x45, 0x67}
		proof, err := tr.GetProof(key)
		require.NoError(t, err)

		v, ok := VerifyProof(tr.root.Hash(), key, proof)
		require.True(t, ok)
		require.Equal(t, []byte("somevalue"), v)
	})

	// Ref. https://github.com/neo-project/neo-node/pull/1067.
	t.Run("malicious nested node compat", func(t *testing.T) {
		const depth = 10_000
		var (
			proof  = make([]byte, depth*3+1)
			offset int
		)
		for range depth { // large chain of Extension nodes, each with an empty key...
			proof[offset] = 0x01
			offset++
			proof[offset] = 0x00
			offset++
		}
		proof[offset] = 0x04 // ... pointing to an Empty node...
		offset++
		for range depth { // ... not sure why we need these extra zero bytes in the end.
			proof[offset] = 0x00
			offset++
		}
		root := hash.DoubleSha256(proof)
		_, ok := VerifyProof(root, []byte{0x00}, [][]byte{proof})
		require.False(t, ok)

		// Ensure the error is expected.
		tr := NewTrie(NewHashNode(root), ModeAll, storage.NewMemCachedStore(storage.NewMemoryStore()))
		tr.Store.Put(makeStorageKey(root), proof)
		_, _, _, err := tr.getWithPath(tr.root, []byte{0x00, 0x00}, true)
		require.ErrorIs(t, err, errTooManyNodes)
	})
}
