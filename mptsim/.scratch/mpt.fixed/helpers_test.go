package mpt

import (
	"testing"

	"github.com/nspcc-dev/neo-go/pkg/util"
	"github.com/stretchr/testify/require"
)

func TestToNibblesFromNibbles(t *testing.T) {
	check := func(t *testing.T, expected []byte) {
		actual := fromNibbles(toNibbles(expected))
		require.Equal(t, expected, actual)
	}
	t.Run("empty path", func(t *testing.T) {
		check(t, []byte{})
	})
	t.Run("non-empty path", func(t *testing.T) {
		check(t, []byte{0x01, 0xAC, 0x8d, 0x04, 0xFF})
	})
}

func TestGetChildrenPaths(t *testing.T) {
	h1 := NewHashNode(util.Uint256{1, 2, 3})
	h2 := NewHashNode(util.Uint256{4, 5, 6})
	h3 := NewHashNode(util.Uint256{7, 8, 9})
	l := NewLeafNode([]byte{1, 2, 3})
	ext1 := NewExtensionNode([]byte{8, 9}, h1)
	ext2 := NewExtensionNode([]byte{7, 6}, l)
	branch := NewBranchNode()
	branch.Children[3] = h1
	branch.Children[5] = l
	branch.Children[6] = h1 // 3-th and 6-th children have the same hash
	branch.Children[7] = h3
	branch.Children[lastChild] = h2
	testCases := map[string]struct {
		node     Node
		expected map[util.Uint256][][]byte
	}{
		"Hash":                         {h1, nil},
		"Leaf":                         {l, nil},
		"Extension with next Hash":     {ext1, map[util.Uint256][][]byte{h1.Hash(): {ext1.key}}},
		"Extension with next non-Hash": {ext2, map[util.Uint256][][]byte{}},
		"Branch": {branch, map[util.Uint256][][]byte{
			h1.Hash(): {{0x03}, {0x06}},
			h2.Hash(): {{}},
			h3.Hash(): {{0x07}},
		}},
	}
	parentPath := []byte{4, 5, 6}
	for name, testCase := range testCases {
		t.Run(name, func(t *testing.T) {
			require.Equal(t, testCase.expected, GetChildrenPaths([]byte{}, testCase.node))
			if testCase.expected != nil {
				expectedWithPrefix := make(map[util.Uint256][][]byte, len(testCase.expected))
				for h, paths := range testCase.expected {
					var res [][]byte
					for _, path := range paths {
						res = append(res, append(parentPath, path...))
					}
					expectedWithPrefix[h] = res
				}
				require.Equal(t, expectedWithPrefix, GetChildrenPaths(parentPath, testCase.node))
			}
		})
	}
}
