package mpt

import (
	"encoding/json"
	"testing"

	"github.com/nspcc-dev/neo-go/internal/random"
	"github.com/nspcc-dev/neo-go/internal/testserdes"
	"github.com/nspcc-dev/neo-go/pkg/io"
	"github.com/stretchr/testify/assert"
	"github.com/stretchr/testify/require"
)

func getTestFuncEncode(ok bool, expected, actual Node) func(t *testing.T) {
	return func(t *testing.T) {
		t.Run("IO", func(t *testing.T) {
			bs, err := testserdes.EncodeBinary(expected)
			require.NoError(t, err)
			if hn, ok := actual.(*HashNode); ok {
				hn.hashValid = true // this field is set during NodeObject decoding
			}
			r := io.NewBinReaderFromBuf(bs)
			actual.decodeBinaryWithDepth(r, 0)
			if !ok {
				require.Error(t, r.Err)
				return
			}
			require.NoError(t, r.Err)
			require.Equal(t, expected.Type(), actual.Type())
			require.Equal(t, expected.Hash(), actual.Hash())
			require.Equal(t, 1+expected.Size(), len(expected.Bytes()))
		})
		t.Run("JSON", func(t *testing.T) {
			bs, err := json.Marshal(expected)
			require.NoError(t, err)
			err = json.Unmarshal(bs, actual)
			if !ok {
				require.Error(t, err)
				return
			}
			require.NoError(t, err)
			require.Equal(t, expected.Type(), actual.Type())
			require.Equal(t, expected.Hash(), actual.Hash())
		})
	}
}

func TestNode_Serializable(t *testing.T) {
	t.Run("Leaf", func(t *testing.T) {
		t.Run("Good", func(t *testing.T) {
			l := NewLeafNode(random.Bytes(123))
			t.Run("Raw", getTestFuncEncode(true, l, new(LeafNode)))
			t.Run("WithType", getTestFuncEncode(true, &NodeObject{l}, new(NodeObject)))
		})
		t.Run("BigValue", getTestFuncEncode(false,
			NewLeafNode(random.Bytes(MaxValueLength+1)), new(LeafNode)))
	})

	t.Run("Extension", func(t *testing.T) {
		t.Run("Good", func(t *testing.T) {
			e := NewExtensionNode(random.Bytes(42), NewLeafNode(random.Bytes(10)))
			t.Run("Raw", getTestFuncEncode(true, e, new(ExtensionNode)))
			t.Run("WithType", getTestFuncEncode(true, &NodeObject{e}, new(NodeObject)))
		})
		t.Run("BigKey", getTestFuncEncode(false,
			NewExtensionNode(random.Bytes(maxPathLength+1), NewLeafNode(random.Bytes(10))), new(ExtensionNode)))
	})

	t.Run("Branch", func(t *testing.T) {
		b := NewBranchNode()
		b.Children[0] = NewLeafNode(random.Bytes(10))
		b.Children[lastChild] = NewHashNode(random.Uint256())
		t.Run("Raw", getTestFuncEncode(true, b, new(BranchNode)))
		t.Run("WithType", getTestFuncEncode(true, &NodeObject{b}, new(NodeObject)))
	})

	t.Run("Hash", func(t *testing.T) {
		t.Run("Good", func(t *testing.T) {
			h := NewHashNode(random.Uint256())
			t.Run("Raw", getTestFuncEncode(true, h, new(HashNode)))
			t.Run("WithType", getTestFuncEncode(true, &NodeObject{h}, new(NodeObject)))
		})
		t.Run("InvalidSize", func(t *testing.T) {
			buf := io.NewBufBinWriter()
			buf.WriteBytes(make([]byte, 13))
			r := io.NewBinReaderFromBuf(buf.Bytes())
			hn := &HashNode{BaseNode: BaseNode{hashValid: true}}
			hn.decodeBinaryWithDepth(r, 0)
			require.Error(t, r.Err)
		})
	})

	t.Run("Invalid", func(t *testing.T) {
		require.Error(t, testserdes.DecodeBinary([]byte{0xFF}, new(NodeObject)))
	})
}

// https://github.com/neo-project/neo/blob/neox-2.x/neo.UnitTests/UT_MPTTrie.cs#L198
func TestJSONSharp(t *testing.T) {
	tr := NewTrie(nil, ModeAll, newTestStore())
	require.NoError(t, tr.Put([]byte{0xac, 0x11}, []byte{0xac, 0x11}))
	require.NoError(t, tr.Put([]byte{0xac, 0x22}, []byte{0xac, 0x22}))
	require.NoError(t, tr.Put([]byte{0xac}, []byte{0xac}))
	require.NoError(t, tr.Delete([]byte{0xac, 0x11}))
	require.NoError(t, tr.Delete([]byte{0xac, 0x22}))

	js, err := tr.root.MarshalJSON()
	require.NoError(t, err)
	require.JSONEq(t, `{"key":"0a0c", "next":{"value":"ac"}}`, string(js))
}

func TestInvalidJSON(t *testing.T) {
	t.Run("InvalidChildrenCount", func(t *testing.T) {
		var cs [childrenCount + 1]Node
		for i := range cs {
			cs[i] = EmptyNode{}
		}
		data, err := json.Marshal(cs)
		require.NoError(t, err)

		var n NodeObject
		require.Error(t, json.Unmarshal(data, &n))
	})

	testCases := []struct {
		name string
		data []byte
	}{
		{"WrongFieldCount", []byte(`{"key":"0102", "next": {}, "field": {}}`)},
		{"InvalidField1", []byte(`{"next":{}}`)},
		{"InvalidField2", []byte(`{"key":"0102", "hash":{}}`)},
		{"InvalidKey", []byte(`{"key":"xy", "next":{}}`)},
		{"InvalidNext", []byte(`{"key":"01", "next":[]}`)},
		{"InvalidHash", []byte(`{"hash":"01"}`)},
		{"InvalidValue", []byte(`{"value":1}`)},
		{"InvalidBranch", []byte(`[0, 1, 2, 3, 4, 5, 6, 7, 8, 9, 10, 11, 12, 13, 14, 15, 16]`)},
	}
	for _, tc := range testCases {
		var n NodeObject
		assert.Errorf(t, json.Unmarshal(tc.data, &n), "no error in "+tc.name)
	}
}

// C# interoperability test
// https://github.com/neo-project/neo/blob/neox-2.x/neo.UnitTests/UT_MPTTrie.cs#L135
func TestRootHash(t *testing.T) {
	b := NewBranchNode()
	r := NewExtensionNode([]byte{0x0A, 0x0C}, b)

	v1 := NewLeafNode([]byte{0xAB, 0xCD})
	l1 := NewExtensionNode([]byte{0x01}, v1)
	b.Children[0] = l1

	v2 := NewLeafNode([]byte{0x22, 0x22})
	l2 := NewExtensionNode([]byte{0x09}, v2)
	b.Children[9] = l2

	r1 := NewExtensionNode([]byte{0x0A, 0x0C, 0x00, 0x01}, v1)
	require.Equal(t, "cedd9897dd1559fbd5dfe5cfb223464da6de438271028afb8d647e950cbd18e0", r1.Hash().StringLE())
	require.Equal(t, "1037e779c8a0313bd0d99c4151fa70a277c43c53a549b6444079f2e67e8ffb7b", r.Hash().StringLE())
}
