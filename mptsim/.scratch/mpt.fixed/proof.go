package mpt

import (
	"bytes"
	"errors"

	"github.com/nspcc-dev/neo-go/pkg/core/storage"
	"github.com/nspcc-dev/neo-go/pkg/crypto/hash"
	"github.com/nspcc-dev/neo-go/pkg/util"
)

// GetProof returns a proof that the key belongs to t.
// The proof consists of serialized nodes occurring on the path from the root to the leaf of key.
func (t *Trie) GetProof(key []byte) ([][]byte, error) {
	var proof [][]byte
	if len(key) > MaxKeyLength {
		return nil, errors.New("key is too big")
	}
	path := toNibbles(key)
	r, err := t.getProof(t.root, path, &proof)
	if err != nil {
		return proof, err
	}
	t.root = r
	return proof, nil
}

func (t *Trie) getProof(curr Node, path []byte, proofs *[][]byte) (Node, error) {
	switch n := curr.(type) {
	case *LeafNode:
		if len(path) == 0 {
			*proofs = append(*proofs, bytes.Clone(n.Bytes()))
			return n, nil
		}
	case *BranchNode:
		*proofs = append(*proofs, bytes.Clone(n.Bytes()))
		i, path := splitPath(path)
		r, err := t.getProof(n.Children[i], path, proofs)
		if err != nil {
			return nil, err
		}
		n.Children[i] = r
		return n, nil
	case *ExtensionNode:
		if bytes.HasPrefix(path, n.key) {
			*proofs = append(*proofs, bytes.Clone(n.Bytes()))
			r, err := t.getProof(n.next, path[len(n.key):], proofs)
			if err != nil {
				return nil, err
			}
			n.next = r
			return n, nil
		}
	case *HashNode:
		r, err := t.getFromStore(n.Hash())
		if err != nil {
			return nil, err
		}
		return t.getProof(r, path, proofs)
	}
	return nil, ErrNotFound
}

// VerifyProof verifies that path indeed belongs to a MPT with the specified root hash.
// It also returns the value for the key.
func VerifyProof(rh util.Uint256, key []byte, proofs [][]byte) ([]byte, bool) {
	path := toNibbles(key)
	tr := NewTrie(NewHashNode(rh), ModeAll, storage.NewMemCachedStore(storage.NewMemoryStore()))
	for i := range proofs {
		h := hash.DoubleSha256(proofs[i])
		tr.Store.Put(makeStorageKey(h), proofs[i])
	}
	_, leaf, _, err := tr.getWithPath(tr.root, path, true)
	if err != nil {
		return nil, false
	}
	return bytes.Clone(leaf.(*LeafNode).value), true
}
