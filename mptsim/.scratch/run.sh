#!/bin/bash
# usage: run.sh BIN PROP SEED BUDGET KNOWN
cd /verif
VERIF_KNOWN=$5 VERIF_PROP=$2 VERIF_SEED=$3 VERIF_BUDGET_S=$4 VERIF_TIER=${TIER:-quick} VERIF_OUT=mptsim/.scratch/out.$2.$3.json VERIF_REPLAY=mptsim/.scratch/rep.$2.$3.json $1 -test.run '^TestEngine$' -test.cpu 1 2>&1 | grep -v "^PASS\|^WORKER e"
if [ -f mptsim/.scratch/rep.$2.$3.json ]; then python3 -c "
import json
r=json.load(open('mptsim/.scratch/rep.$2.$3.json'))
print(r['sig']); print(r['msg'][:900]); print(json.dumps(r['plan'])); print('\n'.join(r['trace'][-25:]))"; fi
