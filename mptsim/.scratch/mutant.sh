#!/bin/bash
# usage: mutant.sh NAME PROP FILE 'python-old' 'python-new'
cd /verif/mptsim/.scratch
python3 - "$3" "$4" "$5" <<'PY'
import sys
f,old,new=sys.argv[1:4]
s=open(f).read()
assert s.count(old)>=1, "pattern not found"
open(f,'w').write(s.replace(old,new,1))
PY
[ $? -ne 0 ] && exit 1
cd /verif
export GOFLAGS=-mod=mod GOPROXY=off GOSUMDB=off GOTOOLCHAIN=local
go1.26.8 test -modfile=mptsim/.scratch/alt.mod -c -tags verif -o mptsim/.scratch/mut.test ./mptsim || exit 1
rm -f mptsim/.scratch/rep.$2.77.json
echo "### mutant $1 ($2)"
VERIF_KNOWN=mptsim/.scratch/k5.json VERIF_PROP=$2 VERIF_SEED=77 VERIF_BUDGET_S=30 VERIF_OUT=mptsim/.scratch/out.mut.json VERIF_REPLAY=mptsim/.scratch/rep.$2.77.json mptsim/.scratch/mut.test -test.run '^TestEngine$' -test.cpu 1 2>&1 | grep "FOUND\|WORKER-DONE\|HARNESS"
# restore
rm -rf mptsim/.scratch/repo/pkg/core/mpt && cp -r mptsim/.scratch/mpt.fixed mptsim/.scratch/repo/pkg/core/mpt && cp mptsim/.scratch/module.go.orig mptsim/.scratch/repo/pkg/core/stateroot/module.go
