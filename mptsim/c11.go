package mptsim

import (
	"bytes"
	"encoding/hex"
	"fmt"
	"strings"

	"github.com/nspcc-dev/neo-go/pkg/config"
	"github.com/nspcc-dev/neo-go/pkg/core/mpt"
	"github.com/nspcc-dev/neo-go/pkg/core/state"
	"github.com/nspcc-dev/neo-go/pkg/core/stateroot"
	"github.com/nspcc-dev/neo-go/pkg/core/storage"
	"github.com/nspcc-dev/neo-go/pkg/io"
	"github.com/nspcc-dev/neo-go/pkg/util"
	"go.uber.org/zap"
	"pgregory.net/rapid"

	"verif/sim"
)

// C11: trie node storage stays exact under reference counting and GC.
//
// The per-block life cycle of blockchain.go's storeBlock is reproduced on the
// public API of stateroot.Module:
//
//	cache := private layer over dao            (bc.dao.GetPrivate())
//	tr, sr := mod.AddMPTBatch(index, batch, cache)
//	if persistedHeight == index-1 { tr.Collapse(10) }
//	-- drop here = "computed but never committed" --
//	dao.PersistPrivate(cache); tr.Store = dao; mod.UpdateCurrentLocal(tr, sr)
//
// dao is a MemCachedStore over the bottom MemoryStore; "persist" flushes dao
// into the bottom store (bc.persist), GC runs on the bottom store
// (tryRunGC -> stateRoot.GC(tgt, bc.store)).

// C11Block is one block of a C11 run.
type C11Block struct {
	Items   []Item `json:"items,omitempty"`
	Wipe    int    `json:"wipe,omitempty"`    // n>0: delete every present key under wipe prefix n-1
	Drop    bool   `json:"drop,omitempty"`    // compute the block, never commit it (honoured only when the plan enables drops)
	Persist bool   `json:"persist,omitempty"` // flush dao to the bottom store after the block
	// MidPersist: the persist routine (Run loop, another goroutine in the node)
	// flushes dao to the bottom store while storeBlock is between AddMPTBatch and
	// PersistPrivate, i.e. before this block's own changes are merged into dao.
	MidPersist bool `json:"mid_persist,omitempty"`
	GC         int  `json:"gc,omitempty"`      // n>0 (ModeGC): GC(persisted-(n-1)) after the block
	Restart    int  `json:"restart,omitempty"` // 1 clean (persist first), 2 crash (unpersisted layer lost)
	Reads      int  `json:"reads,omitempty"`   // reads through the module API after the block
}

// C11Plan is a whole C11 run.
type C11Plan struct {
	Mode  int       `json:"mode"` // 0 KeepOnlyLatestState, 1 RemoveUntraceableBlocks, 2 both
	Keys  []string  `json:"keys"`
	Vals  []ValSpec `json:"vals"`
	Wipes []string  `json:"wipes"`           // hex prefixes for whole-prefix wipes
	Depth int       `json:"depth,omitempty"` // 0: Collapse(10) as in storeBlock; n>0: Collapse(n-1)
	Drops bool      `json:"drops,omitempty"` // plan option: dropped blocks enabled
	// plan option: persist inside storeBlock's AddMPTBatch..PersistPrivate window enabled
	MidPersists bool       `json:"mid_persists,omitempty"`
	Blocks      []C11Block `json:"blocks"`
	Tape        []uint32   `json:"tape,omitempty"`
	FullHist    bool       `json:"full_hist,omitempty"` // walk every retained height after every block (else only the latest, all of them at GC/restart/end)
}

var c11Groups = [][]byte{{0xa1}, {0xa1, 0x10}, {0xa2}, {0xb0, 0x00, 0x01}}
var c11Suffixes = [][]byte{{}, {0x01}, {0x02}, {0x11}, {0x01, 0x01}, {0x22, 0x22}, {0x10}}

func drawC11(rt *rapid.T, tier string) *C11Plan {
	p := &C11Plan{}
	p.Mode = rapid.IntRange(0, 2).Draw(rt, "mode")
	maxKeys, maxBlocks := 12, 12
	if tier == "thorough" {
		maxKeys, maxBlocks = 20, 36
	}
	nk := rapid.IntRange(2, maxKeys).Draw(rt, "nkeys")
	seen := map[string]bool{}
	for i := 0; i < nk; i++ {
		g := c11Groups[rapid.IntRange(0, len(c11Groups)-1).Draw(rt, "group")]
		s := c11Suffixes[rapid.IntRange(0, len(c11Suffixes)-1).Draw(rt, "suffix")]
		k := append(append([]byte{}, g...), s...)
		if !seen[string(k)] {
			seen[string(k)] = true
			p.Keys = append(p.Keys, hex.EncodeToString(k))
		}
	}
	for _, g := range c11Groups {
		p.Wipes = append(p.Wipes, hex.EncodeToString(g))
	}
	nkeys := len(p.Keys)
	p.Vals = []ValSpec{{N: 2, B: 'v'}, {N: 3, B: 'w'}, {N: 0, B: 0}, {N: 40, B: 'x'}}
	nv := rapid.IntRange(1, len(p.Vals)).Draw(rt, "nvals")
	p.Vals = p.Vals[:nv]
	p.Depth = rapid.IntRange(0, 3).Draw(rt, "depth")
	p.Drops = rapid.IntRange(0, 7).Draw(rt, "drops") == 7
	p.MidPersists = rapid.IntRange(0, 3).Draw(rt, "midpersists") == 3
	p.FullHist = rapid.IntRange(0, 3).Draw(rt, "fullhist") == 3
	itemGen := rapid.Custom(func(t *rapid.T) Item {
		v := rapid.IntRange(0, nv+1).Draw(t, "iv")
		if v >= nv {
			v = -1
		}
		return Item{Key: rapid.IntRange(0, nkeys-1).Draw(t, "ik"), Val: v}
	})
	blockGen := rapid.Custom(func(rt *rapid.T) C11Block {
		b := C11Block{}
		b.Items = rapid.SliceOfN(itemGen, 0, 5).Draw(rt, "items")
		if len(b.Items) == 0 {
			b.Items = nil
		}
		if rapid.IntRange(0, 7).Draw(rt, "wipe") == 7 {
			b.Wipe = rapid.IntRange(1, len(p.Wipes)).Draw(rt, "wipepfx")
		}
		if p.Drops {
			b.Drop = rapid.IntRange(0, 3).Draw(rt, "drop") == 3
		}
		b.Persist = rapid.IntRange(0, 2).Draw(rt, "persist") != 0
		b.MidPersist = p.MidPersists && rapid.IntRange(0, 3).Draw(rt, "midpersist") == 3
		if p.Mode != 0 && rapid.IntRange(0, 3).Draw(rt, "gc") == 3 {
			b.GC = rapid.IntRange(1, 6).Draw(rt, "gcback")
		}
		switch rapid.IntRange(0, 11).Draw(rt, "restart") {
		case 10:
			b.Restart = 1
		case 11:
			b.Restart = 2
		}
		b.Reads = rapid.IntRange(0, 3).Draw(rt, "reads")
		return b
	})
	p.Blocks = rapid.SliceOfN(blockGen, 1, maxBlocks).Draw(rt, "blocks")
	p.Tape = drawTape(rt, 80)
	return p
}

// diskStore makes the bottom MemoryStore behave like a disk backend: Get hands
// out a copy. MemoryStore.Get returns its internal slice and
// (*Trie).updateRefCount rewrites the slice it got from Get in place, which
// with a bare MemoryStore would change "persisted" records before any persist
// and make the crash restart meaningless.
type diskStore struct{ *storage.MemoryStore }

func (d diskStore) Get(k []byte) ([]byte, error) {
	v, err := d.MemoryStore.Get(k)
	return bytes.Clone(v), err
}

// genesisKey is put by block 0 and never touched again: on a real chain the
// state trie is never empty after genesis (native contract storage).
var genesisKey = []byte{0xfe, 0x01}

type c11 struct {
	p      *C11Plan
	out    *sim.Outcome
	log    *sim.Log
	tape   *sim.Tape
	cfg    config.Blockchain
	mode   mpt.TrieMode
	keys   [][]byte
	vals   [][]byte
	wipes  [][]byte
	bottom diskStore
	dao    *storage.MemCachedStore
	mod    *stateroot.Module

	height    int // height of the last committed block, -1: none
	persisted int // height whose effects are in the bottom store, -1: none
	gcMax     int // highest GC target so far, -1: none
	models    map[int]map[string][]byte
	roots     map[int]util.Uint256
	reach     map[int]map[util.Uint256]bool // node hashes under root h
	// droppedSince: a block was computed and dropped since the module was
	// last built; the in-memory trie is then documented as possibly
	// half-applied (storeBlock), see DESIGN.md C11 "dropped-block sub-case".
	droppedSince bool
	dropDetail   string
	// midTaint: a persist ran inside a block's AddMPTBatch..PersistPrivate
	// window; violations of such runs carry the suffix "+persist-inside-block".
	midTaint bool
}

func runC11(p *C11Plan) *sim.Outcome {
	c := &c11{p: p, out: sim.NewOutcome(), log: sim.NewLog(3000), tape: sim.NewTape(p.Tape),
		height: -1, persisted: -1, gcMax: -1,
		models: map[int]map[string][]byte{}, roots: map[int]util.Uint256{}, reach: map[int]map[util.Uint256]bool{}}
	switch p.Mode {
	case 0:
		c.cfg.KeepOnlyLatestState = true
	case 1:
		c.cfg.RemoveUntraceableBlocks = true
	default:
		c.cfg.KeepOnlyLatestState = true
		c.cfg.RemoveUntraceableBlocks = true
	}
	c.mode = mpt.ModeLatest
	if c.cfg.RemoveUntraceableBlocks {
		c.mode = mpt.ModeGC
	}
	c.keys = decodeKeys(p.Keys)
	if len(c.keys) == 0 {
		c.keys = [][]byte{{0xa1}}
	}
	for _, v := range p.Vals {
		if v.N < 0 || v.N > 1000 {
			v.N = 1
		}
		c.vals = append(c.vals, v.bytes())
	}
	if len(c.vals) == 0 {
		c.vals = [][]byte{{'v'}}
	}
	for _, w := range p.Wipes {
		b, err := hex.DecodeString(w)
		if err != nil {
			sim.Harnessf("bad wipe prefix %q", w)
		}
		c.wipes = append(c.wipes, b)
	}
	c.bottom = diskStore{storage.NewMemoryStore()}
	c.log.Addf("c11 mode=%d(%#x) keys=%d vals=%d blocks=%d depth=%d drops=%v", p.Mode, byte(c.mode), len(c.keys), len(c.vals), len(p.Blocks), p.Depth, p.Drops)

	v := c.run()
	if v != nil && c.droppedSince && v.Class != "harness" {
		// DESIGN.md C11: a failure after a dropped block is reported as a probe only.
		c.out.Probes["dropped_block_divergence"]++
		c.out.Probes["dropped_block_divergence/"+v.Class]++
		// only the class is logged: after a drop the trie's own map-ordered Flush
		// decides which node trips first, so the message is not a function of the plan
		c.log.Addf("PROBE dropped-block divergence: %s", v.Class)
		c.dropDetail = v.Sig + ": " + firstLine(v.Msg)
		v = nil
	}
	if v != nil && c.midTaint && v.Class != "harness" {
		v.Sig += "+persist-inside-block"
	}
	sum := map[string]any{"prop": "C11", "mode": p.Mode, "keys": len(c.keys), "blocks": len(p.Blocks), "height": c.height, "drops": p.Drops, "mid_persists": p.MidPersists}
	if c.dropDetail != "" {
		sum["dropped_block_divergence"] = c.dropDetail
	}
	c.out.Summary = sum
	if r, ok := c.roots[c.height]; ok {
		c.out.StateHash = sim.HashBytes(0, r[:])
	}
	c.out.StateHash = sim.HashString(c.out.StateHash, fmt.Sprintf("h=%d p=%d g=%d", c.height, c.persisted, c.gcMax))
	return finish(c.out, c.log, v)
}

func (c *c11) newModule(height int) *sim.Violation {
	c.dao = storage.NewMemCachedStore(c.bottom)
	c.droppedSince = false
	var err error
	h := uint32(0)
	if height > 0 {
		h = uint32(height)
	}
	if v := sim.Recover(func() {
		c.mod = stateroot.NewModule(c.cfg, nil, zap.NewNop(), c.dao)
		err = c.mod.Init(h)
	}); v != nil {
		return v
	}
	if err != nil {
		return sim.Violatef("init", "init/error", "Init(%d) failed: %v", h, err)
	}
	if height >= 0 {
		got := c.mod.CurrentLocalStateRoot()
		if got != c.roots[height] {
			return sim.Violatef("init", "init/root", "Init(%d): current local root %s, block %d produced %s", h, short(got), height, short(c.roots[height]))
		}
	}
	return nil
}

func (c *c11) run() *sim.Violation {
	if v := c.newModule(-1); v != nil {
		return v
	}
	for bi, b := range c.p.Blocks {
		if v := c.block(bi, b); v != nil {
			return v
		}
	}
	// end of run: every retained height once more
	return c.audit("end", true)
}

func (c *c11) current() map[string][]byte {
	if m, ok := c.models[c.height]; ok {
		return m
	}
	return map[string][]byte{}
}

func (c *c11) collapseDepth() int {
	if c.p.Depth <= 0 {
		return 10
	}
	return c.p.Depth - 1
}

func (c *c11) block(bi int, b C11Block) *sim.Violation {
	index := c.height + 1
	cur := c.current()
	next := map[string][]byte{}
	for k, v := range cur {
		next[k] = v
	}
	batch := map[string][]byte{}
	var desc []string
	if b.Wipe > 0 && len(c.wipes) > 0 {
		pfx := c.wipes[(b.Wipe-1)%len(c.wipes)]
		n := 0
		for _, k := range sortedKeys(cur) {
			if bytes.HasPrefix([]byte(k), pfx) {
				batch[k] = nil
				n++
			}
		}
		desc = append(desc, fmt.Sprintf("wipe(%x:%d)", pfx, n))
		if n > 1 {
			c.out.Probes["prefix_wipe"]++
		}
	}
	for _, it := range b.Items {
		ki := it.Key
		if ki < 0 {
			ki = -ki
		}
		ki %= len(c.keys)
		k := string(c.keys[ki])
		if it.Val < 0 {
			batch[k] = nil
			desc = append(desc, kname(ki)+"=del")
		} else {
			vi := it.Val % len(c.vals)
			batch[k] = c.vals[vi]
			desc = append(desc, fmt.Sprintf("%s=v%d", kname(ki), vi))
		}
	}
	if index == 0 {
		batch[string(genesisKey)] = []byte("genesis")
	}
	dels := 0
	m := map[string][]byte{}
	for k, v := range batch {
		m[string([]byte{byte(storage.STStorage)})+k] = v
		if v == nil {
			if _, had := next[k]; had {
				dels++
			}
			delete(next, k)
		} else {
			if _, had := next[k]; !had {
				// recreated after having been deleted in an earlier block?
				for h := c.height - 1; h >= 0 && h >= c.height-8; h-- {
					if old, ok := c.models[h][k]; ok && bytes.Equal(old, v) {
						c.out.Probes["delete_then_recreate"]++
						break
					}
				}
			}
			next[k] = v
		}
	}
	if dels > 0 {
		c.out.Probes["batch_with_deletes"]++
	}

	persistedU := uint32(0)
	if c.persisted > 0 {
		persistedU = uint32(c.persisted)
	}
	drop := b.Drop && c.p.Drops
	cache := storage.NewPrivateMemCachedStore(c.dao)
	var tr *mpt.Trie
	var sr *state.MPTRoot
	var err error
	collapsed := false
	if v := sim.Recover(func() {
		tr, sr, err = c.mod.AddMPTBatch(uint32(index), mpt.MapToMPTBatch(m), cache)
		if err == nil && persistedU == uint32(index)-1 {
			tr.Collapse(c.collapseDepth())
			collapsed = true
		}
	}); v != nil {
		v.Msg = fmt.Sprintf("block %d [%s]: %s", index, strings.Join(desc, " "), v.Msg)
		return v
	}
	if err != nil {
		return sim.Violatef("addmptbatch", "addmptbatch/error", "block %d [%s]: AddMPTBatch failed: %v", index, strings.Join(desc, " "), err)
	}
	if collapsed {
		c.out.Faults["collapse"]++
	}
	if b.MidPersist && c.p.MidPersists && !drop && c.height >= 0 {
		if _, err := c.dao.PersistSync(); err != nil {
			sim.Harnessf("persist: %v", err)
		}
		c.persisted = c.height
		c.midTaint = true
		c.out.Faults["persist_inside_block"]++
		c.log.Addf("   persist inside block %d -> %d", index, c.persisted)
	}
	if drop {
		c.out.Faults["dropped_block"]++
		c.droppedSince = true
		c.log.Addf("b%d index=%d [%s] -> root %s DROPPED collapse=%v", bi, index, strings.Join(desc, " "), short(sr.Root), collapsed)
		return nil
	}
	c.dao.PersistPrivate(cache)
	tr.Store = c.dao
	c.mod.UpdateCurrentLocal(tr, sr)
	c.height = index
	c.models[index] = next
	c.roots[index] = sr.Root
	c.log.Addf("b%d index=%d [%s] -> root %s collapse=%v pairs=%d", bi, index, strings.Join(desc, " "), short(sr.Root), collapsed, len(next))
	c.out.Probes["block_committed"]++
	if len(batch) == 0 {
		c.out.Probes["empty_block"]++
	}

	if v := c.audit(fmt.Sprintf("block %d", index), c.p.FullHist); v != nil {
		return v
	}

	if b.Persist {
		if v := c.persist(); v != nil {
			return v
		}
	}
	if b.GC > 0 && c.mode.GC() && c.persisted >= 0 {
		g := c.persisted - (b.GC - 1)
		if g < 0 {
			g = 0
		}
		if v := c.gc(g); v != nil {
			return v
		}
	}
	switch b.Restart {
	case 1:
		if v := c.persist(); v != nil {
			return v
		}
		if v := c.newModule(c.height); v != nil {
			return v
		}
		c.out.Faults["restart"]++
		c.log.Addf("   clean restart at %d", c.height)
		if v := c.audit("clean restart", true); v != nil {
			return v
		}
	case 2:
		lost := c.height - c.persisted
		for h := c.persisted + 1; h <= c.height; h++ {
			delete(c.models, h)
			delete(c.roots, h)
			delete(c.reach, h)
		}
		c.height = c.persisted
		if v := c.newModule(c.height); v != nil {
			return v
		}
		c.out.Faults["crash_restart"]++
		if lost > 0 {
			c.out.Probes["crash_lost_blocks"]++
		}
		c.log.Addf("   crash restart back to %d (%d blocks lost)", c.height, lost)
		if v := c.audit("crash restart", true); v != nil {
			return v
		}
	}
	for n := 0; n < b.Reads; n++ {
		if v := c.read(); v != nil {
			return v
		}
	}
	return nil
}

func (c *c11) persist() *sim.Violation {
	if _, err := c.dao.PersistSync(); err != nil {
		sim.Harnessf("persist: %v", err)
	}
	if c.persisted != c.height {
		c.out.Faults["flush"]++
	}
	c.persisted = c.height
	c.log.Addf("   persist -> %d", c.persisted)
	return nil
}

func (c *c11) gc(g int) *sim.Violation {
	before, _ := dumpMPT(c.bottom)
	if v := sim.Recover(func() { c.mod.GC(uint32(g), c.bottom) }); v != nil {
		return v
	}
	after, order := dumpMPT(c.bottom)
	if g > c.gcMax {
		c.gcMax = g
	}
	c.out.Faults["gc"]++
	removed := len(before) - len(after)
	if removed > 0 {
		c.out.Probes["gc_removed_nodes"]++
	}
	c.log.Addf("   gc(%d): %d -> %d records", g, len(before), len(after))
	for _, h := range order {
		e, err := splitEntry(after[h], true)
		if err != nil {
			return sim.Violatef("record", "record/undecodable", "after GC(%d): record %s: %v", g, short(h), err)
		}
		if !e.active && int(e.num) <= g {
			return sim.Violatef("gc", "gc/left-inactive", "after GC(%d): record %s is still there, inactive since height %d", g, short(h), e.num)
		}
	}
	return c.audit(fmt.Sprintf("gc(%d)", g), true)
}

// retainedFrom is the lowest height whose root must still be readable.
func (c *c11) retainedFrom() int {
	if !c.mode.GC() {
		return c.height
	}
	if c.gcMax > 0 {
		return c.gcMax
	}
	return 0
}

// audit is the oracle: it looks at the raw DataMPT records (all store layers
// merged, which is what the node itself reads) and compares them with an
// independent walk from the retained roots.
func (c *c11) audit(when string, allHeights bool) *sim.Violation {
	if c.height < 0 {
		return nil
	}
	recs, order := dumpMPT(c.dao)
	entries := make(map[util.Uint256]rawEntry, len(recs))
	for _, h := range order {
		e, err := splitEntry(recs[h], true)
		if err != nil {
			return sim.Violatef("record", "record/undecodable", "%s: record %s: %v", when, short(h), err)
		}
		if _, err := decodeNode(e.node); err != nil {
			return sim.Violatef("record", "record/undecodable", "%s: record %s: node bytes: %v", when, short(h), err)
		}
		// the code's own decoder must accept the record as well
		var no mpt.NodeObject
		r := io.NewBinReaderFromBuf(e.node)
		no.DecodeBinary(r)
		if r.Err != nil {
			return sim.Violatef("record", "record/undecodable", "%s: record %s rejected by mpt.NodeObject: %v", when, short(h), r.Err)
		}
		entries[h] = e
	}
	root := c.roots[c.height]
	w, werr := walk(recs, true, root)
	if werr != nil {
		return sim.Violatef("latest-"+werr.kind, "latest/"+werr.kind, "%s: latest root %s (height %d): %s", when, short(root), c.height, werr.msg)
	}
	if d := sameContents(w.leaves, c.models[c.height]); d != "" {
		return sim.Violatef("latest-contents", "latest/contents", "%s: trie under latest root %s (height %d) differs from the model: %s", when, short(root), c.height, d)
	}
	rs := make(map[util.Uint256]bool, len(w.occ))
	shared := false
	for _, h := range w.order {
		rs[h] = true
		e := entries[h]
		if !e.active {
			return sim.Violatef("refcount", "refcount/reachable-inactive", "%s: node %s is reachable from the latest root (height %d) but marked inactive since %d", when, short(h), c.height, e.num)
		}
		if int(e.num) != w.occ[h] {
			dir := "low"
			if int(e.num) > w.occ[h] {
				dir = "high"
			}
			return sim.Violatef("refcount", "refcount/count-"+dir, "%s: node %s occurs %d times in the latest trie (height %d), stored count %d", when, short(h), w.occ[h], c.height, e.num)
		}
		if w.occ[h] > 1 {
			shared = true
		}
	}
	if shared {
		c.out.Probes["shared_value_nodes"]++
	}
	c.reach[c.height] = rs
	inactive := 0
	for _, h := range order {
		if rs[h] {
			continue
		}
		e := entries[h]
		if !c.mode.GC() {
			return sim.Violatef("leak", "leak/latest-mode", "%s: record %s (active=%v num=%d) is not reachable from the latest root (height %d) in a mode keeping only the latest state", when, short(h), e.active, e.num, c.height)
		}
		if e.active {
			return sim.Violatef("leak", "leak/active-unreachable", "%s: record %s is active with count %d but not reachable from the latest root (height %d)", when, short(h), e.num, c.height)
		}
		inactive++
		d := int(e.num)
		if d > c.height {
			return sim.Violatef("inactive-height", "inactive-height/future", "%s: record %s inactive since height %d > current %d", when, short(h), d, c.height)
		}
		// the height must be the one at which the node became unreferenced
		for j := d; j <= c.height; j++ {
			if r, ok := c.reach[j]; ok && r[h] {
				return sim.Violatef("inactive-height", "inactive-height/still-used", "%s: record %s inactive since height %d but the trie of height %d uses it", when, short(h), d, j)
			}
		}
		if r, ok := c.reach[d-1]; ok && !r[h] {
			return sim.Violatef("inactive-height", "inactive-height/not-used-before", "%s: record %s inactive since height %d but the trie of height %d does not use it", when, short(h), d, d-1)
		}
	}
	if inactive > 0 {
		c.out.Probes["inactive_records_present"]++
	}
	if c.mode.GC() && allHeights {
		for h := c.retainedFrom(); h < c.height; h++ {
			rt, ok := c.roots[h]
			if !ok {
				continue
			}
			wh, werr := walk(recs, true, rt)
			if werr != nil {
				return sim.Violatef("retained-"+werr.kind, "retained/"+werr.kind, "%s: root %s of retained height %d (GC target %d, current %d): %s", when, short(rt), h, c.gcMax, c.height, werr.msg)
			}
			if d := sameContents(wh.leaves, c.models[h]); d != "" {
				return sim.Violatef("retained-contents", "retained/contents", "%s: trie of retained height %d differs from the model: %s", when, h, d)
			}
			c.out.Probes["retained_old_root_walked"]++
		}
	}
	return nil
}

// read exercises the module's read API on a tape-chosen height: a retained
// height must answer exactly, an unretained one must fail or answer exactly.
func (c *c11) read() *sim.Violation {
	if c.height < 0 {
		return nil
	}
	h := c.height - c.tape.Choose(c.height+1)
	if _, ok := c.roots[h]; !ok {
		return nil
	}
	root := c.roots[h]
	model := c.models[h]
	retained := h >= c.retainedFrom()
	ki := c.tape.Choose(len(c.keys))
	k := c.keys[ki]
	want, present := model[string(k)]
	tag := "retained"
	if !retained {
		tag = "unretained"
		c.out.Probes["unretained_root_read"]++
	}
	// GetState
	var got []byte
	var err error
	if v := sim.Recover(func() { got, err = c.mod.GetState(root, k) }); v != nil {
		v.Msg = fmt.Sprintf("GetState(root of %s height %d, %x): %s", tag, h, k, v.Msg)
		return v
	}
	c.log.Addf("   read h=%d(%s) %s -> err=%v", h, tag, kname(ki), err)
	if err == nil {
		if !present || !bytes.Equal(got, want) {
			return sim.Violatef("read", "read/"+tag+"/wrong-value", "GetState(root of height %d, %x) = %s, model of that height: %s present=%v", h, k, showVal(got), showVal(want), present)
		}
	} else if retained && present {
		return sim.Violatef("read", "read/retained/error", "GetState(root of retained height %d, %x) failed: %v", h, k, err)
	} else if !retained && present {
		c.out.Probes["unretained_root_read_fails_cleanly"]++
	}
	// GetStateProof
	var proof [][]byte
	if v := sim.Recover(func() { proof, err = c.mod.GetStateProof(root, k) }); v != nil {
		v.Msg = fmt.Sprintf("GetStateProof(root of %s height %d, %x): %s", tag, h, k, v.Msg)
		return v
	}
	if err == nil {
		val, ok := mpt.VerifyProof(root, k, proof)
		if !present || !ok || !bytes.Equal(val, want) {
			return sim.Violatef("read", "read/"+tag+"/proof", "GetStateProof(root of height %d, %x) verifies to (%s,%v), model: %s present=%v", h, k, showVal(val), ok, showVal(want), present)
		}
	} else if retained && present {
		return sim.Violatef("read", "read/retained/proof-error", "GetStateProof(root of retained height %d, %x) failed: %v", h, k, err)
	}
	// FindStates over a group prefix
	pfx := k[:1]
	var wantKV []kv
	for _, mk := range sortedKeys(model) {
		if bytes.HasPrefix([]byte(mk), pfx) {
			wantKV = append(wantKV, kv{[]byte(mk), model[mk]})
		}
	}
	var raw []storage.KeyValue
	if v := sim.Recover(func() { raw, err = c.mod.FindStates(root, pfx, nil, len(model)+1) }); v != nil {
		v.Msg = fmt.Sprintf("FindStates(root of %s height %d, %x): %s", tag, h, pfx, v.Msg)
		return v
	}
	var gotKV []kv
	for _, e := range raw {
		gotKV = append(gotKV, kv{e.Key, e.Value})
	}
	if err == nil {
		if d := diffKV(gotKV, wantKV); d != "" {
			return sim.Violatef("read", "read/"+tag+"/find", "FindStates(root of height %d, %x): %s", h, pfx, d)
		}
	} else if retained && len(wantKV) > 0 {
		return sim.Violatef("read", "read/retained/find-error", "FindStates(root of retained height %d, %x) failed: %v", h, pfx, err)
	}
	// SeekStates has no error result; on unretained roots its behaviour is
	// recorded only (see REGISTRY_ENTRY.py, level_note).
	var seekKV []kv
	pv := sim.Recover(func() {
		c.mod.SeekStates(root, pfx, func(sk, sv []byte) bool {
			seekKV = append(seekKV, kv{append(append([]byte{}, pfx...), sk...), bytes.Clone(sv)})
			return true
		})
	})
	if retained {
		if pv != nil {
			pv.Msg = fmt.Sprintf("SeekStates(root of retained height %d, %x): %s", h, pfx, pv.Msg)
			return pv
		}
		if d := diffKV(seekKV, wantKV); d != "" {
			return sim.Violatef("read", "read/retained/seek", "SeekStates(root of retained height %d, %x): %s", h, pfx, d)
		}
		return nil
	}
	if pv != nil {
		if !strings.Contains(pv.Msg, "failed to perform Seek operation on TrieStore") {
			return pv
		}
		c.out.Probes["unretained_root_seek_panics_with_error"]++
	}
	j := 0
	for _, e := range seekKV {
		for j < len(wantKV) && !bytes.Equal(wantKV[j].k, e.k) {
			j++
		}
		if j == len(wantKV) || !bytes.Equal(wantKV[j].v, e.v) {
			return sim.Violatef("read", "read/unretained/seek-wrong", "SeekStates(root of unretained height %d, %x) delivered %x=%s which the model of that height does not hold next", h, pfx, e.k, showVal(e.v))
		}
		j++
	}
	if pv == nil && len(seekKV) < len(wantKV) {
		c.out.Probes["unretained_root_seek_silently_short"]++
	}
	return nil
}
