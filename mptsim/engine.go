// Package mptsim drives the real state trie (pkg/core/mpt) and the real
// state-root module (pkg/core/stateroot) through rapid-drawn operation
// sequences and decides two properties:
//
//	C10  the trie is a canonical authenticated map (c10.go)
//	C11  node storage stays exact under reference counting and GC (c11.go)
//
// Both are sequential: no goroutine of the code under test is involved, so no
// synctest bubble is needed.
package mptsim

import (
	"bytes"
	"encoding/hex"
	"encoding/json"
	"fmt"
	"testing"

	"pgregory.net/rapid"

	"verif/sim"
)

// ValSpec describes one member of the value universe: N bytes of B.
type ValSpec struct {
	N int  `json:"n"`
	B byte `json:"b"`
}

func (v ValSpec) bytes() []byte { return bytes.Repeat([]byte{v.B}, v.N) } // N=0: empty, non-nil

// Item is one element of a batch: Val < 0 deletes.
type Item struct {
	Key int `json:"k"`
	Val int `json:"v"`
}

// Plan is a whole run of either property.
type Plan struct {
	C10 *C10Plan `json:"c10,omitempty"`
	C11 *C11Plan `json:"c11,omitempty"`
}

// Engine implements sim.Engine.
type Engine struct{}

func (Engine) Name() string { return "mptsim" }

func (Engine) Decode(raw []byte) (any, error) {
	var p Plan
	err := json.Unmarshal(raw, &p)
	return &p, err
}

func (Engine) Draw(rt *rapid.T, prop, tier string) any {
	switch prop {
	case "C10":
		return &Plan{C10: drawC10(rt, tier)}
	case "C11":
		return &Plan{C11: drawC11(rt, tier)}
	}
	sim.Harnessf("mptsim: unknown property %q", prop)
	return nil
}

func (Engine) Run(t *testing.T, prop string, planAny any) *sim.Outcome {
	p := planAny.(*Plan)
	switch prop {
	case "C10":
		if p.C10 == nil {
			sim.Harnessf("mptsim: plan has no c10 part")
		}
		return runC10(p.C10)
	case "C11":
		if p.C11 == nil {
			sim.Harnessf("mptsim: plan has no c11 part")
		}
		return runC11(p.C11)
	}
	sim.Harnessf("mptsim: unknown property %q", prop)
	return nil
}

func drawTape(rt *rapid.T, max int) []uint32 {
	t := rapid.SliceOfN(rapid.Uint32Range(0, 255), 0, max).Draw(rt, "tape")
	if len(t) == 0 {
		return nil
	}
	return t
}

func decodeKeys(hexKeys []string) [][]byte {
	var keys [][]byte
	seen := map[string]bool{}
	for _, s := range hexKeys {
		b, err := hex.DecodeString(s)
		if err != nil {
			sim.Harnessf("mptsim: bad key %q in plan", s)
		}
		if seen[string(b)] {
			continue
		}
		seen[string(b)] = true
		keys = append(keys, b)
	}
	return keys
}

// finish fills the bookkeeping fields of an outcome.
func finish(out *sim.Outcome, log *sim.Log, v *sim.Violation) *sim.Outcome {
	out.Violation = v
	out.Log = log.Lines
	out.TraceHash = log.Hash()
	out.Events = log.Count()
	return out
}

func kname(i int) string { return fmt.Sprintf("k%d", i) }
