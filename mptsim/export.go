package mptsim

import (
	"bytes"
	"fmt"
	"sort"

	"github.com/nspcc-dev/neo-go/pkg/core/storage"
	"github.com/nspcc-dev/neo-go/pkg/util"
)

// StoreAudit is the result of AuditStore.
type StoreAudit struct {
	Records   int // DataMPT records in the store
	Reachable int // distinct nodes reachable from the root
	Inactive  int // records marked inactive (ModeGC)
	Leaves    int
}

// AuditStore is the C11 reachability oracle for an arbitrary store (used by the
// ledger simulator on pruning replicas): every DataMPT record is decoded by
// hand; the trie under root is walked through the raw records; every
// reachable node must be present, decodable, hash to its key, be active and
// carry a reference count equal to its number of occurrences; when gc is
// false no other record may exist, when gc is true every other record must be
// inactive with a deactivation height <= current. want (optional) is the
// expected key -> value content of the trie. It returns a violation kind
// ("" = fine) and a description.
func AuditStore(s storage.Store, rc, gc bool, root util.Uint256, current uint32, want map[string][]byte) (StoreAudit, string, string) {
	recs, order := dumpMPT(s)
	a := StoreAudit{Records: len(recs)}
	w, werr := walk(recs, rc, root)
	if werr != nil {
		return a, "walk/" + werr.kind, fmt.Sprintf("the trie under the latest root %s is not walkable through the stored records: %s", short(root), werr.msg)
	}
	a.Reachable = len(w.occ)
	a.Leaves = len(w.leaves)
	if want != nil {
		if d := sameContents(w.leaves, want); d != "" {
			return a, "contents", "the stored trie differs from contract storage: " + d
		}
	}
	if !rc {
		return a, "", ""
	}
	for _, h := range order {
		e, err := splitEntry(recs[h], true)
		if err != nil {
			return a, "undecodable", fmt.Sprintf("record %s: %v", short(h), err)
		}
		occ := w.occ[h]
		switch {
		case occ > 0 && !e.active:
			return a, "reachable-inactive", fmt.Sprintf("node %s is reachable from the latest root but marked inactive since %d", short(h), e.num)
		case occ > 0 && int(e.num) != occ:
			return a, "refcount", fmt.Sprintf("node %s occurs %d times in the latest trie but its stored reference count is %d", short(h), occ, e.num)
		case occ == 0 && !gc:
			return a, "garbage", fmt.Sprintf("record %s (count %d, active %v) is not reachable from the latest root", short(h), e.num, e.active)
		case occ == 0 && gc && e.active:
			return a, "unreachable-active", fmt.Sprintf("record %s is not reachable from the latest root but still active with count %d", short(h), e.num)
		case occ == 0 && gc && e.num > current:
			return a, "inactive-height", fmt.Sprintf("record %s is marked inactive since height %d, the chain is at %d", short(h), e.num, current)
		}
		if occ == 0 {
			a.Inactive++
		}
	}
	return a, "", ""
}

// WalkRoot reports whether the trie under root is completely present in s.
func WalkRoot(s storage.Store, rc bool, root util.Uint256) (int, string) {
	recs, _ := dumpMPT(s)
	w, werr := walk(recs, rc, root)
	if werr != nil {
		return 0, werr.kind + ": " + werr.msg
	}
	return len(w.leaves), ""
}

var _ = bytes.Equal
var _ = sort.Strings
