{
    "C10": {
        "engine": "mptsim",
        "level": "exploration",
        "level_text": ("seeded search over operation sequences against the real mpt.Trie / mpt.TrieStore / mpt.VerifyProof with a "
                       "Go-map reference model compared answer by answer after every operation, and shrinking to a minimal "
                       "sequence; sampled, not exhaustive"),
        "level_note": ("trusted: the Go map + sorted keys model, the ordered-range semantics written down in mptsim/c10.go "
                       "(modelFind = doc comment of Trie.Find, modelSeek = storage.SeekRange), the hand-written node decoder "
                       "of mptsim/walk.go. The canonical-root oracle uses the code under test itself (fresh ModeAll trie built "
                       "by single sorted Puts) - that is what 'same root as a fresh trie' means. Not demanded: Find with "
                       "maxNum <= 0 (returns the first pair); an error result from TrieStore.Seek on a store with a deleted "
                       "node record (Seek has no error result: its panic carrying the storage error, and a silently short "
                       "listing when the start node cannot be resolved, are counted as probes; a delivered pair that is not the "
                       "model's is a violation); atomicity of a mutation that fails because of a deleted node record. "
                       "Violations raised after a read ran on a trie that may still hold nodes built by PutBatch carry the "
                       "signature suffix '+reads-after-batch' so that one known defect can be listed without hiding the same "
                       "oracles in clean runs (plan option isolate = flush+reload after every batch keeps half of the runs clean)"),
        "design_ref": "DESIGN.md section 2, C10",
        "technique": "deterministic simulation: seeded operation/fault sequences with shrinking and replay (rapid), reference-model oracles",
        "budget": {"quick": 60, "thorough": 1800},
        "chunk": 200,
        "shrink_s": 45,
        "inflight": True,
        "det_runs": 300,
        "rule": ("rapid-drawn sequences (quick <=30, thorough <=70 operations) of Put / Delete / PutBatch(MapToMPTBatch: puts, "
                 "overwrites, deletes of present and absent keys) / Flush(index) / Collapse(0-4) / reload (new Trie from "
                 "HashNode(root), same cache layer or after Persist on a new layer) / Find(prefix, from, max) / "
                 "TrieStore.Seek(prefix, start, forwards|backwards, early stop) / GetProof+VerifyProof with 0-6 tape-chosen "
                 "tamperings / must-fail operations, over a universe of 2-24 keys built from nibble patterns (1-2 byte keys "
                 "from a small alphabet, prefixes and extensions of other keys, 20-byte shared prefixes, keys of "
                 "mpt.MaxKeyLength and MaxKeyLength-1 sharing 66 bytes, keys differing in the low nibble) and 2-5 values "
                 "(empty, 1-300 bytes, rarely mpt.MaxValueLength; equal values under different keys), in ModeAll, ModeLatest "
                 "and ModeGC; optional fault: one reachable node record deleted from the store, followed by reads only and "
                 "one last mutation. A run is non-trivial when a probe or fault fired; distinct = distinct hash of the "
                 "operation/result log"),
        "probes": ["put_new", "put_overwrite", "put_same_value", "delete_present", "delete_absent", "batch", "batch_with_deletes",
                   "batch_delete_absent", "batch_overwrite", "failed_operation", "find_ok", "find_not_found",
                   "find_from_nonempty_result", "find_on_unflushed_trie", "seek_forward", "seek_backward",
                   "seek_start_nonempty_result", "proof_present_ok", "proof_absent_rejected",
                   "proof_under_earlier_root_available", "tampered_rejected", "tampered_still_verifies_same_value",
                   "prefix_keys_present", "shared_value_nodes", "max_length_key_present", "empty_value_present",
                   "missing_node_read_error", "missing_node_masked", "missing_node_find_error",
                   "missing_node_seek_panics_with_error", "missing_node_seek_silently_short", "missing_node_mutation_ok",
                   "missing_node_mutation_error", "flush", "collapse", "reload", "missing_node", "tampered_proofs"],
        "components": {"real": ["pkg/core/mpt: Trie (Put, Delete, PutBatch, Get, Find, GetProof, Flush, Collapse, StateRoot), "
                                "MapToMPTBatch, TrieStore.Seek, VerifyProof, Billet.traverse (through Find/Seek), node codecs",
                                "pkg/core/storage: MemCachedStore over MemoryStore (Put/Get/Delete/Seek/PersistSync)"],
                       "stub": []},
        "assumptions": ["Collapse and reload are preceded by Flush (documented precondition of Collapse)",
                        "TrieStore.Seek is evaluated on the flushed store only (it reads nothing else by construction)",
                        "Find on a trie holding unflushed nodes only in runs with plan option dirty_find (1 in 4); otherwise a Flush precedes it",
                        "PutBatch is fed valid items only (non-empty keys <= MaxKeyLength, values <= MaxValueLength): it has no argument checks and its input comes from the DAO",
                        "the missing-node fault deletes a record of the current trie only, once, as the last phase of a run",
                        "single caller: no concurrent use of one Trie"],
    },
    "C11": {
        "engine": "mptsim",
        "level": "exploration",
        "level_text": ("seeded search over per-block batch sequences driving the real stateroot.Module / mpt.Trie life cycle of "
                       "storeBlock (AddMPTBatch, Collapse, commit or drop, persist, GC, clean and crash restart) with an "
                       "independent reachability count over the raw DataMPT records after every block; sampled, not exhaustive"),
        "level_note": ("trusted: the hand-written record/node decoder and tree walk of mptsim/walk.go (does not use package mpt), "
                       "the per-height Go-map model, the harness reproduction of storeBlock's call sequence (AddMPTBatch on a "
                       "private layer -> Collapse iff persistedHeight == index-1 -> PersistPrivate -> UpdateCurrentLocal) and of "
                       "bc.persist / tryRunGC (GC target <= persisted height, run on the bottom store). The bottom store is a "
                       "MemoryStore whose Get returns a copy (disk semantics), so a crash restart sees durable data only. "
                       "Dropped blocks (computed, never committed) are a plan option (1 run in 8): storeBlock documents that "
                       "the in-memory trie may then be half-applied, so an oracle failure after a drop is recorded as probe "
                       "dropped_block_divergence[/class] and ends the run, never as a violation (DESIGN.md C11). Runs in which a "
                       "persist ran inside the AddMPTBatch..PersistPrivate window (plan option, 1 run in 4) carry the signature "
                       "suffix '+persist-inside-block'. Not demanded: an error result from SeekStates on an unretained root (no "
                       "error channel; silently short listing / panic carrying the storage error are probes, a delivered pair "
                       "that the model of that height does not hold is a violation)"),
        "design_ref": "DESIGN.md section 2, C11 (mptsim part)",
        "technique": "deterministic simulation: seeded batch/fault sequences with shrinking and replay (rapid), independent reachability-count oracle",
        "budget": {"quick": 60, "thorough": 1800},
        "chunk": 200,
        "shrink_s": 45,
        "inflight": True,
        "det_runs": 300,
        "rule": ("rapid-drawn sequences of 1-12 (thorough 1-36) blocks, each a batch of 0-5 puts/deletes over 2-20 keys in four "
                 "prefix groups (one group prefix extends another) and 1-4 values (so that equal values and equal sub-tries "
                 "occur under different keys), optional whole-prefix wipe, then per block: persist or not (decides the next "
                 "block's Collapse), GC(persisted-0..5) in GC modes, clean restart (persist + new Module + Init) or crash "
                 "restart (unpersisted layer lost, model rolled back), 0-3 reads through GetState / GetStateProof / FindStates "
                 "/ SeekStates of a tape-chosen retained or unretained height; configurations KeepOnlyLatestState, "
                 "RemoveUntraceableBlocks, both; Collapse depth 10 (as storeBlock) or 0-2. After every committed block, GC and "
                 "restart: every DataMPT record decodes (harness decoder and mpt.NodeObject) and hashes to its key; walk of "
                 "the latest root: all nodes present, active, stored count == tree occurrences, leaves == model; no other "
                 "record in ModeLatest; in ModeGC every other record inactive with height d <= current, d-1 uses it and no "
                 "height in [d, current] does; after GC(G) no inactive record with height <= G in the bottom store and every "
                 "root of [max GC target, current] walkable with the model's contents (every block in 1 run of 4, else at "
                 "GC/restart/end). A run is non-trivial when a probe or fault fired; distinct = distinct hash of the event log"),
        "probes": ["block_committed", "empty_block", "batch_with_deletes", "delete_then_recreate", "prefix_wipe",
                   "shared_value_nodes", "inactive_records_present", "gc_removed_nodes", "retained_old_root_walked",
                   "crash_lost_blocks", "unretained_root_read", "unretained_root_read_fails_cleanly",
                   "unretained_root_seek_silently_short", "dropped_block_divergence",
                   "flush", "collapse", "gc", "restart", "crash_restart", "dropped_block", "persist_inside_block"],
        "components": {"real": ["pkg/core/stateroot.Module (NewModule, Init, AddMPTBatch, UpdateCurrentLocal, GC, GetState, "
                                "GetStateProof, FindStates, SeekStates, CurrentLocalStateRoot)",
                                "pkg/core/mpt (Trie.PutBatch/Flush/updateRefCount/Collapse, MapToMPTBatch, Billet traversal, VerifyProof)",
                                "pkg/core/storage: MemCachedStore layers (private, PersistPrivate, PersistSync), MemoryStore.SeekGC"],
                       "stub": ["blockchain.go storeBlock / persist / tryRunGC: reproduced by the harness as a call sequence "
                                "(the chain-level part of C11 runs the real ones in the ledger engine)",
                                "bottom store: MemoryStore wrapped so that Get returns a copy (disk backends do)"]},
        "assumptions": ["block 0 puts one key that is never deleted: on a real chain the state trie is never empty after genesis "
                        "(with an empty trie Init builds HashNode(zero hash) and the next non-empty block fails in AddMPTBatch)",
                        "GC targets never exceed the persisted height (tryRunGC: persisted - MaxTraceableBlocks, rounded down)",
                        "persist and GC are atomic batches on the bottom store; torn batches are not injected",
                        "Collapse depths 0-2 are used besides storeBlock's 10 to reach the collapse boundary with small tries",
                        "the persist-inside-block schedule is sequentialised by the harness: the flush happens entirely between "
                        "AddMPTBatch and PersistPrivate (the node runs persist on another goroutine without excluding storeBlock)",
                        "single writer: concurrent readers are not explored here"],
    },
}
